package lib

// C17 (registration ingest) — a registration message carries the client's address twice: the
// registrant address the registrar forwards, and (for DTLS) the client's public endpoints inside the
// transport parameters. Whatever is wrong with a message - malformed addresses, unknown generation,
// unknown transport, parameters of the wrong type, incomplete secret, unsupported family - the
// station's complaint about it must not contain those addresses.

import (
	"time"
	"sync"
	"context"
	"encoding/hex"
	"fmt"
	golog "log"
	"net"
	"strings"
	"testing"

	"github.com/refraction-networking/conjure/pkg/station/log"
	"github.com/refraction-networking/conjure/pkg/transports"
	"github.com/refraction-networking/conjure/pkg/transports/connecting/dtls"
	pb "github.com/refraction-networking/conjure/proto"
	"google.golang.org/protobuf/proto"
	"google.golang.org/protobuf/types/known/anypb"
	"pgregory.net/rapid"
	"verif/harness/vh"
)

type c17iAddr struct {
	Kind string `json:"kind"` // none | v4 | v6 | mapped | short | long | empty
	Port uint32 `json:"port"`
}

type c17iCase struct {
	TT        int      `json:"tt"`         // 0 min 1 prefix 2 obfs4 3 dtls 4 unknown transport
	RegAddr   c17iAddr `json:"reg_addr"`   // registrant address forwarded by the registrar
	Src4      c17iAddr `json:"src4"`       // DTLS parameters: client's public IPv4 endpoint
	Src6      c17iAddr `json:"src6"`       // DTLS parameters: client's public IPv6 endpoint
	ParamsFor int      `json:"params_for"` // transport whose parameter message is attached (mismatch = wrong type); -1 none
	Gen       uint32   `json:"gen"`
	LibVer    uint32   `json:"libver"`
	V4, V6    bool
	SecretLen int  `json:"secret_len"`
	Source    int  `json:"source"`
	Dup       bool `json:"dup"` // the message is delivered twice
	Unidir    bool `json:"unidir"`
	Tunnel    int  `json:"tunnel"` // what the station's dial to a DTLS client does: 0 times out, 1 yields a session that is relayed to a reachable covert, 2 yields a session whose covert refuses
	// what the registrar attached to the message: its response to the client with the overrides it assigned
	RR          bool   `json:"rr,omitempty"`
	RRv4        string `json:"rr_v4,omitempty"`         // ipv4addr override: "" absent | zero | v4
	RRv6        string `json:"rr_v6,omitempty"`         // ipv6addr override: "" absent | v6 | v4 (4 bytes) | mapped | short | long | empty
	RRPort      int    `json:"rr_port,omitempty"`       // dst_port override: 0 absent, else the value (-1 stands for an explicit 0)
	RRParamsFor int    `json:"rr_params_for,omitempty"` // transport parameter override: 0 absent, else 1 + transport whose parameter message it is (DTLS: with the client's endpoints)
	NoOverrides bool   `json:"no_overrides,omitempty"`  // the client asked for registrar overrides not to be applied
	RRErr       bool   `json:"rr_err,omitempty"`
	Decoy       string `json:"decoy,omitempty"` // decoy_address: "" absent | v4 | v6 | short
}

// distinctive client addresses: nothing else in the harness uses these bytes
var (
	c17iV4 = net.IPv4(203, 0, 113, 77).To4()
	c17iV6 = net.ParseIP("2001:db8:ffff::c1e7:77")
	c17iS4 = net.IPv4(198, 18, 77, 9).To4()
	c17iS6 = net.ParseIP("2001:db8:eeee::c1e7:99")
)

// phantom addresses a registrar may assign (not client addresses), and generations whose phantoms
// exist in one family only
var (
	c17iP4 = net.IPv4(192, 122, 190, 17).To4()
	c17iP6 = net.ParseIP("2001:48a8:687f:1::77")
)

const c17iSubnets = vDefaultSubnets + `
    [Networks.958]
        Generation = 958
        [[Networks.958.WeightedSubnets]]
            Weight = 9
            RandomizeDstPort = true
            Subnets = ["192.122.190.0/24"]
    [Networks.959]
        Generation = 959
        [[Networks.959.WeightedSubnets]]
            Weight = 9
            RandomizeDstPort = true
            Subnets = ["2001:48a8:687f:1::/64"]
`

// c17iFamClasses: the relations between the registrant's family, the families the client asked for
// and the family of the phantom the registration ends up with (from the inputs alone).
func c17iFamClasses(c c17iCase) []string {
	var cl []string
	wellFormed := c.TT < 4 && c.SecretLen == 32 && (c.ParamsFor == c.TT || c.TT == 0 || c.TT == 2) && (c.Gen == 957 || c.Gen == 958 || c.Gen == 959)
	if c.TT == 3 && c.ParamsFor == 3 && (c.Src4.Kind != "v4" && c.Src4.Kind != "none" || c.Src6.Kind != "v6" && c.Src6.Kind != "none" || c.Src4.Kind == "none" && c.Src6.Kind == "none") {
		wellFormed = false
	}
	if c.RR && c.RRParamsFor != 0 && !c.NoOverrides {
		wellFormed = false
	}
	if !wellFormed {
		return nil
	}
	v4ov := c.RR && (c.RRv6 == "v4" || c.RRv6 == "mapped")
	switch c.RegAddr.Kind {
	case "v6":
		if c.V6 && v4ov {
			cl = append(cl, "fam:v6-registrant+v4-phantom:by-override")
		}
		if c.V6 && c.Gen == 958 && (!c.RR || c.RRv6 == "" || v4ov) {
			cl = append(cl, "fam:v6-registrant+v4-phantom:by-generation")
		}
		if c.V6 && c.Gen != 958 && (!c.RR || c.RRv6 == "" || c.RRv6 == "v6") {
			cl = append(cl, "fam:v6-registrant+v6-phantom")
		}
		if c.V4 && !c.V6 {
			cl = append(cl, "fam:v6-registrant+v4-only-client")
		}
	case "v4", "mapped":
		if c.V6 && v4ov {
			cl = append(cl, "fam:v4-registrant+v6-registration-with-v4-phantom")
		}
		if c.V4 && c.Gen == 959 {
			cl = append(cl, "fam:v4-registrant+generation-without-v4")
		}
		if c.V4 && c.RR && c.RRv4 == "v4" {
			cl = append(cl, "fam:v4-registrant+v4-override")
		}
	case "none":
		if c.V6 || c.V4 {
			cl = append(cl, "fam:no-registrant-address")
		}
	}
	return cl
}

func c17iBytes(a c17iAddr, v4 net.IP, v6 net.IP) []byte {
	switch a.Kind {
	case "v4":
		return []byte(v4)
	case "v6":
		return []byte(v6)
	case "mapped":
		return []byte(v4.To16())
	case "short":
		return []byte(v4[:3])
	case "long":
		return append([]byte(v6), 0x77)
	case "empty":
		return []byte{}
	}
	return nil
}

// c17iNeedles: every textual form in which the address bytes could show up.
func c17iNeedles(b []byte) []string {
	if len(b) < 3 {
		return nil
	}
	n := []string{hex.EncodeToString(b), strings.ToUpper(hex.EncodeToString(b))}
	ip := net.IP(b)
	switch len(b) {
	case 4, 16:
		n = append(n, ip.String())
		if v4 := ip.To4(); v4 != nil {
			n = append(n, v4.String())
		}
	case 3:
		n = append(n, fmt.Sprintf("%d.%d.%d", b[0], b[1], b[2]), fmt.Sprintf("%d %d %d", b[0], b[1], b[2]))
	case 17:
		n = append(n, net.IP(b[:16]).String())
	}
	// Go prints []byte with %v as decimal numbers
	var dec []string
	for _, x := range b {
		dec = append(dec, fmt.Sprint(x))
	}
	n = append(n, strings.Join(dec, " "))
	return n
}

type c17iDTLS struct {
	dtls.Transport
	st *c17iDial
}

type c17iDial struct {
	mu     sync.Mutex
	tunnel int
}

// Connect: the station would dial out to the client here. The harness either refuses without
// touching the network or hands back the station's end of an established session (a pipe: the
// session itself carries no address) on which the client says a few bytes and hangs up.
func (d c17iDTLS) Connect(ctx context.Context, reg transports.Registration) (net.Conn, error) {
	d.st.mu.Lock()
	mode := d.st.tunnel
	d.st.mu.Unlock()
	if mode == 0 {
		return nil, context.DeadlineExceeded
	}
	station, client := net.Pipe()
	go func() {
		_, _ = client.Write([]byte("hello from the client"))
		_ = client.SetReadDeadline(time.Now().Add(200 * time.Millisecond))
		_, _ = client.Read(make([]byte, 64))
		_ = client.Close()
	}()
	return station, nil
}

func c17iGenAddr(rt *rapid.T, label string, kinds []string) c17iAddr {
	return c17iAddr{
		Kind: rapid.SampledFrom(kinds).Draw(rt, label+"-kind"),
		Port: rapid.SampledFrom([]uint32{51234, 51234, 51234, 0, 65535, 65536, 70000, 1 << 31}).Draw(rt, label+"-port"),
	}
}

const c17iHow = "registration messages through the real parseRegMessage + ingestRegistration with the real min / prefix / obfs4 / dtls transports: registrant address {absent, IPv4, IPv6, v4-mapped, 3 / 17 / 0 bytes}, DTLS client endpoints {absent, right family, wrong family, v4-mapped, wrong length} x ports {valid, 0, 65536, 70000, 2^31}, parameters of the right / another transport's type / absent, generations {both families, IPv4 phantoms only, IPv6 phantoms only, unknown}, library versions, families, complete / short secret, every registration source, duplicates; the registrar's response attached or not, with phantom overrides (ipv4addr {absent, 0, set}, ipv6addr {absent, IPv6, an IPv4 address in 4 or 16 bytes, 3 / 17 / 0 bytes}), port override, transport-parameter override (DTLS: carrying the client's endpoints) honoured or declined by the client, error text, decoy address; the station's dial to a DTLS client times out / yields a session that is relayed to a reachable covert / to a covert that refuses (so that the tunnel summary with its transport options is written); covert address always permitted (the line logged on purpose for a forbidden covert is outside the property); oracle: nothing logged at the default level contains any textual form (dotted, colon, hex, decimal bytes) of the registrant address or of the DTLS client endpoints; non-trivial = the station logged something for the message (it complained); distinct by case"

func TestVerif_C17_ingest(t *testing.T) {
	rec := vh.NewRec("C17", "ingest", "rapid-generated "+c17iHow)
	defer rec.Flush()
	rec.Require("station-complained", "tt:dtls", "dtls-endpoint-malformed", "regaddr-malformed", "tunnel-summary-logged", "registrar-response", "registrar-override:phantom", "registrar-override:params-with-endpoints")
	if vh.ReplayFile() != "" && !strings.Contains(vh.ReplayFile(), "_ingest_") {
		t.Skip("replay file belongs to another sub-check")
	}
	run := c17iSetup(t, rec)
	if p := vh.ReplayFile(); p != "" {
		var c c17iCase
		if _, _, err := vh.LoadReplay(p, &c); err != nil {
			t.Fatal(err)
		}
		run(t, c)
		return
	}
	rapid.Check(t, func(rt *rapid.T) { run(rt, c17iGen(rt)) })
}

// The family relations on their own, exhaustively: which family the registrant's address has, which
// families the client asked for, which families the generation has phantoms in, and what the
// registrar assigned - every combination, whatever the station makes of it (two registrations, one,
// a rejection).
func TestVerif_C17_ingestfam(t *testing.T) {
	rec := vh.NewRec("C17", "ingestfam", "exhaustive: registrant address {absent, IPv4, IPv6, v4-mapped} x families the client supports {none, 4, 6, both} x generation {phantoms in both families, IPv4 only, IPv6 only, unknown} x registrar response {absent, empty, ipv4addr, ipv6addr = IPv6 / IPv4 in 4 bytes / IPv4 in 16 bytes / 3 bytes, both overrides with an IPv4 address in ipv6addr} x transport {min, dtls with the client's endpoints} x registrar {API, bidirectional API, detector}, otherwise well-formed, through the real parseRegMessage + ingestRegistration as an ingest worker runs them; oracle and non-triviality as in 'ingest'; distinct by case")
	defer rec.Flush()
	rec.Require("station-complained", "registration-built", "complained-about-v6-registrant", "fam:v6-registrant+v4-phantom:by-override", "fam:v6-registrant+v4-phantom:by-generation", "fam:v6-registrant+v6-phantom", "fam:v4-registrant+v6-registration-with-v4-phantom", "fam:v4-registrant+generation-without-v4", "fam:no-registrant-address")
	if vh.ReplayFile() != "" && !strings.Contains(vh.ReplayFile(), "_ingestfam_") {
		t.Skip("replay file belongs to another sub-check")
	}
	run := c17iSetup(t, rec)
	if p := vh.ReplayFile(); p != "" {
		var c c17iCase
		if _, _, err := vh.LoadReplay(p, &c); err != nil {
			t.Fatal(err)
		}
		run(t, c)
		return
	}
	rec.SetExhaustive(true)
	type ov struct {
		rr       bool
		rr4, rr6 string
	}
	i := 0
	for _, ra := range []string{"none", "v4", "v6", "mapped"} {
		for fam := 0; fam < 4; fam++ {
			for _, gen := range []uint32{957, 958, 959, 123456} {
				for _, o := range []ov{{}, {rr: true}, {true, "v4", ""}, {true, "", "v6"}, {true, "", "v4"}, {true, "", "mapped"}, {true, "", "short"}, {true, "v4", "v4"}} {
					for _, tt := range []int{0, 3} {
						for _, src := range []int{0, 2, 1} {
							i++
							if !vh.Mine(i) {
								continue
							}
							c := c17iCase{TT: tt, ParamsFor: tt, RegAddr: c17iAddr{Kind: ra, Port: 51234}, Src4: c17iAddr{Kind: "v4", Port: 51234}, Src6: c17iAddr{Kind: "v6", Port: 51234},
								Gen: gen, LibVer: 4, V4: fam&1 != 0, V6: fam&2 != 0, SecretLen: 32, Source: src, RR: o.rr, RRv4: o.rr4, RRv6: o.rr6}
							run(t, c)
						}
					}
				}
			}
		}
	}
}

func c17iGen(rt *rapid.T) c17iCase {
	c := c17iCase{
		TT:        rapid.SampledFrom([]int{0, 1, 2, 3, 3, 3, 4}).Draw(rt, "tt"),
		RegAddr:   c17iGenAddr(rt, "reg", []string{"none", "v4", "v4", "v6", "v6", "mapped", "short", "long", "empty"}),
		Src4:      c17iGenAddr(rt, "src4", []string{"none", "v4", "v4", "v6", "mapped", "short", "long"}),
		Src6:      c17iGenAddr(rt, "src6", []string{"none", "v6", "v6", "v4", "mapped", "short", "long"}),
		Gen:       rapid.SampledFrom([]uint32{957, 957, 957, 1, 123456, 0, 958, 959}).Draw(rt, "gen"),
		LibVer:    rapid.SampledFrom([]uint32{0, 1, 2, 3, 4, 5, 99}).Draw(rt, "libver"),
		V4:        rapid.Bool().Draw(rt, "v4"),
		V6:        rapid.Bool().Draw(rt, "v6"),
		SecretLen: rapid.SampledFrom([]int{32, 32, 32, 32, 0, 7, 16}).Draw(rt, "secretlen"),
		Source:    rapid.IntRange(0, 6).Draw(rt, "source"),
		Dup:       rapid.IntRange(0, 4).Draw(rt, "dup") == 0,
		Unidir:    rapid.Bool().Draw(rt, "unordered"),
		Tunnel:    rapid.SampledFrom([]int{0, 1, 1, 2}).Draw(rt, "tunnel"),
	}
	c.ParamsFor = c.TT
	switch rapid.IntRange(0, 5).Draw(rt, "paramsmode") {
	case 0:
		c.ParamsFor = -1
	case 1:
		c.ParamsFor = rapid.IntRange(0, 3).Draw(rt, "paramsfor")
	}
	if c.ParamsFor > 3 {
		c.ParamsFor = 0
	}
	if rapid.Bool().Draw(rt, "rr") {
		c.RR = true
		c.RRv4 = rapid.SampledFrom([]string{"", "", "zero", "v4"}).Draw(rt, "rr-v4")
		c.RRv6 = rapid.SampledFrom([]string{"", "v6", "v6", "v4", "mapped", "short", "long", "empty"}).Draw(rt, "rr-v6")
		c.RRPort = rapid.SampledFrom([]int{0, 0, 443, -1, 51234, 70000}).Draw(rt, "rr-port")
		if rapid.IntRange(0, 2).Draw(rt, "rr-params") == 0 {
			c.RRParamsFor = 1 + rapid.SampledFrom([]int{c.TT % 4, 3, 3, 0, 1}).Draw(rt, "rr-paramsfor")
		}
		c.NoOverrides = rapid.IntRange(0, 3).Draw(rt, "no-overrides") == 0
		c.RRErr = rapid.IntRange(0, 5).Draw(rt, "rr-err") == 0
	}
	c.Decoy = rapid.SampledFrom([]string{"", "", "v4", "v6", "short"}).Draw(rt, "decoy")
	return c
}

// c17iSetup builds the station side once (registration manager with the real transports, capture of
// every log writer, a covert) and returns the function that passes one message through it.
func c17iSetup(t *testing.T, rec *vh.Rec) func(t vh.Fataler, c c17iCase) {
	capture := &vSyncBuf{}
	oldLog := golog.Writer()
	golog.SetOutput(capture)
	log.SetOutput(capture)
	log.SetLevel(log.ErrorLevel) // the package default ("normal production"): errors and info lines are written, warnings and debug lines are not
	t.Cleanup(func() { golog.SetOutput(oldLog); log.SetOutput(oldLog) })
	e := vNewEnv(t, nil, c17iSubnets)
	e.rm.Logger = log.New(capture, "[REG] ", golog.Ldate|golog.Lmicroseconds)
	done := make(chan string, 1<<16)
	e.rm.connectingStats = &c17cStats{done: done}
	dial := &c17iDial{}
	if err := e.rm.AddTransport(pb.TransportType_DTLS, c17iDTLS{st: dial}); err != nil {
		t.Fatalf("harness problem: %v", err)
	}
	// a covert that answers and hangs up
	covert, err := net.Listen("tcp", "127.0.0.1:0")
	if err != nil {
		t.Fatalf("harness problem: %v", err)
	}
	t.Cleanup(func() { covert.Close() })
	go func() {
		for {
			c, err := covert.Accept()
			if err != nil {
				return
			}
			go func() {
				_ = c.SetDeadline(time.Now().Add(2 * time.Second))
				_, _ = c.Read(make([]byte, 64))
				_, _ = c.Write([]byte("covert says hi"))
				_ = c.Close()
			}()
		}
	}()
	tts := []pb.TransportType{pb.TransportType_Min, pb.TransportType_Prefix, pb.TransportType_Obfs4, pb.TransportType_DTLS, pb.TransportType(99)}
	names := []string{"min", "prefix", "obfs4", "dtls", "unknown"}
	sources := []pb.RegistrationSource{pb.RegistrationSource_API, pb.RegistrationSource_Detector, pb.RegistrationSource_BidirectionalAPI, pb.RegistrationSource_DNS, pb.RegistrationSource_BidirectionalDNS, pb.RegistrationSource_DetectorPrescan, pb.RegistrationSource_Unspecified}
	n := 0
	run := func(t vh.Fataler, c c17iCase) {
		n++
		e.resetRegistry()
		for len(done) > 0 {
			<-done
		}
		secret := vSecret(7000 + n%50)
		if c.SecretLen < 32 {
			secret = secret[:c.SecretLen]
		}
		regAddr := c17iBytes(c.RegAddr, c17iV4, c17iV6)
		src4 := c17iBytes(c.Src4, c17iS4, c17iS6)
		src6 := c17iBytes(c.Src6, c17iS4, c17iS6)
		mkParams := func(tt int) proto.Message {
			switch tt {
			case 0, 2:
				return &pb.GenericTransportParams{RandomizeDstPort: proto.Bool(true)}
			case 1:
				return &pb.PrefixTransportParams{PrefixId: proto.Int32(0), RandomizeDstPort: proto.Bool(false)}
			case 3:
				p := &pb.DTLSTransportParams{RandomizeDstPort: proto.Bool(true), Unordered: proto.Bool(c.Unidir)}
				if src4 != nil {
					p.SrcAddr4 = &pb.Addr{IP: src4, Port: proto.Uint32(c.Src4.Port)}
				}
				if src6 != nil {
					p.SrcAddr6 = &pb.Addr{IP: src6, Port: proto.Uint32(c.Src6.Port)}
				}
				return p
			}
			return nil
		}
		params := mkParams(c.ParamsFor)
		covertAddr := "198.51.100.10:443"
		switch c.Tunnel {
		case 1:
			covertAddr = covert.Addr().String()
		case 2:
			covertAddr = "127.0.0.1:1"
		}
		dial.mu.Lock()
		dial.tunnel = c.Tunnel
		dial.mu.Unlock()
		c2s := &pb.ClientToStation{
			ClientLibVersion:    proto.Uint32(c.LibVer),
			DecoyListGeneration: proto.Uint32(c.Gen),
			CovertAddress:       proto.String(covertAddr),
			V4Support:           proto.Bool(c.V4),
			V6Support:           proto.Bool(c.V6),
			Transport:           tts[c.TT].Enum(),
			Flags:               &pb.RegistrationFlags{},
		}
		if c.NoOverrides {
			c2s.DisableRegistrarOverrides = proto.Bool(true)
		}
		if params != nil {
			a, err := anypb.New(params)
			if err != nil {
				t.Fatalf("harness problem: %v", err)
			}
			c2s.TransportParams = a
		}
		w := &pb.C2SWrapper{SharedSecret: secret, RegistrationPayload: c2s, RegistrationSource: sources[c.Source].Enum()}
		if regAddr != nil {
			w.RegistrationAddress = regAddr
		}
		switch c.Decoy {
		case "v4":
			w.DecoyAddress = []byte(net.IPv4(198, 51, 100, 99).To4())
		case "v6":
			w.DecoyAddress = []byte(net.ParseIP("2001:db8:dec0::1"))
		case "short":
			w.DecoyAddress = []byte{198, 51, 100}
		}
		if c.RR {
			rr := &pb.RegistrationResponse{}
			switch c.RRv4 {
			case "zero":
				rr.Ipv4Addr = proto.Uint32(0)
			case "v4":
				rr.Ipv4Addr = proto.Uint32(uint32(c17iP4[0])<<24 | uint32(c17iP4[1])<<16 | uint32(c17iP4[2])<<8 | uint32(c17iP4[3]))
			}
			if c.RRv6 != "" {
				rr.Ipv6Addr = c17iBytes(c17iAddr{Kind: c.RRv6}, c17iP4, c17iP6)
			}
			switch {
			case c.RRPort == -1:
				rr.DstPort = proto.Uint32(0)
			case c.RRPort != 0:
				rr.DstPort = proto.Uint32(uint32(c.RRPort))
			}
			if c.RRParamsFor != 0 {
				a, err := anypb.New(mkParams(c.RRParamsFor - 1))
				if err != nil {
					t.Fatalf("harness problem: %v", err)
				}
				rr.TransportParams = a
			}
			if c.RRErr {
				rr.Error = proto.String("registrar: could not reach every station")
			}
			w.RegistrationResponse = rr
		}
		b, err := proto.Marshal(w)
		if err != nil {
			t.Fatalf("harness problem: %v", err)
		}
		start := len(capture.String())
		times := 1
		if c.Dup {
			times = 2
		}
		admitted, dials := 0, 0
		for i := 0; i < times; i++ {
			// what a worker does with a message (HandleRegUpdates' loop body)
			regs, err := e.rm.parseRegMessage(b)
			if err != nil {
				e.rm.Logger.Errorf("Encountered err when creating Reg: %v\n", err)
				continue
			}
			for _, reg := range regs {
				if reg != nil {
					was := e.rm.RegistrationExists(reg)
					e.rm.ingestRegistration(reg)
					admitted++
					if !was && reg.Valid && reg.Transport == pb.TransportType_DTLS {
						dials++ // a newly validated connecting-transport registration: the station dials out
					}
				}
			}
		}
		// let the station's dial(s) and the tunnels they carry finish: what they log belongs to this case
		for ; dials > 0; dials-- {
			deadline := time.After(20 * time.Second)
		wait:
			for {
				select {
				case <-done:
					break wait
				case <-deadline:
					rec.Note("a dial did not report its outcome within 20 s (case %s)", vh.Digest(c))
					break wait
				case <-time.After(2 * time.Millisecond):
					if l := capture.String()[start:]; strings.Contains(l, "Failed to get CC") || strings.Contains(l, "Failed to get ASN") {
						break wait
					}
				}
			}
		}
		logs := capture.String()[start:]
		classes := []string{"tt:" + names[c.TT]}
		if strings.Contains(logs, "proxy closed") {
			classes = append(classes, "tunnel-summary-logged")
		}
		if logs != "" {
			classes = append(classes, "station-complained")
		}
		if admitted > 0 {
			classes = append(classes, "registration-built")
		}
		if c.ParamsFor == 3 && (c.Src4.Kind != "none" && (c.Src4.Kind != "v4" || c.Src4.Port == 0 || c.Src4.Port > 65535) || c.Src6.Kind != "none" && (c.Src6.Kind != "v6" || c.Src6.Port == 0 || c.Src6.Port > 65535)) {
			classes = append(classes, "dtls-endpoint-malformed")
		}
		if k := c.RegAddr.Kind; k == "short" || k == "long" || k == "empty" {
			classes = append(classes, "regaddr-malformed")
		}
		if c.RR {
			classes = append(classes, "registrar-response")
			if c.RRv4 == "v4" || c.RRv6 != "" {
				classes = append(classes, "registrar-override:phantom")
			}
			if c.RRParamsFor == 4 && !c.NoOverrides && (c.Src4.Kind != "none" || c.Src6.Kind != "none") {
				classes = append(classes, "registrar-override:params-with-endpoints")
			}
		}
		classes = append(classes, c17iFamClasses(c)...)
		if logs != "" && c.RegAddr.Kind == "v6" {
			classes = append(classes, "complained-about-v6-registrant")
		}
		rec.Case(logs != "", vh.Digest(c), c, classes...)
		for what, bs := range map[string][]byte{"registrant address": regAddr, "DTLS IPv4 endpoint": src4, "DTLS IPv6 endpoint": src6} {
			if what != "registrant address" && c.ParamsFor != 3 && !(c.RR && c.RRParamsFor == 4) {
				continue
			}
			for _, needle := range c17iNeedles(bs) {
				if i := strings.Index(logs, needle); i >= 0 {
					lo := strings.LastIndex(logs[:i], "\n") + 1
					line := logs[lo:]
					if hi := strings.Index(line, "\n"); hi >= 0 {
						line = line[:hi]
					}
					site := "registrant"
					if what != "registrant address" {
						site = "transport-params"
					}
					rec.Violation(t, "leak:ingest:"+site, c, "the client's %s (%q) appears in the station's log at the default level: %q", what, needle, strings.TrimSpace(line))
					return
				}
			}
		}
	}
	return run
}
