package lib

// C01, real ingest path — the secrets the station *tracks* are the ones the client derives.
//
// The derive sub-check builds one registration per call of NewRegistrationC2SWrapper on fresh
// state. The station's ingest pipeline instead unmarshals ONE registration message, builds one
// registration per address family the client supports (dual-stack clients: IPv4 then IPv6) and
// tracks them in that order; transport secrets that are drawn lazily from the registration's HKDF
// stream (obfs4 node keys) are only fixed at tracking time. This sub-check therefore
//
//	marshals the generated C2SWrapper (single- and dual-stack, every transport and parameter mode),
//	runs rm.parseRegMessage(bytes), then for every returned registration in order runs the real
//	ingestRegistration (scripted liveness tester; dtls: TrackRegistration, its Connect needs sockets),
//	reads phantom, port, seed and the identifier *under which the registration is tracked* out of
//	the registry, and judges every family with the same oracle as derive (client entry points and
//	the independent reference, evaluated per family).
//
// Not asserted: dual-stack messages for which one family cannot be selected (the message is
// refused as a whole, and a gotapdance client registering "both" gives up as well) and
// registrations the ingest pipeline refuses to track for reasons outside C01 (short secret).

import (
	"bytes"
	"fmt"
	"strings"
	"testing"

	pb "github.com/refraction-networking/conjure/proto"
	"google.golang.org/protobuf/proto"
	"pgregory.net/rapid"
	"verif/harness/c01ref"
	"verif/harness/vh"
)

type c01IngestCase struct {
	Base     c01Case `json:"base"`     // Base.V6 is ignored: the families come from Families
	Families string  `json:"families"` // both | v4 | v6
}

func (e *c01Env) resetRegistry() {
	old := e.e.rm.registeredDecoys
	nr := NewRegisteredDecoys()
	for k, v := range old.transports {
		nr.transports[k] = v
	}
	nr.registerForDetector = old.registerForDetector
	nr.updateInDetector = old.updateInDetector
	e.e.rm.registeredDecoys = nr
	e.e.mu.Lock()
	e.e.anns = nil
	e.e.mu.Unlock()
}

// trackedKey returns the identifier under which reg is tracked on its phantom ("" if it is not).
func (e *c01Env) trackedKey(reg *DecoyRegistration) (string, bool) {
	r := e.e.rm.registeredDecoys
	r.m.RLock()
	defer r.m.RUnlock()
	for id, d := range r.decoys[reg.PhantomIp.String()] {
		if d == reg {
			return id, true
		}
	}
	return "", false
}

func c01IngestCheck(t vh.Fataler, rec *vh.Rec, env *c01Env, ic *c01IngestCase) {
	var fams []bool // v6?
	switch ic.Families {
	case "both":
		fams = []bool{false, true}
	case "v4":
		fams = []bool{false}
	default:
		fams = []bool{true}
	}
	// client + reference (and the direct station path) per family
	outs := make([]c01Out, len(fams))
	cases := make([]c01Case, len(fams))
	for i, v6 := range fams {
		cases[i] = ic.Base
		cases[i].V6 = v6
		o, herr := c01Eval(env, &cases[i])
		if herr != nil {
			t.Fatalf("harness problem: %v (case %s)", herr, c01JSON(ic))
		}
		outs[i] = o
	}
	stack := "single:" + map[bool]string{false: "v4", true: "v6"}[fams[0]]
	if len(fams) == 2 {
		stack = "dual-stack"
	}
	classes := []string{stack, stack + ":" + ic.Base.Transport}
	if outs[0].Skip == "excluded:unknown-prefix-id" {
		rec.Case(false, vh.Digest(ic), ic, append(classes, outs[0].Skip)...)
		return
	}

	// the message as the registrar forwards it
	_, params, err := c01Client(&ic.Base)
	if err != nil {
		t.Fatalf("harness problem: client transport set-up failed: %v", err)
	}
	w := c01BuildWrapper(&ic.Base, params, ic.Families != "v6", ic.Families != "v4")
	msg, err := proto.Marshal(w)
	if err != nil {
		t.Fatalf("harness problem: marshal: %v", err)
	}
	env.resetRegistry()
	type got struct {
		side    c01Side
		tracked bool
	}
	res := make([]got, len(fams))
	for i := range res {
		res[i].side.Port = -1
	}
	var top c01Side
	func() {
		defer c01Recover(&top)
		regs, err := env.e.rm.parseRegMessage(msg)
		if err != nil {
			for i := range res {
				res[i].side.Err = err.Error()
			}
			return
		}
		if len(regs) != len(fams) {
			top.Err = fmt.Sprintf("parseRegMessage returned %d registrations for a message announcing %d address families", len(regs), len(fams))
			return
		}
		tr := env.e.rm.registeredDecoys.transports[c01TT[ic.Base.Transport]]
		for i, reg := range regs {
			if ic.Base.Transport == c01ref.DTLS {
				if err := env.e.rm.TrackRegistration(reg); err != nil {
					res[i].side.Err = "TrackRegistration: " + err.Error()
					continue
				}
			} else {
				env.e.rm.ingestRegistration(reg)
			}
			key, ok := env.trackedKey(reg)
			if !ok {
				res[i].side.Err = "not tracked after ingest"
				continue
			}
			res[i].tracked = true
			res[i].side.OK = true
			res[i].side.Seed = append([]byte(nil), reg.Keys.ConjureSeed...)
			res[i].side.IP = append([]byte(nil), reg.PhantomIp...)
			res[i].side.Port = int(reg.PhantomPort)
			res[i].side.Ident = []byte(key)
			if again := tr.GetIdentifier(reg); again != key {
				res[i].side.Panic = fmt.Sprintf("identifier of the tracked registration changed after tracking: tracked under %x, now %x", key, again)
			}
		}
	}()
	if top.Panic != "" {
		rec.Case(false, vh.Digest(ic), ic, classes...)
		rec.Violation(t, "ingest:panic", ic, "ingest path panicked: %s", top.Panic)
		return
	}
	if top.Err != "" {
		rec.Case(false, vh.Digest(ic), ic, classes...)
		rec.Violation(t, "ingest:family-count", ic, "%s", top.Err)
		return
	}

	// a dual-stack message is accepted or refused as a whole
	if len(fams) == 2 {
		all := true
		for i := range fams {
			if cases[i].applicable() == nil {
				continue // unknown generation: judged below (must be refused)
			}
			if cases[i].LibVer >= 2 && !outs[i].Ref.OK || cases[i].LibVer < 2 && !outs[i].Client.OK {
				all = false
			}
		}
		if !all {
			rec.Case(false, vh.Digest(ic), ic, append(classes, "excluded:dual-stack-one-family-unselectable")...)
			return
		}
	}
	nontriv := false
	var viols []c01Viol
	for i := range fams {
		if !res[i].tracked && res[i].side.Err == "not tracked after ingest" {
			classes = append(classes, "excluded:ingest-refused-to-track")
			continue
		}
		o := outs[i]
		o.Station = res[i].side
		o.Again = ""
		if res[i].side.Panic != "" {
			viols = append(viols, c01Viol{"ingest:identifier-unstable:" + ic.Base.Transport, res[i].side.Panic})
			continue
		}
		cl, nt, vs := c01Judge(env, &cases[i], &o)
		classes = append(classes, cl...)
		nontriv = nontriv || nt
		pos := "tracked-first"
		if i == 1 {
			pos = "tracked-second"
		}
		if o.Station.OK {
			classes = append(classes, pos+":"+ic.Base.Transport)
		}
		for _, v := range vs {
			key := "ingest:" + pos + ":" + v.Key
			if strings.HasPrefix(v.Key, "emptygroup:") {
				key = v.Key // same root cause whichever path builds the registration
			}
			viols = append(viols, c01Viol{key, fmt.Sprintf("[%s, %s registration of a %s message through parseRegMessage + ingest] %s", pos, map[bool]string{false: "IPv4", true: "IPv6"}[fams[i]], stack, v.Msg)})
		}
	}
	// both families of one client share the secret: tag-type identifiers and obfs4 keys are the same
	if len(fams) == 2 && res[0].tracked && res[1].tracked && !bytes.Equal(res[0].side.Ident, res[1].side.Ident) && len(viols) == 0 {
		viols = append(viols, c01Viol{"ingest:families-differ:" + ic.Base.Transport, fmt.Sprintf("the IPv4 registration is tracked under %x, the IPv6 registration of the same message under %x", []byte(res[0].side.Ident), []byte(res[1].side.Ident))})
	}
	rec.Case(nontriv, vh.Digest(ic), ic, classes...)
	for _, v := range viols {
		rec.Violation(t, v.Key, ic, "%s", v.Msg)
	}
}

const c01IngestRule = "rapid-generated registration messages (the derive generator; address families {both, v4, v6}; obfs4 over-represented) marshalled and pushed through the real ingest path: parseRegMessage, then ingestRegistration (dtls: TrackRegistration) for every returned registration in order; phantom, port, seed and the identifier under which each registration is tracked are judged per family against the client entry points and the independent reference. Non-trivial: at least one family tracked with a successful selection on a non-shipped configuration. Distinct = distinct case."

func TestVerif_C01_ingest(t *testing.T) {
	rec := vh.NewRec("C01", "ingest", c01IngestRule)
	defer rec.Flush()
	env := c01NewEnv(t)
	if p := vh.ReplayFile(); p != "" {
		var c c01IngestCase
		if _, _, err := vh.LoadReplay(p, &c); err != nil {
			t.Fatal(err)
		}
		c01IngestCheck(t, rec, env, &c)
		return
	}
	rec.Require("dual-stack:obfs4", "dual-stack:min", "dual-stack:prefix", "dual-stack:dtls", "single:v4", "single:v6",
		"tracked-second:obfs4", "tracked-second:min", "tracked-second:prefix", "tracked-second:dtls", "tracked-first:obfs4",
		"libver0", "libver1", "libver2", "libver3", "libver4", "port:random-granted", "unknown-generation")
	rapid.Check(t, func(rt *rapid.T) {
		ic := c01IngestCase{Base: c01GenCase(rt)}
		ic.Families = rapid.SampledFrom([]string{"both", "both", "v4", "v6"}).Draw(rt, "families")
		if rapid.IntRange(0, 2).Draw(rt, "moreobfs4") == 0 {
			ic.Base.Transport = c01ref.Obfs4
			ic.Base.PrefixID, ic.Base.Flush = 0, 0
		}
		ic.Base.V6 = false
		c01IngestCheck(rt, rec, env, &ic)
	})
}

var _ = pb.TransportType_Obfs4
