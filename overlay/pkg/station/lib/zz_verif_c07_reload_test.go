package lib

// C07, reload — "names a known ClientConf generation" across configuration reloads.
//
// One long-lived RegistrationManager. A history is a sequence of reloads through the production
// path (what main() does on SIGHUP: ParseConfig() from CJ_STATION_CONFIG, then OnReload(), which
// re-reads the phantom subnet file named by PHANTOM_SUBNET_LOCATION), each followed by registration
// messages for generations that were retired, added, kept, and one that never existed. The subnet
// file is REWRITTEN in place between reloads. Reload kinds: a valid file listing a drawn set of
// generations; a file that does not parse; a missing file; a valid file together with a station
// configuration that does not parse (so OnReload is never reached).
//
// Oracle: the known generations are exactly those of the file that was loaded successfully LAST (a
// failed reload keeps the previous set); every message is judged by the complete C07 oracle
// (c07Eval) with that set, the expected phantom coming from the harness's own parse of that file.

import (
	"fmt"
	"os"
	"path/filepath"
	"sort"
	"strings"
	"testing"

	"github.com/refraction-networking/conjure/pkg/phantoms"
	"pgregory.net/rapid"
	"verif/harness/vh"
)

var c07GenPool = []int64{1, 957, 958, 1164, 2}

type c07ReloadOp struct {
	Kind string  `json:"kind"` // ok | bad-subnets | missing-subnets | bad-station-config
	Gens []int64 `json:"gens,omitempty"`
}

type c07ReloadCase struct {
	Ops       []c07ReloadOp `json:"ops"` // the first one is always "ok"
	Transport int           `json:"transport"`
	SecretN   int           `json:"secret_n"`
	Source    int           `json:"source"`
}

func c07SubnetFile(gens []int64) string {
	var sb strings.Builder
	sb.WriteString("[Networks]\n")
	for _, g := range gens {
		fmt.Fprintf(&sb, "    [Networks.%d]\n        Generation = %d\n", g, g)
		fmt.Fprintf(&sb, "        [[Networks.%d.WeightedSubnets]]\n            Weight = 9\n            RandomizeDstPort = true\n            Subnets = [\"192.122.190.0/24\", \"2001:48a8:687f:1::/64\"]\n", g)
		fmt.Fprintf(&sb, "        [[Networks.%d.WeightedSubnets]]\n            Weight = 3\n            Subnets = [\"141.219.0.0/16\", \"35.8.0.0/16\", \"2001:48a8:687f:2::/64\"]\n", g)
	}
	return sb.String()
}

type c07ReloadWorld struct {
	e          *c07Env
	subnetPath string
	confPath   string
}

// reload does what main() does on SIGHUP. It returns whether a new subnet file came into force.
func (w *c07ReloadWorld) reload(op c07ReloadOp) (bool, error) {
	stationConf := "enable_v4 = true\nenable_v6 = true\n"
	switch op.Kind {
	case "ok", "bad-station-config":
		if err := os.WriteFile(w.subnetPath, []byte(c07SubnetFile(op.Gens)), 0o644); err != nil {
			return false, err
		}
		if op.Kind == "bad-station-config" {
			stationConf = "enable_v4 = [true\n"
		}
	case "bad-subnets":
		if err := os.WriteFile(w.subnetPath, []byte("[Networks]\n    [Networks.957\n  Generation = = 957\n"), 0o644); err != nil {
			return false, err
		}
	case "missing-subnets":
		_ = os.Remove(w.subnetPath)
	default:
		return false, fmt.Errorf("reload kind %q", op.Kind)
	}
	if err := os.WriteFile(w.confPath, []byte(stationConf), 0o644); err != nil {
		return false, err
	}
	vSubnetMu.Lock()
	defer vSubnetMu.Unlock()
	os.Setenv("PHANTOM_SUBNET_LOCATION", w.subnetPath)
	os.Setenv("CJ_STATION_CONFIG", w.confPath)
	// --- cmd/application/main.go, SIGHUP branch
	newConf, err := ParseConfig()
	if err == nil {
		w.e.rm.OnReload(newConf.RegConfig)
	}
	// ---
	if op.Kind != "ok" {
		return false, nil
	}
	// the reference: the harness's own parse of the file that is now in force
	sel, err := phantoms.SubnetsFromTomlFile(w.subnetPath)
	if err != nil {
		return false, fmt.Errorf("the harness cannot parse its own subnet file: %v", err)
	}
	w.e.modelSelector = sel
	w.e.known = map[int64]bool{}
	for _, g := range op.Gens {
		w.e.known[g] = true
	}
	return true, nil
}

func c07ReloadCheck(t vh.Fataler, rec *vh.Rec, w *c07ReloadWorld, c c07ReloadCase) {
	e := w.e
	cl := map[string]bool{}
	defer func() { e.known, e.modelSelector = nil, nil }()
	ever := map[int64]bool{}
	msgN := 0
	nontriv := false
	for oi, op := range c.Ops {
		before := map[int64]bool{}
		for g := range e.known {
			before[g] = true
		}
		loaded, err := w.reload(op)
		if err != nil {
			t.Fatalf("harness problem: %v", err)
		}
		var probe []int64
		if loaded {
			for g := range before {
				if !e.known[g] {
					cl["reload:generation-retired"] = true
					nontriv = true
				}
			}
			for g := range e.known {
				if oi > 0 && !before[g] {
					cl["reload:generation-added"] = true
				}
			}
		} else {
			cl["reload:failed:"+op.Kind] = true
			for _, g := range op.Gens {
				if !before[g] {
					cl["reload:failed-file-named-new-generation"] = true
				}
			}
		}
		for _, g := range op.Gens {
			ever[g] = true
		}
		// messages: every generation that ever appeared in a file of this history, one that is in
		// the pool but never appeared, and one that never exists
		spare := false
		for _, g := range c07GenPool {
			if ever[g] {
				probe = append(probe, g)
			} else if !spare {
				probe, spare = append(probe, g), true
			}
		}
		probe = append(probe, 4242)
		for _, g := range probe {
			msgN++
			m := c07Msg{HasSecret: true, Secret: vh.Hex(vSecret(c.SecretN*64 + msgN)), HasPayload: true, Source: c.Source, HasRegAddr: true, RegAddr: c07IP("198.51.100.7"),
				LibVer: 4, Gen: g, Transport: c.Transport, HasCovert: true, Covert: "192.0.2.10:443", V4: 1, V6: 1, Flags: 0}
			switch c.Transport {
			case 4:
				m.Params = c07Params{Kind: "prefix", PrefixID: 2}
			case 3:
				m.Params = c07Params{Kind: "dtls"}
			default:
				m.Params = c07Params{Kind: "generic", Randomize: true}
			}
			cc := c07Case{Msg: m, Live: "notlive", Conf: c07Conf{EnableV4: true, EnableV6: true, Transports: append([]int(nil), c07TransportsAll...)}}
			exp, _, v, err := c07Eval(e, cc)
			if err != nil {
				t.Fatalf("harness problem: %v", err)
			}
			switch {
			case exp.Fam[0].Admit && before[g]:
				cl["reload:kept-generation-admitted"] = true
			case exp.Fam[0].Admit:
				cl["reload:added-generation-admitted"] = true
			case ever[g] && !e.known[g] && before[g]:
				cl["reload:retired-generation-refused"] = true
			case ever[g] && !e.known[g]:
				cl["reload:generation-of-a-failed-or-older-file-refused"] = true
			}
			if v != nil {
				var sets []string
				for _, o := range c.Ops[:oi+1] {
					sets = append(sets, fmt.Sprintf("%s%v", o.Kind, o.Gens))
				}
				var known []int
				for k := range e.known {
					known = append(known, int(k))
				}
				sort.Ints(known)
				rec.Case(nontriv, vh.Digest(c), c, "violating")
				rec.Violation(t, v.Key, c, "after the reloads %v the file in force lists generations %v; message for generation %d: %s", sets, known, g, v.Msg)
				return
			}
		}
	}
	var classes []string
	for k := range cl {
		classes = append(classes, k)
	}
	sort.Strings(classes)
	rec.Case(nontriv, vh.Digest(c), c, classes...)
}

func c07GenReload(rt *rapid.T) c07ReloadCase {
	c := c07ReloadCase{Transport: rapid.SampledFrom(c07TransportsAll).Draw(rt, "transport"), SecretN: rapid.IntRange(0, 1<<14).Draw(rt, "secret"),
		Source: rapid.SampledFrom([]int{2, 1, 4}).Draw(rt, "source")}
	set := func(label string) []int64 {
		perm := rapid.Permutation(c07GenPool).Draw(rt, label)
		g := append([]int64(nil), perm[:rapid.IntRange(1, 3).Draw(rt, label+".n")]...)
		sort.Slice(g, func(i, j int) bool { return g[i] < g[j] })
		return g
	}
	c.Ops = append(c.Ops, c07ReloadOp{Kind: "ok", Gens: set("initial")})
	n := rapid.IntRange(1, 3).Draw(rt, "reloads")
	for i := 0; i < n; i++ {
		k := rapid.SampledFrom([]string{"ok", "ok", "ok", "bad-subnets", "missing-subnets", "bad-station-config"}).Draw(rt, "kind")
		op := c07ReloadOp{Kind: k}
		if k == "ok" || k == "bad-station-config" {
			op.Gens = set(fmt.Sprintf("set%d", i))
		}
		c.Ops = append(c.Ops, op)
	}
	return c
}

func TestVerif_C07_reload(t *testing.T) {
	rec := vh.NewRec("C07", "reload", "histories of 2-4 (re)loads on one long-lived RegistrationManager through the production path (ParseConfig from CJ_STATION_CONFIG + OnReload, the phantom subnet file rewritten in place): a valid file listing 1-3 drawn generations, a file that does not parse, a missing file, or a valid file with a station configuration that does not parse. After each, dual-stack messages (drawn transport / source) for every generation that appeared in any file of the history, one that did not, and one that never exists, each judged by the complete C07 oracle with known generations = those of the file loaded successfully last and the expected phantom from the harness's own parse of that file. Fixed histories {1,957}->{957,958} (+ failed reload) always run. Non-trivial: a reload retires a generation. Distinct = distinct history.")
	defer rec.Flush()
	rec.Require("reload:generation-retired", "reload:generation-added", "reload:retired-generation-refused", "reload:added-generation-admitted",
		"reload:kept-generation-admitted", "reload:failed:bad-subnets", "reload:failed:missing-subnets", "reload:failed:bad-station-config",
		"reload:failed-file-named-new-generation")
	dir := t.TempDir()
	w := &c07ReloadWorld{e: c07NewEnv(t, false), subnetPath: filepath.Join(dir, "phantom_subnets.toml"), confPath: filepath.Join(dir, "station_config.toml")}
	if p := vh.ReplayFile(); p != "" {
		var c c07ReloadCase
		if _, _, err := vh.LoadReplay(p, &c); err != nil {
			t.Fatal(err)
		}
		c07ReloadCheck(t, rec, w, c)
		return
	}
	fixed := []c07ReloadCase{
		{Ops: []c07ReloadOp{{Kind: "ok", Gens: []int64{1, 957}}, {Kind: "ok", Gens: []int64{957, 958}}}, Transport: 1, SecretN: 1, Source: 2},
		{Ops: []c07ReloadOp{{Kind: "ok", Gens: []int64{1, 957}}, {Kind: "bad-subnets"}, {Kind: "ok", Gens: []int64{957, 958}}, {Kind: "bad-station-config", Gens: []int64{1, 2}}}, Transport: 4, SecretN: 2, Source: 1},
		{Ops: []c07ReloadOp{{Kind: "ok", Gens: []int64{957}}, {Kind: "missing-subnets"}, {Kind: "ok", Gens: []int64{1164}}, {Kind: "ok", Gens: []int64{957}}}, Transport: 3, SecretN: 3, Source: 2},
	}
	for i, c := range fixed {
		if vh.Mine(i) {
			c07ReloadCheck(t, rec, w, c)
		}
	}
	rapid.Check(t, func(rt *rapid.T) {
		c := c07GenReload(rt)
		// the budget of cases is shared with the other sub-checks; one history is ~12 messages
		if rapid.IntRange(0, 7).Draw(rt, "thin") != 0 {
			return
		}
		c07ReloadCheck(rt, rec, w, c)
	})
}
