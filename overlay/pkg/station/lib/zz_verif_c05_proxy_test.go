package lib

// C05, level 2: Proxy() itself with a scripted client connection and a real loopback TCP covert.
//
// The covert either sinks the upload until the station closes ("sink"; the client's script ends the
// tunnel), or reads a known number of upload bytes, sends its reply and closes with FIN
// ("reply-fin") or RST (SetLinger(0), "reply-rst"), or refuses the connection ("refuse"), or sinks
// the upload until it sees its end and then neither closes nor goes away ("sink-hold": it may still
// send something - a peer that answers after the request's FIN - and keeps its socket open until
// Proxy has returned): the end of the upload direction alone has to bring the tunnel down. The
// client connection can be scripted half-closable (CloseWrite / CloseRead), as the covert's
// *net.TCPConn always is.
// Checked: Proxy returns; the open-session gauge is back at its previous value; the client
// connection was closed; what the covert received is a prefix of what client.Read returned (all of
// it - including bytes returned together with EOF / an error - when only the client's read side
// ended the tunnel and teardown was graceful); what was offered to client.Write is a prefix of the
// covert's reply (all of it when only the covert's FIN ended the tunnel); the tunnel summary's
// BytesUp/BytesDown equal the deltas of the global counters and the bytes the client connection
// accepted / bound the bytes the covert received; no goroutine stays behind.

import (
	"encoding/json"
	"fmt"
	"io"
	"net"
	"runtime"
	"strings"
	"sync"
	"sync/atomic"
	"testing"
	"time"

	"github.com/refraction-networking/conjure/pkg/station/log"
	pb "github.com/refraction-networking/conjure/proto"
	"google.golang.org/protobuf/proto"
	"pgregory.net/rapid"
	"verif/harness/vh"
)

type c05ProxyCase struct {
	Client c05Script `json:"client"`
	Mode   string    `json:"mode"`            // sink | sink-hold | reply-fin | reply-rst | refuse
	Reply  []int     `json:"reply,omitempty"` // sizes of the covert's writes
	After  []int     `json:"after,omitempty"` // sink-hold: writes the covert attempts after it saw the end of the upload
	Await  int       `json:"await,omitempty"` // reply modes: upload bytes the covert reads before it replies
	// Header: "" registration without the proxy_header flag; "ok" flag set, the client's RemoteAddr is
	// ip:port (the covert first gets the PROXY line); "bad-remote" flag set but RemoteAddr is not
	// host:port (as with pipe / non-IP transport conns), so the header cannot be sent and Proxy gives up.
	Header string `json:"header,omitempty"`
}

// c05Addr is a net.Addr that is not host:port.
type c05Addr string

func (a c05Addr) Network() string { return string(a) }
func (a c05Addr) String() string  { return string(a) }

const c05ProxyLine = "PROXY TCP4 203.0.113.77 127.0.0.1 5555 1234\r\n" // for the scripted client's RemoteAddr

type c05ProxyEnv struct {
	e   *vEnv
	ln  *net.TCPListener
	reg *DecoyRegistration
}

func c05NewProxyEnv(t *testing.T) *c05ProxyEnv {
	e := vNewEnv(t, nil, "")
	l, err := net.Listen("tcp4", "127.0.0.1:0")
	if err != nil {
		t.Fatalf("harness problem: listen: %v", err)
	}
	t.Cleanup(func() { l.Close() })
	w := vWrapper(vSecret(5), pb.TransportType_Min, 0, l.Addr().String(), true, false, 4, 957, pb.RegistrationSource_API, net.ParseIP("198.51.100.7").To4())
	reg, err := e.rm.NewRegistrationC2SWrapper(w, false)
	if err != nil {
		t.Fatalf("harness problem: registration: %v", err)
	}
	return &c05ProxyEnv{e: e, ln: l.(*net.TCPListener), reg: reg}
}

type c05CovertRes struct {
	err     string // harness-level trouble
	recvN   int
	recvBad int // first received byte that differs from the client's stream (-1 none)
	sent    int
	sentEnd int // sink-hold: bytes sent before the covert saw the end of the upload (-1: it has not)
	readErr string
	hdrErr  string // the PROXY line did not arrive (error text) or differs
}

// c05Covert plays the covert's side of one tunnel.
func c05CovertServe(ln *net.TCPListener, c c05ProxyCase, clientStream, reply []byte, res *c05CovertRes, done chan struct{}, abort, release chan struct{}) {
	defer close(done)
	res.recvBad = -1
	res.sentEnd = -1
	_ = ln.SetDeadline(time.Now().Add(30 * time.Second))
	conn, err := ln.Accept()
	if err != nil {
		res.err = "accept: " + err.Error()
		return
	}
	tc := conn.(*net.TCPConn)
	defer tc.Close()
	_ = tc.SetDeadline(time.Now().Add(c05WaitLimit + 30*time.Second)) // after the case watchdog
	go func() {                                                       // a case that was given up (violation found) must not leave its tunnel behind
		select {
		case <-abort:
			_ = tc.SetDeadline(time.Unix(1, 0))
		case <-done:
		}
	}()
	buf := make([]byte, 64*1024)
	if c.Header == "ok" && !(c.Mode == "reply-rst" && c.Await == 0) { // (a covert that resets at once does not read it: the header write may fail)
		hdr := make([]byte, len(c05ProxyLine))
		if _, err := io.ReadFull(tc, hdr); err != nil {
			res.hdrErr = "read: " + err.Error()
			res.readErr = err.Error()
			return
		}
		if string(hdr) != c05ProxyLine {
			res.hdrErr = fmt.Sprintf("got %q", hdr)
			return
		}
	}
	recv := func(limit int) bool { // limit < 0: until error
		for limit < 0 || res.recvN < limit {
			b := buf
			if limit >= 0 && limit-res.recvN < len(b) {
				b = b[:limit-res.recvN]
			}
			n, err := tc.Read(b)
			if n > 0 {
				if res.recvBad < 0 {
					if i := c05FirstDiff(b[:n], c05Tail(clientStream, res.recvN)); i >= 0 {
						res.recvBad = res.recvN + i
					}
				}
				res.recvN += n
			}
			if err != nil {
				res.readErr = err.Error()
				if ne, ok := err.(net.Error); ok && ne.Timeout() {
					res.err = "covert read hit the harness deadline"
				}
				return false
			}
		}
		return true
	}
	send := func() {
		off := 0
		for _, n := range c.Reply {
			m, err := tc.Write(reply[off : off+n])
			res.sent += m
			off += n
			if err != nil {
				return
			}
		}
	}
	switch c.Mode {
	case "sink":
		send()
		recv(-1)
	case "sink-hold":
		send()
		recv(-1)
		if res.err != "" {
			return
		}
		// The end of the upload (FIN, or RST) has been seen. The station can only have produced it by
		// Close or CloseWrite on its socket, so whatever is sent from here on is sent after the upload
		// direction has ended. Then stay: neither close nor fail until the harness says so.
		res.sentEnd = res.sent
		off := res.sent
		for _, n := range c.After {
			m, err := tc.Write(reply[off : off+n])
			res.sent += m
			off += n
			if err != nil {
				break // (the normal outcome: the station's socket is closed, the kernel answers RST)
			}
		}
		select {
		case <-release:
		case <-abort:
		}
	case "reply-fin", "reply-rst":
		if recv(c.Await) {
			send()
		}
		if c.Mode == "reply-rst" {
			_ = tc.SetLinger(0)
		}
	}
}

type c05Summary struct {
	BytesUp       int64
	BytesDown     int64
	CovertDialErr string
}

func c05RunProxy(env *c05ProxyEnv, c c05ProxyCase) (out c05Out) {
	set := map[string]bool{"mode:" + c.Mode: true}
	defer func() {
		for k := range set {
			out.classes = append(out.classes, k)
		}
	}()
	replyTotal := 0
	for _, n := range c.Reply {
		replyTotal += n
	}
	afterTotal := 0
	for _, n := range c.After {
		afterTotal += n
	}
	isSink := c.Mode == "sink" || c.Mode == "sink-hold"
	if c.Client.HalfClose {
		set["caps:client-half-closable"] = true
	}
	cs, err := c05Stream(c05Client, c.Client.total())
	if err != nil {
		return c05Out{key: "harness", msg: err.Error()}
	}
	reply, err := c05Stream(c05Covert, replyTotal+afterTotal)
	if err != nil {
		return c05Out{key: "harness", msg: err.Error()}
	}
	base := c05Baseline()
	pre := c05Snap()
	w := c05NewWorld("free")
	w.solo = true
	defer w.stop()
	client := c05NewConn(w, c05Client, c.Client, cs, reply)
	var ep c05Epochs
	w.onEpoch = func() { ep.roll(pre.sessions + 1) } // called from a Read of the relay: exactly this tunnel is open
	reg := *env.reg                                  // a private copy: Proxy counts tunnels on it
	if c.Header != "" {
		reg.Flags = &pb.RegistrationFlags{ProxyHeader: proto.Bool(true)}
		set["header:"+c.Header] = true
	}
	if c.Header == "bad-remote" {
		client.remote = c05Addr("pipe")
	}
	var res c05CovertRes
	covDone := make(chan struct{})
	abortCh := make(chan struct{})
	release := make(chan struct{}) // closed when Proxy has returned (or the case is given up): a holding covert may go
	var relOnce sync.Once
	rel := func() { relOnce.Do(func() { close(release) }) }
	defer rel()
	if c.Mode == "refuse" {
		reg.Covert = "127.0.0.1:1"
		close(covDone)
	} else {
		go c05CovertServe(env.ln, c, cs, reply, &res, covDone, abortCh, release)
	}
	logbuf := &vSyncBuf{} // the asynchronous closer may still log after Proxy returned
	logger := log.New(logbuf, "", 0)
	pdone := make(chan any, 1)
	go func() {
		var pan any
		defer func() { pdone <- pan }()
		defer func() { pan = recover() }()
		Proxy(&reg, client.asConn(), logger)
	}()
	var pan any
	returned := false
	closeBegun, closeSyncOpen := false, 0
	t0 := time.Now()
	orphaned := 0 // consecutive observations of "Proxy waits, no halfPipe alive"
	lonely := 0   // consecutive observations of "one halfPipe left, client never closed, no closer pending"
	for !returned {
		select {
		case pan = <-pdone:
			returned = true
			closeBegun, _, closeSyncOpen = client.closeState() // at the moment Proxy returned
			rel()
		case <-time.After(300 * time.Millisecond):
			gs, inPipe, inWait := c05RelayGoroutines()
			if inWait && !inPipe {
				orphaned++
			} else {
				orphaned = 0
			}
			// one direction has returned (its goroutine is gone, no detached closer is pending) but the
			// client connection has not even seen a Close call: that direction ended without tearing
			// down, and the other one relays on alone. A state, not a matter of timing: a direction that
			// ends calls Close on its destination itself and hands its source to a closer before it returns.
			pipes, closers, waits := c05RelayCensus()
			if begun, _, _ := client.closeState(); waits && pipes == 1 && closers == 0 && !begun {
				lonely++
			} else {
				lonely = 0
			}
			if lonely >= 2 {
				out.key, out.msg = "teardown:direction-ended-without-closing", "one direction of the tunnel has returned, yet Close was never called on the client connection and no closer is pending; the other direction keeps relaying alone, so the tunnel is not torn down (Proxy returns only when a stall time-out fires, if ever)"
				out.nontriv = true
				w.mu.Lock()
				w.abortCase(out.key, out.msg) // close the client connection so that the rest of the tunnel ends
				w.mu.Unlock()
				close(abortCh)
				select {
				case <-pdone:
				case <-time.After(10 * time.Second):
				}
				select {
				case <-covDone:
				case <-time.After(10 * time.Second):
				}
				return
			}
			if orphaned >= 3 {
				// a permanent state, not a matter of timing: nobody is left who could release the WaitGroup
				out.key, out.msg = "noreturn:proxy-waits-forever", "Proxy is blocked in wg.Wait() although no halfPipe is running any more: the call never returns and the session gauge stays raised"
				return
			}
			if time.Since(t0) > c05WaitLimit+5*time.Second {
				// WALL-CLOCK WATCHDOG (generous: a tunnel of this sub-check needs milliseconds). The world's
				// own timer has released every wait of the scripted connection 5 s ago.
				if !inPipe {
					return c05Out{key: "harness", msg: fmt.Sprintf("Proxy did not return within %v; relay goroutines: %v", c05WaitLimit, gs)}
				}
				w.mu.Lock()
				w.abortCase("noreturn:watchdog", "")
				w.mu.Unlock()
				close(abortCh)
				out.key, out.msg = "noreturn:watchdog", fmt.Sprintf("wall-clock watchdog: %v after the start Proxy has not returned and a halfPipe is still running although no wait of the scripted connection holds it (the tunnel needs milliseconds); goroutines inside the relay: %v", c05WaitLimit, gs)
				return
			}
		}
	}
	if pan != nil {
		out.key, out.msg = "panic", fmt.Sprintf("Proxy panicked: %v", pan)
		return
	}
	w.mu.Lock()
	ab := w.abort
	w.mu.Unlock()
	if ab != nil {
		// a direction kept calling after a failure; the harness closed the client connection (counted, not timed)
		<-covDone
		c05WaitGoroutines(base, 10*time.Second)
		out.nontriv = true
		out.key, out.msg = ab.key, ab.msg
		return
	}
	select {
	case <-covDone:
	case <-time.After(c05WaitLimit):
		return c05Out{key: "harness", msg: "the covert side did not finish"}
	}
	leakFree := c05WaitGoroutines(base, 10*time.Second)
	w.mu.Lock()
	stuck := w.stuck
	w.mu.Unlock()
	if stuck || res.err != "" {
		return c05Out{key: "harness", msg: fmt.Sprintf("wait limit hit=%v covert=%q", stuck, res.err)}
	}
	evs := w.events()
	cl, nontriv := c05Classes(c05Case{Client: c.Client, Sched: "free"}, evs)
	for _, k := range cl {
		if !strings.HasPrefix(k, "sched:") {
			set[k] = true
		}
	}
	out.nontriv = nontriv || c.Mode == "reply-rst" || c.Mode == "refuse"
	post := ep.adjust(c05Snap())
	if ep.n > 0 {
		set["stats:epoch-rolled-over-during-tunnel"] = true
	}
	if ep.gaugeBad != "" {
		out.key, out.msg = "gauge:changed-by-epoch-reset", ep.gaugeBad
		return
	}
	if post.sessions != pre.sessions {
		out.key, out.msg = "gauge:sessions", fmt.Sprintf("sessionsProxying was %d before the tunnel and is %d after Proxy returned", pre.sessions, post.sessions)
		return
	}
	if !leakFree {
		gs, _, _ := c05RelayGoroutines()
		if len(gs) == 0 {
			return c05Out{key: "harness", msg: fmt.Sprintf("goroutine count %d did not return to the baseline %d, but no goroutine is inside the relay code", runtime.NumGoroutine(), base)}
		}
		out.key, out.msg = "goroutine-leak", fmt.Sprintf("goroutines still inside the relay 10 s after Proxy returned: %v", gs)
		return
	}
	// the tunnel summary Proxy logs
	var sum c05Summary
	line := logbuf.String()
	i := strings.Index(line, "proxy closed ")
	if i < 0 && strings.Contains(line, "failed to send PROXY header") {
		// Proxy gave up before relaying anything (the client connection stays with the caller).
		// The session gauge and the goroutines were checked above.
		if c.Header == "" || (c.Header == "ok" && c.Mode != "reply-rst") {
			return c05Out{key: "harness", msg: fmt.Sprintf("unexpected PROXY header failure (log %q)", line)}
		}
		set["header:send-failed"] = true
		out.nontriv = true
		if c05Has(evs, func(e c05Ev) bool { return e.Op == "read" || e.Op == "write" }) {
			out.key, out.msg = "refused:client-io", "Proxy touched the client stream although it gave up before starting the relay"
		}
		return
	}
	if i < 0 {
		out.key, out.msg = "stats:no-summary", fmt.Sprintf("Proxy returned without logging a tunnel summary (log: %q)", line)
		return
	}
	if err := json.NewDecoder(strings.NewReader(line[i+len("proxy closed "):])).Decode(&sum); err != nil {
		return c05Out{key: "harness", msg: "cannot parse the tunnel summary: " + err.Error()}
	}
	if c.Mode == "refuse" && sum.CovertDialErr == "" {
		return c05Out{key: "harness", msg: "the dial to the closed port did not fail"}
	}
	if sum.CovertDialErr != "" {
		// no tunnel: also reached when the covert resets so early that the dial itself reports it
		if c.Mode != "refuse" && c.Mode != "reply-rst" {
			return c05Out{key: "harness", msg: "dial to the loopback covert failed: " + sum.CovertDialErr}
		}
		set["dial-failed:"+sum.CovertDialErr] = true
		if c05Has(evs, func(e c05Ev) bool { return e.Op == "read" || e.Op == "write" }) {
			out.key, out.msg = "refused:client-io", "Proxy touched the client stream although the covert could not be dialled"
		}
		return
	}
	if c.Header == "bad-remote" {
		return c05Out{key: "harness", msg: fmt.Sprintf("the PROXY header failure that the case scripts did not happen (log %q)", line)}
	}
	if res.hdrErr != "" {
		return c05Out{key: "harness", msg: "the covert did not get the PROXY line first (outside this property): " + res.hdrErr}
	}
	fail := func(k, m string) { out.viols = append(out.viols, c05Viol{k, m}) }
	// down: covert -> client
	var accepted int64
	var readN int
	sawWriteFail, sawDLFail, sawReadFail := false, false, false
	failed := false
	offered := 0
	for _, e := range evs {
		switch e.Op {
		case "write":
			accepted += int64(e.N)
			if !failed {
				if e.Bad >= 0 {
					fail("stream:offered-differs-from-read", fmt.Sprintf("down: %s offers bytes that are not the next bytes of the covert's reply (first difference at stream offset %d)", c05Describe(e), e.Off+e.Bad))
				}
				offered = e.Off + e.Len
			}
			if e.BadDl >= 0 {
				fail("stream:delivered-not-a-prefix", fmt.Sprintf("down: %s makes the client accept bytes that do not continue what it already has", c05Describe(e)))
			}
			if e.Err != "" || e.N < e.Len {
				failed = true
				sawWriteFail = true
			}
		case "read":
			readN += e.N
			if e.Err != "" && e.Err != "closed" {
				sawReadFail = true
			}
		case "setdl":
			if e.Err != "" && e.Err != "closed" {
				sawDLFail = true
			}
		}
	}
	if offered > res.sent {
		fail("stream:offered-more-than-read", fmt.Sprintf("down: %d bytes offered to the client, the covert only sent %d", offered, res.sent))
	}
	if c.Mode == "sink-hold" && res.sentEnd >= 0 {
		set["covert:stays-after-upload-end"] = true
		if res.sent > res.sentEnd {
			set["covert:sends-after-upload-end"] = true
		}
		if offered > res.sentEnd {
			// causal, not timed: the covert sent these bytes only after it had seen the end of the upload
			// stream, which the station can only have produced by Close / CloseWrite on the covert socket
			fail("teardown:relayed-after-upload-ended", fmt.Sprintf("down: the client connection was offered %d bytes, but the covert had sent only %d before it saw the end of the upload stream (%q): the rest was sent after the upload direction had ended and was still read from the covert connection and relayed - that connection was not closed when the direction ended", offered, res.sentEnd, res.readErr))
		}
	}
	if c.Mode == "reply-fin" && !sawWriteFail && !sawDLFail && !sawReadFail && res.sent == replyTotal && res.recvN == c.Client.total() {
		set["down:complete-demanded"] = true
		if offered != replyTotal {
			fail("dropped:download", fmt.Sprintf("down: the covert sent %d bytes and closed with FIN, nothing else failed, but only %d bytes were offered to the client", replyTotal, offered))
		}
	}
	// up: client -> covert
	if res.recvBad >= 0 {
		fail("stream:offered-differs-from-read", fmt.Sprintf("up: the covert received bytes that are not the bytes client.Read returned (first difference at stream offset %d)", res.recvBad))
	}
	if res.recvN > readN {
		fail("stream:offered-more-than-read", fmt.Sprintf("up: the covert received %d bytes, client.Read returned only %d", res.recvN, readN))
	}
	graceful := isSink && !sawWriteFail && !sawDLFail
	if graceful {
		// only the client's read side (EOF / error, possibly with data) can have ended the tunnel
		set["up:complete-demanded"] = true
		if res.recvN < readN {
			k, what := "dropped:data-read-successfully", "returned by successful Reads"
			for _, e := range evs {
				if e.Op == "read" && e.N > 0 && e.Off+e.N > res.recvN {
					if e.Err != "" {
						k, what = "dropped:data-returned-with-error", fmt.Sprintf("returned together with %q (%s)", e.Err, c05Describe(e))
					}
					break
				}
			}
			fail(k, fmt.Sprintf("up: client.Read returned %d bytes, the last %d of them %s never reached the covert although it was reading until the station closed (it saw %q after %d bytes)", readN, readN-res.recvN, what, res.readErr, res.recvN))
		}
	}
	// why did the tunnel end? Only a failure of one side may end it.
	clientQuiet := !sawWriteFail && !sawDLFail && !sawReadFail
	if isSink && clientQuiet {
		// the covert never ends first and no call on the client connection failed
		fail("ended-without-failure", fmt.Sprintf("the tunnel was torn down although neither side had failed: the covert was reading until the station closed, and no Read / Write / SetDeadline on the client connection returned an error (client.Read had returned %d of %d scripted bytes, %d reached the covert); the rest of the stream is lost", readN, c.Client.total(), res.recvN))
	}
	downFirst := (c.Mode == "reply-fin" || c.Mode == "reply-rst") && clientQuiet && c.Await == c.Client.total()
	if downFirst {
		// the covert ends the tunnel only after it got Await bytes, and nothing on the client side failed
		set["down-ends-first"] = true
		if res.recvN < c.Await {
			fail("ended-without-failure", fmt.Sprintf("the upload was cut off although neither side had failed: the covert was waiting for %d bytes before answering, got %d and then saw %q; no call on the client connection returned an error", c.Await, res.recvN, res.readErr))
		}
	}
	// teardown at the moment Proxy returned. Each direction closes its destination synchronously,
	// on its own goroutine, before it signals the WaitGroup; only the source is closed by a detached
	// goroutine. So at that moment Close of the client connection has at least been called, and no
	// Close call issued on a halfPipe's own goroutine is still in progress.
	if !closeBegun {
		fail("teardown:waitgroup-released-before-close", "Proxy returned although Close had not yet been called on the client connection")
	} else if closeSyncOpen > 0 {
		fail("teardown:waitgroup-released-before-close", fmt.Sprintf("Proxy returned while a direction's own (synchronous) Close of the client connection (lingering %d ms) was still in progress: the tunnel is reported closed and the session gauge lowered while that halfPipe is still inside Close", c.Client.CloseMs))
	}
	client.w.mu.Lock()
	if client.syncSeen > 0 {
		set["close:sync-attributed"] = true
	}
	client.w.mu.Unlock()
	for t0 := time.Now(); !client.isClosed() && time.Since(t0) < 5*time.Second; {
		time.Sleep(200 * time.Microsecond)
	}
	if !client.isClosed() {
		fail("teardown:connection-left-open", "the client connection was never closed")
	}
	if isSink && res.readErr == "" {
		return c05Out{key: "harness", msg: "sink covert ended without a read result"}
	}
	// counters
	if sum.BytesDown != accepted {
		fail("stats:tunnel-bytes", fmt.Sprintf("tunnel summary BytesDown=%d but the client connection accepted %d bytes", sum.BytesDown, accepted))
	}
	if sum.BytesUp < int64(res.recvN) || sum.BytesUp > int64(readN) || (graceful && sum.BytesUp != int64(res.recvN)) {
		fail("stats:tunnel-bytes", fmt.Sprintf("tunnel summary BytesUp=%d, the covert received %d bytes, client.Read returned %d (graceful=%v)", sum.BytesUp, res.recvN, readN, graceful))
	}
	// (with epoch roll-overs the global byte counters are only compared where the download direction
	// cannot have been adding to them at the moment of a reset: the station's own print-and-reset is
	// not atomic with respect to running relays either)
	if ep.n == 0 || (isSink && replyTotal == 0) {
		if k, m := c05CheckCounts([2]int64{sum.BytesUp, sum.BytesDown}, sum.BytesUp, sum.BytesDown, pre, post); k != "" {
			fail(k, m)
		}
	}
	if atomic.LoadInt64(&reg.tunnelCount) != atomic.LoadInt64(&env.reg.tunnelCount)+1 {
		return c05Out{key: "harness", msg: "tunnel count did not advance"}
	}
	return
}

func c05ProxyCheck(t vh.Fataler, rec *vh.Rec, env *c05ProxyEnv, c c05ProxyCase) {
	o := c05RunProxy(env, c)
	rec.Case(o.nontriv, vh.Digest(c), c, o.classes...)
	if o.key == "harness" {
		t.Fatalf("harness problem: %s (case %+v)", o.msg, c)
	}
	if o.key != "" {
		rec.Violation(t, o.key, c, "%s [Proxy level, covert mode %s]", o.msg, c.Mode)
	}
	for _, v := range o.viols {
		rec.Violation(t, v.key, c, "%s [Proxy level, covert mode %s]", v.msg, c.Mode)
	}
}

var c05ProxySizes = []int{1, 2, 100, 1448, 5000, 32767, 32768, 32769, 40000, 70000}

func c05ProxyGen(rt *rapid.T) c05ProxyCase {
	c := c05ProxyCase{Mode: rapid.SampledFrom([]string{"sink", "sink", "sink-hold", "sink-hold", "reply-fin", "reply-fin", "reply-rst", "refuse"}).Draw(rt, "mode")}
	for i, n := 0, rapid.IntRange(0, 3).Draw(rt, "nreply"); i < n; i++ {
		c.Reply = append(c.Reply, rapid.SampledFrom(c05ProxySizes).Draw(rt, "reply"))
	}
	replyTotal := 0
	for _, n := range c.Reply {
		replyTotal += n
	}
	s := &c.Client
	for i, n := 0, rapid.IntRange(0, 5).Draw(rt, "steps"); i < n; i++ {
		st := c05Step{N: rapid.SampledFrom(c05ProxySizes).Draw(rt, "size")}
		if rapid.IntRange(0, 5).Draw(rt, "zero") == 0 {
			st.N = 0 // a zero-length read without error
		}
		if rapid.IntRange(0, 3).Draw(rt, "epoch") == 0 {
			st.Epoch = true // the statistics epoch rolls over while the tunnel is open
		}
		s.Reads = append(s.Reads, st)
	}
	switch c.Mode {
	case "sink", "sink-hold":
		// the client's read side ends the tunnel
		s.End = rapid.SampledFrom([]string{"eof", "eof", "reset", "timeout", "eio"}).Draw(rt, "end")
		if n := len(s.Reads); n > 0 && s.Reads[n-1].N > 0 && rapid.Bool().Draw(rt, "lastWithErr") {
			s.Reads[n-1].Err = s.End
		}
		if replyTotal > 0 {
			// the client's first Read waits until the whole reply was relayed, so that the station
			// never closes the covert socket with unread data (the kernel would answer with RST)
			s.Reads = append([]c05Step{{N: 1, Wait: replyTotal}}, s.Reads...)
		}
	case "reply-fin", "reply-rst":
		s.End = "hold"
		c.Await = s.total()
		if rapid.IntRange(0, 5).Draw(rt, "early") == 0 {
			c.Await = 0
		}
	default:
		s.End = "hold"
	}
	if rapid.IntRange(0, 3).Draw(rt, "haswf") == 0 {
		s.WF = append(s.WF, c05WF{
			Call:   rapid.IntRange(0, 4).Draw(rt, "wf.call"),
			Accept: rapid.SampledFrom([]int{0, 1, -1, 100}).Draw(rt, "wf.accept"),
			Err:    rapid.SampledFrom(c05WriteErrs).Draw(rt, "wf.err"),
		})
		if f := &s.WF[len(s.WF)-1]; f.Err == "" && rapid.Bool().Draw(rt, "wf.stuck") {
			f.Then = "zero" // every later Write returns (0, nil)
		}
	}
	if rapid.IntRange(0, 5).Draw(rt, "hasdf") == 0 {
		s.DF = append(s.DF, c05DF{Dir: -1, Call: rapid.IntRange(0, 8).Draw(rt, "df.call"), Err: "eio"})
	}
	if rapid.IntRange(0, 4).Draw(rt, "hasclose") == 0 {
		s.CloseErr = rapid.SampledFrom([]string{"reset", "timeout", "eio"}).Draw(rt, "closeerr")
	}
	if rapid.IntRange(0, 4).Draw(rt, "slowclose") == 0 {
		s.CloseMs = rapid.IntRange(15, 40).Draw(rt, "closems")
	}
	c.Header = rapid.SampledFrom([]string{"", "", "", "", "ok", "bad-remote"}).Draw(rt, "header")
	if c.Mode == "sink-hold" {
		for i, n := 0, rapid.IntRange(0, 2).Draw(rt, "nafter"); i < n; i++ {
			c.After = append(c.After, rapid.SampledFrom(c05ProxySizes).Draw(rt, "after"))
		}
	}
	s.HalfClose = rapid.Bool().Draw(rt, "halfclose")
	return c
}

func TestVerif_C05_proxy(t *testing.T) {
	rec := vh.NewRec("C05", "proxy", "rapid-drawn tunnels through Proxy(): scripted client connection (0-5 upload steps: chunks of 1 B .. 70000 B or, with probability 1/6, a zero-length read without error; optional write fault (also: short with nil error and then (0, nil) from every later Write) / SetDeadline fault / Close error / lingering Close of 15-40 ms; last chunk optionally returned together with EOF or an error) x real loopback TCP covert {sinks the upload until the station closes, replies and closes with FIN, replies and resets with SetLinger(0), refuses the connection, sinks the upload until it sees its end (FIN / RST) and then stays: attempts 0-2 more writes and keeps its socket open until Proxy has returned - the end of the upload direction alone must bring the tunnel down, and nothing the covert sent after it saw that end may reach the client connection} with 0-3 reply writes of 1 B .. 70000 B; the client connection with probability 1/2 half-closable (CloseWrite / CloseRead offered, as the covert's *net.TCPConn always does) x registration {without proxy_header flag (2/3), with the flag and an ip:port client address (PROXY line sent first), with the flag and a client RemoteAddr that is not host:port (header cannot be sent, Proxy gives up)}; the session gauge is compared before / after for every outcome; upload steps with probability 1/4 preceded by a statistics epoch roll-over (ProxyStats.PrintAndReset / Reset, Stats.Reset) while the tunnel is open: the gauge must read (previous value + 1) right before and right after it, and the per-epoch byte counters summed over the epochs must equal the tunnel summary; non-trivial = an injected fault other than a plain EOF alone was hit, or the covert reset / refused; distinct by case")
	defer rec.Flush()
	rec.Require("mode:sink-hold", "covert:stays-after-upload-end", "covert:sends-after-upload-end", "caps:client-half-closable",
		"mode:sink", "mode:reply-fin", "mode:reply-rst", "mode:refuse", "up:complete-demanded", "down:complete-demanded", "down-ends-first", "stats:epoch-rolled-over-during-tunnel", "header:ok", "header:bad-remote", "header:send-failed", "close:sync-attributed", "read:data+eof", "read:zero-length", "close:slow", "write:short")
	c05QuietStats(t)
	env := c05NewProxyEnv(t)
	if p := vh.ReplayFile(); p != "" {
		var c c05ProxyCase
		if _, _, err := vh.LoadReplay(p, &c); err != nil {
			t.Fatal(err)
		}
		c05ProxyCheck(t, rec, env, c)
		return
	}
	// fixed cases first: the plain round trips and the anticipated trouble spot
	for _, c := range []c05ProxyCase{
		{Mode: "sink", Client: c05Script{Reads: []c05Step{{N: 100}, {N: 40000}}, End: "eof"}},
		{Mode: "sink", Client: c05Script{Reads: []c05Step{{N: 100}, {N: 40000, Err: "eof"}}, End: "eof"}},
		{Mode: "sink", Client: c05Script{Reads: []c05Step{{N: 1, Wait: 70001}, {N: 5, Err: "reset"}}, End: "reset"}, Reply: []int{70000, 1}},
		{Mode: "reply-fin", Client: c05Script{Reads: []c05Step{{N: 3000}}, End: "hold"}, Await: 3000, Reply: []int{1, 70000}},
		{Mode: "reply-rst", Client: c05Script{Reads: []c05Step{{N: 3000}}, End: "hold"}, Await: 3000, Reply: []int{5000}},
		{Mode: "refuse", Client: c05Script{End: "hold"}},
		{Mode: "sink", Client: c05Script{Reads: []c05Step{{N: 100, Epoch: true}, {N: 40000}, {N: 7, Epoch: true}, {N: 70000, Epoch: true}}, End: "eof"}},
		{Mode: "reply-fin", Client: c05Script{Reads: []c05Step{{N: 3000}, {N: 1, Epoch: true}}, End: "hold"}, Await: 3001, Reply: []int{1, 70000}},
		{Mode: "refuse", Header: "ok", Client: c05Script{End: "hold"}},
		{Mode: "sink", Header: "ok", Client: c05Script{Reads: []c05Step{{N: 100}, {N: 40000}}, End: "eof"}},
		{Mode: "reply-fin", Header: "ok", Client: c05Script{Reads: []c05Step{{N: 3000}}, End: "hold"}, Await: 3000, Reply: []int{1, 70000}},
		{Mode: "sink", Header: "bad-remote", Client: c05Script{Reads: []c05Step{{N: 100}}, End: "eof"}},
		{Mode: "reply-fin", Header: "bad-remote", Client: c05Script{Reads: []c05Step{{N: 10}}, End: "hold"}, Await: 10, Reply: []int{8}},
		{Mode: "reply-rst", Header: "ok", Client: c05Script{End: "hold"}},
		{Mode: "sink", Client: c05Script{Reads: []c05Step{{N: 6}, {N: 0}, {N: 5}}, End: "eof"}},
		{Mode: "reply-fin", Client: c05Script{Reads: []c05Step{{N: 0}, {N: 3000}, {N: 0}, {N: 1}}, End: "hold"}, Await: 3001, Reply: []int{100}},
		{Mode: "reply-fin", Client: c05Script{Reads: []c05Step{{N: 3000}}, End: "hold", CloseMs: 40, CloseErr: "reset"}, Await: 3000, Reply: []int{8}},
		{Mode: "reply-rst", Client: c05Script{Reads: []c05Step{{N: 10}}, End: "hold", CloseMs: 40}, Await: 10, Reply: []int{8}},
		{Mode: "sink", Client: c05Script{Reads: []c05Step{{N: 10}}, End: "eof", CloseMs: 25}},
		{Mode: "sink-hold", Client: c05Script{Reads: []c05Step{{N: 100}, {N: 40000}}, End: "eof"}},
		{Mode: "sink-hold", Client: c05Script{Reads: []c05Step{{N: 13}}, End: "eof", HalfClose: true}, After: []int{100, 5000}},
		{Mode: "sink-hold", Client: c05Script{Reads: []c05Step{{N: 1, Wait: 1448}, {N: 100}}, End: "reset"}, Reply: []int{1448}, After: []int{1}},
		{Mode: "sink-hold", Header: "ok", Client: c05Script{End: "eof"}, After: []int{70000}},
		{Mode: "reply-fin", Client: c05Script{Reads: []c05Step{{N: 3000}}, End: "hold", HalfClose: true}, Await: 3000, Reply: []int{1, 70000}},
		{Mode: "sink", Client: c05Script{Reads: []c05Step{{N: 100}}, End: "eof", HalfClose: true}},
	} {
		c05ProxyCheck(t, rec, env, c)
	}
	rapid.Check(t, func(rt *rapid.T) {
		c05ProxyCheck(rt, rec, env, c05ProxyGen(rt))
	})
}
