package lib

// C11, ZMQ ingest with share-over-API enabled: a registration whose source is exactly Detector is
// POSTed to a peer station from a goroutine of its own (go tryShareRegistrationOverAPI). The zmq
// sub-check runs part of its cases with enable_share_over_api=true against a local peer endpoint
// (raw loopback listener) whose behaviour is drawn:
//
//	1 answers 200            2 answers 500             3 answers garbage / a truncated response
//	4 accepts and closes     5 refuses (closed port)   6 accepts, reads the request and never answers
//	7 host name that does not resolve (the resolver stub fails at once)          (the harness ends it)
//
// The sharing goroutine cannot be recovered: a panic there kills the test process and is reported
// by vcheck as a crash. Each case therefore waits (bounded, never a verdict) until the share it
// started has visibly ended: the peer handled the connection (200) or the station logged the failed
// share (every other mode).

import (
	"bufio"
	"bytes"
	"fmt"
	"io"
	"net"
	"runtime"
	"strconv"
	"strings"
	"sync/atomic"
	"testing"
	"time"
)

// c11ShareLog is the registration manager's log sink: discards, but counts failed shares.
type c11ShareLog struct{ failed atomic.Int64 }

func (l *c11ShareLog) Write(p []byte) (int, error) {
	if bytes.Contains(p, []byte("failed to share Registration over API")) {
		l.failed.Add(1)
	}
	return len(p), nil
}

type c11Peer struct {
	ln      net.Listener
	mode    atomic.Int32
	handled atomic.Int64 // connections whose scripted behaviour is complete
	good    atomic.Int64 // requests that arrived complete
	closed  string       // URL on a closed port
}

func c11NewPeer(tb testing.TB) *c11Peer {
	ln, err := net.Listen("tcp", "127.0.0.1:0")
	if err != nil {
		tb.Fatalf("harness problem: %v", err)
	}
	dead, err := net.Listen("tcp", "127.0.0.1:0")
	if err != nil {
		tb.Fatalf("harness problem: %v", err)
	}
	p := &c11Peer{ln: ln, closed: "http://" + dead.Addr().String() + "/register"}
	dead.Close()
	go func() {
		for {
			conn, err := ln.Accept()
			if err != nil {
				return
			}
			go p.serve(conn)
		}
	}()
	tb.Cleanup(func() { ln.Close() })
	return p
}

func (p *c11Peer) url() string { return "http://" + p.ln.Addr().String() + "/register" }

// endpoint returns the preshare_endpoint for a share mode.
func (p *c11Peer) endpoint(mode int) string {
	switch mode {
	case 5:
		return p.closed
	case 7:
		return "http://verif-c11-peer.invalid/register"
	}
	return p.url()
}

func (p *c11Peer) serve(conn net.Conn) {
	defer p.handled.Add(1)
	defer conn.Close()
	mode := int(p.mode.Load())
	if mode == 4 {
		return
	}
	_ = conn.SetDeadline(time.Now().Add(20 * time.Second))
	br := bufio.NewReader(conn)
	n := 0
	for {
		line, err := br.ReadString('\n')
		if err != nil {
			return
		}
		if l := strings.ToLower(line); strings.HasPrefix(l, "content-length:") {
			n, _ = strconv.Atoi(strings.TrimSpace(line[len("content-length:"):]))
		}
		if line == "\r\n" {
			break
		}
	}
	if _, err := io.CopyN(io.Discard, br, int64(n)); err != nil {
		return
	}
	p.good.Add(1)
	switch mode {
	case 1:
		fmt.Fprint(conn, "HTTP/1.1 200 OK\r\nContent-Length: 0\r\nConnection: close\r\n\r\n")
	case 2:
		fmt.Fprint(conn, "HTTP/1.1 500 Internal Server Error\r\nContent-Length: 3\r\nConnection: close\r\n\r\nno\n")
	case 3:
		if n%2 == 0 {
			fmt.Fprint(conn, "\x00\xff garbage \r\n\r\n")
		} else {
			fmt.Fprint(conn, "HTTP/1.1 200 OK\r\nContent-Len") // truncated head
		}
	case 6:
		// never answers; the harness ends the stall by closing the connection (deferred)
	}
}

// c11ShareMode extracts the share mode (0 = sharing disabled) from a case configuration.
func c11ShareMode(cfg uint16) int {
	m := int(cfg>>7) & 7
	return m
}

// c11AwaitShares waits (bounded) until `want` shares started by the current case have visibly ended.
func (e *c11LibEnv) c11AwaitShares(mode int, want, handled0, failed0 int64) (ok bool) {
	if want == 0 {
		return true
	}
	deadline := time.Now().Add(3 * time.Second)
	for time.Now().Before(deadline) {
		done := false
		if mode == 1 {
			done = e.peer.handled.Load()-handled0 >= want
		} else {
			done = e.slog.failed.Load()-failed0 >= want
		}
		if done {
			// let the sharing goroutine run to its end
			for i := 0; i < 20; i++ {
				runtime.Gosched()
			}
			time.Sleep(100 * time.Microsecond)
			return true
		}
		time.Sleep(50 * time.Microsecond)
	}
	return false
}
