package lib

// Shared harness pieces for the in-package /verif checks of pkg/station/lib. This file is injected
// with `go test -overlay`; it never exists in /repo.

import (
	"bytes"
	"encoding/binary"
	"fmt"
	golog "log"
	"net"
	"os"
	"path/filepath"
	"sync"
	"testing"
	"time"

	"github.com/refraction-networking/conjure/pkg/station/log"
	"github.com/refraction-networking/conjure/pkg/transports/wrapping/min"
	"github.com/refraction-networking/conjure/pkg/transports/wrapping/obfs4"
	"github.com/refraction-networking/conjure/pkg/transports/wrapping/prefix"
	pb "github.com/refraction-networking/conjure/proto"
	"golang.org/x/crypto/curve25519"
	"google.golang.org/protobuf/proto"
	"google.golang.org/protobuf/types/known/anypb"
)

func vCurvePub(priv [32]byte) [32]byte {
	var pub [32]byte
	p, err := curve25519.X25519(priv[:], curve25519.Basepoint)
	if err != nil {
		panic(err)
	}
	copy(pub[:], p)
	return pub
}

const vDefaultSubnets = `
[Networks]
    [Networks.1]
        Generation = 1
        [[Networks.1.WeightedSubnets]]
            Weight = 9
            Subnets = ["192.122.190.0/24", "2001:48a8:687f:1::/64"]
    [Networks.957]
        Generation = 957
        [[Networks.957.WeightedSubnets]]
            Weight = 9
            RandomizeDstPort = true
            Subnets = ["192.122.190.0/24", "2001:48a8:687f:1::/64"]
        [[Networks.957.WeightedSubnets]]
            Weight = 1
            RandomizeDstPort = false
            Subnets = ["141.219.0.0/16", "35.8.0.0/16"]
`

// vAnn is one announcement the registry made to the detector.
type vAnn struct {
	Op      string // "New" or "Update"
	Phantom string
	Ident   string // hex of transport identifier
	Secret  string
	Covert  string
	Reg     *DecoyRegistration `json:"-"`
}

// vTester is a scripted liveness.Tester.
type vTester struct {
	mu      sync.Mutex
	Calls   []string
	Verdict func(addr string, port uint16) (bool, error)
}

func (v *vTester) PhantomIsLive(addr string, port uint16) (bool, error) {
	v.mu.Lock()
	v.Calls = append(v.Calls, fmt.Sprintf("%s:%d", addr, port))
	f := v.Verdict
	v.mu.Unlock()
	if f == nil {
		return false, nil
	}
	return f(addr, port)
}
func (v *vTester) PrintAndReset(*log.Logger) {}
func (v *vTester) PrintStats(*log.Logger)    {}
func (v *vTester) Reset()                    {}
func (v *vTester) NCalls() int {
	v.mu.Lock()
	defer v.mu.Unlock()
	return len(v.Calls)
}

type vEnv struct {
	rm   *RegistrationManager
	mu   sync.Mutex
	anns []vAnn
	live *vTester
	logs *vSyncBuf
	priv [32]byte
	pub  [32]byte
}

type vSyncBuf struct {
	mu sync.Mutex
	b  bytes.Buffer
}

func (s *vSyncBuf) Write(p []byte) (int, error) {
	s.mu.Lock()
	defer s.mu.Unlock()
	return s.b.Write(p)
}
func (s *vSyncBuf) String() string {
	s.mu.Lock()
	defer s.mu.Unlock()
	return s.b.String()
}

var vSubnetMu sync.Mutex

// vWriteSubnets writes a phantom subnet file and points PHANTOM_SUBNET_LOCATION at it.
func vWriteSubnets(dir, content string) string {
	p := filepath.Join(dir, fmt.Sprintf("phantom_subnets_%d.toml", time.Now().UnixNano()))
	if err := os.WriteFile(p, []byte(content), 0o644); err != nil {
		panic(err)
	}
	os.Setenv("PHANTOM_SUBNET_LOCATION", p)
	return p
}

// vNewEnv builds a RegistrationManager with the real min / obfs4 / prefix transports, a scripted
// liveness tester, and recorders instead of the Redis publication.
func vNewEnv(tb testing.TB, conf *RegConfig, subnets string) *vEnv {
	tb.Helper()
	if subnets == "" {
		subnets = vDefaultSubnets
	}
	vSubnetMu.Lock()
	vWriteSubnets(tb.TempDir(), subnets)
	if conf == nil {
		conf = &RegConfig{EnableIPv4: true, EnableIPv6: true}
	}
	conf.ParseBlocklists()
	rm := NewRegistrationManager(conf)
	vSubnetMu.Unlock()
	if rm == nil {
		tb.Fatalf("harness: NewRegistrationManager returned nil")
	}
	e := &vEnv{rm: rm, live: &vTester{}, logs: &vSyncBuf{}}
	rm.LivenessTester = e.live
	rm.Logger = log.New(e.logs, "[REG] ", golog.Ldate|golog.Lmicroseconds)
	for i := range e.priv {
		e.priv[i] = byte(i*7 + 1)
	}
	e.priv[0] &= 248
	e.priv[31] &= 127
	e.priv[31] |= 64
	e.pub = vCurvePub(e.priv)
	pt, err := prefix.Default([][32]byte{e.priv})
	if err != nil {
		tb.Fatalf("harness: prefix.Default: %v", err)
	}
	_ = rm.AddTransport(pb.TransportType_Min, min.Transport{})
	_ = rm.AddTransport(pb.TransportType_Obfs4, obfs4.Transport{})
	_ = rm.AddTransport(pb.TransportType_Prefix, pt)
	rm.registeredDecoys.registerForDetector = func(d *DecoyRegistration) { e.announce("New", d) }
	rm.registeredDecoys.updateInDetector = func(d *DecoyRegistration) { e.announce("Update", d) }
	return e
}

func (e *vEnv) announce(op string, d *DecoyRegistration) {
	id := ""
	if t, ok := e.rm.registeredDecoys.transports[d.Transport]; ok {
		id = fmt.Sprintf("%x", t.GetIdentifier(d))
	}
	e.mu.Lock()
	e.anns = append(e.anns, vAnn{Op: op, Phantom: d.PhantomIp.String(), Ident: id, Secret: fmt.Sprintf("%x", d.Keys.SharedSecret), Covert: d.Covert, Reg: d})
	e.mu.Unlock()
}

func (e *vEnv) Anns() []vAnn {
	e.mu.Lock()
	defer e.mu.Unlock()
	return append([]vAnn(nil), e.anns...)
}

// vSecret returns a deterministic 32-byte secret for index i (distinct first 8 bytes per i).
func vSecret(i int) []byte {
	s := make([]byte, 32)
	binary.BigEndian.PutUint64(s, 0xC0DE000000000000|uint64(i))
	for j := 8; j < 32; j++ {
		s[j] = byte(i*31 + j)
	}
	return s
}

// vParams builds the client's transport params for a transport.
func vParams(tt pb.TransportType, prefixID int32, randomize bool) *anypb.Any {
	var m proto.Message
	switch tt {
	case pb.TransportType_Prefix:
		m = &pb.PrefixTransportParams{PrefixId: proto.Int32(prefixID), RandomizeDstPort: proto.Bool(randomize)}
	default:
		m = &pb.GenericTransportParams{RandomizeDstPort: proto.Bool(randomize)}
	}
	a, err := anypb.New(m)
	if err != nil {
		panic(err)
	}
	return a
}

// vWrapper builds the C2SWrapper a registrar would forward for this client registration.
func vWrapper(secret []byte, tt pb.TransportType, prefixID int32, covert string, v4, v6 bool, libver uint32, gen uint32, src pb.RegistrationSource, regAddr net.IP) *pb.C2SWrapper {
	c2s := &pb.ClientToStation{
		ClientLibVersion:    proto.Uint32(libver),
		DecoyListGeneration: proto.Uint32(gen),
		CovertAddress:       proto.String(covert),
		V4Support:           proto.Bool(v4),
		V6Support:           proto.Bool(v6),
		Transport:           tt.Enum(),
		TransportParams:     vParams(tt, prefixID, false),
		Flags:               &pb.RegistrationFlags{},
	}
	w := &pb.C2SWrapper{
		SharedSecret:        append([]byte(nil), secret...),
		RegistrationPayload: c2s,
		RegistrationSource:  src.Enum(),
	}
	if regAddr != nil {
		w.RegistrationAddress = []byte(regAddr)
	}
	return w
}

// vShiftAge makes every timeout record of reg's (phantom, identifier) look d older.
func (e *vEnv) vShiftAll(d time.Duration) {
	r := e.rm.registeredDecoys
	r.m.Lock()
	for _, to := range r.decoysTimeouts {
		to.registrationTime = to.registrationTime.Add(-d)
	}
	r.m.Unlock()
}

// resetRegistry forgets every tracked registration (transports and detector hooks stay).
func (e *vEnv) resetRegistry() {
	old := e.rm.registeredDecoys
	nr := NewRegisteredDecoys()
	for k, v := range old.transports {
		nr.transports[k] = v
	}
	nr.registerForDetector = old.registerForDetector
	nr.updateInDetector = old.updateInDetector
	e.rm.registeredDecoys = nr
	e.mu.Lock()
	e.anns = nil
	e.mu.Unlock()
}

