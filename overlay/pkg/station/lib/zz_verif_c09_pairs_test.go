package lib

// C09 (racing pairs) — real goroutine races against the serial-replay oracle.
//
// The controlled scheduler owns the schedule only where the pipeline calls out (logger, tester,
// announcement callbacks). A critical section that is split without any call-out in the gap is
// invisible to it. Here two or three operations are released from a barrier with a varying offset,
// thousands of times per scenario, on real cores; the observable outcome of every run must be one of
// the outcomes that a serial order of the same operations produces (computed once per scenario by
// replaying the real code serially). No timing decides anything: a run either matches a serial
// outcome or it does not.

import (
	"fmt"
	golog "log"
	"runtime"
	"sort"
	"strings"
	"sync"
	"sync/atomic"
	"testing"

	"github.com/refraction-networking/conjure/pkg/station/log"
	"verif/harness/vh"
)

type c09PairCase struct {
	Scn    c09Scenario `json:"scenario"`
	Rounds int         `json:"rounds"`
}

func c09SerialOutcomes(e *vEnv, scn c09Scenario) (map[string]string, error) {
	ops := c09Ops(scn)
	var before [][2]int
	for x, ox := range ops {
		for y, oy := range ops {
			if x != y && ox.actor == oy.actor && ox.phase < oy.phase {
				before = append(before, [2]int{x, y})
			}
		}
	}
	out := map[string]string{}
	var serr error
	c09Perms(len(ops), before, func(order []int) bool {
		o, err := c09Serial(e, scn, ops, order)
		if err != nil {
			serr = err
			return true
		}
		var names []string
		for _, oi := range order {
			names = append(names, fmt.Sprintf("%d.%d", ops[oi].actor, ops[oi].phase))
		}
		out[o.String()] = strings.Join(names, " ")
		return false
	})
	return out, serr
}

// c09RaceOnce runs the scenario's actors on real goroutines released from a spin barrier; actor i
// additionally spins offs[i] iterations so that the relative timing sweeps over the operations.
func c09RaceOnce(e *vEnv, scn c09Scenario, offs []int) (c09Obs, string, error) {
	w, err := c09Init(e, scn)
	if err != nil {
		return c09Obs{}, "", err
	}
	n := len(scn.Actors)
	results := map[int]string{}
	var mu sync.Mutex
	var ready, goFlag int32
	var wg sync.WaitGroup
	var panicMsg atomic.Value
	for i, a := range scn.Actors {
		rmCopy := *e.rm
		rmCopy.Logger = log.New(discardWriter{}, "", golog.Lmsgprefix)
		live := a.Live
		rmCopy.LivenessTester = &vTester{Verdict: func(string, uint16) (bool, error) { return live, nil }}
		wg.Add(1)
		go func(i int, a c09Actor, rm *RegistrationManager) {
			defer wg.Done()
			defer func() {
				if p := recover(); p != nil {
					panicMsg.Store(fmt.Sprintf("actor %d (%s) panicked: %v", i, a.Kind, p))
				}
			}()
			atomic.AddInt32(&ready, 1)
			for atomic.LoadInt32(&goFlag) == 0 {
			}
			for k := 0; k < offs[i]; k++ {
				_ = atomic.LoadInt32(&goFlag)
			}
			res := c09RunActor(w, rm, i, a, nil)
			mu.Lock()
			results[i] = res
			mu.Unlock()
		}(i, a, &rmCopy)
	}
	for atomic.LoadInt32(&ready) != int32(n) {
		runtime.Gosched()
	}
	atomic.StoreInt32(&goFlag, 1)
	wg.Wait()
	if p := panicMsg.Load(); p != nil {
		return c09Obs{}, p.(string), nil
	}
	return c09Observe(w, results), "", nil
}

func c09PairScenarios() []c09Scenario {
	aged := []c09Pre{{Secret: 5, TT: 0, AgeS: 11 * 60, Valid: true}, {Secret: 6, TT: 0, AgeS: 7 * 3600, Used: true, Valid: true}, {Secret: 7, TT: 0, AgeS: 60, Valid: true}}
	one := []c09Pre{{Secret: 5, TT: 0, AgeS: 11 * 60, Valid: true}}
	return []c09Scenario{
		{Pre: one, Actors: []c09Actor{{Kind: "sweep"}, {Kind: "lookup", Secret: 5}}},
		{Pre: aged, Actors: []c09Actor{{Kind: "sweep"}, {Kind: "lookup", Secret: 5}}},
		{Pre: aged, Actors: []c09Actor{{Kind: "sweep"}, {Kind: "ingest", Secret: 5, Covert: "ok1"}}},
		{Pre: aged, Actors: []c09Actor{{Kind: "sweep"}, {Kind: "lookup", Secret: 7}, {Kind: "ingest", Secret: 7, Covert: "ok1"}}},
		{Actors: []c09Actor{{Kind: "ingest", Secret: 1, Covert: "ok1"}, {Kind: "ingest", Secret: 1, Covert: "ok1"}}},
		{Actors: []c09Actor{{Kind: "ingest", Secret: 1, Covert: "ok1", V6: true}, {Kind: "ingest", Secret: 1, Covert: "ok1", V6: true}, {Kind: "ingest", Secret: 1, Covert: "ok1", V6: true}}},
		{Actors: []c09Actor{{Kind: "ingest", Secret: 1, Covert: "ok1", Pre: true}, {Kind: "ingest", Secret: 1, Covert: "ok1", Pre: true}}},
		{Actors: []c09Actor{{Kind: "ingest", Secret: 1, Covert: "bad"}, {Kind: "ingest", Secret: 1, Covert: "ok1"}}},
		{Actors: []c09Actor{{Kind: "ingest", Secret: 1, Covert: "ok1"}, {Kind: "ingest", Secret: 1, Covert: "ok2"}, {Kind: "ingest", Secret: 1, Covert: "malformed"}}},
		{Actors: []c09Actor{{Kind: "ingest", Secret: 1, Covert: "ok1"}, {Kind: "lookup", Secret: 1}}},
		{Pre: []c09Pre{{Secret: 1, TT: 0, AgeS: 60, Valid: true}}, Actors: []c09Actor{{Kind: "ingest", Secret: 1, Covert: "ok1"}, {Kind: "ingest", Secret: 1, Covert: "ok1"}, {Kind: "ingest", Secret: 1, Covert: "ok1"}}},
		{Pre: []c09Pre{{Secret: 1, TT: 0, AgeS: 60, Valid: true}}, Actors: []c09Actor{{Kind: "lookup", Secret: 1}, {Kind: "lookup", Secret: 1}}},
	}
}

func TestVerif_C09_pairs(t *testing.T) {
	rec := vh.NewRec("C09", "pairs", "fixed 2-3 actor scenarios (sweeper vs handler on an entry about to expire, sweeper vs duplicate ingest, conflicting ingests, ingest vs handler, concurrent duplicates, concurrent handlers) raced on real goroutines from a barrier with a sweeping start offset, thousands of rounds each; oracle: every round's outcome (final registry state, announcements, per-operation results) equals the outcome of some serial order of the same operations, obtained by replaying the real code serially; non-trivial = a round whose outcome differs from the outcome of running the actors in index order (the race really reordered something); one evaluation = one round; distinct by (scenario, outcome)")
	defer rec.Flush()
	if vh.ReplayFile() != "" {
		t.Skip("races on real goroutines are not replayable; re-run the quick tier")
	}
	e := vNewEnv(t, nil, "")
	rounds := vh.Pick(2500, 60000)
	for si, scn := range c09PairScenarios() {
		if !vh.Mine(si) {
			continue
		}
		serial, err := c09SerialOutcomes(e, scn)
		if err != nil {
			t.Fatalf("harness problem: %v", err)
		}
		// outcome of the index order, to tell whether a round was reordered by the race
		first := ""
		{
			ops := c09Ops(scn)
			order := make([]int, len(ops))
			for i := range order {
				order[i] = i
			}
			o, _ := c09Serial(e, scn, ops, order)
			first = o.String()
		}
		seen := map[string]int{}
		n := len(scn.Actors)
		for r := 0; r < rounds; r++ {
			offs := make([]int, n)
			// sweep the relative start offsets over a few microseconds
			for i := 0; i < n; i++ {
				offs[i] = ((r >> uint(4*i)) & 15) * (1 + (r/65536)%7) * 12
			}
			obs, pan, err := c09RaceOnce(e, scn, offs)
			if err != nil {
				t.Fatalf("harness problem: %v", err)
			}
			if pan != "" {
				rec.Case(true, vh.Digest(fmt.Sprintf("%d-panic", si)), map[string]any{"scenario": scn}, "panic")
				rec.Violation(t, "panic", c09PairCase{Scn: scn, Rounds: r}, "%s", pan)
				return
			}
			s := obs.String()
			seen[s]++
			rec.Case(s != first, vh.Digest(fmt.Sprintf("%d|%s", si, s)), nil, fmt.Sprintf("scenario%d", si))
			if _, ok := serial[s]; !ok {
				var cands []string
				for k, v := range serial {
					cands = append(cands, fmt.Sprintf("[%s] => %s", v, k))
				}
				sort.Strings(cands)
				if len(cands) > 8 {
					cands = cands[:8]
				}
				rec.Violation(t, "not-serialisable:"+c09Signature(scn), c09PairCase{Scn: scn, Rounds: r},
					"round %d of racing %s: outcome matches no serial order.\n concurrent: %s\n serial candidates:\n  %s", r, c09Signature(scn), s, strings.Join(cands, "\n  "))
				return
			}
		}
		rec.Note("scenario %d (%s): %d rounds, %d distinct outcomes observed of %d serial outcomes", si, c09Signature(scn), rounds, len(seen), len(serial))
	}
}
