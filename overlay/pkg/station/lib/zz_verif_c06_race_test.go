package lib

// C06 — admissions WHILE the configuration is being reloaded (stress-sampled schedules).
//
// The reload histories of the `reload` sub-check look at the policy before and after OnReload; this
// sub-check looks at it during OnReload. Two configurations A and B that BOTH forbid covert X and
// both permit covert Y are reloaded alternately by one goroutine running exactly what main() runs on
// SIGHUP (parse a fresh RegConfig, hand it to RegistrationManager.OnReload), while reader goroutines
// keep asking the running manager for an admission decision on X and on Y. Oracle (functional, no
// race detector — the unchanged OnReload is unsynchronised, that is C09's recorded finding
// race:OnReload): every decision for X is a refusal and every decision for Y is an admission,
// whichever of the two policies, or whatever mixture of old and new list a reader sees.
//
// Why a reader on the unchanged tree can never be wrong here: OnReload swaps complete, already parsed
// slices; A's and B's lists have the same length and both end with the entry that decides X (or Y),
// so even a torn slice header (pointer of one, length of the other) denotes a full list of one
// of the two policies; both configurations are of the same kind (both blocklist-only or both with
// an allowlist), so the allowlist switch never changes. Lists are long (thousands of entries, the
// deciding entry LAST) so that a reload that rebuilds a live list in place is caught in the act.
//
// Schedules are sampled by the Go scheduler, not controlled: a miss is "explored less", a replay of
// a saved case re-runs the same scenario but not the same interleaving. Panics in a reader are
// recorded as class race:reader-panicked and in the notes, not as a violation of this property.

import (
	"fmt"
	"net/netip"
	"sync"
	"sync/atomic"
	"testing"

	"pgregory.net/rapid"
	"verif/harness/vh"
)

type c06RaceCase struct {
	N       int    `json:"n"`       // filler entries in front of the deciding entry
	Kind    string `json:"kind"`    // "block" = blocklist-only | "allow" = allowlist (+ the same blocklist)
	Cover   string `json:"cover"`   // blocklist entry (last) that forbids X
	X       string `json:"x"`       // covert both configurations forbid
	YCover  string `json:"y_cover"` // kind allow: allowlist entry (last) that permits Y
	Y       string `json:"y"`       // covert both configurations permit
	SameAB  bool   `json:"same_ab"` // B's lists are identical to A's (a reload that changes nothing)
	Public  bool   `json:"public"`  // covert_blocklist_public_addrs in both
	Reloads int    `json:"reloads"` // SIGHUP sequences
	Readers int    `json:"readers"` // concurrent deciders
}

func c06RaceFill(base, n int) []string {
	out := make([]string, 0, n+1)
	for i := 0; i < n; i++ {
		if i%7 == 6 {
			out = append(out, fmt.Sprintf("2001:db8:%x:%x::/64", base, i))
		} else {
			out = append(out, fmt.Sprintf("%d.%d.%d.0/24", base, (i>>8)&0xff, i&0xff))
		}
	}
	return out
}

func (c c06RaceCase) cfgs() (a, b c06Cfg) {
	mk := func(base int) c06Cfg {
		cfg := c06Cfg{Public: c.Public}
		cfg.Block = append(c06RaceFill(base, c.N), c.Cover)
		if c.Kind == "allow" {
			cfg.Allow = append(c06RaceFill(base+20, c.N), c.YCover)
		}
		return cfg
	}
	a = mk(20)
	if c.SameAB {
		return a, mk(20)
	}
	return a, mk(60)
}

func c06GenRace(rt *rapid.T) c06RaceCase {
	c := c06RaceCase{
		N:       rapid.SampledFrom([]int{4000, 12000, 30000}).Draw(rt, "n"),
		Kind:    rapid.SampledFrom([]string{"block", "block", "block", "allow"}).Draw(rt, "kind"),
		SameAB:  rapid.Bool().Draw(rt, "same"),
		Public:  rapid.IntRange(0, 3).Draw(rt, "public") == 0,
		Reloads: rapid.IntRange(4, 10).Draw(rt, "reloads"),
		Readers: rapid.IntRange(2, 6).Draw(rt, "readers"),
	}
	xs := [][2]string{{"127.0.0.0/8", "127.0.0.1:22"}, {"127.0.0.2/32", "127.0.0.2:443"}, {"::1/128", "[::1]:80"}, {"fd00::/8", "[fd00::5]:443"}, {"169.254.0.0/16", "169.254.169.254:80"}, {"127.0.0.0/8", "[::ffff:127.0.0.1]:8080"}}
	x := rapid.SampledFrom(xs).Draw(rt, "x")
	c.Cover, c.X = x[0], x[1]
	ys := [][2]string{{"8.8.8.0/24", "8.8.8.8:443"}, {"2606:4700::/32", "[2606:4700::1111]:443"}, {"93.184.216.34/32", "93.184.216.34:80"}}
	y := rapid.SampledFrom(ys).Draw(rt, "y")
	c.YCover, c.Y = y[0], y[1]
	return c
}

func c06CheckRace(t vh.Fataler, rec *vh.Rec, e *vEnv, c c06RaceCase) {
	if c.N < 1 || c.N > 60000 || c.Readers < 1 || c.Readers > 32 || c.Reloads < 1 || c.Reloads > 200 {
		t.Fatalf("harness problem: case out of range: %+v", c)
	}
	a, b := c.cfgs()
	// the reference fixes what both policies say about X and Y (and what the accepted form of Y is)
	wantY := ""
	for _, cfg := range []c06Cfg{a, b} {
		pol, err := c06NewPolicy(cfg)
		if err != nil {
			t.Fatalf("harness problem: %v", err)
		}
		xa, err1 := netip.ParseAddrPort(c.X)
		ya, err2 := netip.ParseAddrPort(c.Y)
		if err1 != nil || err2 != nil {
			t.Fatalf("harness problem: X / Y must be literals: %v %v", err1, err2)
		}
		okX, _, _ := pol.permitted(xa.Addr())
		okY, _, _ := pol.permitted(ya.Addr())
		if okX || !okY {
			t.Fatalf("harness problem: the reference does not forbid X (%v) and permit Y (%v) under %s configuration", !okX, okY, c.Kind)
		}
		wantY = netip.AddrPortFrom(c06Plain(ya.Addr()), ya.Port()).String()
	}
	confA := a.regConfig()
	e.rm.RegConfig = confA
	// quiescent sanity: the station agrees before anything moves
	if r, _ := e.rm.ParseOrResolveBlocklisted(c.X); r != "" {
		rec.Case(true, vh.Digest(c), c, "race:"+c.Kind)
		rec.Violation(t, "covert:blocklisted-accepted", c, "before any reload: X %q admitted as %q (deciding entry %q is the last of %d)", c.X, r, c.Cover, c.N+1)
		return
	}
	if r, _ := e.rm.ParseOrResolveBlocklisted(c.Y); r != wantY {
		rec.Case(true, vh.Digest(c), c, "race:"+c.Kind)
		rec.Violation(t, "covert:canonical-rejected", c, "before any reload: Y %q answered %q, expected %q", c.Y, r, wantY)
		return
	}

	var (
		stop      int32
		reloading int32
		wg        sync.WaitGroup
		mu        sync.Mutex
		badX      []string
		badY      []string
		panics    []string
		checks    int64
		overlap   int64
	)
	for i := 0; i < c.Readers; i++ {
		wg.Add(1)
		go func(i int) {
			defer wg.Done()
			for n := 0; atomic.LoadInt32(&stop) == 0 || n < 4; n++ {
				var rx, ry string
				during := atomic.LoadInt32(&reloading) != 0
				p := func() (p any) {
					defer func() { p = recover() }()
					rx, _ = e.rm.ParseOrResolveBlocklisted(c.X)
					if (n+i)%3 == 0 {
						ry, _ = e.rm.ParseOrResolveBlocklisted(c.Y)
					} else {
						ry = wantY
					}
					return nil
				}()
				atomic.AddInt64(&checks, 1)
				if during && atomic.LoadInt32(&reloading) != 0 {
					atomic.AddInt64(&overlap, 1)
				}
				if p != nil || rx != "" || ry != wantY {
					mu.Lock()
					switch {
					case p != nil:
						panics = append(panics, fmt.Sprint(p))
					case rx != "":
						badX = append(badX, rx)
					default:
						badY = append(badY, ry)
					}
					mu.Unlock()
					if p != nil {
						return
					}
				}
			}
		}(i)
	}
	// the SIGHUP sequence of cmd/application/main.go, Reloads times, alternating B, A, B, ...
	for r := 0; r < c.Reloads; r++ {
		next := b
		if r%2 == 1 {
			next = a
		}
		atomic.StoreInt32(&reloading, 1)
		nc := next.regConfig()
		e.rm.OnReload(nc)
		atomic.StoreInt32(&reloading, 0)
	}
	atomic.StoreInt32(&stop, 1)
	wg.Wait()

	classes := []string{"race:" + c.Kind}
	if c.SameAB {
		classes = append(classes, "race:reload-of-identical-policy")
	}
	if overlap > 0 {
		classes = append(classes, "race:decisions-overlapped-a-reload")
	}
	if len(panics) > 0 {
		classes = append(classes, "race:reader-panicked")
		rec.Note("reader panicked during reload (case %+v): %s", c, panics[0])
	}
	rec.ClassN("race:decisions", checks)
	rec.ClassN("race:decisions-during-reload", overlap)
	rec.Case(overlap > 0, vh.Digest(c), c, classes...)
	if len(badX) > 0 {
		rec.Violation(t, "covert:admitted-during-reload", c, "while the station was being reloaded between two configurations that both forbid it (%s kind, deciding entry %q last of %d, identical lists=%v), covert %q was admitted as %q in %d of %d decisions", c.Kind, c.Cover, c.N+1, c.SameAB, c.X, badX[0], len(badX), checks)
		return
	}
	if len(badY) > 0 {
		rec.Violation(t, "covert:refused-during-reload", c, "while the station was being reloaded between two configurations that both permit it (%s kind), well-formed covert %q was answered %q instead of %q in %d of %d decisions", c.Kind, c.Y, badY[0], wantY, len(badY), checks)
	}
}

func TestVerif_C06_reloadrace(t *testing.T) {
	rec := vh.NewRec("C06", "reloadrace", "rapid-drawn scenarios, scheduler-sampled interleavings: two configurations of the same kind (blocklist-only, or allowlist + blocklist) with lists of 4001-30001 entries whose LAST entry decides covert X (forbidden by both) / covert Y (permitted by both), identical or different filler entries, public-address blocking on/off; one goroutine runs the SIGHUP sequence (fresh RegConfig + ParseBlocklists, RegistrationManager.OnReload) 4-10 times alternating between them while 2-6 goroutines keep asking the running manager to decide X and Y. Oracle: every decision on X is a refusal, every decision on Y the canonical admission. Non-trivial: at least one decision began and ended while a reload was in progress. Distinct by scenario; not run under the race detector (the unchanged OnReload is unsynchronised: C09 race:OnReload)")
	defer rec.Flush()
	rec.Require("race:block", "race:decisions-overlapped-a-reload", "race:reload-of-identical-policy")
	e := vNewEnv(t, nil, c06Subnets)
	var c c06RaceCase
	if c06Replay(t, &c) {
		c06CheckRace(t, rec, e, c)
		return
	}
	rapid.Check(t, func(rt *rapid.T) {
		c06CheckRace(rt, rec, e, c06GenRace(rt))
	})
}
