package lib

// C17 (detector channel down) — the announcement to the detector carries the registrant's address
// (client_ip) by design; when the publication fails (Redis unreachable) whatever the station says
// about the failure must not contain it. The real sendToDetector / getRedisClient run against the
// station's hard-coded Redis address while nothing listens there.

import (
	"fmt"
	golog "log"
	"net"
	"os"
	"path/filepath"
	"strings"
	"syscall"
	"testing"
	"time"

	"github.com/refraction-networking/conjure/pkg/station/log"
	pb "github.com/refraction-networking/conjure/proto"
	"verif/harness/vh"
)

type c17dCase struct {
	Addr string `json:"addr"` // v4 | v6 | v4mapped
	Op   string `json:"op"`   // new | update
}

func TestVerif_C17_detectordown(t *testing.T) {
	rec := vh.NewRec("C17", "detectordown", "exhaustive: {IPv4, IPv6, v4-mapped registrant} x {validation (New), activation (Update)} with the REAL publication path (sendToDetector, the station's own Redis client) while nothing listens on the station's Redis address, so every publication fails; oracle: nothing written to stdout, stderr, the std logger or the station loggers contains the registrant address; non-trivial = the publication was attempted and failed; recorded as not-run when the Redis port is in use on this machine")
	defer rec.Flush()
	if vh.ReplayFile() != "" && !strings.Contains(vh.ReplayFile(), "detectordown") {
		t.Skip("replay file belongs to another sub-check")
	}
	if s, _ := vh.Shard(); s != 0 {
		return // a handful of cases: one shard is enough
	}
	// the C10 'realclient' sub-check binds the same port for its fake Redis: never at the same time
	lock, err := os.OpenFile(filepath.Join(os.TempDir(), "verif-c10-redis-port.lock"), os.O_CREATE|os.O_RDWR, 0o666)
	if err != nil {
		rec.Note("NOT RUN: cannot open the lock file: %v", err)
		rec.Class("not-run")
		return
	}
	defer lock.Close()
	locked := false
	for deadline := time.Now().Add(150 * time.Second); time.Now().Before(deadline); time.Sleep(200 * time.Millisecond) {
		if syscall.Flock(int(lock.Fd()), syscall.LOCK_EX|syscall.LOCK_NB) == nil {
			locked = true
			break
		}
	}
	if !locked {
		rec.Note("NOT RUN: another run held the Redis-port lock for 150 s")
		rec.Class("not-run")
		return
	}
	defer syscall.Flock(int(lock.Fd()), syscall.LOCK_UN)
	if c, err := net.DialTimeout("tcp", "127.0.0.1:6379", 2*time.Second); err == nil {
		c.Close()
		rec.Note("NOT RUN: something listens on the station's Redis address 127.0.0.1:6379 on this machine; the failing-publication path cannot be exercised")
		rec.Class("not-run")
		return
	}
	rec.SetExhaustive(true)
	e := vNewEnv(t, nil, "")
	run := func(c c17dCase) {
		var regAddr net.IP
		var needles []string
		switch c.Addr {
		case "v4":
			regAddr = net.ParseIP("203.0.113.77").To4()
			needles = []string{"203.0.113.77"}
		case "v4mapped":
			regAddr = net.ParseIP("203.0.113.77").To16()
			needles = []string{"203.0.113.77"}
		default:
			regAddr = net.ParseIP("2001:db8::c1e7:beef")
			needles = []string{"c1e7:beef", "C1E7:BEEF"}
		}
		// a registry with the station's own detector hooks (the environment's recorders replaced)
		e.resetRegistry()
		fresh := NewRegisteredDecoys()
		r := e.rm.registeredDecoys
		r.m.Lock()
		r.registerForDetector, r.updateInDetector = fresh.registerForDetector, fresh.updateInDetector
		r.m.Unlock()
		v6 := c.Addr == "v6"
		w := vWrapper(vSecret(7700), pb.TransportType_Min, 0, "198.51.100.10:443", !v6, v6, 4, 957, pb.RegistrationSource_API, regAddr)
		reg, err := e.rm.NewRegistrationC2SWrapper(w, v6)
		if err != nil {
			t.Fatalf("harness problem: %v", err)
		}
		// capture everything the process writes
		tmp, err := os.CreateTemp(t.TempDir(), "out")
		if err != nil {
			t.Fatalf("harness problem: %v", err)
		}
		oldOut, oldErr, oldLog := os.Stdout, os.Stderr, golog.Writer()
		os.Stdout, os.Stderr = tmp, tmp
		golog.SetOutput(tmp)
		log.SetOutput(tmp)
		e.rm.Logger = log.New(tmp, "[REG] ", golog.Ldate|golog.Lmicroseconds)
		e.rm.ingestRegistration(reg)
		tracked, valid, _ := VerifRegState(e.rm, reg)
		if c.Op == "update" {
			e.rm.MarkActive(reg)
		}
		os.Stdout, os.Stderr = oldOut, oldErr
		golog.SetOutput(oldLog)
		log.SetOutput(oldLog)
		tmp.Close()
		b, _ := os.ReadFile(tmp.Name())
		logs := string(b)
		if !tracked || !valid {
			t.Fatalf("harness problem: the registration was not admitted (tracked=%v valid=%v): %s", tracked, valid, logs)
		}
		rec.Case(true, vh.Digest(c), c, "publication-failed", "addr:"+c.Addr, "op:"+c.Op)
		for _, n := range needles {
			if i := strings.Index(logs, n); i >= 0 {
				lo := strings.LastIndex(logs[:i], "\n") + 1
				line := logs[lo:]
				if hi := strings.Index(line, "\n"); hi >= 0 {
					line = line[:hi]
				}
				rec.Violation(t, "leak:detector-publish-failure", c, "the registrant address appears in the station's output when the publication to the detector fails: %q [%s, %s]", strings.TrimSpace(line), c.Addr, c.Op)
				return
			}
		}
	}
	if p := vh.ReplayFile(); p != "" {
		var c c17dCase
		if _, _, err := vh.LoadReplay(p, &c); err != nil {
			t.Fatal(err)
		}
		run(c)
		return
	}
	for _, a := range []string{"v4", "v6", "v4mapped"} {
		for _, op := range []string{"new", "update"} {
			run(c17dCase{Addr: a, Op: op})
		}
	}
	_ = fmt.Sprint
}
