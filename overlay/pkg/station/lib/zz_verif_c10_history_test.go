package lib

// C10, histories: "the lifetime it requests is the station's own lifetime for that state ... so the
// detector forwards a session for as long as the station would accept it" over sequences of events,
// not only for a single announcement.
//
// A history is: ingest a message (real parse + ingest path), then any of {ingest the same message
// again, a connection arrives (lookup, MarkActive, real Proxy with an unreachable covert), time passes, the sweeper runs}. Time is virtual:
// advancing it shifts every timestamp the station keeps for a registration backwards (the registry's expiry record
// and the registration's own RegistrationTime; the station only ever looks at time.Since / time.Until
// of them) and moves the model's clock. The detector is modelled from the
// announcements ACTUALLY published on the RESP server: each accepted New / Update (re)arms the
// session of its tag to "moment it was published + timeout_ns", keeping the longer one
// (sessions.rs: pubsub_add_or_update_session). At every sweep point, a registration the station
// still hands out to connection handling must have a live session in that model (60 s slack):
// station lifetime <= detector lifetime. (Equality at the boundaries is the `lifetimes` sub-check.)

import (
	"bytes"
	"errors"
	"fmt"
	"sort"
	"strings"
	"testing"
	"time"

	stationlog "github.com/refraction-networking/conjure/pkg/station/log"
	pb "github.com/refraction-networking/conjure/proto"
	"google.golang.org/protobuf/proto"
	"pgregory.net/rapid"
	"verif/harness/vh"
)

type c10HOp struct {
	Kind   string `json:"kind"` // ingest | active | adv | sweep
	DeltaS int64  `json:"delta_s,omitempty"`
}

func (o c10HOp) String() string {
	if o.Kind == "adv" {
		return fmt.Sprintf("adv(%v)", time.Duration(o.DeltaS)*time.Second)
	}
	return o.Kind
}

type c10History struct {
	Case c07Case  `json:"case"`
	Ops  []c10HOp `json:"ops"`
}

const c10Slack = 60 * time.Second

// c10HookWriter calls a function for every line a logger writes.
type c10HookWriter func(line []byte)

func (f c10HookWriter) Write(p []byte) (int, error) {
	f(p)
	return len(p), nil
}

// c10RegTag is the session key the detector uses for traffic belonging to registration d.
func c10RegTag(d *DecoyRegistration) (string, bool) {
	m := &pb.StationToDetector{
		PhantomIp: proto.String(d.PhantomIp.String()),
		ClientIp:  proto.String(d.registrationAddr.String()),
		DstPort:   proto.Uint32(uint32(d.PhantomPort)),
		Proto:     d.PhantomProto.Enum(),
	}
	s := c10Parse(m)
	if s.Verdict != "Ok" {
		return "", false
	}
	return c10Tag(s, m), true
}

// c10RunHistory applies the history. It returns class labels, a violation (or nil) and a harness error.
func c10RunHistory(w *c10World, h c10History) (map[string]bool, *c10Viol, error) {
	e := w.e
	cl := map[string]bool{}
	e.apply(h.Case.Conf, h.Case.Live)
	w.srv.Take()
	hookMark := c10ClientHook.Len()
	msg := c07Build(h.Case.Msg)
	now := time.Duration(0)                // virtual clock
	sessions := map[string]time.Duration{} // detector: tag -> virtual instant the session lapses
	var log []string
	arrivals, reloads := 0, 0

	absorb := func() (*c10Viol, error) {
		for _, p := range w.srv.Take() {
			m, v := w.decode(p)
			if v != nil {
				return v, nil
			}
			s := c10Parse(m)
			if err := c10CrossCheck(w.rust, m, s); err != nil {
				return nil, err
			}
			log = append(log, fmt.Sprintf("t=%v published %v %s (%v)", now, m.GetOperation(), m.GetPhantomIp(), time.Duration(m.GetTimeoutNs())))
			// "the lifetime it requests is the station's own lifetime for that state (10 minutes when
			// new, 6 hours once used)" - at whatever point of a history the message is published
			if op := m.GetOperation(); op == pb.StationOperations_New || op == pb.StationOperations_Update {
				want, applied := c10NewNs, e.rm.registeredDecoys.timeoutUnused
				if op == pb.StationOperations_Update {
					want, applied = c10UpdateNs, e.rm.registeredDecoys.timeoutActive
				}
				if m.GetTimeoutNs() != want || m.GetTimeoutNs() != uint64(applied) {
					return c10V("lifetime:"+op.String(), "%v for phantom %s published at t=%v requests a lifetime of %v; the station's lifetime for a registration in that state is %v (the sweeper applies %v). history: %s",
						op, m.GetPhantomIp(), now, time.Duration(m.GetTimeoutNs()), time.Duration(want), applied, strings.Join(log, "; ")), nil
				}
			}
			if s.Verdict != "Ok" {
				continue // the detector drops it (the announce sub-check reports that)
			}
			switch m.GetOperation() {
			case pb.StationOperations_New, pb.StationOperations_Update:
				until := now + time.Duration(m.GetTimeoutNs())
				tag := c10Tag(s, m)
				if cur, ok := sessions[tag]; !ok || cur < until {
					sessions[tag] = until
				}
			case pb.StationOperations_Clear:
				// no history shuts the station down: a running station never tells the detector to
				// drop every session (Cleanup() at shutdown is the only place for that)
				n := len(sessions)
				sessions = map[string]time.Duration{}
				return c10V("clear:published-while-running", "the station published a clear request at t=%v while it is running (no shutdown in this history); the detector drops all %d sessions it held. history: %s", now, n, strings.Join(log, "; ")), nil
			}
		}
		if errs := c10ClientHook.Since(hookMark); len(errs) > 0 {
			return nil, fmt.Errorf("redis client errors in the harness: %v", errs)
		}
		return nil, nil
	}
	sorted := func() []*DecoyRegistration {
		v := e.validRegs()
		sort.Slice(v, func(i, j int) bool { return v[i].PhantomIp.String() < v[j].PhantomIp.String() })
		return v
	}

	for step, o := range h.Ops {
		switch o.Kind {
		case "ingest":
			if len(e.validRegs()) > 0 {
				cl["history:duplicate-ingest"] = true
			} else if step > 0 {
				cl["history:re-ingest-after-expiry"] = true
			}
			if _, err := e.deliver(msg); errors.Is(err, errC07Harness) {
				return cl, nil, err
			}
			log = append(log, fmt.Sprintf("t=%v ingest", now))
		case "active":
			// a connection arrives: connection handling looks the registration up and marks it
			for _, d := range sorted() {
				for _, r := range e.rm.GetRegistrations(d.PhantomIp) {
					if r.(*DecoyRegistration) == d {
						w.use(d)
						cl["history:used"] = true
						if now > 0 {
							cl["history:used-after-time-passed"] = true
						}
						log = append(log, fmt.Sprintf("t=%v connection on %v", now, d.PhantomIp))
					}
				}
			}
		case "adv":
			d := time.Duration(o.DeltaS) * time.Second
			c10Advance(e, d) // every clock of the station: expiry records and the registrations' own
			now += d
		case "sweep":
			e.rm.RemoveOldRegistrations()
			log = append(log, fmt.Sprintf("t=%v sweep", now))
		case "reload-same", "reload-blocklist", "reload-other":
			// SIGHUP: a freshly parsed configuration is handed to OnReload. The station keeps every
			// tracked registration across a reload, so the detector must keep its sessions too.
			cur := e.rm.RegConfig
			nc := &RegConfig{EnableIPv4: cur.EnableIPv4, EnableIPv6: cur.EnableIPv6,
				PhantomBlocklist:       append([]string(nil), cur.PhantomBlocklist...),
				CovertBlocklistSubnets: append([]string(nil), cur.CovertBlocklistSubnets...),
				CovertAllowlistSubnets: append([]string(nil), cur.CovertAllowlistSubnets...)}
			switch o.Kind {
			case "reload-blocklist":
				reloads++
				nc.PhantomBlocklist = append(nc.PhantomBlocklist, fmt.Sprintf("203.0.113.%d/32", reloads)) // no phantom lives there
			case "reload-other":
				reloads++
				nc.CovertBlocklistSubnets = append(nc.CovertBlocklistSubnets, fmt.Sprintf("233.252.0.%d/32", reloads))
			}
			nc.ParseBlocklists()
			vSubnetMu.Lock()
			e.rm.OnReload(nc)
			vSubnetMu.Unlock()
			cl["history:"+o.Kind] = true
			if len(e.validRegs()) > 0 {
				cl["history:reload-with-registrations"] = true
			}
			log = append(log, fmt.Sprintf("t=%v %s", now, o.Kind))
		case "sweep-arrival":
			// A registration arrives DURING the sweep: at the debug line the sweeper writes between
			// collecting the expired set (under the read lock) and acting on it. The sweeper gets
			// its own logger for that (a log.Logger holds its mutex while writing, and the ingest
			// path logs through the manager's logger).
			arrivals++
			am := c07Clone(h.Case).Msg
			if len(am.Secret) >= 8 {
				am.Secret[len(am.Secret)-1] ^= byte(arrivals)
				am.Secret[0] ^= 0x5a
			}
			abytes := c07Build(am)
			fired := false
			var aerr error
			hook := c10HookWriter(func(line []byte) {
				if fired || !bytes.Contains(line, []byte("cleansing registrations")) {
					return
				}
				fired = true
				if _, err := e.deliver(abytes); errors.Is(err, errC07Harness) {
					aerr = err
				}
			})
			lg := stationlog.New(hook, "[SWEEP] ", 0)
			lg.SetLevel(stationlog.DebugLevel)
			expired, validExpired := e.rm.registeredDecoys.removeOldRegistrations(lg)
			e.rm.AddExpiredRegs(int64(expired), int64(validExpired))
			if aerr != nil {
				return cl, nil, aerr
			}
			if !fired {
				return cl, nil, fmt.Errorf("%w: the sweeper did not write its debug line between its phases; the arrival could not be placed", errC07Harness)
			}
			cl["history:arrival-during-sweep"] = true
			if len(e.validRegs()) > 0 {
				cl["history:arrival-during-sweep-admitted"] = true
			}
			log = append(log, fmt.Sprintf("t=%v sweep, with another registration arriving and being validated during it", now))
		}
		if v, err := absorb(); v != nil || err != nil {
			return cl, v, err
		}
		if o.Kind != "sweep" && o.Kind != "sweep-arrival" {
			continue
		}
		for _, until := range sessions {
			if until+c10Slack < now {
				cl["history:sweep-past-detector-lifetime"] = true
			}
		}
		for _, d := range sorted() {
			tag, ok := c10RegTag(d)
			if !ok {
				continue // not an announcement the detector can hold (outside the domain)
			}
			until, have := sessions[tag]
			if have && until+c10Slack >= now {
				cl["history:still-served-and-forwarded"] = true
				continue
			}
			state := "has no session for it"
			if have {
				state = fmt.Sprintf("let its session lapse at t=%v", until)
			}
			return cl, c10V("lifetime:station-outlives-detector",
				"at the sweep at t=%v the station still hands out the registration on phantom %v (port %d), but the detector %s: every lifetime the station asked for has run out, so the session is no longer forwarded. history: %s",
				now, d.PhantomIp, d.PhantomPort, state, strings.Join(log, "; ")), nil
		}
	}
	return cl, nil, nil
}

func c10HistoryCheck(t vh.Fataler, rec *vh.Rec, w *c10World, h c10History) {
	cl, v, err := c10RunHistory(w, h)
	if err != nil {
		t.Fatalf("harness problem: %v", err)
	}
	var classes []string
	for k := range cl {
		classes = append(classes, k)
	}
	sort.Strings(classes)
	rec.Case(cl["history:duplicate-ingest"] || cl["history:used"], vh.Digest(h), h, classes...)
	if v != nil {
		rec.Violation(t, v.Key, h, "%s", v.Msg)
	}
}

// c10EnumHistories: every short history over a 7-symbol alphabet (part of the `lifetimes` sub-check).
func c10EnumHistories(t *testing.T, rec *vh.Rec, w *c10World) {
	alpha := []c10HOp{{Kind: "ingest"}, {Kind: "active"}, {Kind: "adv", DeltaS: 5 * 60}, {Kind: "adv", DeltaS: 7 * 60},
		{Kind: "adv", DeltaS: 2*3600 + 59*60}, {Kind: "adv", DeltaS: 3*3600 + 5*60}, {Kind: "sweep"}, {Kind: "sweep-arrival"}, {Kind: "reload-blocklist"}}
	maxLen := vh.Pick(4, 5)
	idx := 0
	var gen func(prefix []c10HOp)
	gen = func(prefix []c10HOp) {
		idx++
		if vh.Mine(idx) {
			tp := c07TransportsAll[idx%len(c07TransportsAll)]
			c := c07Case{Live: "notlive", Conf: c07Conf{EnableV4: true, EnableV6: true, Transports: append([]int(nil), c07TransportsAll...)}}
			c.Msg = c07Msg{HasSecret: true, Secret: vh.Hex(vSecret(5000 + idx%97)), HasPayload: true, Source: 2, HasRegAddr: true, RegAddr: c07IP("198.51.100.7"),
				LibVer: 4, Gen: 957, Transport: tp, HasCovert: true, Covert: "192.0.2.10:443", V4: 1, V6: 1, Flags: 0}
			switch pb.TransportType(tp) {
			case pb.TransportType_Prefix:
				c.Msg.Params = c07Params{Kind: "prefix", PrefixID: 3}
			case pb.TransportType_DTLS:
				c.Msg.Params = c07Params{Kind: "dtls"}
			default:
				c.Msg.Params = c07Params{Kind: "generic"}
			}
			ops := append([]c10HOp{{Kind: "ingest"}}, prefix...)
			ops = append(ops, c10HOp{Kind: "sweep"})
			c10HistoryCheck(t, rec, w, c10History{Case: c, Ops: ops})
		}
		if len(prefix) == maxLen {
			return
		}
		for _, a := range alpha {
			gen(append(append([]c10HOp(nil), prefix...), a))
		}
	}
	gen(nil)
}

func c10GenHistory(rt *rapid.T) c10History {
	c := c07Gen(rt, c07Admit)
	c.Repeat = false
	deltas := []int64{60, 240, 420, 540, 660, 3600, 2 * 3600, 3*3600 + 300, 5*3600 + 59*60, 6*3600 + 120}
	n := rapid.IntRange(1, 14).Draw(rt, "n")
	ops := []c10HOp{{Kind: "ingest"}}
	for i := 0; i < n; i++ {
		k := rapid.SampledFrom([]string{"adv", "ingest", "sweep", "active", "adv", "ingest", "sweep", "adv", "active", "adv", "sweep-arrival", "reload-same", "reload-blocklist", "reload-other"}).Draw(rt, "kind")
		o := c10HOp{Kind: k}
		if k == "adv" {
			o.DeltaS = rapid.SampledFrom(deltas).Draw(rt, "delta")
		}
		ops = append(ops, o)
	}
	ops = append(ops, c10HOp{Kind: "sweep"})
	return c10History{Case: c, Ops: ops}
}

// TestVerif_C10_histories: generated messages x generated histories.
func TestVerif_C10_histories(t *testing.T) {
	rec := vh.NewRec("C10", "histories", "messages from C07's generator biased towards admission x histories [ingest] + 1-14 operations from {ingest the same message again, connection arrives (lookup, MarkActive, real Proxy with an unreachable covert), advance time by 1 min .. 6 h 2 min, sweep, sweep during which another registration arrives and is validated, configuration reload through OnReload (unchanged / phantom_blocklist changed / other keys changed)} + [sweep], through the real ingest path with the real sendToDetector publishing to the in-process RESP server. The detector's session table is modelled from the announcements actually published (timeout_ns counted from the moment each was published, the longer one kept). At every sweep point a registration the station still hands out must have a live session there (60 s slack): the station never accepts a registration for longer than it asked the detector to forward it. Every New / Update published anywhere in a history must request the station's own lifetime for that state (10 min / 6 h = what the sweeper applies), however much time has passed since the registration was made (time moves every timestamp the station keeps, the registration's own RegistrationTime included). Non-trivial: the history re-delivers a registration that is still tracked, or marks one used. Distinct = (message, history).")
	defer rec.Flush()
	rec.Require("history:duplicate-ingest", "history:sweep-past-detector-lifetime", "history:used", "history:used-after-time-passed", "history:still-served-and-forwarded", "history:re-ingest-after-expiry", "history:arrival-during-sweep-admitted", "history:reload-same", "history:reload-blocklist", "history:reload-other", "history:reload-with-registrations")
	w := c10NewWorld(t, rec)
	if p := vh.ReplayFile(); p != "" {
		var h c10History
		if _, _, err := vh.LoadReplay(p, &h); err != nil {
			t.Fatal(err)
		}
		c10HistoryCheck(t, rec, w, h)
		return
	}
	rapid.Check(t, func(rt *rapid.T) {
		h := c10GenHistory(rt)
		if why := c10OutOfDomain(h.Case.Msg); why != "" {
			rec.Case(false, vh.Digest(h), nil, "skipped:"+why)
			return
		}
		c10HistoryCheck(rt, rec, w, h)
	})
}
