package lib

import (
	"fmt"
	"os"
	"path/filepath"
	"testing"
)

func c19try(t *testing.T, name, content string) {
	p := filepath.Join(t.TempDir(), "c.toml")
	os.WriteFile(p, []byte(content), 0o644)
	os.Setenv("CJ_STATION_CONFIG", p)
	func() {
		defer func() {
			if r := recover(); r != nil {
				fmt.Printf("%s: PANIC %v\n", name, r)
			}
		}()
		c, err := ParseConfig()
		if err != nil {
			fmt.Printf("%s: err %v\n", name, err)
			return
		}
		fmt.Printf("%s: ok reg=%v zmq=%v", name, c.RegConfig != nil, c.ZMQConfig != nil)
		if c.RegConfig != nil {
			fmt.Printf(" live=%v geo=%v workers=%d", c.RegConfig.Config != nil, c.RegConfig.DBConfig != nil, c.IngestWorkerCount)
			if c.RegConfig.Config != nil {
				fmt.Printf(" %+v", *c.RegConfig.Config)
			}
		}
		fmt.Println()
	}()
}

func TestVerif_C19_scratch(t *testing.T) {
	c19try(t, "empty", "")
	c19try(t, "loglevel", "log_level = \"error\"\n")
	c19try(t, "v4", "enable_v4 = true\n")
	c19try(t, "live", "enable_v4 = true\ncache_capacity = 0\n")
	c19try(t, "livebad", "enable_v4 = true\ncache_capacity = \"x\"\n")
	c19try(t, "livefloat", "enable_v4 = true\ncache_capacity = 1.5\n")
	c19try(t, "liveneg", "enable_v4 = true\ncache_capacity = -1\ncache_expiration_time = 5\n")
	c19try(t, "liveonly", "cache_capacity = 4\n")
	c19try(t, "geo", "enable_v4 = true\ngeoip_cc_db_path = \"/nonexistent\"\n")
	c19try(t, "badre", "covert_blocklist_domains = [\"(\"]\n")
	c19try(t, "workers", "ingest_worker_count = 99999999999999999999\n")
	c19try(t, "workersneg", "ingest_worker_count = -10\n")
	c19try(t, "dupkey", "enable_v4 = true\nenable_v4 = false\n")
	c19try(t, "unknownkey", "enable_v4 = true\nfoo = false\n")
	c19try(t, "listtype", "covert_blocklist_subnets = \"10.0.0.0/8\"\n")
	c19try(t, "listmixed", "covert_blocklist_subnets = [\"10.0.0.0/8\", 5]\n")
}
