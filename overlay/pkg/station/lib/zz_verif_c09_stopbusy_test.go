package lib

// C09 (shutdown part) — "after a stop request the pipeline winds down in bounded time whether or
// not registrations keep arriving": the stop request arrives while the input channel holds a
// standing backlog, i.e. whenever the distributor comes back to receive there is a message waiting.
//
// The schedule is owned by the harness, not by timing: the distributor reports every registration it
// discards through the injected rm.Logger, and the harness' log sink - running on the distributor's
// own goroutine - tops the buffered input channel up before the distributor goes on. So the
// distributor never finds the channel empty, however fast it is, and the stop request itself is
// issued from inside such a report (it happens-before the distributor's next receive).
// Verdict: the distributor may take its time to notice the stop request, but not for ever - a
// violation is reported only if it consumed >= c09StopBudget further messages AND went on for
// >= c09StopPatience after the stop request without returning (the harness then pauses the arrivals,
// so a pipeline that only looks at the stop request when its input is empty ends by itself).

import (
	"context"
	"fmt"
	golog "log"
	"runtime"
	"sync"
	"sync/atomic"
	"testing"
	"time"

	"github.com/refraction-networking/conjure/pkg/station/log"
	"pgregory.net/rapid"
	"verif/harness/vh"
)

const (
	c09StopBudget   = 20000           // messages delivered (and consumed) after the stop request ...
	c09StopPatience = 3 * time.Second // ... and time passed after it, before "does not wind down" is said
)

type c09StopCase struct {
	Workers   int  `json:"workers"`
	Depth     int  `json:"depth"`     // capacity of the input channel = size of the standing backlog
	StopAt    int  `json:"stop_at"`   // the stop request is issued when the distributor reports its StopAt-th discarded message under overload
	Producers int  `json:"producers"` // goroutines blocked in a send on the input channel all the time (besides the top-up)
	Release   bool `json:"release"`   // parked probes are released just before (true) or a moment after (false) the stop request
}

// c09GoID returns the id of the calling goroutine ("goroutine 123 [running]: ...").
func c09GoID() uint64 {
	var b [64]byte
	n := runtime.Stack(b[:], false)
	var id uint64
	for _, ch := range b[len("goroutine "):n] {
		if ch < '0' || ch > '9' {
			break
		}
		id = id*10 + uint64(ch-'0')
	}
	return id
}

// c09StopSink is the log sink of the pipeline under test. Only lines written by the distributor's
// goroutine are schedule points (workers write through the same logger).
type c09StopSink struct {
	distID atomic.Uint64
	armed  atomic.Bool
	sent   atomic.Int64 // messages put into the input channel by top-ups and producers

	in       chan interface{}
	msgs     []interface{}
	c        c09StopCase
	cancel   context.CancelFunc
	gate     *c09GateTester
	stopProd chan struct{}
	stopped  chan struct{}

	mu           sync.Mutex
	points       int // schedule points seen while armed
	isStopped    bool
	stopTime     time.Time
	sentAtStop   int64
	exhausted    bool
	pointsAfter  int
	elapsedAtEnd time.Duration
}

func (s *c09StopSink) topUp() {
	for {
		select {
		case s.in <- s.msgs[int(s.sent.Load())%len(s.msgs)]:
			s.sent.Add(1)
		default:
			return
		}
	}
}

func (s *c09StopSink) Write(p []byte) (int, error) {
	if !s.armed.Load() || c09GoID() != s.distID.Load() {
		return len(p), nil
	}
	s.mu.Lock()
	defer s.mu.Unlock()
	if s.exhausted {
		return len(p), nil
	}
	s.points++
	if !s.isStopped {
		s.topUp()
		if s.points >= s.c.StopAt {
			if s.c.Release {
				s.gate.Open()
			}
			s.sentAtStop = s.sent.Load()
			s.stopTime = time.Now()
			s.isStopped = true
			s.cancel() // the stop request: before the distributor's next receive, backlog full
			close(s.stopped)
		}
		return len(p), nil
	}
	s.pointsAfter++
	if s.sent.Load()-s.sentAtStop >= c09StopBudget && time.Since(s.stopTime) >= c09StopPatience {
		// enough: the arrivals pause, whatever is left in the channel is the last of it
		s.exhausted = true
		s.elapsedAtEnd = time.Since(s.stopTime)
		close(s.stopProd)
		return len(p), nil
	}
	s.topUp()
	return len(p), nil
}

func c09StopRun(e *vEnv, c c09StopCase) (key, msg string, classes []string) {
	e.resetRegistry()
	const slack = 10 * time.Second
	rm := *e.rm
	conf := *e.rm.RegConfig
	conf.IngestWorkerCount = c.Workers
	rm.RegConfig = &conf
	rm.RegistrationStats = newRegistrationStats()
	gate := &c09GateTester{gate: make(chan struct{})}
	rm.LivenessTester = gate
	defer gate.Open()
	ctx, cancel := context.WithCancel(context.Background())
	defer cancel()
	in := make(chan interface{}, c.Depth)
	sink := &c09StopSink{in: in, c: c, cancel: cancel, gate: gate, stopProd: make(chan struct{}), stopped: make(chan struct{})}
	for i := 0; i < 50; i++ {
		sink.msgs = append(sink.msgs, c09Msg(5000+i))
	}
	rm.Logger = log.New(sink, "", golog.Lmsgprefix)
	rm.Logger.SetLevel(log.TraceLevel)

	var wg sync.WaitGroup
	wg.Add(1)
	returned := make(chan struct{})
	go func() {
		sink.distID.Store(c09GoID())
		rm.HandleRegUpdates(ctx, in, &wg)
		close(returned)
	}()
	buffer := c.Workers / jobBufferDivisor
	waitFor := func(cond func() bool) bool {
		deadline := time.Now().Add(slack)
		for time.Now().Before(deadline) {
			if cond() {
				return true
			}
			time.Sleep(200 * time.Microsecond)
		}
		return false
	}
	send := func(b []byte) bool {
		select {
		case in <- b:
			return true
		case <-time.After(slack):
			return false
		}
	}
	// 1. overload: every worker parked in its probe, shallow buffer full (as in `pipeline`; with an
	//    unbuffered hand-off a message that found no waiting worker is dropped and sent again).
	for i := 0; i < c.Workers; i++ {
		for attempt := 0; ; attempt++ {
			before := rm.RegistrationStats.droppedForVerif()
			if !send(c09Msg(i)) {
				return "stall:distributor", fmt.Sprintf("the distributor did not accept message %d while workers were free", i), classes
			}
			taken := false
			waitFor(func() bool {
				taken = gate.Waiting() >= i+1
				return taken || rm.RegistrationStats.droppedForVerif() > before
			})
			if taken {
				break
			}
			if rm.RegistrationStats.droppedForVerif() == before || attempt >= 400 {
				return "harness", fmt.Sprintf("message %d reached no probe (waiting=%d, attempt %d)", i, gate.Waiting(), attempt), classes
			}
			time.Sleep(2 * time.Millisecond)
		}
	}
	for i := 0; i < buffer; i++ {
		if !send(c09Msg(1000 + i)) {
			return "stall:receiver-blocked", fmt.Sprintf("with all %d workers busy, message %d for the shallow buffer blocked the receiver", c.Workers, i), classes
		}
	}
	if !waitFor(func() bool { return len(in) == 0 && len(rm.ingestChan) >= buffer }) {
		return "harness", fmt.Sprintf("shallow buffer did not fill (%d of %d, input %d)", len(rm.ingestChan), buffer, len(in)), classes
	}
	if buffer == 0 {
		classes = append(classes, "unbuffered-hand-off")
	}
	// 2. from now on every message is discarded and reported; each report tops the channel up.
	var prodWG sync.WaitGroup
	for p := 0; p < c.Producers; p++ {
		prodWG.Add(1)
		go func(p int) {
			defer prodWG.Done()
			for i := p; ; i++ {
				select {
				case in <- sink.msgs[i%len(sink.msgs)]:
					sink.sent.Add(1)
				case <-sink.stopProd:
					return
				case <-returned:
					return
				}
			}
		}(p)
	}
	sink.armed.Store(true)
	// one message starts the self-sustaining cycle discard -> report -> top-up (with live producers the
	// cycle may already run, and even be over, before this message finds room)
	select {
	case in <- c09Msg(2000):
	case <-sink.stopped:
	case <-time.After(slack):
		sink.mu.Lock()
		sink.exhausted = true
		close(sink.stopProd)
		sink.mu.Unlock()
		gate.Open()
		cancel()
		prodWG.Wait()
		select {
		case <-returned:
		case <-time.After(slack):
		}
		return "stall:receiver-blocked", fmt.Sprintf("under overload (all %d workers busy, buffer full) the first excess message blocked the receiver for %v", c.Workers, slack), classes
	}
	select {
	case <-sink.stopped:
	case <-time.After(slack):
		sink.mu.Lock()
		pts := sink.points
		sink.exhausted = true
		close(sink.stopProd)
		sink.mu.Unlock()
		gate.Open()
		cancel()
		prodWG.Wait()
		select {
		case <-returned:
		case <-time.After(slack):
		}
		return "harness", fmt.Sprintf("the distributor reported only %d of the %d discarded messages after which the stop request was due: the harness cannot own this schedule", pts, c.StopAt), classes
	}
	classes = append(classes, "stop-with-standing-backlog")
	switch {
	case c.Depth == 1:
		classes = append(classes, "depth:1")
	case c.Depth <= 8:
		classes = append(classes, "depth:2-8")
	default:
		classes = append(classes, "depth:deep")
	}
	if c.Producers > 0 {
		classes = append(classes, "live-producers")
	}
	if c.Release {
		classes = append(classes, "release-before-stop")
	} else {
		classes = append(classes, "release-after-stop")
		// workers are still inside their probes: they finish the registration they hold first
		time.Sleep(time.Millisecond)
		gate.Open()
	}
	// 3. it must return. The sink decides when the arrivals pause (budget and patience both used up).
	stalled := false
	select {
	case <-returned:
	case <-time.After(c09StopPatience + 30*time.Second):
		stalled = true
	}
	sink.mu.Lock()
	exhausted, after, elapsed := sink.exhausted, sink.sent.Load()-sink.sentAtStop, sink.elapsedAtEnd
	if !exhausted {
		sink.exhausted = true
		close(sink.stopProd)
	}
	sink.mu.Unlock()
	if stalled {
		prodWG.Wait()
		select { // with the arrivals paused a pipeline that waits for an empty input ends now
		case <-returned:
		case <-time.After(slack):
		}
		return "stall:shutdown", fmt.Sprintf("HandleRegUpdates did not return within %v after the stop request (input channel of depth %d kept full, %d messages delivered after the stop request, arrivals paused: %v)", c09StopPatience+30*time.Second, c.Depth, after, exhausted), classes
	}
	prodWG.Wait()
	if exhausted {
		return "stall:shutdown-busy-input", fmt.Sprintf("%d workers, input channel of depth %d that never ran empty: after the stop request HandleRegUpdates went on for %v and consumed %d further messages; it returned only when the arrivals paused (the stop request is not noticed while registrations keep arriving)", c.Workers, c.Depth, elapsed.Round(time.Millisecond), after-int64(len(in))), classes
	}
	return "", "", classes
}

func c09StopCheck(t vh.Fataler, rec *vh.Rec, e *vEnv, c c09StopCase) {
	key, msg, classes := c09StopRun(e, c)
	nontrivial := false
	for _, cl := range classes {
		nontrivial = nontrivial || cl == "stop-with-standing-backlog"
	}
	rec.Case(nontrivial, vh.Digest(c), c, classes...)
	if key == "harness" {
		t.Fatalf("harness problem: %s (case %+v)", msg, c)
	}
	if key != "" {
		rec.Violation(t, key, c, "%s", msg)
	}
}

func TestVerif_C09_stopbusy(t *testing.T) {
	rec := vh.NewRec("C09", "stopbusy", fmt.Sprintf("the real HandleRegUpdates with W in {1,3,4,9,10,11,20,37} workers parked in their probes and the shallow buffer full, fed through a buffered input channel of depth 1-10000 that the harness keeps full: every discarded message is reported by the distributor through the injected logger, and the log sink (on the distributor's goroutine) tops the channel up before the distributor receives again, optionally with 1-8 producers blocked in a send as well; the stop request is issued from inside the report of the k-th discarded message (k in 1..40), probes released just before or 1 ms after it; oracle: HandleRegUpdates returns - violation only if it consumed >= %d further messages and went on for >= %v after the stop request (then the arrivals pause), or does not return at all; grid + rapid-drawn cases; non-trivial = stop request issued with the backlog standing; distinct by case", c09StopBudget, c09StopPatience))
	defer rec.Flush()
	rec.Require("stop-with-standing-backlog", "depth:1", "depth:deep", "live-producers", "release-before-stop", "release-after-stop")
	e := vNewEnv(t, nil, "")
	if p := vh.ReplayFile(); p != "" {
		var c c09StopCase
		if _, _, err := vh.LoadReplay(p, &c); err != nil {
			t.Fatal(err)
		}
		c09StopCheck(t, rec, e, c)
		return
	}
	i := 0
	for _, w := range []int{10, 3, 20} {
		for _, d := range []int{1, 2, 64, 10000} {
			for _, rel := range []bool{true, false} {
				i++
				if vh.Mine(i) {
					c09StopCheck(t, rec, e, c09StopCase{Workers: w, Depth: d, StopAt: 1 + (i*7)%23, Producers: []int{0, 2, 0, 1}[i%4], Release: rel})
				}
			}
		}
	}
	n := vh.Pick(24, 1600)
	_, shards := vh.Shard()
	left := (n + shards - 1) / shards
	rapid.Check(t, func(rt *rapid.T) {
		if left <= 0 {
			return
		}
		left--
		c := c09StopCase{
			Workers:   rapid.SampledFrom([]int{10, 11, 20, 37, 1, 3, 4, 9}).Draw(rt, "workers"),
			Depth:     rapid.SampledFrom([]int{1, 1, 2, 3, 8, 64, 1000, 10000}).Draw(rt, "depth"),
			StopAt:    rapid.IntRange(1, 40).Draw(rt, "stop_at"),
			Producers: rapid.SampledFrom([]int{0, 0, 1, 4, 8}).Draw(rt, "producers"),
			Release:   rapid.Bool().Draw(rt, "release"),
		}
		c09StopCheck(rt, rec, e, c)
	})
}
