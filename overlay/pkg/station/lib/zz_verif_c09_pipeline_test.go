package lib

// C09 (pipeline part) — overload and shutdown do not stall the ingest pipeline.
//
// The real HandleRegUpdates runs with W workers whose liveness probes are parked by the harness.
// Messages are fed one at a time through an unbuffered channel, so "the receiver is not blocked"
// is observable as "every send completes promptly", and the number of dropped messages is exact.

import (
	"context"
	"fmt"
	golog "log"
	"net"
	"runtime"
	"sync"
	"sync/atomic"
	"testing"
	"time"

	"github.com/refraction-networking/conjure/pkg/station/log"
	pb "github.com/refraction-networking/conjure/proto"
	"google.golang.org/protobuf/proto"
	"pgregory.net/rapid"
	"verif/harness/vh"
)

type c09PipeCase struct {
	Workers  int  `json:"workers"`
	Excess   int  `json:"excess"`   // messages sent after all workers are busy and the buffer is full
	Dups     int  `json:"dups"`     // how many of the first messages are duplicates of message 0
	Shutdown int  `json:"shutdown"` // 0 = idle input channel at cancel, 1 = a producer keeps sending, 2 = input channel closed instead of cancel
	Release  bool `json:"release"`  // release the parked probes before (true) or after (false) the stop request
	Share    int  `json:"share"`    // registrations come from the local detector and are shared with a peer station: 0 = off, 1 = the peer accepts the connection and never answers, 2 = the peer refuses the connection
}

type c09GateTester struct {
	mu      sync.Mutex
	waiting int
	gate    chan struct{}
	open    bool
}

func (g *c09GateTester) PhantomIsLive(string, uint16) (bool, error) {
	g.mu.Lock()
	if g.open {
		g.mu.Unlock()
		return false, nil
	}
	g.waiting++
	ch := g.gate
	g.mu.Unlock()
	<-ch
	return false, nil
}
func (g *c09GateTester) Waiting() int {
	g.mu.Lock()
	defer g.mu.Unlock()
	return g.waiting
}
func (g *c09GateTester) Open() {
	g.mu.Lock()
	if !g.open {
		g.open = true
		close(g.gate)
	}
	g.mu.Unlock()
}
func (g *c09GateTester) PrintAndReset(*log.Logger) {}
func (g *c09GateTester) PrintStats(*log.Logger)    {}
func (g *c09GateTester) Reset()                    {}

func c09Msg(i int) []byte { return c09MsgFrom(i, pb.RegistrationSource_API) }

func c09MsgFrom(i int, src pb.RegistrationSource) []byte {
	w := vWrapper(vSecret(100+i), pb.TransportType_Min, 0, "198.51.100.10:443", true, false, 4, 957, src, net.ParseIP("198.51.100.7").To4())
	b, err := proto.Marshal(w)
	if err != nil {
		panic(err)
	}
	return b
}

func c09PipeRun(e *vEnv, c c09PipeCase) (key, msg string, classes []string) {
	e.resetRegistry()
	const slack = 10 * time.Second // generous: a send or a shutdown that needs longer is a stall
	rm := *e.rm
	conf := *e.rm.RegConfig
	conf.IngestWorkerCount = c.Workers
	rm.RegConfig = &conf
	rm.RegistrationStats = newRegistrationStats()
	rm.Logger = log.New(discardWriter{}, "", golog.Lmsgprefix)
	gate := &c09GateTester{gate: make(chan struct{})}
	rm.LivenessTester = gate
	defer gate.Open()
	c09Msg := c09Msg
	if c.Share != 0 {
		// a peer station that never answers (or refuses) must not hold up ingest or shutdown
		ln, err := net.Listen("tcp", "127.0.0.1:0")
		if err != nil {
			return "harness", err.Error(), classes
		}
		var held []net.Conn
		var hmu sync.Mutex
		if c.Share == 2 {
			ln.Close()
		} else {
			go func() {
				for {
					cn, err := ln.Accept()
					if err != nil {
						return
					}
					hmu.Lock()
					held = append(held, cn)
					hmu.Unlock()
				}
			}()
		}
		defer func() {
			ln.Close()
			hmu.Lock()
			for _, cn := range held {
				cn.Close()
			}
			hmu.Unlock()
		}()
		rm.EnableShareOverAPI = true
		rm.PreshareEndpoint = "http://" + ln.Addr().String() + "/register"
		c09Msg = func(i int) []byte { return c09MsgFrom(i, pb.RegistrationSource_Detector) }
		classes = append(classes, fmt.Sprintf("share-peer:%d", c.Share))
	}
	in := make(chan interface{})
	ctx, cancel := context.WithCancel(context.Background())
	defer cancel()
	var wg sync.WaitGroup
	wg.Add(1)
	returned := make(chan struct{})
	go func() {
		rm.HandleRegUpdates(ctx, in, &wg)
		close(returned)
	}()
	buffer := c.Workers / jobBufferDivisor
	send := func(b []byte) bool {
		select {
		case in <- b:
			return true
		case <-time.After(slack):
			return false
		}
	}
	// 1. occupy every worker: one message at a time, wait until a worker is parked in its probe.
	//    Duplicates of message 0 take the duplicate path and do not park; they are sent first after 0.
	sent := 0
	waitFor := func(cond func() bool) bool {
		deadline := time.Now().Add(slack)
		for time.Now().Before(deadline) {
			if cond() {
				return true
			}
			time.Sleep(200 * time.Microsecond)
		}
		return false
	}
	dupCount := func() int64 { return atomic.LoadInt64(&rm.RegistrationStats.newDupRegistrations) }
	// With fewer than 10 workers the hand-off channel is unbuffered: a message is handed over only
	// to a worker that is waiting in its receive at that instant. Right after the start (or right
	// after a worker finished) an idle worker may not be there yet and the message is dropped and
	// counted - that is the documented overload behaviour, so such a message is sent again. What
	// must not happen: every message being dropped although workers are idle.
	extraDrops := int64(0)
	sendUntilTaken := func(i int, taken func() bool) (string, string) {
		for attempt := 0; ; attempt++ {
			before := rm.RegistrationStats.droppedForVerif()
			if !send(c09Msg(i)) {
				return "stall:distributor", fmt.Sprintf("the distributor did not accept message %d while workers were free", i)
			}
			sent++
			if buffer > 0 {
				if !waitFor(taken) {
					return "harness", fmt.Sprintf("message %d never reached a probe (waiting=%d)", i, gate.Waiting())
				}
				return "", ""
			}
			// unbuffered: taken, or dropped and counted
			ok := false
			for deadline := time.Now().Add(slack); time.Now().Before(deadline); time.Sleep(100 * time.Microsecond) {
				if taken() {
					ok = true
					break
				}
				if rm.RegistrationStats.droppedForVerif() > before {
					break
				}
			}
			if ok {
				return "", ""
			}
			if rm.RegistrationStats.droppedForVerif() == before {
				return "lost-message", fmt.Sprintf("message %d was neither handed to a worker nor counted as dropped", i)
			}
			extraDrops++
			if attempt >= 400 {
				return "dropped-with-idle-workers", fmt.Sprintf("%d workers, %d of them idle: message %d was dropped %d times in a row over %v although idle workers exist (every hand-off fails)", c.Workers, c.Workers-gate.Waiting(), i, attempt+1, time.Duration(attempt)*5*time.Millisecond)
			}
			time.Sleep(5 * time.Millisecond)
		}
	}
	if k, m := sendUntilTaken(0, func() bool { return gate.Waiting() >= 1 }); k != "" {
		return k, m, classes
	}
	// duplicates of message 0 (now tracked): each must be consumed by a worker (counted as a
	// duplicate) before the next message is sent, because the hand-off is non-blocking by design
	// and a message arriving while the shallow buffer still holds the previous one is dropped.
	for i := 0; i < c.Dups && c.Workers > 1; i++ {
		i := i
		if k, m := sendUntilTaken(0, func() bool { return dupCount() >= int64(i+1) }); k != "" {
			return k, m, classes
		}
	}
	for i := 1; i < c.Workers; i++ {
		i := i
		if k, m := sendUntilTaken(i, func() bool { return gate.Waiting() >= i+1 }); k != "" {
			return k, m, classes
		}
	}
	if buffer == 0 {
		classes = append(classes, "unbuffered-hand-off")
	}
	// 2. fill the shallow buffer, then send the excess: each send must complete promptly
	for i := 0; i < buffer+c.Excess; i++ {
		if !send(c09Msg(1000 + i)) {
			return "stall:receiver-blocked", fmt.Sprintf("with all %d workers busy and %d messages buffered, message %d blocked the receiver for %v", c.Workers, buffer, i, slack), classes
		}
		sent++
	}
	// the distributor handles messages one after another: once the outcome of the last message is
	// visible (dropped, or sitting in the buffer) every earlier outcome is final
	wantDropped := int64(c.Excess) + extraDrops
	settled := func() bool {
		if c.Excess > 0 {
			return rm.RegistrationStats.droppedForVerif() >= wantDropped
		}
		return len(rm.ingestChan) >= buffer || rm.RegistrationStats.droppedForVerif() > 0
	}
	if !waitFor(settled) {
		return "dropped-count", fmt.Sprintf("%d workers busy, buffer %d, %d excess messages sent: dropped counter stays at %d, expected %d", c.Workers, buffer, c.Excess, rm.RegistrationStats.droppedForVerif(), wantDropped), classes
	}
	if got := rm.RegistrationStats.droppedForVerif(); got != wantDropped {
		return "dropped-count", fmt.Sprintf("%d workers busy, buffer %d full, %d excess messages: dropped counter is %d, expected %d", c.Workers, buffer, c.Excess, got, wantDropped), classes
	}
	if got := rm.RegistrationStats.totalIngestMessagesForVerif(); got != int64(sent) {
		return "ingest-count", fmt.Sprintf("sent %d messages, pipeline counted %d", sent, got), classes
	}
	if c.Excess > 0 {
		classes = append(classes, "overload")
	}
	// 3. stop request
	var prodWG sync.WaitGroup
	stopProd := make(chan struct{})
	if c.Shutdown == 1 {
		classes = append(classes, "shutdown-busy-input")
		prodWG.Add(1)
		go func() {
			defer prodWG.Done()
			for i := 0; ; i++ {
				select {
				case in <- c09Msg(5000 + i%50):
				case <-stopProd:
					return
				case <-returned:
					return
				}
			}
		}()
	} else if c.Shutdown == 0 {
		classes = append(classes, "shutdown-idle-input")
	} else {
		classes = append(classes, "shutdown-input-closed")
	}
	if c.Release {
		gate.Open()
	}
	if c.Shutdown == 2 {
		close(in)
	}
	cancel()
	if !c.Release {
		// workers are still inside their probes: they finish the registration they hold first
		time.Sleep(time.Millisecond)
		gate.Open()
	}
	select {
	case <-returned:
	case <-time.After(slack):
		close(stopProd)
		return "stall:shutdown", fmt.Sprintf("HandleRegUpdates did not return within %v after the stop request (input: %s)", slack, classes[len(classes)-1]), classes
	}
	close(stopProd)
	prodWG.Wait()
	return "", "", classes
}

func c09PipeCheck(t vh.Fataler, rec *vh.Rec, e *vEnv, c c09PipeCase) {
	key, msg, classes := c09PipeRun(e, c)
	rec.Case(c.Excess > 0 || c.Shutdown == 0, vh.Digest(c), c, classes...)
	if key == "harness" {
		t.Fatalf("harness problem: %s (case %+v)", msg, c)
	}
	if key != "" {
		rec.Violation(t, key, c, "%s", msg)
	}
}

func TestVerif_C09_pipeline(t *testing.T) {
	rec := vh.NewRec("C09", "pipeline", "the real HandleRegUpdates with W in {1,3,4,9 (unbuffered hand-off),10,11,20,37} workers whose probes are parked, fed through an unbuffered channel: all workers occupied one by one, shallow buffer filled, then 0-12 excess messages (each send must complete within 10 s; dropped counter must equal the excess exactly), then a stop request with an idle input channel / a producer that keeps sending / a closed input channel, probes released before or after; in a third of the cases the registrations come from the local detector and are shared with a peer station that accepts the connection and never answers, or refuses it; grid + rapid-drawn cases; non-trivial = overload with excess > 0 or shutdown with an idle input channel; distinct by case")
	defer rec.Flush()
	rec.Require("overload", "shutdown-idle-input", "shutdown-busy-input", "share-peer:1", "unbuffered-hand-off")
	e := vNewEnv(t, nil, "")
	if p := vh.ReplayFile(); p != "" {
		var c c09PipeCase
		if _, _, err := vh.LoadReplay(p, &c); err != nil {
			t.Fatal(err)
		}
		c09PipeCheck(t, rec, e, c)
		return
	}
	i := 0
	for _, w := range []int{10, 20, 3} {
		for _, ex := range []int{0, 1, 5} {
			for sh := 0; sh <= 2; sh++ {
				for _, rel := range []bool{true, false} {
					i++
					if vh.Mine(i) {
						c09PipeCheck(t, rec, e, c09PipeCase{Workers: w, Excess: ex, Shutdown: sh, Release: rel, Dups: i % 3, Share: []int{0, 1, 0, 2, 1}[i%5]})
					}
				}
			}
		}
	}
	n := vh.Pick(20, 600)
	_, shards := vh.Shard()
	left := (n + shards - 1) / shards
	rapid.Check(t, func(rt *rapid.T) {
		if left <= 0 {
			return
		}
		left--
		c := c09PipeCase{
			Workers:  rapid.SampledFrom([]int{10, 11, 20, 37, 1, 4, 9}).Draw(rt, "workers"),
			Excess:   rapid.IntRange(0, 12).Draw(rt, "excess"),
			Dups:     rapid.IntRange(0, 4).Draw(rt, "dups"),
			Shutdown: rapid.IntRange(0, 2).Draw(rt, "shutdown"),
			Release:  rapid.Bool().Draw(rt, "release"),
			Share:    rapid.SampledFrom([]int{0, 0, 1, 2}).Draw(rt, "share"),
		}
		c09PipeCheck(rt, rec, e, c)
	})
}

func (s *RegistrationStats) totalIngestMessagesForVerif() int64 {
	return atomic.LoadInt64(&s.totalIngestMessages)
}
func (s *RegistrationStats) droppedForVerif() int64 { return atomic.LoadInt64(&s.totalDroppedMessages) }

// Overload must not hold the receiver up: with every worker busy and the buffer full, handing an
// excess message to the pipeline costs about as much as any other unbuffered channel hand-off. The
// bound is relative to a scheduler canary measured at the same moment (so machine load cancels out)
// and a miss counts only when it is seen three times in a row.
func TestVerif_C09_handoff(t *testing.T) {
	rec := vh.NewRec("C09", "handoff", "real HandleRegUpdates with 10 workers parked and the buffer full; 200 excess messages are sent through an unbuffered channel while a canary measures plain goroutine-to-goroutine hand-offs; oracle: mean hand-off time per excess message <= 40 x canary + 2 ms (violation only if exceeded in 3 consecutive attempts), all 200 counted as dropped; non-trivial = every attempt; distinct by attempt")
	defer rec.Flush()
	if vh.ReplayFile() != "" {
		t.Skip("timing sub-check; re-run the quick tier")
	}
	if idx, _ := vh.Shard(); idx != 0 {
		rec.Case(true, vh.Digest("other-shard-a"), "runs on shard 0 only", "skipped-shard")
		rec.Case(true, vh.Digest("other-shard-b"), "runs on shard 0 only", "skipped-shard")
		return
	}
	e := vNewEnv(t, nil, "")
	const workers, excess = 10, 200
	var worst string
	slowAttempts := 0
	attempts := vh.Pick(2, 6)
	for a := 0; a < attempts+2; a++ {
		e.resetRegistry()
		rm := *e.rm
		conf := *e.rm.RegConfig
		conf.IngestWorkerCount = workers
		rm.RegConfig = &conf
		rm.RegistrationStats = newRegistrationStats()
		rm.Logger = log.New(discardWriter{}, "", golog.Lmsgprefix)
		gate := &c09GateTester{gate: make(chan struct{})}
		rm.LivenessTester = gate
		in := make(chan interface{})
		ctx, cancel := context.WithCancel(context.Background())
		var wg sync.WaitGroup
		wg.Add(1)
		returned := make(chan struct{})
		go func() { rm.HandleRegUpdates(ctx, in, &wg); close(returned) }()
		ok := true
		for i := 0; i < workers && ok; i++ {
			in <- c09Msg(i)
			deadline := time.Now().Add(10 * time.Second)
			for gate.Waiting() < i+1 {
				if time.Now().After(deadline) {
					ok = false
					break
				}
				time.Sleep(100 * time.Microsecond)
			}
		}
		if !ok {
			cancel()
			gate.Open()
			t.Fatalf("harness problem: workers did not reach their probes")
		}
		in <- c09Msg(9000) // fills the buffer (capacity workers/10 = 1)
		// canary: plain unbuffered hand-offs between two goroutines, measured during the same period
		canaryStop := make(chan struct{})
		canaryDone := make(chan time.Duration, 1)
		go func() {
			ping := make(chan int)
			go func() {
				for range ping {
				}
			}()
			n := 0
			t0 := time.Now()
			for {
				select {
				case <-canaryStop:
					close(ping)
					if n == 0 {
						n = 1
					}
					canaryDone <- time.Since(t0) / time.Duration(n)
					return
				case ping <- n:
					n++
				}
			}
		}()
		t0 := time.Now()
		for i := 0; i < excess; i++ {
			select {
			case in <- c09Msg(9001 + i):
			case <-time.After(30 * time.Second):
				close(canaryStop)
				cancel()
				gate.Open()
				rec.Case(true, vh.Digest(fmt.Sprintf("attempt-%d", a)), map[string]any{"attempt": a}, "stalled")
				rec.Violation(t, "stall:receiver-blocked", map[string]any{"workers": workers, "excess": i}, "with all workers busy and the buffer full, excess message %d blocked the receiver for 30 s", i)
				return
			}
		}
		per := time.Since(t0) / excess
		close(canaryStop)
		canary := <-canaryDone
		deadline := time.Now().Add(10 * time.Second)
		for rm.RegistrationStats.droppedForVerif() < excess && time.Now().Before(deadline) {
			time.Sleep(100 * time.Microsecond)
		}
		dropped := rm.RegistrationStats.droppedForVerif()
		gate.Open()
		cancel()
		select {
		case <-returned:
		case <-time.After(20 * time.Second):
			t.Fatalf("harness problem: pipeline did not wind down")
		}
		bound := 40*canary + 2*time.Millisecond
		cls := "fast"
		if per > bound {
			cls = "slow"
			slowAttempts++
			worst = fmt.Sprintf("mean %v per excess message, canary hand-off %v (bound %v)", per, canary, bound)
		} else {
			slowAttempts = 0
		}
		rec.Case(true, vh.Digest(fmt.Sprintf("attempt-%d-%d", vh.Seed(), a)), map[string]any{"attempt": a, "per_message_ns": per.Nanoseconds(), "canary_ns": canary.Nanoseconds(), "dropped": dropped}, cls)
		if dropped != excess {
			rec.Violation(t, "dropped-count", map[string]any{"workers": workers, "excess": excess}, "%d excess messages under overload, dropped counter %d", excess, dropped)
			return
		}
		if slowAttempts >= 3 {
			rec.Violation(t, "overload-holds-up-receiver", map[string]any{"workers": workers, "excess": excess}, "under overload the pipeline held the receiver up in 3 consecutive attempts: %s", worst)
			return
		}
		if slowAttempts == 0 && a+1 >= attempts {
			break
		}
	}
}

// A stop request (or a closed input) that arrives before the freshly started workers have been
// scheduled: the pipeline must still wind down in an orderly way - HandleRegUpdates returns only
// after every worker has finished, nothing panics afterwards.
func TestVerif_C09_earlystop(t *testing.T) {
	rec := vh.NewRec("C09", "earlystop", "HandleRegUpdates started with 2-300 workers under an already cancelled context, a context cancelled right after the start, or an already closed input channel, 60 (thorough: 600) times; oracle: it returns within 20 s, no worker is still running or panics afterwards (a panic in a worker goroutine kills the process and is reported as a crash); non-trivial = every round; distinct by round")
	defer rec.Flush()
	if vh.ReplayFile() != "" {
		t.Skip("scheduling-dependent; re-run the quick tier")
	}
	e := vNewEnv(t, nil, "")
	rounds := vh.Pick(60, 600)
	_, shards := vh.Shard()
	rounds = (rounds + shards - 1) / shards
	for r := 0; r < rounds; r++ {
		e.resetRegistry()
		rm := *e.rm
		conf := *e.rm.RegConfig
		conf.IngestWorkerCount = []int{2, 10, 37, 300}[r%4]
		rm.RegConfig = &conf
		rm.RegistrationStats = newRegistrationStats()
		rm.Logger = log.New(discardWriter{}, "", golog.Lmsgprefix)
		rm.LivenessTester = &vTester{}
		in := make(chan interface{}, 4)
		ctx, cancel := context.WithCancel(context.Background())
		mode := []string{"cancelled-before-start", "cancelled-right-after-start", "input-closed-before-start"}[(r/4)%3]
		switch mode {
		case "cancelled-before-start":
			cancel()
		case "input-closed-before-start":
			in <- c09Msg(r)
			close(in)
		}
		var wg sync.WaitGroup
		wg.Add(1)
		returned := make(chan struct{})
		go func() { rm.HandleRegUpdates(ctx, in, &wg); close(returned) }()
		if mode == "cancelled-right-after-start" {
			cancel()
		}
		if mode == "input-closed-before-start" {
			// the distributor leaves its loop when the input is closed and then waits for the workers,
			// which stop at the stop request
			time.Sleep(200 * time.Microsecond)
			cancel()
		}
		select {
		case <-returned:
		case <-time.After(20 * time.Second):
			cancel()
			rec.Case(true, vh.Digest(fmt.Sprintf("%d-%d", vh.Seed(), r)), map[string]any{"round": r, "mode": mode}, "mode:"+mode)
			rec.Violation(t, "stall:shutdown", map[string]any{"mode": mode, "workers": conf.IngestWorkerCount}, "HandleRegUpdates (%d workers, %s) did not return within 20 s", conf.IngestWorkerCount, mode)
			return
		}
		cancel()
		// give late workers (if the pipeline did not wait for them) the chance to run
		time.Sleep(300 * time.Microsecond)
		runtime.Gosched()
		rec.Case(true, vh.Digest(fmt.Sprintf("%d-%d", vh.Seed(), r)), map[string]any{"round": r, "mode": mode, "workers": conf.IngestWorkerCount}, "mode:"+mode)
	}
	time.Sleep(20 * time.Millisecond)
}
