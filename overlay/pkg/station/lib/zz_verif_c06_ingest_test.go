package lib

// C06 — the whole admission path: ingestRegistration, the registration the station then finds for
// the phantom, and the dial of its covert. Two ways to the dial:
//   * wrapping transports (min): the harness plays the connection handler and hands the registration
//     found for the phantom to Proxy;
//   * connecting transports (a scripted lib.ConnectingTransport registered as DTLS): the station's own
//     goroutine (handleConnectingTpReg) connects to the client and ends in Proxy by itself.
// Loopback listeners stand in for covert hosts and record what was really dialled. Sub-checks:
//   ingest  one session (1-2 registrations of one secret) on a fresh configuration;
//   reload  histories on ONE long-lived RegistrationManager / RegConfig: admissions (guard level and
//           full ingest of new sessions) interleaved with configuration reloads through OnReload with
//           a freshly parsed RegConfig (what SIGHUP does in cmd/application/main.go), the same covert
//           strings recurring across reloads; every admission is judged against the policy in force.

import (
	"bytes"
	"context"
	"fmt"
	golog "log"
	"net"
	"net/netip"
	"runtime"
	"sort"
	"strings"
	"sync"
	"sync/atomic"
	"testing"
	"time"

	"github.com/refraction-networking/conjure/pkg/core"
	"github.com/refraction-networking/conjure/pkg/station/log"
	"github.com/refraction-networking/conjure/pkg/transports"
	pb "github.com/refraction-networking/conjure/proto"
	"google.golang.org/protobuf/proto"
	"google.golang.org/protobuf/types/known/anypb"
	"pgregory.net/rapid"
	"verif/harness/vh"
)

var c06LoopIPs = []string{"127.0.0.1", "127.0.0.2", "127.0.0.3", "::1"}

// c06DeadIPs are loopback addresses on which nothing listens at the listeners' port: a covert
// pinned to one of them is admitted like any other, but the station's dial is refused. What the
// station does after a failed dial is part of the property too (it must not go looking for another
// address: no DNS query, no connection anywhere).
var c06DeadIPs = []string{"127.0.0.4", "127.0.0.5"}

type c06Accept struct {
	Listener int
	Remote   string
}

// c06Listeners are loopback listeners on one common port standing in for covert hosts.
type c06Listeners struct {
	lns    []net.Listener
	port   int
	events chan c06Accept
	wg     sync.WaitGroup
}

func c06Listen(t *testing.T) *c06Listeners {
	t.Helper()
	var lastErr error
	for try := 0; try < 50; try++ {
		l0, err := net.Listen("tcp", "127.0.0.1:0")
		if err != nil {
			t.Fatalf("harness problem: cannot listen on loopback: %v", err)
		}
		ls := &c06Listeners{lns: []net.Listener{l0}, port: l0.Addr().(*net.TCPAddr).Port, events: make(chan c06Accept, 64)}
		ok := true
		for _, ip := range c06LoopIPs[1:] {
			l, err := net.Listen("tcp", net.JoinHostPort(ip, fmt.Sprint(ls.port)))
			if err != nil {
				lastErr, ok = err, false
				break
			}
			ls.lns = append(ls.lns, l)
		}
		for _, ip := range c06DeadIPs {
			if !ok {
				break
			}
			// nothing of anybody else's may listen there on this port
			if c, err := net.DialTimeout("tcp", net.JoinHostPort(ip, fmt.Sprint(ls.port)), 5*time.Second); err == nil {
				c.Close()
				lastErr, ok = fmt.Errorf("something listens on %s:%d", ip, ls.port), false
			}
		}
		if !ok {
			for _, l := range ls.lns {
				l.Close()
			}
			continue
		}
		for i, l := range ls.lns {
			ls.wg.Add(1)
			go func(i int, l net.Listener) {
				defer ls.wg.Done()
				for {
					c, err := l.Accept()
					if err != nil {
						return
					}
					ls.events <- c06Accept{i, c.RemoteAddr().String()}
					c.Close()
				}
			}(i, l)
		}
		t.Cleanup(func() {
			for _, l := range ls.lns {
				l.Close()
			}
			ls.wg.Wait()
		})
		return ls
	}
	t.Fatalf("harness problem: cannot get one port on all loopback addresses %v: %v", c06LoopIPs, lastErr)
	return nil
}

// drain returns the connections accepted so far, per listener. It is a barrier, not a wait: the
// harness connects to every listener itself and reads events until it has seen its own connection
// on each; accept queues are FIFO, so everything that connected earlier has been reported by then.
func (ls *c06Listeners) drain() (got []c06Accept, harness string) {
	markers := map[string]bool{}
	for i, l := range ls.lns {
		c, err := net.Dial("tcp", l.Addr().String())
		if err != nil {
			return nil, fmt.Sprintf("marker dial to listener %d failed: %v", i, err)
		}
		markers[fmt.Sprintf("%d|%s", i, c.LocalAddr().String())] = true
		defer c.Close()
	}
	deadline := time.After(20 * time.Second)
	for len(markers) > 0 {
		select {
		case ev := <-ls.events:
			k := fmt.Sprintf("%d|%s", ev.Listener, ev.Remote)
			if markers[k] {
				delete(markers, k)
			} else {
				got = append(got, ev)
			}
		case <-deadline:
			return nil, "listener barrier did not complete within 20 s"
		}
	}
	return got, ""
}

func (ls *c06Listeners) where(got []c06Accept) []string {
	var out []string
	for _, g := range got {
		out = append(out, c06LoopIPs[g.Listener])
	}
	return out
}

// ---- scripted connecting transport ---------------------------------------------------------------

// c06cTransport is a lib.ConnectingTransport whose Connect succeeds at once with a connection whose
// client side is already gone: the station's goroutine then calls Proxy, which dials the covert and
// returns as soon as the half pipes notice the dead client.
type c06cTransport struct{ calls *int64 }

func (c06cTransport) Name() string      { return "dtls" }
func (c06cTransport) LogPrefix() string { return "DTLS" }
func (c06cTransport) GetIdentifier(r transports.Registration) string {
	return string(core.ConjureHMAC(r.SharedSecret(), "verif-c06-connecting"))
}
func (c06cTransport) GetProto() pb.IPProto                         { return pb.IPProto_Udp }
func (c06cTransport) GetDstPort(uint, []byte, any) (uint16, error) { return 443, nil }
func (c06cTransport) ParseParams(uint, *anypb.Any) (any, error)    { return nil, nil }
func (c06cTransport) ParamStrings(any) []string                    { return nil }
func (t c06cTransport) Connect(ctx context.Context, reg transports.Registration) (net.Conn, error) {
	atomic.AddInt64(t.calls, 1)
	cl, sv := net.Pipe()
	sv.Close()
	return cl, nil
}

type c06cStats struct{}

func (c06cStats) AddCreatedConnecting(uint, string, string)               {}
func (c06cStats) AddCreatedToSuccessfulConnecting(uint, string, string)   {}
func (c06cStats) AddCreatedToTimeoutConnecting(uint, string, string)      {}
func (c06cStats) AddSuccessfulToDiscardedConnecting(uint, string, string) {}
func (c06cStats) AddOtherFailConnecting(uint, string, string)             {}

var c06StackBuf = make([]byte, 4<<20)

// c06WaitHandoff waits until no goroutine started by handleConnectingTpReg is alive. This is an
// observation of the scheduler's state, not a timer: the `go` statement runs inside
// ingestRegistration, so once that has returned the goroutine either is in the goroutine dump or has
// finished with all its effects (Connect count, log lines, TCP connects) done.
func c06WaitHandoff() string {
	deadline := time.Now().Add(60 * time.Second)
	for {
		n := runtime.Stack(c06StackBuf, true)
		if n == len(c06StackBuf) {
			return "goroutine dump does not fit the buffer"
		}
		if !bytes.Contains(c06StackBuf[:n], []byte("handleConnectingTpReg")) {
			return ""
		}
		if time.Now().After(deadline) {
			return "connecting-transport goroutine still alive after 60 s"
		}
		time.Sleep(100 * time.Microsecond)
	}
}

// every weighted group holds both families, so a phantom can be selected for every session secret
// and family (the phantom is irrelevant to this property).
const c06Subnets = `
[Networks]
    [Networks.957]
        Generation = 957
        [[Networks.957.WeightedSubnets]]
            Weight = 9
            RandomizeDstPort = true
            Subnets = ["192.122.190.0/24", "2001:48a8:687f:1::/64"]
        [[Networks.957.WeightedSubnets]]
            Weight = 1
            RandomizeDstPort = false
            Subnets = ["141.219.0.0/16", "2001:48a8:687f:2::/64"]
`

type c06IngestEnv struct {
	e     *vEnv
	d     *c06DNS
	ls    *c06Listeners
	calls int64 // Connect calls of the scripted connecting transport
}

func c06NewIngestEnv(t *testing.T) *c06IngestEnv {
	x := &c06IngestEnv{d: c06InstallResolver(t), ls: c06Listen(t), e: vNewEnv(t, nil, c06Subnets)}
	x.e.rm.connectingStats = c06cStats{}
	_ = x.e.rm.AddTransport(pb.TransportType_DTLS, c06cTransport{calls: &x.calls})
	return x
}

func c06ResetRegistry(e *vEnv) {
	old := e.rm.registeredDecoys
	nr := NewRegisteredDecoys()
	for k, v := range old.transports {
		nr.transports[k] = v
	}
	nr.registerForDetector = old.registerForDetector
	nr.updateInDetector = old.updateInDetector
	e.rm.registeredDecoys = nr
	e.mu.Lock()
	e.anns = nil
	e.mu.Unlock()
}

// c06Out is the result of one session.
type c06Out struct {
	Key, Msg string
	Harness  string
	Classes  []string
	Nontriv  bool
	Accepted bool // a registration became valid
	Served   []c06Query
}

// c06Meta is the part of a registration message that is not the covert: where the registration came
// from and the client's flags. None of it may change which covert the station is willing to dial.
type c06Meta struct {
	Source      string `json:"source,omitempty"` // name of the pb.RegistrationSource value; "" = API
	Prescanned  bool   `json:"prescanned,omitempty"`
	ProxyHeader bool   `json:"proxy_header,omitempty"`
	UploadOnly  bool   `json:"upload_only,omitempty"`
	DarkDecoy   bool   `json:"dark_decoy,omitempty"`
	UseTIL      bool   `json:"use_til,omitempty"`
}

func (m c06Meta) source() (pb.RegistrationSource, bool) {
	if m.Source == "" {
		return pb.RegistrationSource_API, true
	}
	v, ok := pb.RegistrationSource_value[m.Source]
	return pb.RegistrationSource(v), ok
}

func (m c06Meta) classes() []string {
	src, _ := m.source()
	out := []string{"src:" + src.String()}
	if m.Prescanned {
		out = append(out, "flag:prescanned")
		if src == pb.RegistrationSource_DetectorPrescan {
			// the shape another station's GenerateC2SWrapper / share-over-API produces
			out = append(out, "ingest:shared-by-peer-station")
		}
	}
	if m.ProxyHeader {
		out = append(out, "flag:proxy-header")
	}
	return out
}

var c06Sources = []string{"API", "API", "Detector", "Detector", "DetectorPrescan", "DetectorPrescan", "DetectorPrescan", "BidirectionalAPI", "DNS", "BidirectionalDNS", "Unspecified"}

func c06GenMeta(rt *rapid.T) c06Meta {
	return c06Meta{
		Source:      rapid.SampledFrom(c06Sources).Draw(rt, "source"),
		Prescanned:  rapid.Bool().Draw(rt, "prescanned"),
		ProxyHeader: rapid.IntRange(0, 4).Draw(rt, "proxyhdr") == 0,
		UploadOnly:  rapid.IntRange(0, 4).Draw(rt, "uploadonly") == 0,
		DarkDecoy:   rapid.IntRange(0, 4).Draw(rt, "darkdecoy") == 0,
		UseTIL:      rapid.IntRange(0, 4).Draw(rt, "usetil") == 0,
	}
}

// c06Session ingests 1-2 registrations of one client secret under the configuration cfg that is in
// force in x.e.rm (the caller installed it), then lets the covert be dialled and judges everything.
func c06Session(x *c06IngestEnv, cfg c06Cfg, tmpls []string, v6 bool, secret int, connecting bool, meta c06Meta, prior []c06Query) (o c06Out) {
	src, okSrc := meta.source()
	if !okSrc {
		o.Harness = fmt.Sprintf("unknown registration source %q", meta.Source)
		return
	}
	o.Classes = append(o.Classes, meta.classes()...)
	e, d, ls := x.e, x.d, x.ls
	port := fmt.Sprint(ls.port)
	if _, hp := ls.drain(); hp != "" {
		o.Harness = hp
		return
	}
	logs := &vSyncBuf{}
	e.rm.Logger = log.New(logs, "[REG] ", golog.Ldate|golog.Lmicroseconds)
	callsBefore := atomic.LoadInt64(&x.calls)
	startQ := len(d.snapshot())
	tt := pb.TransportType_Min
	if connecting {
		tt = pb.TransportType_DTLS
		o.Classes = append(o.Classes, "ingest:connecting-transport")
	}

	type sub struct {
		covert string
		reg    *DecoyRegistration
		served []c06Query
	}
	var subs []sub
	for _, tmpl := range tmpls {
		covert := strings.ReplaceAll(tmpl, "{P}", port)
		w := vWrapper(vSecret(secret), tt, 0, covert, !v6, v6, 4, 957, src, net.ParseIP("198.51.100.7").To4())
		w.RegistrationPayload.Flags = &pb.RegistrationFlags{Prescanned: proto.Bool(meta.Prescanned), ProxyHeader: proto.Bool(meta.ProxyHeader),
			UploadOnly: proto.Bool(meta.UploadOnly), DarkDecoy: proto.Bool(meta.DarkDecoy), Use_TIL: proto.Bool(meta.UseTIL)}
		reg, err := e.rm.NewRegistrationC2SWrapper(w, v6)
		if err != nil {
			o.Harness = fmt.Sprintf("cannot build registration: %v", err)
			return
		}
		before := len(d.snapshot())
		e.rm.ingestRegistration(reg)
		if connecting {
			if hp := c06WaitHandoff(); hp != "" {
				o.Harness = hp
				return
			}
		}
		if hp := d.quiesce(); hp != "" {
			o.Harness = hp
			return
		}
		subs = append(subs, sub{covert, reg, d.snapshot()[before:]})
	}
	if len(subs) > 1 {
		o.Classes = append(o.Classes, "ingest:repeated-registration")
	}
	nAfterIngest := len(d.snapshot())
	o.Served = d.snapshot()[startQ:]

	// the registration the station finds for this phantom when the client connects
	tr := e.rm.registeredDecoys.transports[subs[0].reg.Transport]
	id := tr.GetIdentifier(subs[0].reg)
	var stored *DecoyRegistration
	if r, ok := e.rm.GetRegistrations(subs[0].reg.PhantomIp)[id]; ok {
		stored = r.(*DecoyRegistration)
	}
	which := -1
	for i := range subs {
		if subs[i].reg == stored {
			which = i
		}
	}
	if stored != nil && which < 0 {
		o.Harness = "the valid registration is none of the submitted ones"
		return
	}
	var coverts []string
	for _, s := range subs {
		coverts = append(coverts, s.covert)
	}
	fail := func(key, format string, a ...any) {
		o.Key, o.Msg, o.Nontriv = key, fmt.Sprintf(format, a...), true
	}
	// every path through Proxy after its dial ends in exactly one of these two lines
	nProxy := func() int {
		l := logs.String()
		return strings.Count(l, "proxy closed") + strings.Count(l, "failed to send PROXY header")
	}
	calls := func() int64 { return atomic.LoadInt64(&x.calls) - callsBefore }

	var v c06Verdict
	if stored == nil {
		o.Classes = append(o.Classes, "ingest:no-valid-registration")
		if meta.Prescanned && src == pb.RegistrationSource_DetectorPrescan {
			o.Classes = append(o.Classes, "ingest:shared-by-peer-station-refused-here")
		}
		// only the must-accept direction can be violated by the decision itself, for the first registration
		v = c06Judge(subs[0].covert, cfg, "", subs[0].served, prior...)
	} else {
		o.Accepted = true
		o.Classes = append(o.Classes, "ingest:valid-registration")
		served := subs[which].served
		v = c06Judge(subs[which].covert, cfg, stored.Covert, served, prior...)
	}
	o.Classes = append(o.Classes, v.Classes...)
	o.Nontriv = v.Nontriv
	if v.Key == "harness" {
		o.Harness = v.Msg
		return
	}
	if v.Key != "" {
		fail(v.Key, "after ingestRegistration (coverts %q, source %s, prescanned=%v): %s", coverts, src, meta.Prescanned, v.Msg)
		return
	}
	if stored == nil {
		// nothing was admitted, so nothing may be dialled — whatever the transport
		got, hp := ls.drain()
		if hp != "" {
			o.Harness = hp
			return
		}
		if n := nProxy(); n > 0 || len(got) > 0 {
			fail("covert:dialled-without-admission", "coverts %q were all refused (no valid registration), yet the station ran Proxy %d time(s) on a connection of the connecting transport (Connect calls: %d) and dialled the covert of the refused registration (%q); connections seen at %v", coverts, n, calls(), subs[0].reg.Covert, ls.where(got))
			return
		}
		if connecting {
			o.Classes = append(o.Classes, "connecting:refused-and-nothing-dialled")
		}
		return
	}

	// the dial: only loopback is ever dialled
	o.Nontriv = true
	ap, err := netip.ParseAddrPort(stored.Covert)
	if err != nil {
		o.Harness = fmt.Sprintf("judged literal %q does not parse", stored.Covert)
		return
	}
	want, dead := -1, false
	for i, ip := range c06LoopIPs {
		if netip.MustParseAddr(ip) == c06Plain(ap.Addr()) {
			want = i
		}
	}
	for _, ip := range c06DeadIPs {
		if netip.MustParseAddr(ip) == c06Plain(ap.Addr()) {
			dead = true
		}
	}
	if (want < 0 && !dead) || int(ap.Port()) != ls.port {
		o.Classes = append(o.Classes, "dial:skipped-not-a-listener")
		return
	}
	if connecting {
		// the station dialled by itself (goroutine finished, see c06WaitHandoff)
		if calls() > 0 && nProxy() == 0 {
			o.Harness = "connecting transport connected but no 'proxy closed' line was logged: the harness cannot count dials"
			return
		}
		if calls() == 0 {
			o.Classes = append(o.Classes, "connecting:no-handoff")
			return
		}
		o.Classes = append(o.Classes, "connecting:station-dialled")
	} else {
		cl, sv := net.Pipe()
		sv.Close() // the client side is gone at once: Proxy dials, then both half pipes end
		Proxy(stored, cl, e.rm.Logger)
		cl.Close()
	}
	if hp := d.quiesce(); hp != "" {
		o.Harness = hp
		return
	}
	got, hp := ls.drain()
	if hp != "" {
		o.Harness = hp
		return
	}
	isName := false
	if h, _, ok := c06Split(subs[which].covert); ok {
		_, err := netip.ParseAddr(h)
		isName = err != nil
	}
	if dead {
		o.Classes = append(o.Classes, "dial:refused")
		if isName {
			o.Classes = append(o.Classes, "dial:refused-name-pinned")
		}
	} else {
		o.Classes = append(o.Classes, "dial:performed")
		if subs[which].covert != stored.Covert {
			o.Classes = append(o.Classes, "dial:after-rewrite")
		}
	}
	o.Served = d.snapshot()[startQ:]
	if !connecting {
		if n := len(d.snapshot()); n != nAfterIngest {
			fail("covert:lookup-after-admission", "coverts %q: %d DNS queries were made after admission, while dialling %q: %v", coverts, n-nAfterIngest, stored.Covert, d.snapshot()[nAfterIngest:])
			return
		}
	} else if v2 := c06Judge(subs[which].covert, cfg, stored.Covert, o.Served, prior...); v2.Key != "" && v2.Key != "harness" {
		// the station's goroutine runs beside the rest of the ingest, so "after admission" is judged by
		// multiplicity: every (name,type) is asked at most once in the whole session
		fail(v2.Key, "connecting transport, coverts %q, over the whole session: %s", coverts, v2.Msg)
		return
	}
	if dead {
		if len(got) != 0 {
			fail("covert:dial-mismatch", "coverts %q admitted as %q, where nothing listens; after the refused dial the station connected to %v (the only address it may dial is the one that was checked)", coverts, stored.Covert, ls.where(got))
		}
		return
	}
	if len(got) != 1 || got[0].Listener != want {
		fail("covert:dial-mismatch", "coverts %q admitted as %q, but the station connected to %v (expected exactly one connection to %s)", coverts, stored.Covert, ls.where(got), c06LoopIPs[want])
	}
	return
}

// ---- generators -----------------------------------------------------------------------------------

func c06Pick(rt *rapid.T, pool []string, label string, max int) []string {
	n := rapid.IntRange(0, max).Draw(rt, label+"-n")
	var out []string
	for i := 0; i < n; i++ {
		out = append(out, rapid.SampledFrom(pool).Draw(rt, label))
	}
	return out
}

// c06GenLoopCfg draws a policy over the loopback addresses the listeners stand on.
var (
	c06LoopBlock   = []string{"127.0.0.2/32", "127.0.0.3/32", "::1/128", "127.0.0.0/8", "127.0.0.0/31", "127.0.0.2/31", "10.0.0.0/8", "::ffff:127.0.0.2/128", "fe80::/10", "127.0.0.4/32", "127.0.0.1/32", "127.0.0.1/32"}
	c06LoopAllow   = []string{"127.0.0.1/32", "127.0.0.0/30", "::1/128", "127.0.0.0/8", "127.0.0.3/32", "127.0.0.4/31"}
	c06LoopDomains = []string{`^rebind\.`, "blocked", "^$", ":", `^127\.`}
)

func c06GenLoopCfg(rt *rapid.T) c06Cfg {
	var c c06Cfg
	c.Block = c06Pick(rt, c06LoopBlock, "block", 3)
	if rapid.IntRange(0, 9).Draw(rt, "allowp") < 3 {
		c.Allow = c06Pick(rt, c06LoopAllow, "allow", 2)
	}
	if rapid.IntRange(0, 9).Draw(rt, "domp") < 3 {
		c.Domains = c06Pick(rt, c06LoopDomains, "dom", 2)
	}
	// covert_blocklist_public_addrs: the station's own interface networks (here: all of loopback)
	c.Public = rapid.IntRange(0, 5).Draw(rt, "public") == 0
	return c
}

// c06MutateCfg derives the configuration of a reload from the one in force: every option is kept or
// changed on its own, so reloads that touch one option and leave the strings of another identical
// (the subnet list unchanged while public-address blocking flips, an allowlist added or removed
// while the blocklist stays, ...) are as frequent as reloads that change everything.
func c06MutateCfg(rt *rapid.T, prev c06Cfg) c06Cfg {
	n := c06Cfg{Block: append([]string(nil), prev.Block...), Allow: append([]string(nil), prev.Allow...), Domains: append([]string(nil), prev.Domains...), Public: prev.Public}
	if rapid.IntRange(0, 2).Draw(rt, "chg-block") == 0 {
		n.Block = c06Pick(rt, c06LoopBlock, "block", 3)
	}
	if rapid.IntRange(0, 1).Draw(rt, "chg-public") == 0 {
		n.Public = !n.Public
	}
	if rapid.IntRange(0, 3).Draw(rt, "chg-allow") == 0 {
		if len(n.Allow) > 0 && rapid.Bool().Draw(rt, "drop-allow") {
			n.Allow = nil
		} else {
			n.Allow = append([]string{rapid.SampledFrom(c06LoopAllow).Draw(rt, "allow1")}, c06Pick(rt, c06LoopAllow, "allow", 1)...)
		}
	}
	if rapid.IntRange(0, 3).Draw(rt, "chg-dom") == 0 {
		n.Domains = c06Pick(rt, c06LoopDomains, "dom", 2)
	}
	return n
}

func c06SameStrings(a, b []string) bool {
	if len(a) != len(b) {
		return false
	}
	for i := range a {
		if a[i] != b[i] {
			return false
		}
	}
	return true
}

// c06Probes are literal coverts asked of the running station and of a station started fresh with
// the same configuration after every reload: loopback and its neighbours, one address inside every
// local interface network (what covert_blocklist_public_addrs adds), private and public addresses.
func c06Probes(port string) ([]string, error) {
	hosts := []string{"127.0.0.1", "127.0.0.2", "127.0.0.3", "127.0.0.4", "127.255.255.254", "126.255.255.255", "[::1]", "[::2]", "[::ffff:127.0.0.2]",
		"10.0.0.1", "192.168.1.1", "8.8.8.8", "[fe80::1]", "[fd00::1]", "[2001:db8::1]"}
	nets, err := c06InterfaceNets()
	if err != nil {
		return nil, err
	}
	for _, p := range nets {
		a := p.Addr().Next()
		if !a.IsValid() || !p.Contains(a) {
			a = p.Addr()
		}
		if a.Is6() {
			hosts = append(hosts, "["+a.String()+"]")
		} else {
			hosts = append(hosts, a.String())
		}
	}
	var out []string
	for _, h := range hosts {
		out = append(out, h+":"+port)
	}
	return out, nil
}

func c06GenLoopScript(rt *rapid.T) c06Script {
	var s c06Script
	ne := rapid.IntRange(1, 3).Draw(rt, "nepochs")
	for i := 0; i < ne; i++ {
		s.Epochs = append(s.Epochs, c06Epoch{
			AMode:    "answer",
			A:        c06Pick(rt, []string{"127.0.0.1", "127.0.0.1", "127.0.0.2", "127.0.0.3", "127.0.0.4", "127.0.0.4", "127.0.0.5"}, "a", 2),
			AAAAMode: "answer",
			AAAA:     c06Pick(rt, []string{"::1", "::1", "::ffff:127.0.0.2", "::ffff:127.0.0.1"}, "aaaa", 2),
		})
	}
	return s
}

var c06LoopHosts = []string{
	"127.0.0.1", "127.0.0.2", "127.0.0.3", "[::1]", "[::ffff:127.0.0.1]", "[::ffff:7f00:2]", "[0:0:0:0:0:0:0:1]", "[::1%lo]", "[::ffff:127.0.0.1%lo]", "[127.0.0.1]", "127.0.0.01", "127.1",
	"rebind.example.test", "rebind.example.test", "a.example.test", "a.example.test", "blocked.example.test", "REBIND.example.test", "", "[]",
	"127.0.0.4", "[::ffff:127.0.0.5]", "rebind.example.test", "a.example.test",
}

func c06GenLoopCovert(rt *rapid.T) string {
	h := rapid.SampledFrom(c06LoopHosts).Draw(rt, "host")
	p := "{P}"
	if rapid.IntRange(0, 9).Draw(rt, "padport") == 0 {
		p = "0{P}"
	}
	return h + ":" + p
}

// ---- ingest ---------------------------------------------------------------------------------------

type c06IngestCase struct {
	// Coverts are ingested in order as registrations of one client secret (a second entry is a
	// repeated registration with another covert). "{P}" stands for the listeners' port.
	Coverts    []string  `json:"coverts"`
	Cfg        c06Cfg    `json:"cfg"`
	Script     c06Script `json:"script"`
	V6         bool      `json:"v6_phantom"`
	Connecting bool      `json:"connecting_transport,omitempty"`
	Meta       c06Meta   `json:"meta"`
	Labels     []string  `json:"labels,omitempty"`
}

func c06GenIngest(rt *rapid.T) c06IngestCase {
	c := c06IngestCase{Cfg: c06GenLoopCfg(rt), V6: rapid.Bool().Draw(rt, "v6"), Script: c06GenLoopScript(rt)}
	c.Connecting = rapid.IntRange(0, 2).Draw(rt, "connecting") == 0
	c.Meta = c06GenMeta(rt)
	n := 1
	if rapid.IntRange(0, 4).Draw(rt, "repeat") == 0 {
		n = 2
	}
	for i := 0; i < n; i++ {
		c.Coverts = append(c.Coverts, c06GenLoopCovert(rt))
	}
	return c
}

func c06CheckIngest(t vh.Fataler, rec *vh.Rec, x *c06IngestEnv, c c06IngestCase) {
	c06ResetRegistry(x.e)
	x.e.rm.RegConfig = c.Cfg.regConfig()
	x.d.reset(c.Script)
	o := c06Session(x, c.Cfg, c.Coverts, c.V6, 6, c.Connecting, c.Meta, nil)
	if o.Harness != "" {
		t.Fatalf("harness problem: %s", o.Harness)
	}
	classes := append(append(o.Classes, c.Labels...), c06ScriptClasses(c.Script, o.Served)...)
	for _, k := range o.Classes {
		if k == "dial:refused-name-pinned" && len(c.Script.Epochs) > 1 {
			classes = append(classes, "dial:refused-name-pinned-answers-change")
		}
	}
	rec.Case(o.Nontriv, vh.Digest(c), c, classes...)
	if o.Key != "" {
		rec.Violation(t, o.Key, c, "%s", o.Msg)
	}
}

func TestVerif_C06_ingest(t *testing.T) {
	rec := vh.NewRec("C06", "ingest", "rapid: 1-2 registrations of one client secret (covert = literal in several textual forms / host name / empty host, port = the port of loopback listeners on 127.0.0.1-3 and ::1; 127.0.0.4-5 have no listener on that port, so the dial of a covert pinned there is refused) x configuration over loopback subnets x resolver script whose answers change between lookups x registration source (every pb.RegistrationSource value, biased to the shapes stations share with each other) x client flags (prescanned, proxy_header, upload_only, dark_decoy, use_TIL) x phantom family x transport kind (wrapping: the harness hands the registration found for the phantom to Proxy; connecting: a scripted ConnectingTransport registered as DTLS, the station's own handleConnectingTpReg goroutine connects to the client and runs Proxy). Oracle: the stored Covert is judged like a ParseOrResolveBlocklisted result against the covert of the registration that became valid and the DNS queries served during its ingest; a canonical permitted covert must yield a valid registration with the covert unchanged; the station connects exactly once, to the listener whose address is the stored literal, and makes no further DNS query; when the stored literal refuses the connection it connects nowhere and still makes no DNS query; when no registration became valid Proxy is never run and no listener sees a connection. Non-trivial: every case with a valid registration or a forbidden input. Distinct by case")
	defer rec.Flush()
	rec.Require("ingest:valid-registration", "ingest:no-valid-registration", "ingest:repeated-registration", "dial:performed", "dial:after-rewrite",
		"dial:refused", "dial:refused-name-pinned", "dial:refused-name-pinned-answers-change",
		"ingest:connecting-transport", "connecting:station-dialled", "connecting:refused-and-nothing-dialled",
		"src:API", "src:Detector", "src:DetectorPrescan", "src:BidirectionalAPI", "src:DNS", "src:BidirectionalDNS", "src:Unspecified", "flag:prescanned", "flag:proxy-header",
		"ingest:shared-by-peer-station", "ingest:shared-by-peer-station-refused-here",
		"out:name-accepted", "dns:answers-change-between-lookups", "cfg:allowlist", "in:literal-forbidden")
	x := c06NewIngestEnv(t)
	var c c06IngestCase
	if c06Replay(t, &c) {
		c06CheckIngest(t, rec, x, c)
		return
	}
	rapid.Check(t, func(rt *rapid.T) {
		c06CheckIngest(rt, rec, x, c06GenIngest(rt))
	})
}

// ---- reload: histories on one long-lived station --------------------------------------------------

type c06HistOp struct {
	Kind       string  `json:"kind"`             // parse | ingest | reload
	Covert     int     `json:"covert,omitempty"` // index into Coverts
	Cfg        *c06Cfg `json:"cfg,omitempty"`    // reload: the new policy
	V6         bool    `json:"v6_phantom,omitempty"`
	Connecting bool    `json:"connecting_transport,omitempty"`
	Meta       c06Meta `json:"meta"` // ingest: registration source and client flags
}

type c06HistCase struct {
	Coverts []string    `json:"coverts"` // "{P}" = the listeners' port
	Cfg0    c06Cfg      `json:"cfg0"`
	Script  c06Script   `json:"script"`
	Ops     []c06HistOp `json:"ops"`
}

func c06GenHist(rt *rapid.T) c06HistCase {
	c := c06HistCase{Cfg0: c06GenLoopCfg(rt), Script: c06GenLoopScript(rt)}
	nc := rapid.IntRange(1, 3).Draw(rt, "ncoverts")
	for i := 0; i < nc; i++ {
		c.Coverts = append(c.Coverts, c06GenLoopCovert(rt))
	}
	n := rapid.IntRange(2, 10).Draw(rt, "nops")
	cur := c.Cfg0
	for i := 0; i < n; i++ {
		var op c06HistOp
		switch k := rapid.IntRange(0, 9).Draw(rt, "opkind"); {
		case k < 3:
			cfg := c06MutateCfg(rt, cur)
			if rapid.IntRange(0, 4).Draw(rt, "fresh-cfg") == 0 {
				cfg = c06GenLoopCfg(rt)
			}
			cur = cfg
			op = c06HistOp{Kind: "reload", Cfg: &cfg}
		case k < 6:
			op = c06HistOp{Kind: "parse", Covert: rapid.IntRange(0, nc-1).Draw(rt, "ci")}
		default:
			op = c06HistOp{Kind: "ingest", Covert: rapid.IntRange(0, nc-1).Draw(rt, "ci"), V6: rapid.Bool().Draw(rt, "v6"),
				Connecting: rapid.IntRange(0, 3).Draw(rt, "connecting") == 0, Meta: c06GenMeta(rt)}
		}
		c.Ops = append(c.Ops, op)
	}
	return c
}

// cfgBefore returns the configuration in force before operation i.
func (c c06HistCase) cfgBefore(i int) c06Cfg {
	cur := c.Cfg0
	for j := 0; j < i && j < len(c.Ops); j++ {
		if c.Ops[j].Kind == "reload" && c.Ops[j].Cfg != nil {
			cur = *c.Ops[j].Cfg
		}
	}
	return cur
}

func c06CheckHist(t vh.Fataler, rec *vh.Rec, x *c06IngestEnv, c c06HistCase) {
	e, d := x.e, x.d
	c06ResetRegistry(e)
	// one long-lived RegConfig for the whole history, as in the running station
	e.rm.RegConfig = c.Cfg0.regConfig()
	e.rm.Logger = log.New(&vSyncBuf{}, "[REG] ", golog.Ldate|golog.Lmicroseconds)
	d.reset(c.Script)
	cur := c.Cfg0
	port := fmt.Sprint(x.ls.port)
	var prior []c06Query
	classes := map[string]bool{}
	nontriv := false
	reloads := 0
	type seen struct {
		accepted bool
		reloads  int
	}
	last := map[int]seen{}
	finish := func(key, msg string) {
		var cl []string
		for k := range classes {
			cl = append(cl, k)
		}
		sort.Strings(cl)
		rec.Case(nontriv, vh.Digest(c), c, cl...)
		if key != "" {
			rec.Violation(t, key, c, "%s", msg)
		}
	}
	for i, op := range c.Ops {
		if op.Kind == "reload" {
			if op.Cfg == nil {
				t.Fatalf("harness problem: reload without configuration")
			}
			// what SIGHUP does: parse a fresh configuration, hand it to OnReload
			e.rm.OnReload(op.Cfg.regConfig())
			sameBlock := c06SameStrings(cur.Block, op.Cfg.Block)
			switch {
			case sameBlock && cur.Public != op.Cfg.Public:
				classes["hist:reload-public-flipped-subnet-strings-unchanged"] = true
			case !sameBlock:
				classes["hist:reload-subnet-strings-changed"] = true
			}
			if len(cur.Allow) == 0 && len(op.Cfg.Allow) > 0 {
				classes["hist:reload-allowlist-added"] = true
			}
			if len(cur.Allow) > 0 && len(op.Cfg.Allow) == 0 {
				classes["hist:reload-allowlist-removed"] = true
			}
			cur = *op.Cfg
			reloads++
			classes["hist:reload"] = true
			// the policy in force must now be the policy of a station started with this configuration:
			// differential against a freshly parsed RegConfig, and each answer judged by the reference
			fresh := cur.regConfig()
			probes, err := c06Probes(port)
			if err != nil {
				t.Fatalf("harness problem: %v", err)
			}
			for _, pr := range probes {
				running, _ := e.rm.ParseOrResolveBlocklisted(pr)
				started, _ := fresh.ParseOrResolveBlocklisted(pr)
				if running != started {
					nontriv = true
					finish("covert:reload-differs-from-fresh-start", fmt.Sprintf("history step %d: after reload #%d to %+v (before: %+v) the running station answers %q for covert %q, a station started with the same configuration answers %q", i, reloads, cur, c.cfgBefore(i), running, pr, started))
					return
				}
				if v := c06Judge(pr, cur, running, nil); v.Key != "" && v.Key != "harness" {
					nontriv = true
					finish(v.Key, fmt.Sprintf("history step %d: probe after reload #%d, policy in force %+v: %s", i, reloads, cur, v.Msg))
					return
				}
			}
			continue
		}
		if op.Covert < 0 || op.Covert >= len(c.Coverts) {
			t.Fatalf("harness problem: covert index out of range")
		}
		tmpl := c.Coverts[op.Covert]
		covert := strings.ReplaceAll(tmpl, "{P}", port)
		var accepted bool
		var key, msg string
		var served []c06Query
		switch op.Kind {
		case "parse":
			before := len(d.snapshot())
			var res string
			var pan any
			func() {
				defer func() { pan = recover() }()
				res, _ = e.rm.ParseOrResolveBlocklisted(covert)
			}()
			if hp := d.quiesce(); hp != "" {
				t.Fatalf("harness problem: %s", hp)
			}
			served = d.snapshot()[before:]
			if pan != nil {
				key, msg = "covert:panic", fmt.Sprintf("ParseOrResolveBlocklisted(%q) panicked: %v", covert, pan)
				break
			}
			v := c06Judge(covert, cur, res, served, prior...)
			if v.Key == "harness" {
				t.Fatalf("harness problem: %s", v.Msg)
			}
			for _, k := range v.Classes {
				classes[k] = true
			}
			nontriv = nontriv || v.Nontriv
			key, msg, accepted = v.Key, v.Msg, res != ""
		case "ingest":
			o := c06Session(x, cur, []string{tmpl}, op.V6, 100+i, op.Connecting, op.Meta, prior)
			if o.Harness != "" {
				t.Fatalf("harness problem: %s", o.Harness)
			}
			for _, k := range o.Classes {
				classes[k] = true
			}
			nontriv = nontriv || o.Nontriv
			key, msg, accepted, served = o.Key, o.Msg, o.Accepted, o.Served
		default:
			t.Fatalf("harness problem: unknown op %q", op.Kind)
		}
		if prev, ok := last[op.Covert]; ok && prev.reloads < reloads {
			classes["hist:readmission-after-reload"] = true
			nontriv = true
			if prev.accepted && !accepted {
				classes["hist:accepted-then-refused-after-reload"] = true
			}
			if !prev.accepted && accepted {
				classes["hist:refused-then-accepted-after-reload"] = true
			}
		}
		last[op.Covert] = seen{accepted, reloads}
		prior = append(prior, served...)
		if key != "" {
			finish(key, fmt.Sprintf("history step %d (%s %q) after %d reload(s), policy in force %+v: %s", i, op.Kind, covert, reloads, cur, msg))
			return
		}
	}
	finish("", "")
}

func TestVerif_C06_reload(t *testing.T) {
	rec := vh.NewRec("C06", "reload", "rapid: histories of 2-10 operations on ONE long-lived RegistrationManager / RegConfig over a pool of 1-3 recurring covert strings: {guard-level admission (ParseOrResolveBlocklisted on the manager), full ingest of a new session (wrapping or connecting transport, drawn registration source and client flags) followed by the dial as in the ingest sub-check, reload of the policy through OnReload with a freshly parsed RegConfig (what SIGHUP does); the reloaded configuration is derived from the one in force by keeping or changing each option on its own (subnet strings, public-address blocking, allowlist added/removed, domain patterns), sometimes drawn afresh}; resolver script shared by the whole history (answers change between lookups). Oracle: after every reload a probe set of literal coverts (loopback and neighbours, one address inside every local interface network, private, public) must get from the running station exactly the answers a station started fresh with that configuration gives, and those answers are judged by the reference policy; every admission is judged by the reference policy for the configuration in force at that moment (an address answered for the same name during an earlier admission also counts as answered). Non-trivial: a covert string is admitted again after a reload. Distinct by history")
	defer rec.Flush()
	rec.Require("hist:reload-public-flipped-subnet-strings-unchanged", "hist:reload-subnet-strings-changed", "hist:reload-allowlist-added", "hist:reload-allowlist-removed",
		"hist:reload", "hist:readmission-after-reload", "hist:accepted-then-refused-after-reload", "hist:refused-then-accepted-after-reload",
		"ingest:valid-registration", "dial:performed", "out:name-accepted", "ingest:connecting-transport", "ingest:shared-by-peer-station", "ingest:shared-by-peer-station-refused-here")
	x := c06NewIngestEnv(t)
	var c c06HistCase
	if c06Replay(t, &c) {
		c06CheckHist(t, rec, x, c)
		return
	}
	rapid.Check(t, func(rt *rapid.T) {
		c06CheckHist(rt, rec, x, c06GenHist(rt))
	})
}
