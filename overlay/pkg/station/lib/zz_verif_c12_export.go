package lib

// C12 export shim (compiled only for C12 builds through the /verif overlay; never exists in /repo).
// The C12 check lives in pkg/regserver/regprocessor (which imports this package) and must feed the
// bytes the registrar hands to ZMQ through the station's real ingest entry, exactly as an ingest
// worker does (startIngestThread -> parseRegMessage).

// C12ParseRegMessage is parseRegMessage: forwarded bytes -> the registrations the station builds.
func (rm *RegistrationManager) C12ParseRegMessage(msg []byte) ([]*DecoyRegistration, error) {
	return rm.parseRegMessage(msg)
}
