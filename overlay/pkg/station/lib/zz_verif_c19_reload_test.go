package lib

// C19 — reload sub-checks. A station is brought up with a valid configuration and subnet file; then
// a sequence of SIGHUP reloads is executed exactly the way main.go's signal loop does it
//
//	newConf, err := ParseConfig(); if err != nil { log } else { regManager.OnReload(newConf.RegConfig) }
//
// after the harness has changed what is found at the two fixed paths (CJ_STATION_CONFIG,
// PHANTOM_SUBNET_LOCATION): a valid / malformed / unreadable configuration file and a valid /
// malformed / unreadable subnet file. Observed before and after every step: the policy decisions on
// a fixed probe set and the phantom selector's answers on fixed (seed, generation, family) probes
// (the subnet versions are pairwise disjoint, so an answer identifies the version it came from).

import (
	"fmt"
	"net"
	"os"
	"sort"
	"strings"
	"testing"

	"github.com/BurntSushi/toml"
	"github.com/oschwald/geoip2-golang"
	"github.com/refraction-networking/conjure/pkg/station/geoip"
	pb "github.com/refraction-networking/conjure/proto"
	"google.golang.org/protobuf/proto"
	"pgregory.net/rapid"
	"verif/harness/vh"
)

type c19Step struct {
	ConfFault string  `json:"conf_fault,omitempty"` // "" write Conf | missing | dir | keep
	Conf      c19Conf `json:"conf,omitempty"`
	SubFault  string  `json:"sub_fault,omitempty"` // "" write version SubV | syntax | type | genkey | missing | dir | keep
	SubV      int     `json:"sub_v"`
}

func (s c19Step) String() string {
	cf := s.ConfFault
	if cf == "" {
		cf = "file"
		if s.Conf.Verbatim {
			cf = "shipped"
		}
	}
	sf := s.SubFault
	if sf == "" {
		sf = fmt.Sprintf("v%d", s.SubV)
	}
	return fmt.Sprintf("reload(config=%s, subnets=%s)", cf, sf)
}

type c19ReloadCase struct {
	Init    c19Conf   `json:"init"`
	InitSub int       `json:"init_sub"`
	Steps   []c19Step `json:"steps"`
}

// ---- subnet file versions ---------------------------------------------------------------------

const c19NSubV = 4

type c19SubVersion struct {
	gens []uint
	v4   []string
	v6   []string
}

func c19SubVer(v int) c19SubVersion {
	sv := c19SubVersion{
		v4: []string{fmt.Sprintf("198.18.%d.0/24", 10*v+1), fmt.Sprintf("198.19.%d.0/25", v)},
		v6: []string{fmt.Sprintf("2001:db8:%x::/64", 0xa0+v)},
	}
	if v%2 == 0 {
		sv.gens = []uint{1, 957}
	} else {
		sv.gens = []uint{957, 958}
	}
	return sv
}

func c19SubnetText(v int) string {
	sv := c19SubVer(v)
	var sb strings.Builder
	sb.WriteString("[Networks]\n")
	for _, g := range sv.gens {
		fmt.Fprintf(&sb, "    [Networks.%d]\n        Generation = %d\n", g, g)
		fmt.Fprintf(&sb, "        [[Networks.%d.WeightedSubnets]]\n            Weight = 9\n            RandomizeDstPort = true\n            Subnets = [%q, %q]\n", g, sv.v4[0], sv.v6[0])
		fmt.Fprintf(&sb, "        [[Networks.%d.WeightedSubnets]]\n            Weight = 1\n            Subnets = [%q]\n", g, sv.v4[1])
	}
	return sb.String()
}

func c19SubnetFault(kind string) string {
	switch kind {
	case "syntax":
		return "[Networks]\n    [Networks.957\n        Generation = 957\n"
	case "type":
		return "[Networks]\n    [Networks.957]\n        Generation = 957\n        [[Networks.957.WeightedSubnets]]\n            Weight = \"heavy\"\n            Subnets = 5\n"
	case "genkey":
		return "[Networks]\n    [Networks.current]\n        Generation = 957\n        [[Networks.current.WeightedSubnets]]\n            Weight = 9\n            Subnets = [\"198.18.200.0/24\", \"2001:db8:ee::/64\"]\n"
	}
	return ""
}

var c19SelGens = []uint{1, 957, 958, 4242}

// ---- observations ---------------------------------------------------------------------------------

func c19PolicyProbeIPs() []net.IP {
	var out []net.IP
	seen := map[string]bool{}
	// every IPv4 address in both forms (4 bytes written dotted, 16 bytes written ::ffff:a.b.c.d)
	add := func(ip net.IP) {
		if ip == nil {
			return
		}
		for _, f := range c19Forms(ip) {
			if !seen[c19Host(f)] {
				seen[c19Host(f)] = true
				out = append(out, f)
			}
		}
	}
	for _, s := range c19CIDROk {
		n, _, _ := c19ReadCIDR(s)
		for _, ip := range c19Probes(n) {
			add(ip)
		}
	}
	for _, s := range []string{"203.0.113.200", "2001:db8:ffff:ffff::1", "198.18.77.1", "8.8.8.8", "10.0.0.1", "fd00::1", "192.0.2.77", "192.0.2.200", "2001:db8:2::1"} {
		add(net.ParseIP(s))
	}
	return out
}

func c19PolicyProbeHosts() []string {
	var out []string
	for _, d := range c19DomOk {
		out = append(out, d.Host)
	}
	return append(out, " localhost", "localhost ", "example.test", "conjure.example.org", "LOCALHOST", "DB.Corp", "123.corp", "host_a.b-c")
}

// c19NameProbes: coverts given by host name, probed before and after every step like the literals.
// They resolve offline (hosts file; the resolver installed by c19NoDNS never reaches a name server);
// a name that does not resolve on this machine is expected to be refused.
var c19NameProbes = []string{"localhost", "LocalHost", "c19-does-not-resolve.invalid"}

// c19ResolveName is the harness's own resolution of a probe name (standard library, same resolver).
var c19ResolvedNames = map[string]net.IP{}

func c19ResolveName(n string) net.IP {
	if ip, ok := c19ResolvedNames[n]; ok {
		return ip
	}
	ip := c19ResolveNameUncached(n)
	c19ResolvedNames[n] = ip
	return ip
}

func c19ResolveNameUncached(n string) net.IP {
	a, err := net.ResolveIPAddr("ip", n)
	if err != nil || a == nil || len(a.IP) == 0 {
		return nil
	}
	return c19Norm(a.IP)
}

type c19Obs struct {
	Covert   []string // per probe IP: "R" refused, "a" allowed, "!" panic
	Names    []string // per covert given by host name: the same
	Phantom  []string
	Domain   []string
	Selector []string // per (seed, gen, family) probe: address, "err", "panic"
}

func (o c19Obs) policy() string {
	return strings.Join(o.Covert, "") + "|" + strings.Join(o.Phantom, "") + "|" + strings.Join(o.Domain, "") + "|" + strings.Join(o.Names, "")
}
func (o c19Obs) selector() string { return strings.Join(o.Selector, ",") }

func c19Observe(rm *RegistrationManager, ips []net.IP, hosts []string) c19Obs {
	var o c19Obs
	for _, ip := range ips {
		ip := ip
		v := "a"
		if p := c19Recover(func() {
			if out, _ := rm.ParseOrResolveBlocklisted(c19HostPort(ip)); out == "" {
				v = "R"
			}
		}); p != nil {
			v = "!"
		}
		o.Covert = append(o.Covert, v)
		v = "-"
		if p := c19Recover(func() {
			if rm.IsBlocklistedPhantom(ip) {
				v = "P"
			}
		}); p != nil {
			v = "!"
		}
		o.Phantom = append(o.Phantom, v)
	}
	for _, n := range c19NameProbes {
		n := n
		v := "a"
		if p := c19Recover(func() {
			if out, _ := rm.ParseOrResolveBlocklisted(net.JoinHostPort(n, "8443")); out == "" {
				v = "R"
			}
		}); p != nil {
			v = "!"
		}
		o.Names = append(o.Names, v)
	}
	for _, h := range hosts {
		h := h
		v := "-"
		if p := c19Recover(func() {
			if rm.isBlocklistedCovertDomain(h) {
				v = "D"
			}
		}); p != nil {
			v = "!"
		}
		o.Domain = append(o.Domain, v)
	}
	for si := 0; si < 3; si++ {
		seed := vSecret(200 + si)
		for _, g := range c19SelGens {
			for _, v6 := range []bool{false, true} {
				g, v6 := g, v6
				v := "err"
				if p := c19Recover(func() {
					ph, err := rm.PhantomSelector.Select(seed, g, 4, v6)
					if err == nil && ph != nil && ph.IP() != nil {
						v = ph.IP().String()
					}
				}); p != nil {
					v = "panic"
				}
				o.Selector = append(o.Selector, v)
			}
		}
	}
	return o
}

// c19SelectorIs reports whether the selector observations are those of subnet version v.
func c19SelectorIs(o c19Obs, v int) (bool, string) {
	sv := c19SubVer(v)
	var n4, n6 []*net.IPNet
	for _, s := range sv.v4 {
		_, n, _ := net.ParseCIDR(s)
		n4 = append(n4, n)
	}
	for _, s := range sv.v6 {
		_, n, _ := net.ParseCIDR(s)
		n6 = append(n6, n)
	}
	i := 0
	for si := 0; si < 3; si++ {
		for _, g := range c19SelGens {
			for _, v6 := range []bool{false, true} {
				got := o.Selector[i]
				i++
				known := false
				for _, kg := range sv.gens {
					if kg == g {
						known = true
					}
				}
				if !known {
					if got != "err" {
						return false, fmt.Sprintf("generation %d is not defined in subnet version %d but Select answered %s", g, v, got)
					}
					continue
				}
				ip := net.ParseIP(got)
				nets := n4
				if v6 {
					nets = n6
				}
				if ip == nil || !c19In(nets, ip) {
					return false, fmt.Sprintf("Select(seed %d, generation %d, v6=%v) answered %s, which is not inside subnet version %d %v", si, g, v6, got, v, append(append([]string(nil), sv.v4...), sv.v6...))
				}
			}
		}
	}
	return true, ""
}

// c19PolicyMatches compares observed policy decisions with the reference model of configuration c.
// Returns a violation key and message, or "".
func c19PolicyMatches(x *c19Ctx, o c19Obs, pol *c19Policy, ips []net.IP, hosts []string) (string, string) {
	for i, ip := range ips {
		want, det := pol.covertRefused(ip, x.local)
		if det {
			got := o.Covert[i]
			if got == "!" {
				return "panic:policy", fmt.Sprintf("ParseOrResolveBlocklisted(%s) panicked", c19HostPort(ip))
			}
			if want && got != "R" {
				byAddr := (pol.AllowConfigured && !c19In(pol.Allow, ip)) || (!pol.AllowConfigured && c19In(pol.Block, ip))
				if pol.domainRefused(c19Host(ip)) && !byAddr {
					return "dropped:covert_blocklist_domains", fmt.Sprintf("covert %s matches a configured covert_blocklist_domains pattern but is not refused", c19HostPort(ip))
				}
				if pol.AllowConfigured {
					return "dropped:covert_allowlist_subnets", fmt.Sprintf("covert %s is outside the configured allowlist but is not refused", c19HostPort(ip))
				}
				return "dropped:covert_blocklist_subnets", fmt.Sprintf("covert %s is inside a configured covert_blocklist_subnets entry but is not refused", c19HostPort(ip))
			}
			if !want && got == "R" {
				if pol.AllowConfigured {
					return "dropped:covert_allowlist_subnets", fmt.Sprintf("covert %s is inside a configured covert_allowlist_subnets entry but is refused", c19HostPort(ip))
				}
				return "policy:refuses-unlisted", fmt.Sprintf("covert %s is in no list of the configuration in force but is refused", c19HostPort(ip))
			}
		}
		wantP := c19In(pol.Phantom, ip)
		gotP := o.Phantom[i]
		if gotP == "!" {
			return "panic:policy", fmt.Sprintf("IsBlocklistedPhantom(%s) panicked", ip)
		}
		if wantP && gotP != "P" {
			return "dropped:phantom_blocklist", fmt.Sprintf("phantom %s is inside a configured phantom_blocklist entry but is not refused", ip)
		}
		if !wantP && gotP == "P" {
			return "policy:refuses-unlisted", fmt.Sprintf("phantom %s is in no phantom_blocklist entry of the configuration in force but is refused", ip)
		}
	}
	for i, n := range c19NameProbes {
		addr := c19ResolveName(n)
		want, det := pol.nameRefused(n, addr, x.local)
		if !det || i >= len(o.Names) {
			continue
		}
		got := o.Names[i]
		if got == "!" {
			return "panic:policy", fmt.Sprintf("ParseOrResolveBlocklisted(%s:8443) panicked", n)
		}
		if (want && got != "R") || (!want && got == "R") {
			// is the literal of the same address judged as the model says? then only the name is stale
			if addr != nil {
				if lw, ldet := pol.covertRefused(addr, x.local); ldet && lw == want {
					return "policy:name-judged-differently-from-its-address", fmt.Sprintf("covert %s:8443 resolves to %s; the policy in force says refused=%v for that address, but the name is answered refused=%v", n, addr, want, got == "R")
				}
			}
			if want {
				return "dropped:covert_blocklist_subnets", fmt.Sprintf("covert %s:8443 (resolves to %v) must be refused by the policy in force but is not", n, addr)
			}
			return "policy:refuses-unlisted", fmt.Sprintf("covert %s:8443 (resolves to %v) is in no list of the configuration in force but is refused", n, addr)
		}
	}
	for i, h := range hosts {
		want := pol.domainRefused(h)
		got := o.Domain[i]
		if got == "!" {
			return "panic:policy", fmt.Sprintf("isBlocklistedCovertDomain(%q) panicked", h)
		}
		if want && got != "D" {
			return "dropped:covert_blocklist_domains", fmt.Sprintf("host %q matches a configured covert_blocklist_domains pattern but is not refused", h)
		}
		if !want && got == "D" && !pol.domainMaybeRefused(h) {
			return "policy:refuses-unlisted", fmt.Sprintf("host %q matches no configured domain pattern but is refused", h)
		}
	}
	return "", ""
}

// ---- the GeoIP part -------------------------------------------------------------------------------

// c19GeoPaths returns the two database paths of a configuration ("" = unset or empty).
func c19GeoPaths(c c19Conf) (cc, asn string) {
	get := func(key string) string {
		kv := c.scalar(key)
		if kv == nil || kv.Mode == "unset" || kv.Raw == "" {
			return ""
		}
		var v struct{ V string }
		if _, err := toml.Decode("V = "+kv.Raw, &v); err != nil {
			return ""
		}
		return v.V
	}
	return get("geoip_cc_db_path"), get("geoip_asn_db_path")
}

// c19GeoLoads is the reference for "the GeoIP part of this configuration loads without error": every
// database that is named can be opened by the MaxMind library (a database that is not named only
// disables its lookups - the station documents that as a warning, not a failure).
func c19GeoLoads(c c19Conf) bool {
	cc, asn := c19GeoPaths(c)
	for _, p := range []string{cc, asn} {
		if p == "" {
			continue
		}
		var err error
		var r *geoip2.Reader
		if pn := c19Recover(func() { r, err = geoip2.Open(p) }); pn != nil || err != nil {
			return false
		}
		r.Close()
	}
	return true
}

func c19SameGeo(a, b geoip.Database) (same bool) {
	if p := c19Recover(func() { same = a == b }); p != nil {
		return false
	}
	return same
}

// useGeoIP uses the GeoIP part the way the running station does: lookups through the manager (what
// the connection handler and the DTLS log callbacks do) and a registration built and ingested
// through the real path (NewRegistrationC2SWrapper looks the registrar address up).
func (st *c19Station) useGeoIP(where string, n int, res *c19Result) {
	ip := net.ParseIP("198.51.100.7").To4()
	if p := c19Recover(func() {
		cc, err := st.rm.GeoIP.CC(ip)
		if err == nil && cc != "unk" {
			_, _ = st.rm.GeoIP.ASN(ip)
		}
	}); p != nil {
		res.report("panic:after-reload:geoip", fmt.Sprintf("%s: a GeoIP lookup through the registration manager panicked (GeoIP in force: %T %v): %s [%s]", where, st.rm.GeoIP, st.rm.GeoIP, p.Val, c19ShortStack(p)))
		return // known finding: the registration path dies of the same cause
	}
	stub := &vTester{}
	st.rm.LivenessTester = stub
	defer func() { st.rm.LivenessTester = st.realLive }()
	w := vWrapper(vSecret(300+n), pb.TransportType_Min, 0, "192.0.2.200:443", true, false, 4, 957, pb.RegistrationSource_API, ip)
	b, err := proto.Marshal(w)
	if err != nil {
		res.harness = err.Error()
		return
	}
	if p := c19Recover(func() {
		if reg, err := st.rm.NewRegistrationC2SWrapper(w, false); err == nil && reg != nil {
			res.class("geoip-used-by-registration")
		}
		regs, err := st.rm.parseRegMessage(b)
		if err != nil {
			return
		}
		for _, reg := range regs {
			if reg != nil {
				st.rm.ingestRegistration(reg)
			}
		}
	}); p != nil {
		res.report("panic:after-reload:registration", fmt.Sprintf("%s: building / ingesting a well-formed registration panicked: %s [%s]", where, p.Val, c19ShortStack(p)))
	}
}

// ---- the run --------------------------------------------------------------------------------------

func c19PutConfig(x *c19Ctx, fault string, c c19Conf) error {
	switch fault {
	case "keep":
		return nil
	case "missing":
		return os.RemoveAll(x.confPath)
	case "dir":
		if err := os.RemoveAll(x.confPath); err != nil {
			return err
		}
		return os.Mkdir(x.confPath, 0o755)
	}
	text, err := c.Render()
	if err != nil {
		return err
	}
	if err := os.RemoveAll(x.confPath); err != nil {
		return err
	}
	return os.WriteFile(x.confPath, []byte(text), 0o644)
}

func c19PutSubnets(x *c19Ctx, fault string, v int) error {
	switch fault {
	case "keep":
		return nil
	case "missing":
		return os.RemoveAll(x.subnetPath)
	case "dir":
		if err := os.RemoveAll(x.subnetPath); err != nil {
			return err
		}
		return os.Mkdir(x.subnetPath, 0o755)
	}
	text := c19SubnetText(v)
	if fault != "" {
		text = c19SubnetFault(fault)
	}
	if err := os.RemoveAll(x.subnetPath); err != nil {
		return err
	}
	return os.WriteFile(x.subnetPath, []byte(text), 0o644)
}

// structured view used by the oracle (a verbatim configuration is read back from the shipped file)
func c19Structured(c c19Conf) (c19Conf, error) {
	if !c.Verbatim {
		return c, nil
	}
	text, err := c.Render()
	if err != nil {
		return c, err
	}
	sc, err := c19FromTOML(text)
	sc.Verbatim = true
	return sc, err
}

func c19RunReload(x *c19Ctx, c c19ReloadCase, res *c19Result) {
	ips, hosts := c19PolicyProbeIPs(), c19PolicyProbeHosts()

	// ---- start-up
	if err := c19PutConfig(x, "", c.Init); err != nil {
		res.harness = err.Error()
		return
	}
	if err := c19PutSubnets(x, "", c.InitSub); err != nil {
		res.harness = err.Error()
		return
	}
	initS, err := c19Structured(c.Init)
	if err != nil {
		res.harness = err.Error()
		return
	}
	parsed, perr, pp := c19Load()
	if pp != nil {
		res.report("panic:parseconfig:"+c19PanicCause(pp), fmt.Sprintf("start-up: ParseConfig panicked instead of returning an error: %s [%s]", pp.Val, c19ShortStack(pp)))
		return
	}
	pol := c19BuildPolicy(initS)
	if perr != nil {
		if _, _, bad := pol.anyUnreadable(); bad || pol.anyRepaired() || initS.tomlMalformed() {
			res.class("init-rejected")
			return
		}
		res.harness = "the initial configuration is refused: " + perr.Error()
		return
	}
	if k, e, bad := pol.anyUnreadable(); bad {
		res.report("dropped:"+k, fmt.Sprintf("start-up: the configuration was accepted although %s entry %q cannot be parsed", k, e))
		return
	}
	st, rejected, key, msg := c19BringUp(x, parsed, false)
	if key == "harness" {
		res.harness = msg
		return
	}
	if key != "" {
		res.report(key, msg)
		return
	}
	if rejected != "" {
		res.harness = "the initial configuration does not start: " + rejected
		return
	}
	obs := c19Observe(st.rm, ips, hosts)
	if k, m := c19PolicyMatches(x, obs, pol, ips, hosts); k != "" {
		res.report(k, "start-up: "+m)
	}
	if ok, why := c19SelectorIs(obs, c.InitSub); !ok {
		res.harness = "start-up selector: " + why
		return
	}
	if c19ResolveName(c19NameProbes[0]) != nil {
		res.class("name-probe-resolves")
	}
	st.housekeeping("start-up", res.report)
	st.useGeoIP("start-up", 0, res)
	if res.harness != "" {
		return
	}

	// ---- reloads
	diskConf := &initS   // nil: nothing loadable at the path
	diskSub := c.InitSub // -1: nothing loadable at the path
	curSub := c.InitSub  // version the selector must currently answer from
	hadSuccess := false  // a reload in which every part loaded
	for i, s := range c.Steps {
		where := fmt.Sprintf("step %d %v", i, s)
		if err := c19PutConfig(x, s.ConfFault, s.Conf); err != nil {
			res.harness = err.Error()
			return
		}
		if err := c19PutSubnets(x, s.SubFault, s.SubV); err != nil {
			res.harness = err.Error()
			return
		}
		switch s.ConfFault {
		case "keep":
		case "missing", "dir":
			diskConf = nil
			res.class("config-unreadable")
		default:
			sc, err := c19Structured(s.Conf)
			if err != nil {
				res.harness = err.Error()
				return
			}
			diskConf = &sc
		}
		switch s.SubFault {
		case "keep":
		case "":
			diskSub = s.SubV
		case "missing", "dir":
			diskSub = -1
			res.class("subnets-unreadable")
		default:
			diskSub = -1
			res.class("subnets-malformed")
		}

		prevGeo := st.rm.GeoIP

		// what main.go does on SIGHUP
		newConf, rerr, rp := c19Load()
		if rp != nil {
			// the station is dead: nothing to carry on with
			res.report("panic:parseconfig:"+c19PanicCause(rp), fmt.Sprintf("%s: ParseConfig panicked on reload (this kills the running station): %s [%s]", where, rp.Val, c19ShortStack(rp)))
			return
		}
		if rerr == nil {
			if p := c19Recover(func() { st.rm.OnReload(newConf.RegConfig) }); p != nil {
				res.report("panic:onreload", fmt.Sprintf("%s: OnReload panicked: %s [%s]", where, p.Val, c19ShortStack(p)))
				return
			}
		}
		after := c19Observe(st.rm, ips, hosts)
		for ni := range after.Names {
			if ni < len(obs.Names) && obs.Names[ni] == "a" && after.Names[ni] == "R" {
				res.class("name-accepted-then-refused-by-reload")
			}
		}

		// ---- oracle
		var npol *c19Policy
		mustReject := false
		if diskConf == nil {
			mustReject = true
		} else {
			npol = c19BuildPolicy(*diskConf)
			if diskConf.tomlMalformed() {
				mustReject = true
				res.class("config-malformed")
			}
			if _, _, bad := npol.anyUnreadable(); bad {
				mustReject = true
				res.class("config-unparseable-entry")
			}
			if cl, _, _ := diskConf.cutPairs(); len(cl) > 0 {
				res.class("config-unreadable-domain-entry-completed-by-later-entry")
			}
			if npol.anyRepaired() {
				res.class("config-stray-whitespace-entry")
			}
		}
		switch {
		case rerr == nil && mustReject:
			// behind a known finding of this kind the policies in force are unspecified: the next
			// step is judged against what is observed now
			if diskConf != nil && !diskConf.tomlMalformed() {
				k, e, _ := npol.anyUnreadable()
				more := ""
				if _, a, b := diskConf.cutPairs(); k == "covert_blocklist_domains" && a == e {
					more = fmt.Sprintf(" (it is a pattern only when read together with the later entry %q)", b)
				}
				res.report("dropped:"+k, fmt.Sprintf("%s: the reloaded configuration was accepted although %s entry %q cannot be parsed%s; the previous policies must stay in force", where, k, e, more))
			} else {
				res.report("reload:malformed-config-accepted", fmt.Sprintf("%s: ParseConfig reported no error for a configuration file that is unreadable or not valid TOML for the configuration's types", where))
			}
			if diskSub >= 0 {
				if ok, _ := c19SelectorIs(after, diskSub); ok {
					curSub = diskSub
				}
			}
		case rerr != nil:
			res.class("step:config-rejected")
			if after.policy() != obs.policy() {
				res.report("reload:policy-changed-after-failed-load", fmt.Sprintf("%s: the configuration failed to load (%v) but the policy decisions changed: before %s after %s", where, rerr, obs.policy(), after.policy()))
			}
			if after.selector() != obs.selector() {
				// main.go does not look at the subnet file when the configuration fails; a station that did
				// would be within the property as long as the answers are a complete new version
				okNew := false
				if diskSub >= 0 {
					okNew, _ = c19SelectorIs(after, diskSub)
				}
				if !okNew {
					res.report("reload:selector-changed-after-failed-load", fmt.Sprintf("%s: the configuration failed to load and the subnet file is %s, but the selector's answers changed: before %s after %s", where, c19SubState(diskSub), obs.selector(), after.selector()))
				} else {
					curSub = diskSub
				}
			}
			if hadSuccess {
				res.class("fail-after-success")
			}
		default:
			res.class("step:config-accepted")
			for _, nets := range [][]*net.IPNet{npol.Block, npol.Allow, npol.Phantom} {
				for _, n := range nets {
					if c19MappedNet(n) {
						res.class("step:accepted-config-with-v4-entry-in-v6-notation")
					}
				}
			}
			if k, m := c19PolicyMatches(x, after, npol, ips, hosts); k != "" {
				if after.policy() == obs.policy() && !strings.HasPrefix(k, "dropped:") {
					k = "reload:policy-not-new"
				}
				res.report(k, fmt.Sprintf("%s: the configuration loaded without error, so its policies must be in force: %s", where, m))
			}
			if diskSub >= 0 {
				if ok, why := c19SelectorIs(after, diskSub); !ok {
					res.report("reload:selector-not-new", fmt.Sprintf("%s: configuration and subnet file loaded without error, but the selector does not answer from the new subnets: %s", where, why))
				} else {
					curSub = diskSub
				}
				res.class("step:subnets-replaced")
				hadSuccess = true
			} else {
				res.class("step:subnets-failed")
				if after.selector() != obs.selector() {
					res.report("reload:selector-changed-after-failed-load", fmt.Sprintf("%s: the subnet file failed to load but the selector's answers changed: before %s after %s", where, obs.selector(), after.selector()))
				}
				if hadSuccess {
					res.class("fail-after-success")
				}
			}
		}
		if ok, why := c19SelectorIs(after, curSub); !ok {
			res.report("reload:selector-mixed", fmt.Sprintf("%s: the selector answers from no single version: %s", where, why))
		}
		// the GeoIP part: used after every step; unchanged when it (or the whole file) failed to load
		st.useGeoIP(where, i+1, res)
		if res.harness != "" {
			return
		}
		if !(rerr == nil && mustReject) {
			geoLoaded := rerr == nil && diskConf != nil && c19GeoLoads(*diskConf)
			if !geoLoaded {
				if rerr == nil {
					res.class("step:geoip-failed")
					if hadSuccess {
						res.class("fail-after-success")
					}
				}
				if !c19SameGeo(st.rm.GeoIP, prevGeo) {
					res.report("reload:geoip-changed-after-failed-load", fmt.Sprintf("%s: the GeoIP part failed to load but the database in force changed: before %T %v, after %T %v", where, prevGeo, prevGeo, st.rm.GeoIP, st.rm.GeoIP))
				}
			} else {
				res.class("step:geoip-replaced")
				cc, asn := c19GeoPaths(*diskConf)
				if cc == "" && asn == "" && st.rm.GeoIP != nil {
					// the new version names no database: lookups answer empty
					var gcc string
					var gasn uint
					var e1, e2 error
					if p := c19Recover(func() {
						gcc, e1 = st.rm.GeoIP.CC(net.ParseIP("198.51.100.7"))
						gasn, e2 = st.rm.GeoIP.ASN(net.ParseIP("198.51.100.7"))
					}); p == nil && (gcc != "" || gasn != 0 || e1 != nil || e2 != nil) {
						res.report("reload:geoip-not-new", fmt.Sprintf("%s: the reloaded configuration names no GeoIP database but lookups answer (%q, %v) (%d, %v)", where, gcc, e1, gasn, e2))
					}
				}
			}
		}
		st.housekeeping(where, res.report)
		if p := c19Recover(func() { st.rm.RemoveOldRegistrations() }); p != nil {
			res.report("panic:remove-old", fmt.Sprintf("%s: RemoveOldRegistrations panicked: %s", where, p.Val))
		}
		obs = after
	}
}

func c19SubState(v int) string {
	if v < 0 {
		return "not loadable"
	}
	return fmt.Sprintf("version %d", v)
}

func c19CheckReload(t vh.Fataler, rec *vh.Rec, x *c19Ctx, c c19ReloadCase) {
	res := &c19Result{classes: map[string]bool{}}
	recorded := false
	record := func() {
		if recorded {
			return
		}
		recorded = true
		var classes []string
		for k := range res.classes {
			classes = append(classes, k)
		}
		sort.Strings(classes)
		rec.Case(res.classes["fail-after-success"], vh.Digest(c), c, classes...)
	}
	defer record()
	res.report = func(key, msg string) {
		if _, known := vh.IsKnown(rec.Prop, key); !known {
			record() // the test ends inside rec.Violation
		}
		var steps []string
		for _, s := range c.Steps {
			steps = append(steps, s.String())
		}
		rec.Violation(t, key, c, "%s; sequence=%v", msg, steps)
	}
	c19RunReload(x, c, res)
	if res.harness != "" {
		record()
		t.Fatalf("harness problem: %s", res.harness)
	}
}

// ---- generators -----------------------------------------------------------------------------------

func c19GenStep(rt *rapid.T) c19Step {
	var s c19Step
	switch rapid.SampledFrom([]string{"clean", "clean", "clean", "geobad", "geobad", "dirty", "dirty", "missing", "dir", "keep", "empty"}).Draw(rt, "confkind") {
	case "clean":
		s.Conf = c19GenConf(rt, false, false, false)
	case "geobad":
		s.Conf = c19GenGeoBad(rt)
	case "dirty":
		s.Conf = c19GenConf(rt, rapid.Bool().Draw(rt, "sd"), true, false)
	case "missing":
		s.ConfFault = "missing"
	case "dir":
		s.ConfFault = "dir"
	case "keep":
		s.ConfFault = "keep"
	case "empty":
		s.Conf = c19Conf{Note: "empty file"}
	}
	switch rapid.SampledFrom([]string{"v", "v", "v", "v", "syntax", "type", "genkey", "missing", "dir", "keep"}).Draw(rt, "subkind") {
	case "v":
		s.SubV = rapid.IntRange(0, c19NSubV-1).Draw(rt, "subv")
	case "keep":
		s.SubFault = "keep"
	case "syntax":
		s.SubFault = "syntax"
	case "type":
		s.SubFault = "type"
	case "genkey":
		s.SubFault = "genkey"
	case "missing":
		s.SubFault = "missing"
	case "dir":
		s.SubFault = "dir"
	}
	return s
}

func c19GenReload(rt *rapid.T) c19ReloadCase {
	var c c19ReloadCase
	if rapid.IntRange(0, 9).Draw(rt, "initshipped") == 0 {
		c.Init = c19Conf{Verbatim: true, Note: "shipped file verbatim"}
	} else {
		c.Init = c19GenStartable(rt)
	}
	c.InitSub = rapid.IntRange(0, c19NSubV-1).Draw(rt, "initsub")
	n := rapid.IntRange(1, 8).Draw(rt, "nsteps")
	for i := 0; i < n; i++ {
		c.Steps = append(c.Steps, c19GenStep(rt))
	}
	return c
}

// c19GenStartable draws a configuration the station starts with: clean lists, usable scalars.
func c19GenStartable(rt *rapid.T) c19Conf {
	c := c19GenConf(rt, false, false, true)
	c.Note = "startable"
	return c
}

// TestVerif_C19_reload: rapid-generated reload sequences.
func TestVerif_C19_reload(t *testing.T) {
	rec := vh.NewRec("C19", "reload", "rapid-generated sequences of 1-8 SIGHUP reloads after a start-up with a valid generated (or the shipped) configuration and subnet version: each step puts {a clean generated configuration, a dirty one (unparseable / stray-whitespace entries, bad regexps, domain patterns cut into two entries neither of which is a pattern, wrong TOML types, syntax garbage), an empty file, nothing (file removed), a directory, the file left as it is} at the configuration path and {one of 4 pairwise disjoint subnet versions, a TOML syntax error, wrong types, a non-numeric generation key, nothing, a directory, unchanged} at the subnet path, then runs ParseConfig and, on success, OnReload as main.go does; subnet entries in every notation net.ParseCIDR reads (IPv4 ranges also as IPv4-mapped IPv6), probe addresses in both forms (dotted / ::ffff:a.b.c.d); clean configurations whose GeoIP database cannot be opened are a step kind of their own; after every step the GeoIP part is used (lookups, a registration through the real ingest path) and must be unchanged if it failed to load. Non-trivial = a reload in which a part failed to load after a reload in which every part loaded; distinct by sequence")
	defer rec.Flush()
	rec.Require("fail-after-success", "step:config-rejected", "step:config-accepted", "step:subnets-failed", "step:subnets-replaced",
		"config-unreadable", "config-malformed", "subnets-unreadable", "subnets-malformed", "step:geoip-failed", "step:geoip-replaced", "geoip-used-by-registration", "name-probe-resolves", "name-accepted-then-refused-by-reload",
		"config-unreadable-domain-entry-completed-by-later-entry", "step:accepted-config-with-v4-entry-in-v6-notation")
	x := c19NewCtx(t)
	if p := vh.ReplayFile(); p != "" {
		var c c19ReloadCase
		if _, _, err := vh.LoadReplay(p, &c); err != nil {
			t.Fatal(err)
		}
		c19CheckReload(t, rec, x, c)
		return
	}
	rapid.Check(t, func(rt *rapid.T) {
		c := c19GenReload(rt)
		c19CheckReload(rt, rec, x, c)
	})
}

// TestVerif_C19_reload2: every sequence of up to two reloads over a fixed alphabet of step kinds.
func TestVerif_C19_reload2(t *testing.T) {
	rec := vh.NewRec("C19", "reload2", "exhaustive: all sequences of 1 and 2 reloads over the alphabet {configuration: valid A, valid B (allowlist) - both with IPv4 ranges also written as IPv4-mapped IPv6 and probe addresses in both forms -, unparseable CIDR entry, stray-whitespace entry, bad regexp, a pattern cut into two entries neither of which is a pattern (well-formed entries between), wrong TOML type, syntax error, empty file, removed, directory, valid policies + GeoIP database {missing, a directory, truncated}} x {subnets: version 1, version 2, syntax error, non-numeric generation key, removed, directory}, after a start-up with valid configuration A0 and subnet version 0; non-trivial = a failing reload after a successful one; distinct by sequence")
	defer rec.Flush()
	rec.Require("fail-after-success", "step:config-rejected", "step:config-accepted", "step:subnets-failed", "step:subnets-replaced", "step:geoip-failed", "step:geoip-replaced", "geoip-used-by-registration", "name-probe-resolves", "name-accepted-then-refused-by-reload",
		"config-unreadable-domain-entry-completed-by-later-entry", "step:accepted-config-with-v4-entry-in-v6-notation")
	x := c19NewCtx(t)
	if p := vh.ReplayFile(); p != "" {
		var c c19ReloadCase
		if _, _, err := vh.LoadReplay(p, &c); err != nil {
			t.Fatal(err)
		}
		c19CheckReload(t, rec, x, c)
		return
	}
	mk := func(block, allow, phantom, dom []string, extra ...c19KV) c19Conf {
		c := c19Conf{Scalars: append([]c19KV{{Key: "enable_v4", Mode: "set", Raw: "true"}, {Key: "enable_v6", Mode: "set", Raw: "true"}}, extra...)}
		ml := func(k string, es []string) {
			l := c19List{Key: k, Mode: "empty"}
			for _, e := range es {
				l.Mode = "set"
				ent := c19Entry{Text: e}
				if k == "covert_blocklist_domains" {
					ent.Host = c19HostFor(e)
				}
				l.Entries = append(l.Entries, ent)
			}
			c.Lists = append(c.Lists, l)
		}
		ml("covert_blocklist_subnets", block)
		ml("covert_allowlist_subnets", allow)
		ml("covert_blocklist_domains", dom)
		ml("phantom_blocklist", phantom)
		return c
	}
	init := mk([]string{"10.0.0.0/8", "fc00::/7"}, nil, []string{"192.0.2.0/25"}, []string{`^metadata\.`})
	init.Note = "A0"
	confs := []c19Step{
		{Conf: mk([]string{"192.168.0.0/16", "2001:db8:1::/48", "::ffff:192.0.2.128/121"}, nil, []string{"::ffff:198.51.100.0/120", "2001:0DB8:0001:0000::/48"}, []string{`\.local$`})},
		{Conf: mk([]string{"10.0.0.0/8"}, []string{"203.0.113.64/26", "2001:db8:ffff::/64", "0:0:0:0:0:ffff:a00:0/104"}, nil, nil)},
		{Conf: mk([]string{"192.168.0.0/16", "not-a-cidr"}, nil, []string{"198.51.100.0/24"}, nil)},
		{Conf: mk([]string{"192.168.0.0/16"}, nil, []string{"198.51.100.0/24 "}, nil)},
		{Conf: mk([]string{"192.168.0.0/16"}, nil, nil, []string{"("})},
		{Conf: mk([]string{"192.168.0.0/16"}, nil, nil, []string{`^metadata\.`, "(?i:intra", `\.local$`, "net)$"})},
		{Conf: mk([]string{"192.168.0.0/16"}, nil, nil, nil, c19KV{Key: "ingest_worker_count", Mode: "malformed", Raw: `"many"`})},
		{Conf: func() c19Conf { c := mk([]string{"192.168.0.0/16"}, nil, nil, nil); c.Garbage = "covert_blocklist_subnets = ["; return c }()},
		{Conf: c19Conf{Note: "empty file"}},
		{ConfFault: "missing"},
		{ConfFault: "dir"},
		// valid policies, GeoIP database that cannot be opened: missing file / a directory / a truncated file
		{Conf: mk([]string{"172.16.0.0/12"}, nil, []string{"203.0.113.64/26"}, nil, c19KV{Key: "geoip_cc_db_path", Mode: "badvalue", Raw: c19Q("/nonexistent-c19/GeoLite2.mmdb")})},
		{Conf: mk([]string{"172.16.0.0/12"}, nil, nil, []string{"localhost"}, c19KV{Key: "geoip_cc_db_path", Mode: "zero", Raw: `""`}, c19KV{Key: "geoip_asn_db_path", Mode: "badvalue", Raw: c19Q(c19GeoDirPath())})},
		{Conf: mk(nil, nil, []string{"192.0.2.0/25"}, nil, c19KV{Key: "geoip_cc_db_path", Mode: "badvalue", Raw: c19Q(c19GeoTruncatedPath())}, c19KV{Key: "geoip_asn_db_path", Mode: "badvalue", Raw: c19Q(c19GeoTruncatedPath())})},
	}
	subs := []c19Step{{SubV: 1}, {SubV: 2}, {SubFault: "syntax"}, {SubFault: "genkey"}, {SubFault: "missing"}, {SubFault: "dir"}}
	var alpha []c19Step
	for _, cs := range confs {
		for _, ss := range subs {
			alpha = append(alpha, c19Step{ConfFault: cs.ConfFault, Conf: cs.Conf, SubFault: ss.SubFault, SubV: ss.SubV})
		}
	}
	rec.SetExhaustive(true)
	idx := 0
	for _, a := range alpha {
		idx++
		if vh.Mine(idx) {
			c19CheckReload(t, rec, x, c19ReloadCase{Init: init, InitSub: 0, Steps: []c19Step{a}})
		}
		for _, b := range alpha {
			idx++
			if vh.Mine(idx) {
				c19CheckReload(t, rec, x, c19ReloadCase{Init: init, InitSub: 0, Steps: []c19Step{a, b}})
			}
		}
	}
	rec.Extra("enumerated", idx)
}
