package lib

// C06 — scripted resolver. net.DefaultResolver is replaced by a pure-Go resolver whose Dial hands
// back one end of a net.Pipe; the other end is served by the in-process DNS responder below, so
// every name the code under test looks up is answered from the case's script and nothing ever
// touches a network. The responder keeps a log of every query it served; the oracles read that log.

import (
	"context"
	"encoding/binary"
	"fmt"
	"io"
	"net"
	"net/netip"
	"os"
	"strings"
	"sync"
	"testing"
	"time"

	"golang.org/x/net/dns/dnsmessage"
)

// c06Epoch is what the responder says to the k-th query of one (name, type).
// Modes: "answer" (the listed records; none listed = NOERROR without data), "nxdomain", "servfail",
// "timeout" (the client's read fails with a time-out at once: virtual time, no waiting), "drop"
// (connection closed without a reply).
type c06Epoch struct {
	AMode    string   `json:"a_mode"`
	A        []string `json:"a,omitempty"`
	AAAAMode string   `json:"aaaa_mode"`
	AAAA     []string `json:"aaaa,omitempty"`
	// CNAME, when set, makes the answer section start with "<qname> CNAME <cname>" and the address
	// records are owned by <cname>.
	CNAME string `json:"cname,omitempty"`
}

// c06Script: the k-th query for a given (name, type) is answered from Epochs[min(k, len-1)], so
// a name whose answers change between lookups (rebinding) is a script with more than one epoch.
// No epochs: every name is NXDOMAIN. The script applies to every name asked (wildcard zone).
type c06Script struct {
	Epochs []c06Epoch `json:"epochs,omitempty"`
}

// c06Query is one served query.
type c06Query struct {
	Name   string   // lower-case, without the trailing dot
	Type   string   // "A" | "AAAA" | other
	Index  int      // how many queries for this (name,type) were served before this one
	Mode   string   // mode that was applied
	Served []string // addresses put into the answer
}

type c06DNS struct {
	mu      sync.Mutex
	script  c06Script
	count   map[string]int
	log     []c06Query
	problem string // harness trouble seen by a server goroutine
	wg      sync.WaitGroup
}

var c06ResolverMu sync.Mutex

// c06InstallResolver swaps net.DefaultResolver for the scripted one until the test ends.
func c06InstallResolver(t *testing.T) *c06DNS {
	t.Helper()
	d := &c06DNS{count: map[string]int{}}
	c06ResolverMu.Lock()
	old := net.DefaultResolver
	net.DefaultResolver = &net.Resolver{PreferGo: true, StrictErrors: false, Dial: d.dial}
	t.Cleanup(func() {
		net.DefaultResolver = old
		c06ResolverMu.Unlock()
	})
	return d
}

// reset installs the script of the next case and clears the log.
func (d *c06DNS) reset(s c06Script) {
	d.mu.Lock()
	d.script = s
	d.count = map[string]int{}
	d.log = nil
	d.problem = ""
	d.mu.Unlock()
}

// quiesce waits for every server goroutine; returns harness trouble (never a verdict).
func (d *c06DNS) quiesce() string {
	done := make(chan struct{})
	go func() { d.wg.Wait(); close(done) }()
	select {
	case <-done:
	case <-time.After(30 * time.Second):
		return "DNS responder goroutines did not finish within 30 s"
	}
	d.mu.Lock()
	defer d.mu.Unlock()
	return d.problem
}

// snapshot returns the log so far.
func (d *c06DNS) snapshot() []c06Query {
	d.mu.Lock()
	defer d.mu.Unlock()
	return append([]c06Query(nil), d.log...)
}

func (d *c06DNS) dial(ctx context.Context, network, address string) (net.Conn, error) {
	cl, sv := net.Pipe()
	d.wg.Add(1)
	go d.serve(sv, cl)
	return cl, nil
}

func (d *c06DNS) trouble(format string, a ...any) {
	d.mu.Lock()
	if d.problem == "" {
		d.problem = fmt.Sprintf(format, a...)
	}
	d.mu.Unlock()
}

// serve answers the queries arriving on one connection (stream framing: 2-byte length prefix; the
// Go resolver uses it for every conn that is not a net.PacketConn).
func (d *c06DNS) serve(sv, cl net.Conn) {
	defer d.wg.Done()
	defer sv.Close()
	_ = sv.SetDeadline(time.Now().Add(20 * time.Second)) // guard only: a stuck harness becomes exit 2
	for {
		var lb [2]byte
		if _, err := io.ReadFull(sv, lb[:]); err != nil {
			if os.IsTimeout(err) {
				d.trouble("DNS responder: client neither wrote nor closed within 20 s")
			}
			return // client closed: normal end
		}
		msg := make([]byte, binary.BigEndian.Uint16(lb[:]))
		if _, err := io.ReadFull(sv, msg); err != nil {
			return
		}
		var p dnsmessage.Parser
		h, err := p.Start(msg)
		if err != nil {
			d.trouble("DNS responder: unparsable query: %v", err)
			return
		}
		q, err := p.Question()
		if err != nil {
			d.trouble("DNS responder: query without question: %v", err)
			return
		}
		resp, mode := d.answer(h, q)
		switch mode {
		case "timeout":
			// virtual time-out: the client's pending read fails now with a real net time-out error
			_ = cl.SetReadDeadline(time.Unix(1, 0))
			continue
		case "drop":
			return
		}
		out := make([]byte, 2+len(resp))
		binary.BigEndian.PutUint16(out, uint16(len(resp)))
		copy(out[2:], resp)
		if _, err := sv.Write(out); err != nil {
			return
		}
	}
}

func (d *c06DNS) answer(h dnsmessage.Header, q dnsmessage.Question) ([]byte, string) {
	name := strings.ToLower(strings.TrimSuffix(q.Name.String(), "."))
	typ := "other"
	switch q.Type {
	case dnsmessage.TypeA:
		typ = "A"
	case dnsmessage.TypeAAAA:
		typ = "AAAA"
	}
	d.mu.Lock()
	key := name + "|" + typ
	idx := d.count[key]
	d.count[key] = idx + 1
	var ep c06Epoch
	if n := len(d.script.Epochs); n == 0 {
		ep = c06Epoch{AMode: "nxdomain", AAAAMode: "nxdomain"}
	} else if idx < n {
		ep = d.script.Epochs[idx]
	} else {
		ep = d.script.Epochs[n-1]
	}
	mode, recs := "answer", []string(nil)
	switch typ {
	case "A":
		mode, recs = ep.AMode, ep.A
	case "AAAA":
		mode, recs = ep.AAAAMode, ep.AAAA
	}
	if mode == "" {
		mode = "answer"
	}
	lg := c06Query{Name: name, Type: typ, Index: idx, Mode: mode}
	if mode == "answer" {
		lg.Served = append([]string(nil), recs...)
	}
	d.log = append(d.log, lg)
	d.mu.Unlock()

	rh := dnsmessage.Header{ID: h.ID, Response: true, Authoritative: true, RecursionDesired: h.RecursionDesired, RecursionAvailable: true}
	switch mode {
	case "nxdomain":
		rh.RCode = dnsmessage.RCodeNameError
	case "servfail":
		rh.RCode = dnsmessage.RCodeServerFailure
	case "timeout", "drop":
		return nil, mode
	}
	b := dnsmessage.NewBuilder(nil, rh)
	b.EnableCompression()
	_ = b.StartQuestions()
	_ = b.Question(q)
	_ = b.StartAnswers()
	if mode == "answer" && len(recs) > 0 {
		owner := q.Name
		if ep.CNAME != "" {
			if cn, err := dnsmessage.NewName(ep.CNAME + "."); err == nil {
				_ = b.CNAMEResource(dnsmessage.ResourceHeader{Name: q.Name, Class: dnsmessage.ClassINET, TTL: 0}, dnsmessage.CNAMEResource{CNAME: cn})
				owner = cn
			}
		}
		for _, r := range recs {
			a, err := netip.ParseAddr(r)
			if err != nil {
				continue
			}
			rhd := dnsmessage.ResourceHeader{Name: owner, Class: dnsmessage.ClassINET, TTL: 0}
			if typ == "A" && a.Is4() {
				_ = b.AResource(rhd, dnsmessage.AResource{A: a.As4()})
			} else if typ == "AAAA" && (a.Is6()) {
				_ = b.AAAAResource(rhd, dnsmessage.AAAAResource{AAAA: a.As16()})
			}
		}
	}
	out, err := b.Finish()
	if err != nil {
		d.trouble("DNS responder: cannot build reply: %v", err)
		return nil, "drop"
	}
	return out, mode
}
