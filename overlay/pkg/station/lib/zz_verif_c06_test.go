package lib

// C06 — the station never dials a covert address that policy forbids.
//
// Sub-checks:
//   parse   rapid: covert strings from a grammar x configurations, straight into
//           RegConfig.ParseOrResolveBlocklisted, judged by the netip reference policy.
//   enum    exhaustive cross product: every textual form of a few addresses / names / empty host x
//           every port text x a handful of configurations (incl. the shipped one) x two resolver scripts.
//   resolve rapid: host names x resolver scripts (several records, answers that change between
//           lookups, NXDOMAIN, SERVFAIL, time-outs, dropped connections, CNAMEs, v4-mapped AAAA).
//   ingest  rapid: the whole admission path — ingestRegistration, the registration the station
//           then finds for the phantom, and Proxy dialling it; loopback listeners stand in for the
//           covert hosts and record which address was really dialled.

import (
	"encoding/json"
	"fmt"
	"net"
	"net/netip"
	"sort"
	"strings"
	"sync"
	"testing"
	"time"

	pb "github.com/refraction-networking/conjure/proto"
	"pgregory.net/rapid"
	"verif/harness/vh"
)

type c06Case struct {
	Covert string    `json:"covert"`
	Cfg    c06Cfg    `json:"cfg"`
	Script c06Script `json:"script"`
	Labels []string  `json:"labels,omitempty"`
}

// c06Admit runs the admission decision of the code under test for one case.
func c06Admit(d *c06DNS, c c06Case) (result string, served []c06Query, panicked any, harness string) {
	conf := c.Cfg.regConfig()
	d.reset(c.Script)
	func() {
		defer func() { panicked = recover() }()
		result, _ = conf.ParseOrResolveBlocklisted(c.Covert)
	}()
	harness = d.quiesce()
	served = d.snapshot()
	return
}

func c06Check(t vh.Fataler, rec *vh.Rec, d *c06DNS, c c06Case) string {
	result, served, pan, hp := c06Admit(d, c)
	if hp != "" {
		t.Fatalf("harness problem: %s", hp)
	}
	if pan != nil {
		rec.Case(true, vh.Digest(c), c, "out:panic")
		rec.Violation(t, "covert:panic", c, "ParseOrResolveBlocklisted(%q) panicked: %v", c.Covert, pan)
		return "covert:panic"
	}
	v := c06Judge(c.Covert, c.Cfg, result, served)
	classes := append(append([]string(nil), v.Classes...), c.Labels...)
	classes = append(classes, c06ScriptClasses(c.Script, served)...)
	rec.Case(v.Nontriv, vh.Digest(c), c, classes...)
	if v.Key == "harness" {
		t.Fatalf("harness problem: %s", v.Msg)
	}
	if v.Key != "" {
		rec.Violation(t, v.Key, c, "%s", v.Msg)
	}
	return v.Key
}

func c06ScriptClasses(s c06Script, served []c06Query) []string {
	if len(served) == 0 {
		return nil
	}
	var out []string
	if len(s.Epochs) > 1 {
		a, _ := json.Marshal(s.Epochs[0])
		b, _ := json.Marshal(s.Epochs[1])
		if string(a) != string(b) {
			out = append(out, "dns:answers-change-between-lookups")
		}
	}
	seen := map[string]bool{}
	for _, q := range served {
		if len(q.Served) > 1 {
			seen["dns:several-records"] = true
		}
		if q.Mode != "answer" {
			seen["dns:"+q.Mode] = true
		}
		for _, a := range q.Served {
			if x, err := netip.ParseAddr(a); err == nil && x.Is4In6() {
				seen["dns:v4-mapped-aaaa"] = true
			}
		}
	}
	for k := range seen {
		out = append(out, k)
	}
	sort.Strings(out)
	return out
}

func c06Replay(t *testing.T, v any) bool {
	p := vh.ReplayFile()
	if p == "" {
		return false
	}
	if _, _, err := vh.LoadReplay(p, v); err != nil {
		t.Fatal(err)
	}
	return true
}

// ---- parse ------------------------------------------------------------------------------------

func TestVerif_C06_parse(t *testing.T) {
	rec := vh.NewRec("C06", "parse", "rapid: covert string from a grammar (every textual form of addresses drawn inside / at the edges of / outside the configured subnets, port texts, empty host, host names, garbage) x configuration (blocklist, allowlist, domain patterns, public-address blocking) x resolver script; result of ParseOrResolveBlocklisted judged by the netip reference policy in both directions. Non-trivial: the reference forbids the literal, the input was rewritten, or a name was looked up. Distinct by (covert, configuration, script)")
	defer rec.Flush()
	rec.Require("cfg:allowlist", "cfg:blocklist", "cfg:domains", "in:literal-forbidden", "in:literal-permitted", "in:literal-in-allow-and-block",
		"in:v4-mapped-literal", "in:zoned-literal", "in:canonical", "in:domain-match", "out:rewritten", "out:rejected", "out:accepted",
		"form:v4-mapped-dotted", "form:v6-zoned", "form:v4-leading-zeros", "form:v4-hex-octet", "form:v4-short", "form:empty-host", "form:hostname",
		"form:port-65536", "form:port-absent", "form:port-empty", "form:port-signed", "form:port-padded", "form:port-name", "form:garbage", "dns:queried")
	d := c06InstallResolver(t)
	var c c06Case
	if c06Replay(t, &c) {
		c06Check(t, rec, d, c)
		return
	}
	rapid.Check(t, func(rt *rapid.T) {
		cfg := c06GenCfg(rt)
		covert, labels := c06GenCovert(rt, cfg)
		c := c06Case{Covert: covert, Cfg: cfg, Script: c06GenScript(rt, cfg, false), Labels: labels}
		c06Check(rt, rec, d, c)
	})
}

// ---- enum -------------------------------------------------------------------------------------

func c06EnumHosts() []c06HostForm {
	var hs []c06HostForm
	v4s := []string{"127.0.0.1", "10.1.2.3", "8.8.8.8", "0.0.0.0", "192.168.0.1"}
	v6s := []string{"::1", "fe80::1", "fc00::1", "2001:db8::1", "::"}
	zones := []string{"lo", "a%b", ""}
	if vh.Thorough() {
		v4s = append(v4s, "172.16.0.1", "172.32.0.0", "169.254.169.254", "255.255.255.255", "100.64.0.1", "127.255.255.255", "9.255.255.255")
		v6s = append(v6s, "fe81::1", "fd00::2", "::2", "::7f00:1", "2002:7f00:1::1", "ff02::1")
		zones = c06Zones
	}
	for _, s := range v4s {
		hs = append(hs, c06V4Forms(netip.MustParseAddr(s))...)
	}
	for _, s := range v6s {
		for _, z := range zones {
			hs = append(hs, c06V6Forms(netip.MustParseAddr(s), z)...)
		}
	}
	for _, n := range c06Names {
		hs = append(hs, c06HostForm{n, "hostname", false})
	}
	hs = append(hs, c06HostForm{"", "empty-host", false}, c06HostForm{"", "empty-host", true}, c06HostForm{"example.test", "hostname", true})
	// de-duplicate
	seen := map[string]bool{}
	out := hs[:0]
	for _, h := range hs {
		k := fmt.Sprintf("%v|%s", h.Bracket, h.Text)
		if !seen[k] {
			seen[k] = true
			out = append(out, h)
		}
	}
	return out
}

var c06EnumCfgs = []c06Cfg{
	{},
	c06Shipped,
	{Block: c06Shipped.Block, Domains: c06Shipped.Domains, Public: true},
	{Allow: []string{"8.8.8.0/24", "2001:db8::/32"}},
	{Allow: []string{"127.0.0.1/32", "::1/128"}, Block: []string{"127.0.0.0/8", "::1/128"}},
	{Block: []string{"0.0.0.0/0", "::/0"}},
	{Domains: []string{"^$"}},
	{Domains: []string{`.*blocked\.com$`, `example`, `^[0-9.]+$`}, Block: []string{"10.0.0.0/8"}},
	{Block: []string{"::ffff:127.0.0.0/104", "::ffff:10.1.2.3/128", "fe80::/10"}},
}

var c06EnumScripts = []c06Script{
	{Epochs: []c06Epoch{{AMode: "answer", A: []string{"127.0.0.1"}, AAAAMode: "answer", AAAA: []string{"::1"}}}},
	{Epochs: []c06Epoch{{AMode: "answer", A: []string{"8.8.8.8", "10.1.2.3"}, AAAAMode: "answer", AAAA: []string{"2001:db8::1"}}}},
}

func TestVerif_C06_enum(t *testing.T) {
	rec := vh.NewRec("C06", "enum", "exhaustive cross product: every textual form of {127.0.0.1, 10.1.2.3, 8.8.8.8, 0.0.0.0, 192.168.0.1, ::1, fe80::1, fc00::1, 2001:db8::1, ::} (zones lo / a%b / empty; thorough: 13 more addresses, 11 zones), the host-name list, empty host x every port text x 9 configurations (none, shipped, shipped+public addrs, allowlist, allowlisted hole in a blocklisted net, block everything, pattern matching the empty host, patterns matching literals, v4-mapped blocklist prefixes) x 2 wildcard resolver scripts (all names -> loopback; all names -> public+private records) for inputs that are not literals. Non-trivial and distinct as in parse")
	defer rec.Flush()
	rec.Require("in:literal-forbidden", "in:literal-permitted", "in:canonical", "in:domain-match", "out:rewritten", "out:name-accepted", "dns:queried", "form:empty-host")
	d := c06InstallResolver(t)
	var c c06Case
	if c06Replay(t, &c) {
		c06Check(t, rec, d, c)
		return
	}
	rec.SetExhaustive(true)
	hosts := c06EnumHosts()
	idx := 0
	seenKey := map[string]bool{}
	nf := &c06NoFatal{}
	for _, h := range hosts {
		host := h.Text
		if h.Bracket {
			host = "[" + host + "]"
		}
		_, litErr := netip.ParseAddr(h.Text)
		for _, p := range c06Ports {
			covert := host + ":" + p.Text
			if p.Label == "port-absent" {
				covert = host
			}
			for ci, cfg := range c06EnumCfgs {
				for si, sc := range c06EnumScripts {
					if si > 0 && litErr == nil {
						continue // the script cannot matter for a literal
					}
					idx++
					if !vh.Mine(idx) {
						continue
					}
					c := c06Case{Covert: covert, Cfg: cfg, Script: sc, Labels: []string{"form:" + h.Label, "form:" + p.Label, fmt.Sprintf("enumcfg:%d", ci)}}
					result, served, pan, hp := c06Admit(d, c)
					if hp != "" {
						t.Fatalf("harness problem: %s", hp)
					}
					v := c06Judge(c.Covert, c.Cfg, result, served)
					if pan != nil {
						v = c06Verdict{Key: "covert:panic", Msg: fmt.Sprintf("ParseOrResolveBlocklisted(%q) panicked: %v", c.Covert, pan), Nontriv: true}
					}
					rec.Case(v.Nontriv, vh.Digest(c), c, append(append([]string(nil), v.Classes...), c.Labels...)...)
					if v.Key == "harness" {
						t.Fatalf("harness problem: %s", v.Msg)
					}
					if v.Key != "" && !seenKey[v.Key] {
						// keep going: report the first (simplest) case of every root cause
						seenKey[v.Key] = true
						rec.Violation(nf, v.Key, c, "%s", v.Msg)
					}
				}
			}
		}
	}
	if len(nf.msgs) > 0 {
		t.Fatalf("%s", strings.Join(nf.msgs, "\n"))
	}
}

// c06NoFatal lets an enumeration carry on after a violation and fail at the end.
type c06NoFatal struct{ msgs []string }

func (n *c06NoFatal) Fatalf(format string, a ...any) { n.msgs = append(n.msgs, fmt.Sprintf(format, a...)) }
func (n *c06NoFatal) Helper()                        {}

// ---- resolve ----------------------------------------------------------------------------------

var c06ResolvableNames = []string{
	"example.test", "a.b.example.test", "rebind.example.test", "blocked.com", "abc.blocked.com", "Blocked.COM", "blocked.com.", "blocked1.com",
	"notblocked2.com", "localhost.example.test", "xn--bcher-kva.example", "example.test.", "EXAMPLE.TEST", "a", "a_b.test", "1.2.3.4.example.test",
	"127.0.0.1.nip.test", "7f000001.test", "0x7f.0.0.1", "0x7f000001", "foo.invalid", "localhost", "LOCALHOST", "127.1", "a..b", "example.test%eth0",
}

func TestVerif_C06_resolve(t *testing.T) {
	rec := vh.NewRec("C06", "resolve", "rapid: host-name coverts x configurations x resolver scripts of 1-4 epochs (the k-th query of a (name,type) is answered from epoch k: several A/AAAA records drawn inside / at the edges of the configured subnets, answers that change between lookups, NXDOMAIN, NOERROR without data, SERVFAIL, virtual time-outs, dropped connections, CNAME chains, v4-mapped AAAA records). Oracle: a non-empty result is a literal that is one of the addresses answered while the decision was made, permitted by the reference policy, with the input's port; no (name,type) is asked twice unless a query failed; the input host matched no pattern. Non-trivial: a query was served. Distinct by (covert, configuration, script)")
	defer rec.Flush()
	rec.Require("out:name-accepted", "out:rejected", "dns:queried", "dns:answers-change-between-lookups", "dns:several-records", "dns:nxdomain", "dns:servfail",
		"dns:timeout", "dns:drop", "dns:v4-mapped-aaaa", "dns:retried", "cfg:allowlist", "cfg:blocklist", "in:domain-match")
	d := c06InstallResolver(t)
	var c c06Case
	if c06Replay(t, &c) {
		c06Check(t, rec, d, c)
		return
	}
	rapid.Check(t, func(rt *rapid.T) {
		cfg := c06GenCfg(rt)
		name := rapid.SampledFrom(c06ResolvableNames).Draw(rt, "name")
		port := "443"
		if rapid.IntRange(0, 9).Draw(rt, "oddport") == 0 {
			port = c06Ports[rapid.IntRange(0, len(c06Ports)-1).Draw(rt, "port")].Text
		}
		sc := c06GenScript(rt, cfg, true)
		if len(sc.Epochs) == 0 || rapid.IntRange(0, 2).Draw(rt, "prepend") == 0 {
			// make sure most scripts start by answering something
			e := c06Epoch{AMode: "answer", A: c06GenAnswers(rt, cfg, false, "a0"), AAAAMode: "answer", AAAA: c06GenAnswers(rt, cfg, true, "aaaa0")}
			sc.Epochs = append([]c06Epoch{e}, sc.Epochs...)
		}
		if rapid.IntRange(0, 5).Draw(rt, "failfirst") == 0 {
			// a first query that fails, so that one lookup consumes more than one epoch (resolver retry)
			m := rapid.SampledFrom([]string{"servfail", "timeout", "drop"}).Draw(rt, "failmode")
			sc.Epochs = append([]c06Epoch{{AMode: m, AAAAMode: m}}, sc.Epochs...)
		}
		c := c06Case{Covert: name + ":" + port, Cfg: cfg, Script: sc, Labels: []string{"form:hostname"}}
		c06Check(rt, rec, d, c)
	})
}

// ---- ingest + dial ------------------------------------------------------------------------------

var c06LoopIPs = []string{"127.0.0.1", "127.0.0.2", "127.0.0.3", "::1"}

// c06DeadIPs are loopback addresses on which nothing listens at the listeners' port: a covert
// pinned to one of them is admitted like any other, but the station's dial is refused. What the
// station does after a failed dial is part of the property too (it must not go looking for another
// address: no DNS query, no connection anywhere).
var c06DeadIPs = []string{"127.0.0.4", "127.0.0.5"}

type c06Accept struct {
	Listener int
	Remote   string
}

// c06Listeners are loopback listeners on one common port standing in for covert hosts.
type c06Listeners struct {
	lns    []net.Listener
	port   int
	events chan c06Accept
	wg     sync.WaitGroup
}

func c06Listen(t *testing.T) *c06Listeners {
	t.Helper()
	var lastErr error
	for try := 0; try < 50; try++ {
		l0, err := net.Listen("tcp", "127.0.0.1:0")
		if err != nil {
			t.Fatalf("harness problem: cannot listen on loopback: %v", err)
		}
		ls := &c06Listeners{lns: []net.Listener{l0}, port: l0.Addr().(*net.TCPAddr).Port, events: make(chan c06Accept, 64)}
		ok := true
		for _, ip := range c06LoopIPs[1:] {
			l, err := net.Listen("tcp", net.JoinHostPort(ip, fmt.Sprint(ls.port)))
			if err != nil {
				lastErr, ok = err, false
				break
			}
			ls.lns = append(ls.lns, l)
		}
		for _, ip := range c06DeadIPs {
			if !ok {
				break
			}
			// nothing of anybody else's may listen there on this port
			if c, err := net.DialTimeout("tcp", net.JoinHostPort(ip, fmt.Sprint(ls.port)), 5*time.Second); err == nil {
				c.Close()
				lastErr, ok = fmt.Errorf("something listens on %s:%d", ip, ls.port), false
			}
		}
		if !ok {
			for _, l := range ls.lns {
				l.Close()
			}
			continue
		}
		for i, l := range ls.lns {
			ls.wg.Add(1)
			go func(i int, l net.Listener) {
				defer ls.wg.Done()
				for {
					c, err := l.Accept()
					if err != nil {
						return
					}
					ls.events <- c06Accept{i, c.RemoteAddr().String()}
					c.Close()
				}
			}(i, l)
		}
		t.Cleanup(func() {
			for _, l := range ls.lns {
				l.Close()
			}
			ls.wg.Wait()
		})
		return ls
	}
	t.Fatalf("harness problem: cannot get one port on all loopback addresses %v: %v", c06LoopIPs, lastErr)
	return nil
}

// drain returns the connections accepted so far, per listener. It is a barrier, not a wait: the
// harness connects to every listener itself and reads events until it has seen its own connection
// on each; accept queues are FIFO, so everything that connected earlier has been reported by then.
func (ls *c06Listeners) drain() (got []c06Accept, harness string) {
	markers := map[string]bool{}
	for i, l := range ls.lns {
		c, err := net.Dial("tcp", l.Addr().String())
		if err != nil {
			return nil, fmt.Sprintf("marker dial to listener %d failed: %v", i, err)
		}
		markers[fmt.Sprintf("%d|%s", i, c.LocalAddr().String())] = true
		defer c.Close()
	}
	deadline := time.After(20 * time.Second)
	for len(markers) > 0 {
		select {
		case ev := <-ls.events:
			k := fmt.Sprintf("%d|%s", ev.Listener, ev.Remote)
			if markers[k] {
				delete(markers, k)
			} else {
				got = append(got, ev)
			}
		case <-deadline:
			return nil, "listener barrier did not complete within 20 s"
		}
	}
	return got, ""
}

type c06IngestCase struct {
	// Coverts are ingested in order as registrations of one client secret (a second entry is a
	// repeated registration with another covert). "{P}" stands for the listeners' port.
	Coverts []string  `json:"coverts"`
	Cfg     c06Cfg    `json:"cfg"`
	Script  c06Script `json:"script"`
	V6      bool      `json:"v6_phantom"`
	Labels  []string  `json:"labels,omitempty"`
}

func c06ResetRegistry(e *vEnv) {
	old := e.rm.registeredDecoys
	nr := NewRegisteredDecoys()
	for k, v := range old.transports {
		nr.transports[k] = v
	}
	nr.registerForDetector = old.registerForDetector
	nr.updateInDetector = old.updateInDetector
	e.rm.registeredDecoys = nr
	e.mu.Lock()
	e.anns = nil
	e.mu.Unlock()
}

func c06GenIngest(rt *rapid.T) c06IngestCase {
	var c c06IngestCase
	pick := func(pool []string, label string, max int) []string {
		n := rapid.IntRange(0, max).Draw(rt, label+"-n")
		var out []string
		for i := 0; i < n; i++ {
			out = append(out, rapid.SampledFrom(pool).Draw(rt, label))
		}
		return out
	}
	c.Cfg.Block = pick([]string{"127.0.0.2/32", "127.0.0.3/32", "::1/128", "127.0.0.0/8", "127.0.0.0/31", "127.0.0.2/31", "10.0.0.0/8", "::ffff:127.0.0.2/128", "fe80::/10", "127.0.0.4/32", "127.0.0.1/32"}, "block", 3)
	if rapid.IntRange(0, 9).Draw(rt, "allowp") < 3 {
		c.Cfg.Allow = pick([]string{"127.0.0.1/32", "127.0.0.0/30", "::1/128", "127.0.0.0/8", "127.0.0.3/32", "127.0.0.4/31"}, "allow", 2)
	}
	if rapid.IntRange(0, 9).Draw(rt, "domp") < 3 {
		c.Cfg.Domains = pick([]string{`^rebind\.`, "blocked", "^$", ":", `^127\.`}, "dom", 2)
	}
	c.V6 = rapid.Bool().Draw(rt, "v6")
	ans := func(label string, v6 bool) []string {
		pool := []string{"127.0.0.1", "127.0.0.1", "127.0.0.2", "127.0.0.3", "127.0.0.4", "127.0.0.4", "127.0.0.5"}
		if v6 {
			pool = []string{"::1", "::1", "::ffff:127.0.0.2", "::ffff:127.0.0.1"}
		}
		return pick(pool, label, 2)
	}
	ne := rapid.IntRange(1, 3).Draw(rt, "nepochs")
	for i := 0; i < ne; i++ {
		c.Script.Epochs = append(c.Script.Epochs, c06Epoch{AMode: "answer", A: ans("a", false), AAAAMode: "answer", AAAA: ans("aaaa", true)})
	}
	hosts := []string{
		"127.0.0.1", "127.0.0.2", "127.0.0.3", "[::1]", "[::ffff:127.0.0.1]", "[::ffff:7f00:2]", "[0:0:0:0:0:0:0:1]", "[::1%lo]", "[::ffff:127.0.0.1%lo]", "[127.0.0.1]", "127.0.0.01", "127.1",
		"rebind.example.test", "rebind.example.test", "a.example.test", "a.example.test", "blocked.example.test", "REBIND.example.test", "", "[]",
		"127.0.0.4", "[::ffff:127.0.0.5]", "rebind.example.test", "a.example.test",
	}
	n := 1
	if rapid.IntRange(0, 4).Draw(rt, "repeat") == 0 {
		n = 2
	}
	for i := 0; i < n; i++ {
		h := rapid.SampledFrom(hosts).Draw(rt, "host")
		p := "{P}"
		if rapid.IntRange(0, 9).Draw(rt, "padport") == 0 {
			p = "0{P}"
		}
		c.Coverts = append(c.Coverts, h+":"+p)
	}
	return c
}

func c06CheckIngest(t vh.Fataler, rec *vh.Rec, e *vEnv, d *c06DNS, ls *c06Listeners, c c06IngestCase) {
	port := fmt.Sprint(ls.port)
	c06ResetRegistry(e)
	e.rm.RegConfig = c.Cfg.regConfig()
	d.reset(c.Script)
	if _, hp := ls.drain(); hp != "" {
		t.Fatalf("harness problem: %s", hp)
	}

	type sub struct {
		covert string
		reg    *DecoyRegistration
		served []c06Query
	}
	var subs []sub
	var classes []string
	for _, tmpl := range c.Coverts {
		covert := strings.ReplaceAll(tmpl, "{P}", port)
		w := vWrapper(vSecret(6), pb.TransportType_Min, 0, covert, !c.V6, c.V6, 4, 957, pb.RegistrationSource_API, net.ParseIP("198.51.100.7").To4())
		reg, err := e.rm.NewRegistrationC2SWrapper(w, c.V6)
		if err != nil {
			t.Fatalf("harness problem: cannot build registration: %v", err)
		}
		before := len(d.snapshot())
		e.rm.ingestRegistration(reg)
		if hp := d.quiesce(); hp != "" {
			t.Fatalf("harness problem: %s", hp)
		}
		subs = append(subs, sub{covert, reg, d.snapshot()[before:]})
	}
	if len(subs) > 1 {
		classes = append(classes, "ingest:repeated-registration")
	}
	nAfterIngest := len(d.snapshot())

	// the registration the station finds for this phantom when the client connects
	tr := e.rm.registeredDecoys.transports[subs[0].reg.Transport]
	id := tr.GetIdentifier(subs[0].reg)
	var stored *DecoyRegistration
	if r, ok := e.rm.GetRegistrations(subs[0].reg.PhantomIp)[id]; ok {
		stored = r.(*DecoyRegistration)
	}
	which := -1
	for i := range subs {
		if subs[i].reg == stored {
			which = i
		}
	}
	fail := func(key, format string, a ...any) {
		rec.Case(true, vh.Digest(c), c, append(classes, c.Labels...)...)
		rec.Violation(t, key, c, format, a...)
	}
	if stored != nil && which < 0 {
		t.Fatalf("harness problem: the valid registration is none of the submitted ones")
	}
	var v c06Verdict
	if stored == nil {
		classes = append(classes, "ingest:no-valid-registration")
		// nothing will be dialled; only the must-accept direction can be violated, for the first registration
		v = c06Judge(subs[0].covert, c.Cfg, "", subs[0].served)
	} else {
		classes = append(classes, "ingest:valid-registration")
		v = c06Judge(subs[which].covert, c.Cfg, stored.Covert, subs[which].served)
	}
	classes = append(classes, v.Classes...)
	classes = append(classes, c06ScriptClasses(c.Script, d.snapshot())...)
	if v.Key == "harness" {
		t.Fatalf("harness problem: %s", v.Msg)
	}
	if v.Key != "" {
		fail(v.Key, "after ingestRegistration (coverts %q): %s", c.Coverts, v.Msg)
		return
	}
	if stored == nil {
		rec.Case(v.Nontriv, vh.Digest(c), c, append(classes, c.Labels...)...)
		return
	}

	// the dial: only towards loopback listeners the harness owns
	ap, err := netip.ParseAddrPort(stored.Covert)
	if err != nil {
		t.Fatalf("harness problem: judged literal %q does not parse", stored.Covert)
	}
	want, dead := -1, false
	for i, ip := range c06LoopIPs {
		if netip.MustParseAddr(ip) == c06Plain(ap.Addr()) {
			want = i
		}
	}
	for _, ip := range c06DeadIPs {
		if netip.MustParseAddr(ip) == c06Plain(ap.Addr()) {
			dead = true
		}
	}
	if (want < 0 && !dead) || int(ap.Port()) != ls.port {
		classes = append(classes, "dial:skipped-not-a-listener")
		rec.Case(true, vh.Digest(c), c, append(classes, c.Labels...)...)
		return
	}
	cl, sv := net.Pipe()
	sv.Close() // the client side is gone at once: Proxy dials, then both half pipes end
	Proxy(stored, cl, e.rm.Logger)
	cl.Close()
	if hp := d.quiesce(); hp != "" {
		t.Fatalf("harness problem: %s", hp)
	}
	got, hp := ls.drain()
	if hp != "" {
		t.Fatalf("harness problem: %s", hp)
	}
	isName := false
	if h, _, ok := c06Split(subs[which].covert); ok {
		_, err := netip.ParseAddr(h)
		isName = err != nil
	}
	if dead {
		classes = append(classes, "dial:refused")
		if isName {
			classes = append(classes, "dial:refused-name-pinned")
			if len(c.Script.Epochs) > 1 {
				classes = append(classes, "dial:refused-name-pinned-answers-change")
			}
		}
	} else {
		classes = append(classes, "dial:performed")
		if subs[which].covert != stored.Covert {
			classes = append(classes, "dial:after-rewrite")
		}
	}
	if n := len(d.snapshot()); n != nAfterIngest {
		fail("covert:lookup-after-admission", "coverts %q: %d DNS queries were made after admission, while dialling %q: %v", c.Coverts, n-nAfterIngest, stored.Covert, d.snapshot()[nAfterIngest:])
		return
	}
	if dead {
		if len(got) != 0 {
			var where []string
			for _, g := range got {
				where = append(where, c06LoopIPs[g.Listener])
			}
			fail("covert:dial-mismatch", "coverts %q admitted as %q, where nothing listens; after the refused dial Proxy connected to %v (the only address it may dial is the one that was checked)", c.Coverts, stored.Covert, where)
			return
		}
		rec.Case(true, vh.Digest(c), c, append(classes, c.Labels...)...)
		return
	}
	if len(got) != 1 || got[0].Listener != want {
		var where []string
		for _, g := range got {
			where = append(where, c06LoopIPs[g.Listener])
		}
		fail("covert:dial-mismatch", "coverts %q admitted as %q, but Proxy connected to %v (expected exactly one connection to %s)", c.Coverts, stored.Covert, where, c06LoopIPs[want])
		return
	}
	rec.Case(true, vh.Digest(c), c, append(classes, c.Labels...)...)
}

func TestVerif_C06_ingest(t *testing.T) {
	rec := vh.NewRec("C06", "ingest", "rapid: 1-2 registrations of one client secret (covert = literal in several textual forms / host name / empty host, port = the port of loopback listeners on 127.0.0.1-3 and ::1; 127.0.0.4-5 have no listener on that port, so the dial of a covert pinned there is refused) x configuration over loopback subnets x resolver script whose answers change between lookups; ingestRegistration on a RegistrationManager with the real transports, then the registration found for the phantom is handed to Proxy. Oracle: the stored Covert is judged like a ParseOrResolveBlocklisted result against the covert of the registration that became valid and the DNS queries served during its ingest; a canonical permitted covert must yield a valid registration with the covert unchanged; Proxy connects exactly once, to the listener whose address is the stored literal, and makes no DNS query; when the stored literal refuses the connection Proxy connects nowhere and still makes no DNS query (no fall-back to another address of the name). Non-trivial: every case with a valid registration or a forbidden input. Distinct by case")
	defer rec.Flush()
	rec.Require("ingest:valid-registration", "ingest:no-valid-registration", "ingest:repeated-registration", "dial:performed", "dial:after-rewrite",
		"dial:refused", "dial:refused-name-pinned", "dial:refused-name-pinned-answers-change",
		"out:name-accepted", "dns:answers-change-between-lookups", "cfg:allowlist", "in:literal-forbidden")
	d := c06InstallResolver(t)
	ls := c06Listen(t)
	e := vNewEnv(t, nil, "")
	var c c06IngestCase
	if c06Replay(t, &c) {
		c06CheckIngest(t, rec, e, d, ls, c)
		return
	}
	rapid.Check(t, func(rt *rapid.T) {
		c06CheckIngest(rt, rec, e, d, ls, c06GenIngest(rt))
	})
}
