package lib

// C06 — the station never dials a covert address that policy forbids.
//
// Sub-checks:
//   parse   rapid: covert strings from a grammar x configurations, straight into
//           RegConfig.ParseOrResolveBlocklisted, judged by the netip reference policy.
//   enum    exhaustive cross product: every textual form of a few addresses / names / empty host x
//           every port text x a handful of configurations (incl. the shipped one) x two resolver scripts.
//   resolve rapid: host names x resolver scripts (several records, answers that change between
//           lookups, NXDOMAIN, SERVFAIL, time-outs, dropped connections, CNAMEs, v4-mapped AAAA).
//   ingest  rapid: the whole admission path — ingestRegistration, the registration the station
//           then finds for the phantom, and Proxy dialling it; loopback listeners stand in for the
//           covert hosts and record which address was really dialled.

import (
	"encoding/json"
	"fmt"
	"net/netip"
	"sort"
	"strings"
	"testing"

	"pgregory.net/rapid"
	"verif/harness/vh"
)

type c06Case struct {
	Covert string    `json:"covert"`
	Cfg    c06Cfg    `json:"cfg"`
	Script c06Script `json:"script"`
	Labels []string  `json:"labels,omitempty"`
}

// c06Admit runs the admission decision of the code under test for one case.
func c06Admit(d *c06DNS, c c06Case) (result string, served []c06Query, panicked any, harness string) {
	conf := c.Cfg.regConfig()
	d.reset(c.Script)
	func() {
		defer func() { panicked = recover() }()
		result, _ = conf.ParseOrResolveBlocklisted(c.Covert)
	}()
	harness = d.quiesce()
	served = d.snapshot()
	return
}

func c06Check(t vh.Fataler, rec *vh.Rec, d *c06DNS, c c06Case) string {
	result, served, pan, hp := c06Admit(d, c)
	if hp != "" {
		t.Fatalf("harness problem: %s", hp)
	}
	if pan != nil {
		rec.Case(true, vh.Digest(c), c, "out:panic")
		rec.Violation(t, "covert:panic", c, "ParseOrResolveBlocklisted(%q) panicked: %v", c.Covert, pan)
		return "covert:panic"
	}
	v := c06Judge(c.Covert, c.Cfg, result, served)
	classes := append(append([]string(nil), v.Classes...), c.Labels...)
	classes = append(classes, c06ScriptClasses(c.Script, served)...)
	rec.Case(v.Nontriv, vh.Digest(c), c, classes...)
	if v.Key == "harness" {
		t.Fatalf("harness problem: %s", v.Msg)
	}
	if v.Key != "" {
		rec.Violation(t, v.Key, c, "%s", v.Msg)
	}
	return v.Key
}

func c06ScriptClasses(s c06Script, served []c06Query) []string {
	if len(served) == 0 {
		return nil
	}
	var out []string
	if len(s.Epochs) > 1 {
		a, _ := json.Marshal(s.Epochs[0])
		b, _ := json.Marshal(s.Epochs[1])
		if string(a) != string(b) {
			out = append(out, "dns:answers-change-between-lookups")
		}
	}
	seen := map[string]bool{}
	for _, q := range served {
		if len(q.Served) > 1 {
			seen["dns:several-records"] = true
		}
		if q.Mode != "answer" {
			seen["dns:"+q.Mode] = true
		}
		for _, a := range q.Served {
			if x, err := netip.ParseAddr(a); err == nil && x.Is4In6() {
				seen["dns:v4-mapped-aaaa"] = true
			}
		}
	}
	for k := range seen {
		out = append(out, k)
	}
	sort.Strings(out)
	return out
}

func c06Replay(t *testing.T, v any) bool {
	p := vh.ReplayFile()
	if p == "" {
		return false
	}
	if _, _, err := vh.LoadReplay(p, v); err != nil {
		t.Fatal(err)
	}
	return true
}

// ---- parse ------------------------------------------------------------------------------------

func TestVerif_C06_parse(t *testing.T) {
	rec := vh.NewRec("C06", "parse", "rapid: covert string from a grammar (every textual form of addresses drawn inside / at the edges of / outside the configured subnets, port texts, empty host, host names, garbage) x configuration (blocklist, allowlist, domain patterns, public-address blocking) x resolver script; result of ParseOrResolveBlocklisted judged by the netip reference policy in both directions. Non-trivial: the reference forbids the literal, the input was rewritten, or a name was looked up. Distinct by (covert, configuration, script)")
	defer rec.Flush()
	rec.Require("cfg:allowlist", "cfg:blocklist", "cfg:domains", "in:literal-forbidden", "in:literal-permitted", "in:literal-in-allow-and-block",
		"in:v4-mapped-literal", "in:zoned-literal", "in:canonical", "in:domain-match", "out:rewritten", "out:rejected", "out:accepted",
		"form:v4-mapped-dotted", "form:v6-zoned", "form:v4-leading-zeros", "form:v4-hex-octet", "form:v4-short", "form:empty-host", "form:hostname",
		"form:port-65536", "form:port-absent", "form:port-empty", "form:port-signed", "form:port-padded", "form:port-name", "form:garbage", "dns:queried")
	d := c06InstallResolver(t)
	var c c06Case
	if c06Replay(t, &c) {
		c06Check(t, rec, d, c)
		return
	}
	rapid.Check(t, func(rt *rapid.T) {
		cfg := c06GenCfg(rt)
		covert, labels := c06GenCovert(rt, cfg)
		c := c06Case{Covert: covert, Cfg: cfg, Script: c06GenScript(rt, cfg, false), Labels: labels}
		c06Check(rt, rec, d, c)
	})
}

// ---- enum -------------------------------------------------------------------------------------

func c06EnumHosts() []c06HostForm {
	var hs []c06HostForm
	v4s := []string{"127.0.0.1", "10.1.2.3", "8.8.8.8", "0.0.0.0", "192.168.0.1"}
	v6s := []string{"::1", "fe80::1", "fc00::1", "2001:db8::1", "::"}
	zones := []string{"lo", "a%b", ""}
	if vh.Thorough() {
		v4s = append(v4s, "172.16.0.1", "172.32.0.0", "169.254.169.254", "255.255.255.255", "100.64.0.1", "127.255.255.255", "9.255.255.255")
		v6s = append(v6s, "fe81::1", "fd00::2", "::2", "::7f00:1", "2002:7f00:1::1", "ff02::1")
		zones = c06Zones
	}
	for _, s := range v4s {
		hs = append(hs, c06V4Forms(netip.MustParseAddr(s))...)
	}
	for _, s := range v6s {
		for _, z := range zones {
			hs = append(hs, c06V6Forms(netip.MustParseAddr(s), z)...)
		}
	}
	for _, n := range c06Names {
		hs = append(hs, c06HostForm{n, "hostname", false})
	}
	hs = append(hs, c06HostForm{"", "empty-host", false}, c06HostForm{"", "empty-host", true}, c06HostForm{"example.test", "hostname", true})
	// de-duplicate
	seen := map[string]bool{}
	out := hs[:0]
	for _, h := range hs {
		k := fmt.Sprintf("%v|%s", h.Bracket, h.Text)
		if !seen[k] {
			seen[k] = true
			out = append(out, h)
		}
	}
	return out
}

var c06EnumCfgs = []c06Cfg{
	{},
	c06Shipped,
	{Block: c06Shipped.Block, Domains: c06Shipped.Domains, Public: true},
	{Allow: []string{"8.8.8.0/24", "2001:db8::/32"}},
	{Allow: []string{"127.0.0.1/32", "::1/128"}, Block: []string{"127.0.0.0/8", "::1/128"}},
	{Block: []string{"0.0.0.0/0", "::/0"}},
	{Domains: []string{"^$"}},
	{Domains: []string{`.*blocked\.com$`, `example`, `^[0-9.]+$`}, Block: []string{"10.0.0.0/8"}},
	{Block: []string{"::ffff:127.0.0.0/104", "::ffff:10.1.2.3/128", "fe80::/10"}},
}

var c06EnumScripts = []c06Script{
	{Epochs: []c06Epoch{{AMode: "answer", A: []string{"127.0.0.1"}, AAAAMode: "answer", AAAA: []string{"::1"}}}},
	{Epochs: []c06Epoch{{AMode: "answer", A: []string{"8.8.8.8", "10.1.2.3"}, AAAAMode: "answer", AAAA: []string{"2001:db8::1"}}}},
}

func TestVerif_C06_enum(t *testing.T) {
	rec := vh.NewRec("C06", "enum", "exhaustive cross product: every textual form of {127.0.0.1, 10.1.2.3, 8.8.8.8, 0.0.0.0, 192.168.0.1, ::1, fe80::1, fc00::1, 2001:db8::1, ::} (zones lo / a%b / empty; thorough: 13 more addresses, 11 zones), the host-name list, empty host x every port text x 9 configurations (none, shipped, shipped+public addrs, allowlist, allowlisted hole in a blocklisted net, block everything, pattern matching the empty host, patterns matching literals, v4-mapped blocklist prefixes) x 2 wildcard resolver scripts (all names -> loopback; all names -> public+private records) for inputs that are not literals. Non-trivial and distinct as in parse")
	defer rec.Flush()
	rec.Require("in:literal-forbidden", "in:literal-permitted", "in:canonical", "in:domain-match", "out:rewritten", "out:name-accepted", "dns:queried", "form:empty-host")
	d := c06InstallResolver(t)
	var c c06Case
	if c06Replay(t, &c) {
		c06Check(t, rec, d, c)
		return
	}
	rec.SetExhaustive(true)
	hosts := c06EnumHosts()
	idx := 0
	seenKey := map[string]bool{}
	nf := &c06NoFatal{}
	for _, h := range hosts {
		host := h.Text
		if h.Bracket {
			host = "[" + host + "]"
		}
		_, litErr := netip.ParseAddr(h.Text)
		for _, p := range c06Ports {
			covert := host + ":" + p.Text
			if p.Label == "port-absent" {
				covert = host
			}
			for ci, cfg := range c06EnumCfgs {
				for si, sc := range c06EnumScripts {
					if si > 0 && litErr == nil {
						continue // the script cannot matter for a literal
					}
					idx++
					if !vh.Mine(idx) {
						continue
					}
					c := c06Case{Covert: covert, Cfg: cfg, Script: sc, Labels: []string{"form:" + h.Label, "form:" + p.Label, fmt.Sprintf("enumcfg:%d", ci)}}
					result, served, pan, hp := c06Admit(d, c)
					if hp != "" {
						t.Fatalf("harness problem: %s", hp)
					}
					v := c06Judge(c.Covert, c.Cfg, result, served)
					if pan != nil {
						v = c06Verdict{Key: "covert:panic", Msg: fmt.Sprintf("ParseOrResolveBlocklisted(%q) panicked: %v", c.Covert, pan), Nontriv: true}
					}
					rec.Case(v.Nontriv, vh.Digest(c), c, append(append([]string(nil), v.Classes...), c.Labels...)...)
					if v.Key == "harness" {
						t.Fatalf("harness problem: %s", v.Msg)
					}
					if v.Key != "" && !seenKey[v.Key] {
						// keep going: report the first (simplest) case of every root cause
						seenKey[v.Key] = true
						rec.Violation(nf, v.Key, c, "%s", v.Msg)
					}
				}
			}
		}
	}
	if len(nf.msgs) > 0 {
		t.Fatalf("%s", strings.Join(nf.msgs, "\n"))
	}
}

// c06NoFatal lets an enumeration carry on after a violation and fail at the end.
type c06NoFatal struct{ msgs []string }

func (n *c06NoFatal) Fatalf(format string, a ...any) {
	n.msgs = append(n.msgs, fmt.Sprintf(format, a...))
}
func (n *c06NoFatal) Helper() {}

// ---- resolve ----------------------------------------------------------------------------------

var c06ResolvableNames = []string{
	"example.test", "a.b.example.test", "rebind.example.test", "blocked.com", "abc.blocked.com", "Blocked.COM", "blocked.com.", "blocked1.com",
	"notblocked2.com", "localhost.example.test", "xn--bcher-kva.example", "example.test.", "EXAMPLE.TEST", "a", "a_b.test", "1.2.3.4.example.test",
	"127.0.0.1.nip.test", "7f000001.test", "0x7f.0.0.1", "0x7f000001", "foo.invalid", "localhost", "LOCALHOST", "127.1", "a..b", "example.test%eth0",
}

func TestVerif_C06_resolve(t *testing.T) {
	rec := vh.NewRec("C06", "resolve", "rapid: host-name coverts x configurations x resolver scripts of 1-4 epochs (the k-th query of a (name,type) is answered from epoch k: several A/AAAA records drawn inside / at the edges of the configured subnets, answers that change between lookups, NXDOMAIN, NOERROR without data, SERVFAIL, virtual time-outs, dropped connections, CNAME chains, v4-mapped AAAA records). Oracle: a non-empty result is a literal that is one of the addresses answered while the decision was made, permitted by the reference policy, with the input's port; no (name,type) is asked twice unless a query failed; the input host matched no pattern. Non-trivial: a query was served. Distinct by (covert, configuration, script)")
	defer rec.Flush()
	rec.Require("out:name-accepted", "out:rejected", "dns:queried", "dns:answers-change-between-lookups", "dns:several-records", "dns:nxdomain", "dns:servfail",
		"dns:timeout", "dns:drop", "dns:v4-mapped-aaaa", "dns:retried", "cfg:allowlist", "cfg:blocklist", "in:domain-match")
	d := c06InstallResolver(t)
	var c c06Case
	if c06Replay(t, &c) {
		c06Check(t, rec, d, c)
		return
	}
	rapid.Check(t, func(rt *rapid.T) {
		cfg := c06GenCfg(rt)
		name := rapid.SampledFrom(c06ResolvableNames).Draw(rt, "name")
		port := "443"
		if rapid.IntRange(0, 9).Draw(rt, "oddport") == 0 {
			port = c06Ports[rapid.IntRange(0, len(c06Ports)-1).Draw(rt, "port")].Text
		}
		sc := c06GenScript(rt, cfg, true)
		if len(sc.Epochs) == 0 || rapid.IntRange(0, 2).Draw(rt, "prepend") == 0 {
			// make sure most scripts start by answering something
			e := c06Epoch{AMode: "answer", A: c06GenAnswers(rt, cfg, false, "a0"), AAAAMode: "answer", AAAA: c06GenAnswers(rt, cfg, true, "aaaa0")}
			sc.Epochs = append([]c06Epoch{e}, sc.Epochs...)
		}
		if rapid.IntRange(0, 5).Draw(rt, "failfirst") == 0 {
			// a first query that fails, so that one lookup consumes more than one epoch (resolver retry)
			m := rapid.SampledFrom([]string{"servfail", "timeout", "drop"}).Draw(rt, "failmode")
			sc.Epochs = append([]c06Epoch{{AMode: m, AAAAMode: m}}, sc.Epochs...)
		}
		c := c06Case{Covert: name + ":" + port, Cfg: cfg, Script: sc, Labels: []string{"form:hostname"}}
		c06Check(rt, rec, d, c)
	})
}
