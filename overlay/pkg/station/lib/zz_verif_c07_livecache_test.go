package lib

// C07, liveness cache — "the phantom did not answer the liveness probe" with the station's REAL
// CachedLivenessTester (liveness.New, real prober) in every cache mode, over two- and three-step
// histories on ONE phantom address.
//
// The phantom is 127.0.0.1 (registrar-assigned); the registrar-assigned PORT selects how the host
// behaves at that step: a listening port (SYN-ACK), a closed port (RST) or a black hole (SYN dropped,
// c07Blackhole). The cache is keyed by address, so changing the port between steps is "the host came
// up / went away". Every step is a different client (another shared secret).
//
// The tester is wrapped by a recorder that passes every call through and notes the answer and
// whether it came from the cache (liveness.ErrCachedPhantom) or from a measurement. Oracle:
//   - usable and announced <=> the tester's answer for that registration was "not live";
//   - an answer from the cache must repeat the LAST MEASURED verdict for that address, that
//     measurement must be younger than the lifetime configured for that kind of verdict, and that
//     kind of verdict must be cached at all in this mode. So: never "admitted although the last
//     measured verdict within the applicable lifetime was live", never "probe skipped although no
//     applicable cache holds a fresh verdict".
// Whether a fresh verdict MUST be served from the cache is C18's subject, not asserted here.

import (
	"errors"
	"fmt"
	"net"
	"sync"
	"testing"
	"time"

	"github.com/refraction-networking/conjure/pkg/station/liveness"
	"github.com/refraction-networking/conjure/pkg/station/log"
	pb "github.com/refraction-networking/conjure/proto"
	"google.golang.org/protobuf/proto"
	"verif/harness/vh"
)

type c07LCCall struct {
	Addr   string
	Live   bool
	Cached bool
	At     time.Time
}

type c07LCSpy struct {
	inner liveness.Tester
	mu    sync.Mutex
	calls []c07LCCall
}

func (s *c07LCSpy) PhantomIsLive(addr string, port uint16) (bool, error) {
	live, err := s.inner.PhantomIsLive(addr, port)
	s.mu.Lock()
	s.calls = append(s.calls, c07LCCall{Addr: addr, Live: live, Cached: errors.Is(err, liveness.ErrCachedPhantom), At: time.Now()})
	s.mu.Unlock()
	return live, err
}
func (s *c07LCSpy) PrintAndReset(l *log.Logger) { s.inner.PrintAndReset(l) }
func (s *c07LCSpy) PrintStats(l *log.Logger)    { s.inner.PrintStats(l) }
func (s *c07LCSpy) Reset()                      { s.inner.Reset() }

type c07LCMode struct {
	Name    string `json:"name"`
	Live    string `json:"live"`    // lifetime of live verdicts, "" = not cached
	NonLive string `json:"nonlive"` // lifetime of not-live verdicts, "" = not cached
	LRU     bool   `json:"lru"`
}

type c07LCStep struct {
	Host  string `json:"host"`              // listening | refused | silent
	WaitS int    `json:"wait_ms,omitempty"` // pause before the step (ms)
}

type c07LCCase struct {
	Mode  c07LCMode   `json:"mode"`
	Steps []c07LCStep `json:"steps"`
	Name  string      `json:"name"`
	// Burst > 0: the (single) step is made by that many clients at the same moment, each on its own
	// goroutine as the ingest workers are, all for the same phantom
	Burst int `json:"burst,omitempty"`
}

func (m c07LCMode) config() *liveness.Config {
	c := &liveness.Config{CacheDuration: m.Live, CacheDurationNonLive: m.NonLive}
	if m.LRU {
		if m.Live != "" {
			c.CacheCapacity = 8
		}
		if m.NonLive != "" {
			c.CacheCapacityNonLive = 8
		}
	}
	return c
}

type c07LCOutcome struct {
	Usable    []bool
	Announced []int
	Calls     [][]c07LCCall // calls made during each step
	Err       string
	// burst histories: per client
	BurstUsable []bool
	BurstAnns   int
}

func c07LCRun(tb testing.TB, c c07LCCase, ports map[string]int, idx int) c07LCOutcome {
	out := c07LCOutcome{}
	e := vNewEnv(tb, nil, "")
	real, err := liveness.New(c.Mode.config())
	if err != nil {
		out.Err = "liveness.New: " + err.Error()
		return out
	}
	spy := &c07LCSpy{inner: real}
	e.rm.LivenessTester = spy
	if c.Burst > 0 {
		st := c.Steps[0]
		msgs := make([][]byte, c.Burst)
		secrets := make([][]byte, c.Burst)
		for i := range msgs {
			tt := []pb.TransportType{pb.TransportType_Min, pb.TransportType_Prefix, pb.TransportType_Obfs4}[(idx+i)%3]
			secrets[i] = vSecret(7600 + idx*8 + i)
			w := vWrapper(secrets[i], tt, 0, "192.0.2.10:443", true, false, 4, 957, pb.RegistrationSource_API, net.ParseIP("198.51.100.7").To4())
			w.RegistrationResponse = &pb.RegistrationResponse{Ipv4Addr: proto.Uint32(0x7f000001), DstPort: proto.Uint32(uint32(ports[st.Host]))}
			b, err := proto.Marshal(w)
			if err != nil {
				out.Err = err.Error()
				return out
			}
			msgs[i] = b
		}
		start := make(chan struct{})
		errs := make([]string, c.Burst)
		var wg sync.WaitGroup
		for i := range msgs {
			wg.Add(1)
			go func(i int) {
				defer wg.Done()
				<-start
				regs, err := e.rm.parseRegMessage(msgs[i])
				if err != nil || len(regs) != 1 {
					errs[i] = fmt.Sprintf("burst client %d: message not parsed into one registration (%v)", i, err)
					return
				}
				e.rm.ingestRegistration(regs[0])
			}(i)
		}
		close(start)
		wg.Wait()
		for _, es := range errs {
			if es != "" {
				out.Err = es
				return out
			}
		}
		for i := range msgs {
			usable := false
			for _, r := range e.rm.GetRegistrations(net.ParseIP("127.0.0.1")) {
				if string(r.(*DecoyRegistration).Keys.SharedSecret) == string(secrets[i]) {
					usable = true
				}
			}
			out.BurstUsable = append(out.BurstUsable, usable)
		}
		out.BurstAnns = len(e.Anns())
		spy.mu.Lock()
		out.Calls = [][]c07LCCall{append([]c07LCCall(nil), spy.calls...)}
		spy.mu.Unlock()
		return out
	}
	seenAnn := 0
	for k, st := range c.Steps {
		if st.WaitS > 0 {
			time.Sleep(time.Duration(st.WaitS) * time.Millisecond)
		}
		tt := []pb.TransportType{pb.TransportType_Min, pb.TransportType_Prefix, pb.TransportType_Obfs4}[(idx+k)%3]
		secret := vSecret(7000 + idx*8 + k)
		w := vWrapper(secret, tt, 0, "192.0.2.10:443", true, false, 4, 957, pb.RegistrationSource_API, net.ParseIP("198.51.100.7").To4())
		w.RegistrationResponse = &pb.RegistrationResponse{Ipv4Addr: proto.Uint32(0x7f000001), DstPort: proto.Uint32(uint32(ports[st.Host]))}
		b, err := proto.Marshal(w)
		if err != nil {
			out.Err = err.Error()
			return out
		}
		spy.mu.Lock()
		n0 := len(spy.calls)
		spy.mu.Unlock()
		regs, err := e.rm.parseRegMessage(b)
		if err != nil || len(regs) != 1 {
			out.Err = fmt.Sprintf("step %d: message not parsed into one registration (%v)", k, err)
			return out
		}
		e.rm.ingestRegistration(regs[0])
		usable := false
		for _, r := range e.rm.GetRegistrations(net.ParseIP("127.0.0.1")) {
			if string(r.(*DecoyRegistration).Keys.SharedSecret) == string(secret) {
				usable = true
			}
		}
		anns := e.Anns()
		spy.mu.Lock()
		calls := append([]c07LCCall(nil), spy.calls[n0:]...)
		spy.mu.Unlock()
		out.Usable = append(out.Usable, usable)
		out.Announced = append(out.Announced, len(anns)-seenAnn)
		out.Calls = append(out.Calls, calls)
		seenAnn = len(anns)
	}
	return out
}

func c07LCDur(s string) time.Duration {
	if s == "" {
		return 0
	}
	d, err := time.ParseDuration(s)
	if err != nil {
		panic(err)
	}
	return d
}

// c07LCJudge applies the oracle to one history.
func c07LCJudge(c c07LCCase, o c07LCOutcome) (*c07Viol, map[string]bool) {
	cl := map[string]bool{"mode:" + c.Mode.Name: true, "history:" + c.Name: true}
	if c.Burst > 0 {
		// concurrent clients on one phantom: the host behaves the same for the whole burst, so
		// every one of them must be judged by that behaviour - whoever did the scanning
		host := c.Steps[0].Host
		cl["burst:"+host] = true
		admitted := 0
		for _, u := range o.BurstUsable {
			if u {
				admitted++
			}
		}
		what := fmt.Sprintf("mode %s, %d clients at the same moment on one phantom whose host is %s", c.Mode.Name, c.Burst, host)
		if len(o.Calls[0]) != c.Burst {
			return c07V("probe:count", "%s: %d liveness queries for %d registrations", what, len(o.Calls[0]), c.Burst), cl
		}
		if o.BurstAnns != admitted {
			return c07V("announce:usable-mismatch", "%s: %d usable, %d announced", what, admitted, o.BurstAnns), cl
		}
		if host == "silent" && admitted != c.Burst {
			return c07V("reject:all-conditions-hold", "%s: only %d of %d were admitted although the phantom never answers", what, admitted, c.Burst), cl
		}
		if host != "silent" && admitted > 0 {
			return c07V("admit:phantom-live:concurrent", "%s: %d of %d registrations were admitted (answers: %+v) although the phantom answers every probe: a registration that did not scan itself was given a verdict that no measurement stands behind", what, admitted, c.Burst, o.Calls[0]), cl
		}
		return nil, cl
	}
	var lastMeasured *c07LCCall
	for k := range c.Steps {
		what := fmt.Sprintf("mode %s, history %s, step %d (host %s)", c.Mode.Name, c.Name, k+1, c.Steps[k].Host)
		if len(o.Calls[k]) != 1 {
			return c07V("probe:count", "%s: %d liveness queries for one registration with an IPv4 phantom that is not pre-scanned", what, len(o.Calls[k])), cl
		}
		call := o.Calls[k][0]
		if o.Usable[k] != !call.Live || (o.Announced[k] == 1) != !call.Live {
			if call.Live {
				return c07V("admit:phantom-live", "%s: the liveness tester answered LIVE but the registration is usable=%v announced=%d", what, o.Usable[k], o.Announced[k]), cl
			}
			return c07V("reject:all-conditions-hold", "%s: the liveness tester answered not live but the registration is usable=%v announced=%d", what, o.Usable[k], o.Announced[k]), cl
		}
		if call.Cached {
			kind, lifetime := "not-live", c07LCDur(c.Mode.NonLive)
			if call.Live {
				kind, lifetime = "live", c07LCDur(c.Mode.Live)
			}
			cl["answer:cached-"+kind] = true
			switch {
			case lastMeasured == nil:
				return c07V("liveness-cache:answer-without-measurement", "%s: answered %s from the cache although this address was never measured", what, kind), cl
			case lastMeasured.Live != call.Live:
				verb := "refused"
				if o.Usable[k] {
					verb = "ADMITTED (usable, announced)"
				}
				return c07V("liveness-cache:contradicts-last-measurement:"+kind,
					"%s: no probe was sent and the tester answered %q from its cache, but the last measured verdict for this phantom, %v earlier, was %s; the registration was %s",
					what, kind, call.At.Sub(lastMeasured.At).Round(time.Millisecond), map[bool]string{true: "LIVE", false: "not live"}[lastMeasured.Live], verb), cl
			case lifetime == 0:
				return c07V("liveness-cache:answer-from-disabled-cache:"+kind, "%s: answered %s from a cache although %s verdicts are not cached in this mode", what, kind, kind), cl
			case call.At.Sub(lastMeasured.At) > lifetime:
				return c07V("liveness-cache:stale-answer:"+kind, "%s: probe skipped and %s answered from the cache although the last measurement is %v old and such verdicts live %v", what, kind, call.At.Sub(lastMeasured.At), lifetime), cl
			}
		} else {
			cl["answer:measured"] = true
			if k > 0 {
				cl["answer:re-measured"] = true
			}
			cc := call
			lastMeasured = &cc
			// (that the measurement matches the host's behaviour is the realprobe sub-check's subject)
		}
		if k > 0 && o.Usable[k] {
			cl["later-client-admitted"] = true
		}
		if k > 0 && !o.Usable[k] {
			cl["later-client-refused"] = true
		}
	}
	return nil, cl
}

func c07LCCases() []c07LCCase {
	modes := []c07LCMode{
		{Name: "none"},
		{Name: "live-only/map", Live: "1h"}, {Name: "live-only/lru", Live: "1h", LRU: true},
		{Name: "nonlive-only/map", NonLive: "1h"}, {Name: "nonlive-only/lru", NonLive: "1h", LRU: true},
		{Name: "both/map", Live: "1h", NonLive: "1h"}, {Name: "both/lru", Live: "1h", NonLive: "1h", LRU: true},
		// short lifetimes: every step is more than a lifetime after the one before
		{Name: "live-only-short/map", Live: "250ms"}, {Name: "nonlive-only-short/map", NonLive: "250ms"},
		{Name: "both-short/lru", Live: "250ms", NonLive: "250ms", LRU: true},
		// different lifetimes for the two kinds; the *-wait-* histories query at an age between them
		{Name: "both-nonlive-shorter/map", Live: "4s", NonLive: "300ms"}, {Name: "both-nonlive-shorter/lru", Live: "4s", NonLive: "300ms", LRU: true},
		{Name: "both-live-shorter/map", Live: "300ms", NonLive: "4s"}, {Name: "both-live-shorter/lru", Live: "300ms", NonLive: "4s", LRU: true},
	}
	hist := []struct {
		name  string
		steps []c07LCStep
	}{
		{"live-then-another-client", []c07LCStep{{Host: "listening"}, {Host: "listening"}}},
		{"rst-then-another-client-host-silent", []c07LCStep{{Host: "refused"}, {Host: "silent"}}},
		{"silent-then-host-comes-up", []c07LCStep{{Host: "silent"}, {Host: "listening"}}},
		{"live-then-silent-then-live", []c07LCStep{{Host: "listening"}, {Host: "silent", WaitS: 400}, {Host: "refused", WaitS: 400}}},
		{"silent-wait-host-comes-up", []c07LCStep{{Host: "silent"}, {Host: "listening", WaitS: 700}}},
		{"live-wait-host-goes-silent", []c07LCStep{{Host: "refused"}, {Host: "silent", WaitS: 700}}},
	}
	var out []c07LCCase
	for _, m := range modes {
		for _, h := range hist {
			out = append(out, c07LCCase{Mode: m, Steps: h.steps, Name: h.name})
		}
		out = append(out,
			c07LCCase{Mode: m, Steps: []c07LCStep{{Host: "listening"}}, Name: "burst-on-live-phantom", Burst: 3},
			c07LCCase{Mode: m, Steps: []c07LCStep{{Host: "refused"}}, Name: "burst-on-rst-phantom", Burst: 2},
			c07LCCase{Mode: m, Steps: []c07LCStep{{Host: "silent"}}, Name: "burst-on-silent-phantom", Burst: 4})
	}
	return out
}

func TestVerif_C07_livecache(t *testing.T) {
	rec := vh.NewRec("C07", "livecache", "the station's real CachedLivenessTester (liveness.New, real prober, wrapped by a pass-through recorder) in the modes {no cache, live-only, not-live-only, both} x {map, LRU} plus three modes with 250 ms lifetimes and four with different lifetimes for the two kinds (queried at an age between them), plus bursts of 2-4 clients released together on one phantom in every mode (none admitted if the host answers, all if it is silent), x histories of 2-3 registrations by different clients on one loopback phantom whose behaviour changes between steps (listening / RST / black hole, selected by the registrar-assigned port; the cache is keyed by address): live then another client; RST then silent; silent then the host comes up; live / silent / RST across lifetime boundaries. Through the real parseRegMessage + ingestRegistration. Oracle: usable and announced <=> the tester answered not live; an answer from the cache repeats the last MEASURED verdict for the address, which is younger than the lifetime of that kind of verdict, and that kind is cached in the mode. Exhaustive over the listed modes x histories. Non-trivial: every history. Real time: about 3 s.")
	defer rec.Flush()
	rec.SetExhaustive(true)
	cases := c07LCCases()
	if p := vh.ReplayFile(); p != "" {
		var c c07LCCase
		if _, _, err := vh.LoadReplay(p, &c); err != nil {
			t.Fatal(err)
		}
		cases = []c07LCCase{c}
	} else {
		rec.Require("answer:measured", "answer:re-measured", "answer:cached-live", "answer:cached-not-live", "later-client-admitted", "later-client-refused",
			"mode:none", "mode:live-only/map", "mode:nonlive-only/map", "mode:nonlive-only/lru", "mode:both/lru", "mode:nonlive-only-short/map",
			"mode:both-nonlive-shorter/map", "mode:both-live-shorter/lru", "burst:listening", "burst:refused", "burst:silent")
	}
	ln, err := net.Listen("tcp", "127.0.0.1:0")
	if err != nil {
		t.Fatalf("harness problem: %v", err)
	}
	defer ln.Close()
	go func() {
		for {
			c, err := ln.Accept()
			if err != nil {
				return
			}
			c.Close()
		}
	}()
	closed, err := net.Listen("tcp", "127.0.0.1:0")
	if err != nil {
		t.Fatalf("harness problem: %v", err)
	}
	closedPort := closed.Addr().(*net.TCPAddr).Port
	closed.Close()
	bhPort, bhCleanup, err := c07Blackhole()
	if err != nil {
		t.Fatalf("harness problem: %v", err)
	}
	defer bhCleanup()
	ports := map[string]int{"listening": ln.Addr().(*net.TCPAddr).Port, "refused": closedPort, "silent": bhPort}

	type job struct {
		c   c07LCCase
		idx int
		out c07LCOutcome
	}
	var jobs []*job
	for i, c := range cases {
		if vh.ReplayFile() != "" || vh.Mine(i) {
			jobs = append(jobs, &job{c: c, idx: i})
		}
	}
	var wg sync.WaitGroup
	for _, j := range jobs {
		wg.Add(1)
		go func(j *job) {
			defer wg.Done()
			j.out = c07LCRun(t, j.c, ports, j.idx)
		}(j)
	}
	wg.Wait()
	for _, j := range jobs {
		if j.out.Err != "" {
			t.Fatalf("harness problem: %s (%+v)", j.out.Err, j.c)
		}
		v, cl := c07LCJudge(j.c, j.out)
		var classes []string
		for k := range cl {
			classes = append(classes, k)
		}
		rec.Case(true, vh.Digest(j.c), j.c, classes...)
		if v != nil {
			rec.Violation(t, v.Key, j.c, "%s", v.Msg)
		}
	}
}
