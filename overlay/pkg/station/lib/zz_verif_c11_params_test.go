package lib

// C11 — transport parameters are attacker-influenced: ParseParams / GetDstPort / ParamStrings of
// every station transport (min, obfs4, prefix as built by the station with and without the default
// prefixes and as built by the registrar, dtls) on an arbitrary Any{TypeUrl, Value} (or none) and an
// arbitrary client library version, called the way the station and the registrar call them
// (GetDstPort / ParamStrings only on what ParseParams returned without error, plus the nil
// parameters an absent Any yields).

import (
	"fmt"
	"testing"

	cdtls "github.com/refraction-networking/conjure/pkg/transports/connecting/dtls"
	"github.com/refraction-networking/conjure/pkg/transports/wrapping/min"
	"github.com/refraction-networking/conjure/pkg/transports/wrapping/obfs4"
	"github.com/refraction-networking/conjure/pkg/transports/wrapping/prefix"
	pb "github.com/refraction-networking/conjure/proto"
	"google.golang.org/protobuf/proto"
	"google.golang.org/protobuf/types/known/anypb"
	"pgregory.net/rapid"
	"verif/harness/c11h"
	"verif/harness/vh"
)

const c11ParamsSub = "params"

type c11ParamsCase struct {
	T      int    `json:"transport"` // index into c11ParamTransports
	LibVer uint32 `json:"libver"`
	Absent bool   `json:"absent,omitempty"`
	URL    string `json:"type_url"`
	Value  vh.Hex `json:"value"`
	Seed   vh.Hex `json:"seed"`
}

type c11NamedTransport struct {
	name string
	kind string
	t    Transport
}

func c11ParamTransports(tb testing.TB) []c11NamedTransport {
	var priv [32]byte
	for i := range priv {
		priv[i] = byte(i + 1)
	}
	def, err := prefix.Default([][32]byte{priv})
	if err != nil {
		tb.Fatalf("harness problem: %v", err)
	}
	bare, err := prefix.New([][32]byte{priv}, "/nonexistent/prefixes") // DisableDefaultPrefixes + file: nil prefix map
	if err != nil {
		tb.Fatalf("harness problem: %v", err)
	}
	return []c11NamedTransport{
		{"min", "generic", min.Transport{}},
		{"obfs4", "generic", obfs4.Transport{}},
		{"prefix-default", "prefix", def},
		{"prefix-registrar", "prefix", prefix.DefaultSet()},
		{"prefix-no-defaults", "prefix", bare},
		{"dtls", "dtls", cdtls.Transport{}},
		{"dtls-ptr", "dtls", &cdtls.Transport{}},
	}
}

func c11ParamsRun(ts []c11NamedTransport, c c11ParamsCase) (classes []string, nontrivial bool, o c11h.Outcome) {
	nt := ts[((c.T%len(ts))+len(ts))%len(ts)]
	classes = append(classes, "t:"+nt.name)
	var cls []string
	o = c11h.Guard(c11h.Bound, func() {
		var a *anypb.Any
		if !c.Absent {
			a = &anypb.Any{TypeUrl: c.URL, Value: append([]byte(nil), c.Value...)}
		}
		lv := uint(c.LibVer)
		p, err := nt.t.ParseParams(lv, a)
		if err != nil {
			cls = append(cls, "parse-error")
		} else {
			if p == nil {
				cls = append(cls, "parsed-nil")
			} else {
				cls = append(cls, "parsed", fmt.Sprintf("parsed:%T", p))
				nontrivial = true
			}
			if _, err := nt.t.GetDstPort(lv, c.Seed, p); err != nil {
				cls = append(cls, "port-error")
			} else {
				cls = append(cls, "port-ok")
			}
			_ = nt.t.ParamStrings(p)
		}
		_, _ = nt.t.GetDstPort(lv, c.Seed, nil)
		_ = nt.t.ParamStrings(nil)
		_ = nt.t.GetProto()
	})
	if o.Hung || o.Inconclusive {
		return append(classes, "gave-up-waiting"), true, o
	}
	return append(classes, cls...), nontrivial, o
}

func c11ParamsCheck(t vh.Fataler, rec *vh.Rec, ts []c11NamedTransport, c c11ParamsCase, fuzz bool) {
	classes, nontrivial, o := c11ParamsRun(ts, c)
	classes = append(classes, c11h.Source(fuzz))
	c11h.Report(t, rec, c11ParamsSub, "station-params", c, vh.Digest(c), o, nontrivial, classes...)
}

const c11ParamsRule = "ParseParams -> GetDstPort / ParamStrings of each station transport object (min, obfs4, prefix x {station default set, registrar set, no defaults}, dtls) on a drawn Any (matching / mismatched / corrupt message, full / empty / legacy / foreign / garbage type URL, or absent) and library version (0..6, huge); non-trivial = ParseParams returned a parameter object, so the port / tag logic ran on attacker-chosen fields; distinct by case"

func c11ParamsGen(rt *rapid.T, ts []c11NamedTransport) c11ParamsCase {
	c := c11ParamsCase{T: rapid.IntRange(0, len(ts)-1).Draw(rt, "transport")}
	c.LibVer = rapid.SampledFrom([]uint32{4, 3, 2, 1, 0, 5, 6, 1 << 31, ^uint32(0)}).Draw(rt, "libver")
	g := c11h.NewG(rt, c11h.Dom{})
	a := g.Any("any", ts[c.T].kind)
	if a == nil {
		c.Absent = true
	} else {
		c.URL, c.Value = a.TypeUrl, a.Value
	}
	c.Seed = c11h.Bytes(rt, "seed", []int{16, 16, 16, 0, 1, 32})
	return c
}

func c11ParamsSeeds() [][]any {
	var out [][]any
	seed := []byte("0123456789abcdef")
	add := func(t int, lv uint32, m proto.Message, url string) {
		a, err := anypb.New(m)
		if err != nil {
			panic(err)
		}
		if url != "keep" {
			a.TypeUrl = url
		}
		out = append(out, []any{uint16(t), lv, a.TypeUrl, a.Value, seed})
	}
	for t := 0; t < 7; t++ {
		for _, lv := range []uint32{4, 2} {
			add(t, lv, &pb.GenericTransportParams{RandomizeDstPort: proto.Bool(true)}, "keep")
			add(t, lv, &pb.PrefixTransportParams{PrefixId: proto.Int32(int32(t)), RandomizeDstPort: proto.Bool(true), Prefix: []byte("GET / HTTP/1.1\r\n"), CustomFlushPolicy: proto.Int32(2)}, "keep")
			add(t, lv, &pb.PrefixTransportParams{PrefixId: proto.Int32(-1)}, "")
			add(t, lv, &pb.DTLSTransportParams{SrcAddr4: &pb.Addr{IP: []byte{198, 51, 100, 7}, Port: proto.Uint32(40000)}, SrcAddr6: &pb.Addr{}, RandomizeDstPort: proto.Bool(true), Unordered: proto.Bool(true)}, "keep")
			add(t, lv, &pb.DTLSTransportParams{}, "type.googleapis.com/tapdance.DTLSTransportParams")
		}
		out = append(out, []any{uint16(t | 0x100), uint32(4), "", []byte{}, seed}, []any{uint16(t), uint32(4), "\xff", []byte{0x08}, []byte{}},
			[]any{uint16(t), uint32(4), "", []byte{0x08, 0xff, 0xff, 0xff, 0xff, 0xff, 0xff, 0xff, 0xff, 0xff, 0x01}, seed})
	}
	return out
}

func TestVerif_C11_params(t *testing.T) {
	rec := c11h.Rec(c11ParamsSub, c11ParamsRule)
	defer rec.Flush()
	ts := c11ParamTransports(t)
	if p := vh.ReplayFile(); p != "" {
		var c c11ParamsCase
		if _, _, err := vh.LoadReplay(p, &c); err != nil {
			t.Fatal(err)
		}
		c11ParamsCheck(t, rec, ts, c, false)
		return
	}
	rec.Require("parsed", "parsed-nil", "parse-error", "port-ok", "port-error", "parsed:*proto.PrefixTransportParams", "parsed:*proto.DTLSTransportParams", "parsed:*proto.GenericTransportParams")
	if err := c11h.WriteCorpus("FuzzVerif_C11_params", c11ParamsSeeds()); err != nil {
		t.Fatalf("harness problem: %v", err)
	}
	rapid.Check(t, func(rt *rapid.T) {
		c11ParamsCheck(rt, rec, ts, c11ParamsGen(rt, ts), false)
	})
}

func FuzzVerif_C11_params(f *testing.F) {
	rec := c11h.Rec(c11ParamsSub, c11ParamsRule)
	defer rec.Flush()
	ts := c11ParamTransports(f)
	for _, s := range c11ParamsSeeds() {
		f.Add(s...)
	}
	f.Fuzz(func(t *testing.T, tt uint16, libver uint32, url string, value []byte, seed []byte) {
		if len(value) > 1<<16 || len(url) > 1<<12 || len(seed) > 256 {
			return
		}
		c11ParamsCheck(t, rec, ts, c11ParamsCase{T: int(tt & 0xff), LibVer: libver, Absent: tt&0x100 != 0, URL: url, Value: value, Seed: seed}, true)
	})
}
