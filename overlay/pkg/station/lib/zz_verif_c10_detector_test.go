package lib

// C10 — every detector announcement is acceptable to the detector and matches the registration.
//
// Admitted registrations from C07's generator (every transport incl. the UDP one, both families,
// registrant absent / IPv4 / IPv6 / v4-mapped, selected and registrar-assigned phantoms and ports)
// go through the station's real ingest path, so `register` publishes New, then MarkActive publishes
// Update, then Cleanup() publishes Clear — all with the REAL sendToDetector / clearDetector, whose
// go-redis client is pointed at an in-process RESP server on an ephemeral port (the package's
// sync.Once is pre-empted; port 6379 is never used).
//
// Oracle: the published bytes decode as StationToDetector and
//  (1) pass a model of the detector's acceptance rules transcribed from src/sessions.rs
//      (From<&StationToDetector>, SessionDetails::new, and the order in pubsub_handle_s2d: the
//      session is parsed BEFORE the operation is dispatched, also for Clear); the model is
//      cross-checked against Rust's own std::net::IpAddr parser through a std-only helper compiled
//      with the installed rustc (if there is none the Go model stands alone and the evidence says so);
//  (2) carry the registration's phantom, destination port, protocol and registrant address;
//  (3) ask for 10 min (New) / 6 h (Update), which are the sweeper's own boundaries — checked against
//      the variables and, behaviourally, by ageing registrations to just under / over the requested
//      lifetime and sweeping.
// A small model of the detector's session table is driven by the accepted messages: after Cleanup()
// it has to be empty.

import (
	"bufio"
	"context"
	"crypto/sha256"
	"encoding/hex"
	"errors"
	"fmt"
	"io"
	"net"
	"net/netip"
	"os"
	"os/exec"
	"path/filepath"
	"sort"
	"strconv"
	"strings"
	"sync"
	"testing"
	"time"
	"unicode/utf8"

	"github.com/go-redis/redis/v8"
	pb "github.com/refraction-networking/conjure/proto"
	"google.golang.org/protobuf/proto"
	"pgregory.net/rapid"
	"verif/harness/vh"
)

// ------------------------------------------------------------------------------------------------
// In-process RESP (Redis protocol) server

type c10Pub struct {
	Channel string
	Payload []byte
}

type c10Resp struct {
	ln   net.Listener
	mu   sync.Mutex
	pubs []c10Pub
	cmds map[string]int
	wg   sync.WaitGroup
}

func c10NewResp(tb testing.TB) *c10Resp {
	ln, err := net.Listen("tcp", "127.0.0.1:0")
	if err != nil {
		tb.Fatalf("harness problem: listen: %v", err)
	}
	s := &c10Resp{ln: ln, cmds: map[string]int{}}
	s.wg.Add(1)
	go func() {
		defer s.wg.Done()
		for {
			c, err := ln.Accept()
			if err != nil {
				return
			}
			s.wg.Add(1)
			go func() { defer s.wg.Done(); s.serve(c) }()
		}
	}()
	return s
}

func (s *c10Resp) Addr() string { return s.ln.Addr().String() }

func (s *c10Resp) readCmd(r *bufio.Reader) ([][]byte, error) {
	line, err := r.ReadString('\n')
	if err != nil {
		return nil, err
	}
	line = strings.TrimRight(line, "\r\n")
	if !strings.HasPrefix(line, "*") { // inline command
		var out [][]byte
		for _, f := range strings.Fields(line) {
			out = append(out, []byte(f))
		}
		return out, nil
	}
	n, err := strconv.Atoi(line[1:])
	if err != nil || n < 0 || n > 64 {
		return nil, fmt.Errorf("bad array header %q", line)
	}
	out := make([][]byte, 0, n)
	for i := 0; i < n; i++ {
		h, err := r.ReadString('\n')
		if err != nil {
			return nil, err
		}
		h = strings.TrimRight(h, "\r\n")
		if !strings.HasPrefix(h, "$") {
			return nil, fmt.Errorf("bad bulk header %q", h)
		}
		l, err := strconv.Atoi(h[1:])
		if err != nil || l < 0 || l > 1<<20 {
			return nil, fmt.Errorf("bad bulk length %q", h)
		}
		b := make([]byte, l+2)
		if _, err := io.ReadFull(r, b); err != nil {
			return nil, err
		}
		out = append(out, b[:l])
	}
	return out, nil
}

func (s *c10Resp) serve(c net.Conn) {
	defer c.Close()
	r := bufio.NewReader(c)
	for {
		cmd, err := s.readCmd(r)
		if err != nil {
			return
		}
		if len(cmd) == 0 {
			continue
		}
		name := strings.ToUpper(string(cmd[0]))
		s.mu.Lock()
		s.cmds[name]++
		s.mu.Unlock()
		reply := "-ERR unknown command '" + name + "'\r\n"
		switch name {
		case "PING":
			reply = "+PONG\r\n"
		case "HELLO": // answer as a pre-RESP3 server so that a client falls back to RESP2
			reply = "-ERR unknown command 'HELLO'\r\n"
		case "CLIENT", "SELECT", "AUTH", "QUIT", "READONLY":
			reply = "+OK\r\n"
		case "PUBLISH":
			if len(cmd) != 3 {
				reply = "-ERR wrong number of arguments for 'publish' command\r\n"
				break
			}
			// recorded before the reply: when Publish returns in the station the message is here
			s.mu.Lock()
			s.pubs = append(s.pubs, c10Pub{string(cmd[1]), append([]byte(nil), cmd[2]...)})
			s.mu.Unlock()
			reply = ":1\r\n"
		}
		if _, err := c.Write([]byte(reply)); err != nil {
			return
		}
		if name == "QUIT" {
			return
		}
	}
}

// Count is the number of publications not yet taken.
func (s *c10Resp) Count() int {
	s.mu.Lock()
	defer s.mu.Unlock()
	return len(s.pubs)
}

// Take returns and forgets what was published so far.
func (s *c10Resp) Take() []c10Pub {
	s.mu.Lock()
	defer s.mu.Unlock()
	p := s.pubs
	s.pubs = nil
	return p
}

func (s *c10Resp) Close() {
	s.ln.Close()
}

// c10Hook notices commands that failed in the client (a time-out on an overloaded machine would
// otherwise look like a message the station never sent).
type c10Hook struct {
	mu   sync.Mutex
	errs []string
	raw  []error
}

// Len / Since give the errors recorded after a certain point.
func (h *c10Hook) Len() int {
	h.mu.Lock()
	defer h.mu.Unlock()
	return len(h.raw)
}

func (h *c10Hook) Since(n int) []error {
	h.mu.Lock()
	defer h.mu.Unlock()
	return append([]error(nil), h.raw[n:]...)
}

// Forget drops errors that have been accounted for (a publish the station aborted itself).
func (h *c10Hook) Forget(n int) {
	h.mu.Lock()
	defer h.mu.Unlock()
	h.raw, h.errs = h.raw[:n], h.errs[:n]
}

func (h *c10Hook) BeforeProcess(ctx context.Context, cmd redis.Cmder) (context.Context, error) {
	return ctx, nil
}
func (h *c10Hook) AfterProcess(ctx context.Context, cmd redis.Cmder) error {
	if err := cmd.Err(); err != nil {
		h.mu.Lock()
		h.errs = append(h.errs, cmd.Name()+": "+err.Error())
		h.raw = append(h.raw, err)
		h.mu.Unlock()
	}
	return nil
}
func (h *c10Hook) BeforeProcessPipeline(ctx context.Context, cmds []redis.Cmder) (context.Context, error) {
	return ctx, nil
}
func (h *c10Hook) AfterProcessPipeline(ctx context.Context, cmds []redis.Cmder) error { return nil }

func (h *c10Hook) Err() error {
	h.mu.Lock()
	defer h.mu.Unlock()
	if len(h.errs) == 0 {
		return nil
	}
	return fmt.Errorf("redis client errors in the harness: %v", h.errs)
}

var c10ClientHook = &c10Hook{}

// c10UseResp makes getRedisClient() return a client for the in-process server: the package's Once is
// used up (by us, or earlier in this process) and the client variable replaced.
func c10UseResp(tb testing.TB) *c10Resp {
	s := c10NewResp(tb)
	once.Do(func() {})
	if client != nil {
		_ = client.Close()
	}
	client = redis.NewClient(&redis.Options{Addr: s.Addr(), PoolSize: 4, MaxRetries: -1, DialTimeout: 10 * time.Second, ReadTimeout: 30 * time.Second, WriteTimeout: 30 * time.Second})
	c10ClientHook = &c10Hook{}
	client.AddHook(c10ClientHook)
	tb.Cleanup(func() {
		_ = client.Close()
		s.Close()
	})
	return s
}

// ------------------------------------------------------------------------------------------------
// Detector model (src/sessions.rs)

// c10ParseRustIP models Rust's `str::parse::<IpAddr>()`.
func c10ParseRustIP(s string) (netip.Addr, bool) {
	a, err := netip.ParseAddr(s)
	if err != nil || a.Zone() != "" {
		return netip.Addr{}, false
	}
	return a, true
}

type c10Session struct {
	Verdict string // Ok | Unparsable | UnrecognizedProto | InvalidPhantom | InvalidClient | MixedV4V6Error
	Phantom netip.Addr
	Client  netip.Addr
}

// c10Parse is From<&StationToDetector> for SessionResult followed by SessionDetails::new.
func c10Parse(m *pb.StationToDetector) c10Session {
	// the Rust protobuf runtime refuses `string` fields that are not UTF-8; the whole message is dropped
	if !utf8.ValidString(m.GetPhantomIp()) || !utf8.ValidString(m.GetClientIp()) {
		return c10Session{Verdict: "Unparsable"}
	}
	switch m.GetProto() {
	case pb.IPProto_Tcp, pb.IPProto_Udp:
	default:
		return c10Session{Verdict: "UnrecognizedProto"}
	}
	ph, ok := c10ParseRustIP(m.GetPhantomIp())
	if !ok {
		return c10Session{Verdict: "InvalidPhantom"}
	}
	cl, ok := c10ParseRustIP(m.GetClientIp())
	if !ok {
		if m.GetClientIp() == "" && ph.Is6() {
			cl = netip.MustParseAddr("::1")
		} else {
			return c10Session{Verdict: "InvalidClient"}
		}
	}
	if ph.Is4() && !cl.Is4() {
		return c10Session{Verdict: "MixedV4V6Error"}
	}
	return c10Session{Verdict: "Ok", Phantom: ph, Client: cl}
}

// c10Tag is SessionDetails::tag (the key of the detector's session table).
func c10Tag(s c10Session, m *pb.StationToDetector) string {
	pfx := "t-"
	if m.GetProto() == pb.IPProto_Udp {
		pfx = "u-"
	}
	if s.Phantom.Is6() {
		return fmt.Sprintf("%s_-%s-:%d", pfx, s.Phantom, uint16(m.GetDstPort()))
	}
	return fmt.Sprintf("%s%s-%s-:%d", pfx, s.Client, s.Phantom, uint16(m.GetDstPort()))
}

// c10Detector models the detector's session table as driven by pubsub_handle_s2d.
type c10Detector struct {
	Sessions map[string]uint64 // tag -> requested lifetime (ns from "now"); the longer one is kept
}

// Handle returns what the detector did with the message: "added", "cleared", "ignored:<why>".
func (d *c10Detector) Handle(m *pb.StationToDetector) (string, c10Session) {
	s := c10Parse(m) // parsed first, whatever the operation
	if s.Verdict != "Ok" {
		return "ignored:" + s.Verdict, s
	}
	switch m.GetOperation() {
	case pb.StationOperations_New, pb.StationOperations_Update:
		tag := c10Tag(s, m)
		if cur, ok := d.Sessions[tag]; !ok || cur < m.GetTimeoutNs() {
			d.Sessions[tag] = m.GetTimeoutNs()
		}
		return "added", s
	case pb.StationOperations_Clear:
		d.Sessions = map[string]uint64{}
		return "cleared", s
	}
	return "ignored:UnknownOperation", s
}

// ------------------------------------------------------------------------------------------------
// Rust cross-check: the same rules compiled from Rust source with the installed rustc (std only)

const c10RustSrc = `// Std-only transcription of conjure/src/sessions.rs (impl From<&StationToDetector> for
// SessionResult and SessionDetails::new), used by the /verif check C10 to run the detector's
// acceptance rules on Rust's real std::net::IpAddr parser. One request per line:
//   <hex(client_ip)> <hex(phantom_ip)> <proto number>
// answer: <verdict> <hex(octets of phantom)> <hex(octets of client)>
use std::io::{self, BufRead, Write};
use std::net::IpAddr;

fn unhex(s: &str) -> Option<String> {
    if s == "-" {
        return Some(String::new());
    }
    let b = s.as_bytes();
    if b.len() % 2 != 0 {
        return None;
    }
    let mut out = Vec::with_capacity(b.len() / 2);
    for i in (0..b.len()).step_by(2) {
        let h = (b[i] as char).to_digit(16)?;
        let l = (b[i + 1] as char).to_digit(16)?;
        out.push((h * 16 + l) as u8);
    }
    String::from_utf8(out).ok()
}

fn hex(ip: &IpAddr) -> String {
    let o = match ip {
        IpAddr::V4(a) => a.octets().to_vec(),
        IpAddr::V6(a) => a.octets().to_vec(),
    };
    o.iter().map(|b| format!("{:02x}", b)).collect()
}

fn session(client_ip: &str, phantom_ip: &str, proto: u32) -> (&'static str, String, String) {
    // From<&StationToDetector>: IPProto::Tcp = 1, IPProto::Udp = 2, anything else is refused
    match proto {
        1 | 2 => {}
        _ => return ("UnrecognizedProto", "-".into(), "-".into()),
    };
    // SessionDetails::new
    let phantom: IpAddr = match phantom_ip.parse() {
        Ok(ip) => ip,
        Err(_) => return ("InvalidPhantom", "-".into(), "-".into()),
    };
    let src: IpAddr = match client_ip.parse() {
        Ok(ip) => ip,
        Err(_) => {
            if client_ip.is_empty() && phantom.is_ipv6() {
                "::1".parse().unwrap()
            } else {
                return ("InvalidClient", "-".into(), "-".into());
            }
        }
    };
    if phantom.is_ipv4() && !src.is_ipv4() {
        return ("MixedV4V6Error", "-".into(), "-".into());
    }
    ("Ok", hex(&phantom), hex(&src))
}

fn main() {
    let stdin = io::stdin();
    let stdout = io::stdout();
    let mut out = stdout.lock();
    for line in stdin.lock().lines() {
        let line = line.unwrap();
        let f: Vec<&str> = line.split(' ').collect();
        if f.len() != 3 {
            writeln!(out, "BadRequest - -").unwrap();
            out.flush().unwrap();
            continue;
        }
        let (c, p) = (unhex(f[0]), unhex(f[1]));
        let proto: u32 = f[2].parse().unwrap_or(99);
        let (v, ph, cl) = match (c, p) {
            (Some(c), Some(p)) => session(&c, &p, proto),
            _ => ("Unparsable", "-".into(), "-".into()),
        };
        writeln!(out, "{} {} {}", v, ph, cl).unwrap();
        out.flush().unwrap();
    }
}
`

type c10Rust struct {
	mu    sync.Mutex
	cmd   *exec.Cmd
	in    io.WriteCloser
	out   *bufio.Reader
	seen  map[string]bool
	count int
}

// c10StartRust compiles (once per source version, shared between processes) and starts the helper.
// It returns nil and a reason if that is not possible.
func c10StartRust(tb testing.TB) (*c10Rust, string) {
	rustc, err := exec.LookPath("rustc")
	if err != nil {
		return nil, "rustc is not on PATH"
	}
	sum := sha256.Sum256([]byte(c10RustSrc))
	dir := filepath.Join(os.TempDir(), "verif-c10-"+hex.EncodeToString(sum[:6]))
	bin := filepath.Join(dir, "c10sess")
	if _, err := os.Stat(bin); err != nil {
		if err := os.MkdirAll(dir, 0o755); err != nil {
			return nil, "cannot create " + dir + ": " + err.Error()
		}
		tmp, err := os.MkdirTemp(dir, "build")
		if err != nil {
			return nil, "cannot create a build dir: " + err.Error()
		}
		defer os.RemoveAll(tmp)
		src := filepath.Join(tmp, "c10sess.rs")
		if err := os.WriteFile(src, []byte(c10RustSrc), 0o644); err != nil {
			return nil, err.Error()
		}
		out, err := exec.Command(rustc, "--edition", "2021", "-o", filepath.Join(tmp, "c10sess"), src).CombinedOutput()
		if err != nil {
			return nil, fmt.Sprintf("rustc failed: %v: %s", err, out)
		}
		if err := os.Rename(filepath.Join(tmp, "c10sess"), bin); err != nil {
			return nil, err.Error()
		}
	}
	cmd := exec.Command(bin)
	in, err := cmd.StdinPipe()
	if err != nil {
		return nil, err.Error()
	}
	outp, err := cmd.StdoutPipe()
	if err != nil {
		return nil, err.Error()
	}
	if err := cmd.Start(); err != nil {
		return nil, "cannot start the helper: " + err.Error()
	}
	r := &c10Rust{cmd: cmd, in: in, out: bufio.NewReader(outp), seen: map[string]bool{}}
	tb.Cleanup(func() {
		_ = in.Close()
		_ = cmd.Wait()
	})
	return r, ""
}

func c10HexOrDash(s string) string {
	if s == "" {
		return "-"
	}
	return hex.EncodeToString([]byte(s))
}

// Ask runs the Rust rules on (client, phantom, proto).
func (r *c10Rust) Ask(client, phantom string, protoNum int32) (verdict, ph, cl string, err error) {
	r.mu.Lock()
	defer r.mu.Unlock()
	if _, err = fmt.Fprintf(r.in, "%s %s %d\n", c10HexOrDash(client), c10HexOrDash(phantom), protoNum); err != nil {
		return
	}
	line, err := r.out.ReadString('\n')
	if err != nil {
		return
	}
	f := strings.Fields(line)
	if len(f) != 3 {
		err = fmt.Errorf("helper answered %q", line)
		return
	}
	r.count++
	r.seen[client] = true
	r.seen[phantom] = true
	return f[0], f[1], f[2], nil
}

// c10CrossCheck compares the Go model with the Rust helper for one message; a disagreement is a
// defect of the model (harness problem), never a verdict about the station.
func c10CrossCheck(r *c10Rust, m *pb.StationToDetector, s c10Session) error {
	if r == nil {
		return nil
	}
	v, ph, cl, err := r.Ask(m.GetClientIp(), m.GetPhantomIp(), int32(m.GetProto()))
	if err != nil {
		return fmt.Errorf("rust helper: %v", err)
	}
	if v != s.Verdict {
		return fmt.Errorf("Go model of sessions.rs says %q, the Rust helper says %q for client=%q phantom=%q proto=%v", s.Verdict, v, m.GetClientIp(), m.GetPhantomIp(), m.GetProto())
	}
	if v == "Ok" {
		gp, gc := hex.EncodeToString(s.Phantom.AsSlice()), hex.EncodeToString(s.Client.AsSlice())
		if gp != ph || gc != cl {
			return fmt.Errorf("Go model and Rust helper parse client=%q phantom=%q to different addresses: %s/%s vs %s/%s", m.GetClientIp(), m.GetPhantomIp(), gc, gp, cl, ph)
		}
	}
	return nil
}

// literals on which the Go model of the Rust parser is compared with the real one before anything else
var c10Literals = []string{"", "::", "::1", "1.2.3.4", "01.2.3.4", "1.2.3.04", "1.2.3", "1.2.3.4.5", "256.1.1.1", "::ffff:1.2.3.4", "::1.2.3.4",
	"fe80::1%eth0", "fe80::1%1", "<nil>", "?0102030405", "[::1]", " 1.2.3.4", "1.2.3.4 ", "1:2:3:4:5:6:7:8", "1:2:3:4:5:6:7:8:9", "1::2::3",
	"2001:DB8::A", "2001:db8::1.2.3.4", "0x7f.0.0.1", "127.1", "1.2.3.4:80", "::ffff:0:0", "64:ff9b::192.0.2.33", ":", ":::", "00001::", "1.2.3.4\n",
	"192.122.190.5", "2001:48a8:687f:1::5", "0.0.0.0", "::ffff:198.51.100.7"}

func c10SelfTest(r *c10Rust) error {
	if r == nil {
		return nil
	}
	for _, ph := range c10Literals {
		for _, cl := range []string{"", "198.51.100.7", "2001:db8:1::7", ph} {
			for _, p := range []pb.IPProto{pb.IPProto_Unk, pb.IPProto_Tcp, pb.IPProto_Udp} {
				m := &pb.StationToDetector{PhantomIp: proto.String(ph), ClientIp: proto.String(cl), Proto: p.Enum()}
				if err := c10CrossCheck(r, m, c10Parse(m)); err != nil {
					return err
				}
			}
		}
	}
	return nil
}

// ------------------------------------------------------------------------------------------------
// The check

type c10Viol struct{ Key, Msg string }

func c10V(key, format string, a ...any) *c10Viol { return &c10Viol{key, fmt.Sprintf(format, a...)} }

const (
	c10NewNs    = uint64(10 * time.Minute)
	c10UpdateNs = uint64(6 * time.Hour)
)

type c10World struct {
	e    *c07Env
	srv  *c10Resp
	rust *c10Rust
	// refused is a loopback address on which connections are refused (stands in for the covert)
	refused string
}

// use does what connection handling does once a connection has been identified as belonging to
// registration d (cmd/application: MarkActive, then Proxy): the registration is marked active - which
// publishes Update - and the real Proxy is run for it. The covert is pointed at a loopback port that
// refuses connections and the client end is an already closed pipe, so Proxy returns at once; it has
// counted the tunnel by then, like for any tunnel whose covert cannot be reached.
func (w *c10World) use(d *DecoyRegistration) {
	w.e.rm.MarkActive(d)
	if w.refused == "" {
		ln, err := net.Listen("tcp", "127.0.0.1:0")
		if err != nil {
			panic(err)
		}
		w.refused = ln.Addr().String()
		ln.Close()
	}
	saved := d.Covert
	d.Covert = w.refused
	c1, c2 := net.Pipe()
	c2.Close()
	Proxy(d, c1, w.e.rm.Logger)
	c1.Close()
	d.Covert = saved
}

func c10NewWorld(tb testing.TB, rec *vh.Rec) *c10World {
	w := &c10World{e: c07NewEnv(tb, true), srv: c10UseResp(tb)}
	var why string
	w.rust, why = c10StartRust(tb)
	if w.rust == nil {
		rec.Note("Rust cross-check NOT available (%s): the Go model of sessions.rs stands alone", why)
		rec.Extra("rust_crosscheck", false)
	} else {
		rec.Extra("rust_crosscheck", true)
		if err := c10SelfTest(w.rust); err != nil {
			tb.Fatalf("harness problem: %v", err)
		}
		rec.Note("Go model of the detector's parse rules agrees with the Rust helper (rustc-compiled, real std::net::IpAddr) on %d literal combinations before the run", w.rust.count)
	}
	return w
}

func (w *c10World) decode(p c10Pub) (*pb.StationToDetector, *c10Viol) {
	if p.Channel != "dark_decoy_map" { // src/sessions.rs ingest_from_pubsub: pubsub.subscribe("dark_decoy_map")
		return nil, c10V("channel", "published on channel %q, the detector subscribes to %q", p.Channel, "dark_decoy_map")
	}
	m := &pb.StationToDetector{}
	if err := proto.Unmarshal(p.Payload, m); err != nil {
		return nil, c10V("undecodable", "published bytes do not decode as StationToDetector: %v", err)
	}
	return m, nil
}

func c10SameIP(a netip.Addr, ip net.IP) bool {
	b, ok := netip.AddrFromSlice(ip)
	return ok && a.Unmap() == b.Unmap()
}

// checkAnnouncement applies oracle parts (1)-(3) to one New / Update message for registration d.
func (w *c10World) checkAnnouncement(det *c10Detector, c c07Case, f c07Fam, d *DecoyRegistration, m *pb.StationToDetector, op pb.StationOperations) (*c10Viol, error) {
	opn := op.String()
	if m.GetOperation() != op {
		return c10V("operation:"+opn, "expected operation %s, message says %v", opn, m.GetOperation()), nil
	}
	did, s := det.Handle(m)
	if err := c10CrossCheck(w.rust, m, s); err != nil {
		return nil, err
	}
	desc := fmt.Sprintf("%s for registration {phantom %v port %d %v registrant %v transport %v}: message {phantom_ip:%q client_ip:%q dst_port:%d proto:%v timeout_ns:%d}",
		opn, d.PhantomIp, d.PhantomPort, d.PhantomProto, d.registrationAddr, d.Transport, m.GetPhantomIp(), m.GetClientIp(), m.GetDstPort(), m.GetProto(), m.GetTimeoutNs())
	// (1) acceptable
	if did != "added" {
		return c10V("detector-rejects:"+strings.TrimPrefix(did, "ignored:"), "the detector does not act on %s (%s)", desc, did), nil
	}
	// (2) matches the registration (and what the message / registrar asked for)
	if !c10SameIP(s.Phantom, d.PhantomIp) {
		return c10V("mismatch:phantom", "%s: phantom differs from the registration's", desc), nil
	}
	if f.Phantom != nil && !c10SameIP(s.Phantom, f.Phantom) {
		return c10V("mismatch:phantom", "%s: phantom differs from the expected one %v (registrar-assigned=%v)", desc, f.Phantom, f.Overridden), nil
	}
	if m.GetDstPort() != uint32(d.PhantomPort) {
		return c10V("mismatch:dst-port", "%s: destination port differs from the registration's", desc), nil
	}
	if f.PortOvr > 0 && f.PortOvr <= 65535 && m.GetDstPort() != uint32(f.PortOvr) {
		return c10V("mismatch:dst-port", "%s: the registrar assigned destination port %d", desc, f.PortOvr), nil
	}
	wantProto := w.e.all[pb.TransportType(c.Msg.Transport)].GetProto()
	if m.GetProto() != wantProto || m.GetProto() != d.PhantomProto {
		return c10V("mismatch:proto", "%s: the transport uses %v", desc, wantProto), nil
	}
	if m.SrcPort != nil && m.GetSrcPort() != 0 {
		return c10V("mismatch:src-port", "%s: source port %d although none was registered", desc, m.GetSrcPort()), nil
	}
	if c.Msg.HasRegAddr {
		if !c10SameIP(s.Client, net.IP(c.Msg.RegAddr)) {
			return c10V("mismatch:registrant", "%s: client differs from the registrant address %v", desc, net.IP(c.Msg.RegAddr)), nil
		}
	} else if m.GetClientIp() != "" && !s.Client.IsUnspecified() {
		return c10V("mismatch:registrant", "%s: no registrant address was provided but the message names one", desc), nil
	}
	// (3) lifetime
	want := c10NewNs
	own := uint64(defaultUnusedTimeout)
	sweeper := uint64(w.e.rm.registeredDecoys.timeoutUnused)
	if op == pb.StationOperations_Update {
		want, own, sweeper = c10UpdateNs, uint64(defaultActiveTimeout), uint64(w.e.rm.registeredDecoys.timeoutActive)
	}
	if m.GetTimeoutNs() != want || m.GetTimeoutNs() != own || m.GetTimeoutNs() != sweeper {
		return c10V("lifetime:"+opn, "%s: lifetime should be %v (station default %v, sweeper boundary %v)", desc, time.Duration(want), time.Duration(own), time.Duration(sweeper)), nil
	}
	if got := det.Sessions[c10Tag(s, m)]; got < want {
		return c10V("lifetime:"+opn, "%s: the detector would forward the session for %v only", desc, time.Duration(got)), nil
	}
	return nil, nil
}

// checkClear: Cleanup() must publish a message on which the detector empties its session table.
func (w *c10World) checkClear(det *c10Detector) (*c10Viol, error) {
	w.srv.Take()
	w.e.rm.Cleanup()
	return w.judgeClear(det, w.srv.Take())
}

// judgeClear: what Cleanup() published must be exactly one request on which the detector empties
// its session table.
func (w *c10World) judgeClear(det *c10Detector, pubs []c10Pub) (*c10Viol, error) {
	if len(pubs) != 1 {
		return c10V("clear:not-published", "Cleanup() published %d messages", len(pubs)), nil
	}
	m, v := w.decode(pubs[0])
	if v != nil {
		return v, nil
	}
	if m.GetOperation() != pb.StationOperations_Clear {
		return c10V("clear:operation", "Cleanup() published operation %v", m.GetOperation()), nil
	}
	before := len(det.Sessions)
	did, s := det.Handle(m)
	if err := c10CrossCheck(w.rust, m, s); err != nil {
		return nil, err
	}
	if did != "cleared" || len(det.Sessions) != 0 {
		return c10V("clear:detector-rejects:"+strings.TrimPrefix(did, "ignored:"),
			"the clear request {%v} is not acted on by the detector (%s: the session is parsed before the operation is looked at); it keeps %d of %d sessions of the previous run",
			m, did, len(det.Sessions), before), nil
	}
	return nil, nil
}

func c10OutOfDomain(m c07Msg) string {
	if m.HasRegAddr && len(m.RegAddr) != 4 && len(m.RegAddr) != 16 {
		return "registrant-wrong-length"
	}
	if rr := m.RR; rr != nil {
		if rr.HasV6 && (len(rr.V6) != 16 || net.IP(rr.V6).To4() != nil) {
			return "registrar-ipv6-field-not-ipv6"
		}
		if rr.HasPort && (rr.Port == 0 || rr.Port > 65535) {
			return "registrar-port-out-of-range"
		}
	}
	return ""
}

func c10Registrant(m c07Msg) string {
	switch {
	case !m.HasRegAddr:
		return "absent"
	case len(m.RegAddr) == 4:
		return "ipv4"
	case len(m.RegAddr) == 16 && net.IP(m.RegAddr).To4() != nil:
		return "v4-mapped"
	case len(m.RegAddr) == 16:
		return "ipv6"
	}
	return "other"
}

// c10Deferred holds the first clear-request violation of a run. The clear request is the same
// constant message in every case, so a defect in it would end the run at its first admitted case;
// it is reported when the run is over instead, and the New / Update exploration goes on.
type c10Deferred struct {
	V    *c10Viol
	Case c10Case
}

func c10Check(t vh.Fataler, rec *vh.Rec, w *c10World, c c10Case, later *c10Deferred) {
	e := w.e
	e.apply(c.Conf, c.Live)
	exp, err := c07Model(e, c.c07Case)
	if err != nil {
		t.Fatalf("harness problem: %v", err)
	}
	// the GeoIP database of the case (the station's own empty database unless the case scripts one)
	var geo *c10GeoDB
	if c.Geo != nil {
		geo = &c10GeoDB{g: *c.Geo}
		savedGeo := e.rm.GeoIP
		e.rm.GeoIP = geo
		defer func() { e.rm.GeoIP = savedGeo }()
	}
	w.srv.Take()
	_, perr := e.deliver(c07Build(c.Msg))
	if errors.Is(perr, errC07Harness) {
		t.Fatalf("harness problem: %v", perr)
	}
	pubs := w.srv.Take()
	valid := e.validRegs()
	sort.Slice(valid, func(i, j int) bool { return valid[i].PhantomIp.To4() != nil && valid[j].PhantomIp.To4() == nil })

	cl := map[string]bool{}
	nontriv := false
	switch {
	case geo == nil:
		cl["geoip:empty-database"] = true
	case !c.Geo.faulty():
		cl["geoip:healthy"] = true
	}
	if geo != nil {
		if _, failed, first := geo.stats(); failed > 0 {
			nontriv = true
			cl["geoip:lookup-failed"] = true
			cl["geoip:lookup-failed:"+first+"-first"] = true
			if c.Geo.From == 0 {
				cl["geoip:lookup-failed:from-first-lookup"] = true
			} else {
				cl["geoip:lookup-failed:later-lookup"] = true
			}
			if c.Geo.Until != 0 {
				cl["geoip:lookup-failed:transient"] = true
			}
			if rr := c.Msg.RR; rr != nil && rr.HasPort {
				cl["geoip:lookup-failed+port-registrar-assigned"] = true
			}
			if exp.Fam[0].Overridden || exp.Fam[1].Overridden {
				cl["geoip:lookup-failed+phantom-registrar-assigned"] = true
			}
			if c.Msg.V4 == 1 && c.Msg.V6 == 1 {
				cl["geoip:lookup-failed+dual-stack-message"] = true
			}
			cl["geoip:lookup-failed+registrant:"+c10Registrant(c.Msg)] = true
			if len(valid) > 0 {
				cl["geoip:lookup-failed+admitted"] = true
			}
		} else if c.Geo.faulty() {
			cl["geoip:fault-not-reached"] = true
		}
	}
	classes := func(more ...string) []string {
		out := append([]string(nil), more...)
		for k := range cl {
			out = append(out, k)
		}
		sort.Strings(out)
		return out
	}
	if why := c10OutOfDomain(c.Msg); why != "" {
		// the statement quantifies over registrant addresses absent / IPv4 / IPv6 / v4-mapped and
		// over (valid) registrar-assigned phantoms and ports; a trusted registrar sending an
		// address of the wrong length or a port beyond 16 bits is not part of it
		rec.Case(false, vh.Digest(c), nil, "skipped:"+why)
		return
	}
	if len(valid) == 0 {
		if nontriv {
			rec.Case(true, vh.Digest(c), c, classes("not-admitted")...)
		} else {
			rec.Case(false, vh.Digest(c), nil, classes("skipped:not-admitted")...)
		}
		if len(pubs) != 0 {
			rec.Violation(t, "announce:nothing-admitted", c, "%d messages published although no registration was admitted", len(pubs))
		}
		return
	}
	det := &c10Detector{Sessions: map[string]uint64{}}
	fail := func(v *c10Viol, err error) bool {
		if err == nil && v != nil {
			err = c10ClientHook.Err()
		}
		if err != nil {
			t.Fatalf("harness problem: %v", err)
		}
		if v != nil {
			rec.Case(nontriv, vh.Digest(c), c, "violating")
			rec.Violation(t, v.Key, c, "%s", v.Msg)
			return true
		}
		return false
	}
	if len(pubs) != len(valid) {
		fail(c10V("announce:count", "%d registrations admitted, %d messages published", len(valid), len(pubs)), nil)
		return
	}
	// in the well-formed domain the IPv4 slot has an IPv4 phantom and the IPv6 slot an IPv6 one
	famOf := func(d *DecoyRegistration) c07Fam {
		if d.PhantomIp.To4() != nil {
			return exp.Fam[0]
		}
		return exp.Fam[1]
	}
	// New: one message per admitted registration (ingest order is v4 then v6, as is `valid`)
	for i, d := range valid {
		m, v := w.decode(pubs[i])
		if v != nil {
			fail(v, nil)
			return
		}
		f := famOf(d)
		if fail(w.checkAnnouncement(det, c.c07Case, f, d, m, pb.StationOperations_New)) {
			return
		}
		cl["op:New"] = true
		if d.PhantomIp.To4() != nil {
			cl["family:v4"] = true
		} else {
			cl["family:v6"] = true
		}
		if f.Overridden {
			cl["phantom:registrar-assigned"], nontriv = true, true
		} else {
			cl["phantom:selected"] = true
		}
		if f.PortOvr > 0 {
			cl["port:registrar-assigned"], nontriv = true, true
		}
		if m.GetProto() == pb.IPProto_Udp {
			cl["proto:udp"], nontriv = true, true
		} else {
			cl["proto:tcp"] = true
		}
		cl["transport:"+d.Transport.String()] = true
	}
	r := c10Registrant(c.Msg)
	cl["registrant:"+r] = true
	if r != "ipv4" {
		nontriv = true
	}
	// Update: a connection arrives for each of them, at once or some time after the registration
	// was validated (every clock the station keeps for it has moved)
	if c.UseAfterS > 0 {
		c10Advance(e, time.Duration(c.UseAfterS)*time.Second)
		cl["use:after-time-passed"] = true
		if c.UseAfterS >= 30 {
			cl["use:half-a-minute-or-more-after-registration"] = true
		}
	} else {
		cl["use:at-once"] = true
	}
	for _, d := range valid {
		w.use(d)
		up := w.srv.Take()
		if len(up) != 1 {
			fail(c10V("update:count", "MarkActive published %d messages", len(up)), nil)
			return
		}
		m, v := w.decode(up[0])
		if v != nil {
			fail(v, nil)
			return
		}
		if fail(w.checkAnnouncement(det, c.c07Case, famOf(d), d, m, pb.StationOperations_Update)) {
			return
		}
		cl["op:Update"] = true
	}
	if len(det.Sessions) == 0 {
		t.Fatalf("harness problem: detector model holds no session after accepted announcements")
	}
	// Clear: the station shuts down
	cv, cerr := w.checkClear(det)
	if later != nil && cerr == nil && cv != nil {
		if later.V == nil {
			later.V, later.Case = cv, c
		}
		cl["op:Clear-violating"] = true
	} else if fail(cv, cerr) {
		return
	}
	cl["op:Clear"] = true
	rec.Case(nontriv, vh.Digest(c), c, classes()...)
}

const c10Rule = "messages from C07's generator biased towards admission (every transport incl. the UDP one, both families, registrant absent / IPv4 / IPv6 / v4-mapped, selected and registrar-assigned phantoms and ports) are ingested through the real pipeline with the real sendToDetector publishing to an in-process RESP server; each admitted registration is then marked active - at once or a drawn 1 s .. 9 min after it was validated (every timestamp the station keeps for it moved back) - then Cleanup() is called. One case in five runs with a GeoIP database that answers (country, AS number) instead of the empty one. Every published message is decoded and checked against the model of the detector's rules (cross-checked with a rustc-built helper), against the registration, and against the station's lifetimes; the modelled session table must be empty after the clear request. Non-trivial: registrant not a plain IPv4 address, or UDP transport, or registrar-assigned phantom / port. Distinct = distinct case description."

func TestVerif_C10_announce(t *testing.T) {
	rec := vh.NewRec("C10", "announce", c10Rule)
	defer rec.Flush()
	rec.Require("op:New", "op:Update", "op:Clear", "family:v4", "family:v6", "proto:udp", "proto:tcp", "registrant:absent", "registrant:ipv4",
		"registrant:ipv6", "registrant:v4-mapped", "phantom:registrar-assigned", "phantom:selected", "port:registrar-assigned",
		"transport:Min", "transport:Obfs4", "transport:Prefix", "transport:DTLS",
		"use:at-once", "use:after-time-passed", "use:half-a-minute-or-more-after-registration", "geoip:empty-database", "geoip:healthy")
	w := c10NewWorld(t, rec)
	defer func() {
		if w.rust != nil {
			rec.Extra("rust_crosschecked_messages", w.rust.count)
			rec.Extra("rust_crosschecked_distinct_literals", len(w.rust.seen))
		}
	}()
	if p := vh.ReplayFile(); p != "" {
		var c c10Case
		if _, _, err := vh.LoadReplay(p, &c); err != nil {
			t.Fatal(err)
		}
		c10Check(t, rec, w, c, nil)
		return
	}
	later := &c10Deferred{}
	rapid.Check(t, func(rt *rapid.T) {
		c := c10Case{c07Case: c07Gen(rt, c07Admit)}
		c.Repeat = false
		if rapid.IntRange(0, 4).Draw(rt, "geoip-healthy") == 0 {
			c.Geo = c10GenGeo(rt, false) // a station with working databases; faults: sub-check geoip
		}
		c.UseAfterS = c10GenUseAfter(rt)
		c10Check(rt, rec, w, c, later)
	})
	if later.V != nil && !t.Failed() {
		rec.Violation(t, later.V.Key, later.Case, "%s", later.V.Msg)
	}
}

// TestVerif_C10_lifetimes: the lifetime requested from the detector is the lifetime the station
// itself applies. A registration is aged to just under / just over the lifetime named in the New
// (then Update) message and the sweeper is run: it has to survive / be removed.
func TestVerif_C10_lifetimes(t *testing.T) {
	rec := vh.NewRec("C10", "lifetimes", "for every transport x family: ingest (New), age the registration to requested lifetime -/+ 60 s, sweep: usable before, forgotten after; again with the registration used the way connection handling uses it (MarkActive, which publishes Update, then the real Proxy with an unreachable covert), at once and again half an unused lifetime after the registration was made. Time is advanced by shifting every timestamp the station keeps for a registration backwards (the registry's expiry record and the registration's own RegistrationTime). The manager is built through the production path (ParseConfig of a station TOML + NewRegistrationManager) for three configurations (plain; longer lifetime keys + unknown keys; shorter lifetime keys) and the requested lifetime must equal the lifetime the registry that path built applies (timeoutUnused / timeoutActive). Exhaustive over 3 configurations x 4 transports x 2 families x {unused, used, used-late}. Plus every history [ingest] + up to 4 (thorough: 5) operations from {ingest the same message again, mark active, advance 5 min, 7 min, 2 h 59 min, 3 h 5 min, sweep, sweep during which another registration arrives and is validated (placed at the debug line the sweeper writes between its phases)} + [sweep]: at every sweep point a registration the station still hands out must have a live session in the modelled detector (announcements actually published, each counted from the moment it was published, the longer one kept; 60 s slack), and every New / Update published anywhere in a history must request the lifetime the station applies to that state, however old the registration is by then. Non-trivial: every case.")
	defer rec.Flush()
	rec.Require("unused", "used", "used-late", "history:used-after-time-passed", "station-config:plain", "station-config:longer-lifetimes+unknown-keys", "station-config:shorter-lifetimes", "history:duplicate-ingest", "history:sweep-past-detector-lifetime", "history:used", "history:arrival-during-sweep-admitted")
	rec.SetExhaustive(true)
	w := c10NewWorld(t, rec)
	defaultEnv := w.e
	const slack = 60 * time.Second
	idx := 0
	// The manager is built through the production path (ParseConfig of a station TOML, then
	// NewRegistrationManager); the TOML may carry keys this tree does not know. The lifetimes the
	// station APPLIES are read from the registry that path built.
	for _, variant := range c10StationConfigs {
		e := c07NewEnvProd(t, variant.toml, true)
		w.e = e
		rec.Class("station-config:" + variant.name)
		for _, tp := range c07TransportsAll {
			for _, v6 := range []bool{false, true} {
				for _, state := range []string{"unused", "used", "used-late"} {
					used := state != "unused"
					idx++
					if !vh.Mine(idx) {
						continue
					}
					c := c07Case{Live: "notlive", Conf: c07Conf{EnableV4: true, EnableV6: true, Transports: append([]int(nil), c07TransportsAll...)}}
					c.Msg = c07Msg{HasSecret: true, Secret: vh.Hex(vSecret(900 + idx)), HasPayload: true, Source: 2, HasRegAddr: true, RegAddr: c07IP("198.51.100.7"),
						LibVer: 4, Gen: 957, Transport: tp, HasCovert: true, Covert: "192.0.2.10:443", V4: 1, V6: 0, Flags: 0}
					if v6 {
						c.Msg.V4, c.Msg.V6 = 0, 1
					}
					switch pb.TransportType(tp) {
					case pb.TransportType_Prefix:
						c.Msg.Params = c07Params{Kind: "prefix", PrefixID: 2}
					case pb.TransportType_DTLS:
						c.Msg.Params = c07Params{Kind: "dtls"}
					default:
						c.Msg.Params = c07Params{Kind: "generic"}
					}
					class := state
					rec.Case(true, vh.Digest(map[string]any{"case": c, "used": state}), map[string]any{"case": c, "used": state}, class)
					e.apply(c.Conf, c.Live)
					w.srv.Take()
					if _, err := e.deliver(c07Build(c.Msg)); err != nil {
						t.Fatalf("harness problem: %v", err)
					}
					valid := e.validRegs()
					pubs := w.srv.Take()
					if herr := c10ClientHook.Err(); herr != nil {
						t.Fatalf("harness problem: %v", herr)
					}
					if len(valid) != 1 || len(pubs) != 1 {
						t.Fatalf("harness problem: expected one admitted registration and one New message, got %d / %d", len(valid), len(pubs))
					}
					m, v := w.decode(pubs[0])
					if v != nil {
						rec.Violation(t, v.Key, c, "%s", v.Msg)
						continue
					}
					// elapsed: how long ago the registration was made when it is used (the station counts
					// both of its lifetimes from the registration)
					elapsed := time.Duration(0)
					if used {
						if state == "used-late" {
							elapsed = e.rm.registeredDecoys.timeoutUnused / 2
							c10Advance(e, elapsed)
						}
						w.use(valid[0])
						up := w.srv.Take()
						if len(up) != 1 {
							rec.Violation(t, "update:count", c, "MarkActive published %d messages", len(up))
							continue
						}
						if m, v = w.decode(up[0]); v != nil {
							rec.Violation(t, v.Key, c, "%s", v.Msg)
							continue
						}
					}
					life := time.Duration(m.GetTimeoutNs())
					applied := e.rm.registeredDecoys.timeoutUnused
					if used {
						applied = e.rm.registeredDecoys.timeoutActive
					}
					if life != applied {
						rec.Violation(t, "lifetime:"+m.GetOperation().String(), c, "station configuration %q: %v asks the detector for %v, but the lifetime the station applies to a registration in that state (the sweeper's boundary in the registry NewRegistrationManager built) is %v", variant.name, m.GetOperation(), life, applied)
						continue
					}
					if life < 2*slack {
						rec.Violation(t, "lifetime:"+m.GetOperation().String(), c, "requested lifetime %v", life)
						continue
					}
					usable := func() bool { return len(e.rm.GetRegistrations(valid[0].PhantomIp)) == 1 }
					c10Advance(e, life-slack-elapsed)
					e.rm.RemoveOldRegistrations()
					if !usable() {
						rec.Violation(t, "lifetime:station-forgets-earlier", c, "%v announced with a lifetime of %v, but the station has forgotten the registration %v before that (used=%v)", m.GetOperation(), life, slack, used)
						continue
					}
					c10Advance(e, 2*slack)
					e.rm.RemoveOldRegistrations()
					if usable() {
						rec.Violation(t, "lifetime:station-keeps-longer", c, "%v announced with a lifetime of %v, but the station still accepts the registration %v after that (used=%v): the detector no longer forwards the session", m.GetOperation(), life, slack, used)
					}
				}
			}
		}
	}
	w.e = defaultEnv
	c10EnumHistories(t, rec, w)
}

// station configurations for the lifetimes sub-check: what an operator's TOML may look like,
// including keys this tree may or may not know
var c10StationConfigs = []struct{ name, toml string }{
	{"plain", "enable_v4 = true\nenable_v6 = true\n"},
	{"longer-lifetimes+unknown-keys", "enable_v4 = true\nenable_v6 = true\nunused_reg_timeout = \"30m\"\nactive_reg_timeout = \"12h\"\nregistration_ttl = \"1h\"\nsome_future_flag = 7\n\n[some_future_section]\nx = 1\n"},
	{"shorter-lifetimes", "enable_v4 = true\nenable_v6 = true\nunused_reg_timeout = \"5m\"\nactive_reg_timeout = \"2h\"\nunused_timeout = \"5m\"\nactive_timeout = \"2h\"\n"},
}
