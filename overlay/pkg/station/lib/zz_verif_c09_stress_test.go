package lib

// C09 (stress part) — uncontrolled schedules under the race detector.
//
// The real HandleRegUpdates worker pool ingests a stream with many duplicate deliveries and
// conflicting coverts while a sweeper (over artificially aged entries), connection handlers
// (lookup + activate), and configuration reloads run concurrently. Oracle: the race detector stays
// silent (a report fails the process, which vcheck turns into a violation), nothing panics, the
// pipeline winds down after the stop request, and the quiescent state satisfies the invariants.

import (
	"context"
	"fmt"
	golog "log"
	"math/rand"
	"net"
	"runtime"
	"strings"
	"sync"
	"sync/atomic"
	"testing"
	"time"

	"github.com/refraction-networking/conjure/pkg/station/log"
	pb "github.com/refraction-networking/conjure/proto"
	"google.golang.org/protobuf/proto"
	"verif/harness/vh"
)

type c09QuickTester struct{ n int64 }

func (q *c09QuickTester) PhantomIsLive(addr string, port uint16) (bool, error) {
	n := atomic.AddInt64(&q.n, 1)
	if n%7 == 0 {
		time.Sleep(50 * time.Microsecond)
	}
	return n%11 == 0, nil
}
func (q *c09QuickTester) PrintAndReset(*log.Logger) {}
func (q *c09QuickTester) PrintStats(*log.Logger)    {}
func (q *c09QuickTester) Reset()                    {}

// c09ManyGenerations: the default subnets plus generations 2000..2399 (same subnets). Each stress
// round uses a fresh window of them, so that registrations of a ClientConf generation the station
// has never counted before keep arriving while others expire (per-generation bookkeeping is shared
// state, too).
func c09ManyGenerations() string {
	var b strings.Builder
	b.WriteString(vDefaultSubnets)
	for g := 2000; g < 2400; g++ {
		fmt.Fprintf(&b, "    [Networks.%d]\n        Generation = %d\n        [[Networks.%d.WeightedSubnets]]\n            Weight = 9\n            Subnets = [\"192.122.190.0/24\", \"2001:48a8:687f:1::/64\"]\n", g, g, g)
	}
	return b.String()
}

var c09StressRoundNo int64

func TestVerif_C09_stress(t *testing.T) {
	rec := vh.NewRec("C09", "stress", "real HandleRegUpdates (16 workers) fed ~40 distinct registrations (over 14 ClientConf generations, 12 of them never seen before in each round) x duplicate deliveries x conflicting coverts, concurrently with a sweeper over artificially aged entries, 4 connection handlers (lookup+activate) and (when enabled) configuration reloads, for a fixed wall-clock budget under the race detector; one evaluation = one round of ~400 messages; non-trivial = a round in which duplicates, sweeps and activations all happened; distinct by (seed, round)")
	defer rec.Flush()
	if vh.ReplayFile() != "" {
		t.Skip("stress runs are not replayable (the schedule is the Go scheduler's)")
	}
	e := vNewEnv(t, nil, c09ManyGenerations())
	budget := time.Duration(vh.Pick(6, 90)) * time.Second
	sidx, _ := vh.Shard()
	rng := rand.New(rand.NewSource(vh.Seed()*1000 + int64(sidx)))
	c09StressLoop(t, rec, e, rng, false, budget, sidx)
}

// The same with configuration reloads running concurrently. OnReload replaces the selector, the
// policies and the GeoIP database without synchronisation (known finding race:OnReload); every other
// report is a violation.
func TestVerif_C09_stressreload(t *testing.T) {
	rec := vh.NewRec("C09", "stressreload", "as 'stress', plus a goroutine calling OnReload with alternating policies every 2 ms; distinct by (seed, round)")
	defer rec.Flush()
	if vh.ReplayFile() != "" {
		t.Skip("stress runs are not replayable (the schedule is the Go scheduler's)")
	}
	e := vNewEnv(t, nil, c09ManyGenerations())
	budget := time.Duration(vh.Pick(4, 45)) * time.Second
	sidx, _ := vh.Shard()
	rng := rand.New(rand.NewSource(vh.Seed()*1000 + 500 + int64(sidx)))
	c09StressLoop(t, rec, e, rng, true, budget, sidx)
}

func c09StressLoop(t *testing.T, rec *vh.Rec, e *vEnv, rng *rand.Rand, withReload bool, budget time.Duration, sidx int) {
	deadline := time.Now().Add(budget)
	round := 0
	for time.Now().Before(deadline) {
		round++
		type rres struct {
			key, msg string
			stats    map[string]int64
		}
		done := make(chan rres, 1)
		go func() {
			k, m, st := c09StressRound(e, rng, withReload)
			done <- rres{k, m, st}
		}()
		var key, msg string
		var stats map[string]int64
		select {
		case r := <-done:
			key, msg, stats = r.key, r.msg, r.stats
		case <-time.After(60 * time.Second):
			// a round takes well under a second; nothing moving for 60 s is a stall. Confirm with the
			// goroutine dump: it must show goroutines of the package waiting on the registry lock.
			buf := make([]byte, 1<<20)
			buf = buf[:runtime.Stack(buf, true)]
			dig := c09StackDigest(string(buf))
			if strings.Contains(dig, "RWMutex") {
				rec.Case(true, vh.Digest(fmt.Sprintf("stall-%d-%d-%d", vh.Seed(), sidx, round)), map[string]any{"round": round}, "stalled-round")
				rec.Violation(t, "stall:registry-lock", map[string]any{"round": round, "with_reload": withReload}, "the pipeline stopped making progress for 60 s; goroutines blocked on the registry lock:\n%s", dig)
				return
			}
			t.Fatalf("harness problem: stress round did not finish within 60 s and no lock wait is visible:\n%s", dig)
		}
		nontriv := stats["dups"] > 0 && stats["sweeps"] > 0 && stats["activations"] > 0
		classes := []string{}
		if nontriv {
			classes = append(classes, "busy-round")
		}
		rec.Case(nontriv, vh.Digest(fmt.Sprintf("%d-%d-%d", vh.Seed(), sidx, round)), stats, classes...)
		if key != "" {
			rec.Violation(t, key, stats, "%s", msg)
			return
		}
	}
}

func c09StressRound(e *vEnv, rng *rand.Rand, withReload bool) (key, msg string, stats map[string]int64) {
	e.resetRegistry()
	stats = map[string]int64{}
	rm := *e.rm
	conf := *c09Conf(0)
	conf.IngestWorkerCount = 16
	rm.RegConfig = &conf
	rm.RegistrationStats = newRegistrationStats()
	rm.Logger = log.New(discardWriter{}, "", golog.Lmsgprefix)
	rm.LivenessTester = &c09QuickTester{}
	var annMu sync.Mutex
	newAnn := map[string]int{}
	badValid := ""
	r := rm.registeredDecoys
	r.m.Lock()
	r.registerForDetector = func(d *DecoyRegistration) {
		annMu.Lock()
		newAnn[d.PhantomIp.String()+"|"+fmt.Sprintf("%x", d.Keys.SharedSecret[:8])+"|"+d.Transport.String()]++
		if d.Covert == c09Coverts["bad"] || d.Covert == c09Coverts["malformed"] {
			badValid = d.Covert
		}
		annMu.Unlock()
	}
	r.updateInDetector = func(d *DecoyRegistration) {}
	r.m.Unlock()

	// message stream
	type spec struct {
		secret int
		tt     pb.TransportType
		covert string
		gen    uint32
	}
	// this round's ClientConf generations: the usual one and a window of 12 never used before
	roundNo := atomic.AddInt64(&c09StressRoundNo, 1)
	gens := []uint32{957, 957, 957, 1}
	for i := 0; i < 12; i++ {
		gens = append(gens, uint32(2000+(int(roundNo)*12+i)%400))
	}
	var msgs [][]byte
	var specs []spec
	for i := 0; i < 400; i++ {
		s := spec{secret: 200 + rng.Intn(40), tt: []pb.TransportType{pb.TransportType_Min, pb.TransportType_Prefix}[rng.Intn(2)],
			covert: []string{"ok1", "ok1", "ok2", "bad", "malformed"}[rng.Intn(5)]}
		// one secret always comes with the same generation (it is one client)
		s.gen = gens[s.secret%len(gens)]
		w := vWrapper(vSecret(s.secret), s.tt, 0, c09Coverts[s.covert], true, rng.Intn(3) == 0, 4, s.gen, pb.RegistrationSource_API, net.ParseIP("198.51.100.7").To4())
		// deliveries of one registration differ in what a peer station or a second registrar adds:
		// the pre-scanned mark, the source, the other client flags
		if rng.Intn(3) == 0 {
			w.RegistrationPayload.Flags.Prescanned = proto.Bool(rng.Intn(2) == 0)
		}
		if rng.Intn(4) == 0 {
			w.RegistrationPayload.Flags.ProxyHeader = proto.Bool(rng.Intn(2) == 0)
		}
		if rng.Intn(3) == 0 {
			w.RegistrationSource = []pb.RegistrationSource{pb.RegistrationSource_Detector, pb.RegistrationSource_DetectorPrescan, pb.RegistrationSource_BidirectionalAPI}[rng.Intn(3)].Enum()
		}
		b, _ := proto.Marshal(w)
		msgs = append(msgs, b)
		specs = append(specs, s)
	}
	in := make(chan interface{}, 64)
	ctx, cancel := context.WithCancel(context.Background())
	var wg sync.WaitGroup
	wg.Add(1)
	returned := make(chan struct{})
	var panicMsg atomic.Value
	guard := func(name string, f func()) {
		defer func() {
			if p := recover(); p != nil {
				panicMsg.Store(fmt.Sprintf("%s panicked: %v", name, p))
			}
		}()
		f()
	}
	go func() {
		guard("HandleRegUpdates", func() { rm.HandleRegUpdates(ctx, in, &wg) })
		close(returned)
	}()
	var side sync.WaitGroup
	stop := make(chan struct{})
	var sweeps, activations, reloads int64
	// sweeper
	side.Add(1)
	go func() {
		defer side.Done()
		lr := rand.New(rand.NewSource(1))
		for {
			select {
			case <-stop:
				return
			default:
			}
			guard("sweeper", func() {
				r.m.Lock()
				for _, to := range r.decoysTimeouts {
					// only registrations whose ingest has completed are aged: a registration cannot
					// expire during the seconds its own ingest takes
					if cur, ok := r.decoys[to.decoy][to.identifier]; ok && cur.Valid && lr.Intn(4) == 0 {
						to.registrationTime = to.registrationTime.Add(-time.Duration(lr.Intn(8)) * time.Hour)
					}
				}
				r.m.Unlock()
				rm.RemoveOldRegistrations()
				atomic.AddInt64(&sweeps, 1)
			})
			time.Sleep(300 * time.Microsecond)
		}
	}()
	// connection handlers
	for h := 0; h < 4; h++ {
		side.Add(1)
		go func(h int) {
			defer side.Done()
			lr := rand.New(rand.NewSource(int64(h) + 2))
			for {
				select {
				case <-stop:
					return
				default:
				}
				guard("handler", func() {
					s := specs[lr.Intn(len(specs))]
					w := vWrapper(vSecret(s.secret), s.tt, 0, c09Coverts["ok1"], true, false, 4, s.gen, pb.RegistrationSource_API, net.ParseIP("198.51.100.7").To4())
					reg, err := rm.NewRegistrationC2SWrapper(w, false)
					if err != nil {
						return
					}
					id := r.transports[reg.Transport].GetIdentifier(reg)
					if found, ok := rm.GetRegistrations(reg.PhantomIp)[id]; ok {
						fr := found.(*DecoyRegistration)
						rm.MarkActive(fr)
						// what the relay reads from the registration it was handed
						_ = fr.Flags.GetProxyHeader()
						_ = fr.PreScanned()
						_ = fr.Covert
						_ = fr.IDString()
						atomic.AddInt64(&activations, 1)
					}
					_ = rm.CountRegistrations(reg.PhantomIp)
				})
				time.Sleep(100 * time.Microsecond)
			}
		}(h)
	}
	if withReload {
		side.Add(1)
		go func() {
			defer side.Done()
			for i := 0; ; i++ {
				select {
				case <-stop:
					return
				default:
				}
				guard("reload", func() { rm.OnReload(c09Conf(i % 2)); atomic.AddInt64(&reloads, 1) })
				time.Sleep(2 * time.Millisecond)
			}
		}()
	}
	for _, b := range msgs {
		in <- b
	}
	// let the pool drain, then stop
	drainDeadline := time.Now().Add(20 * time.Second)
	for time.Now().Before(drainDeadline) && (len(in) > 0 || len(rm.ingestChan) > 0) {
		time.Sleep(200 * time.Microsecond)
	}
	time.Sleep(2 * time.Millisecond)
	close(stop)
	side.Wait()
	cancel()
	select {
	case <-returned:
	case <-time.After(20 * time.Second):
		return "stall:shutdown", "HandleRegUpdates did not return within 20 s after the stop request", stats
	}
	stats["sweeps"], stats["activations"], stats["reloads"] = sweeps, activations, reloads
	stats["dups"] = atomic.LoadInt64(&rm.RegistrationStats.newDupRegistrations)
	stats["dropped"] = atomic.LoadInt64(&rm.RegistrationStats.totalDroppedMessages)
	if p := panicMsg.Load(); p != nil {
		return "panic", p.(string), stats
	}
	// invariants at quiescence
	r.m.RLock()
	defer r.m.RUnlock()
	nreg := 0
	for ph, m := range r.decoys {
		for id, reg := range m {
			nreg++
			found := false
			for _, to := range r.decoysTimeouts {
				if to.decoy == ph && to.identifier == id {
					found = true
				}
			}
			if !found {
				return "maps-not-in-bijection", fmt.Sprintf("registration %s on %s has no time-out record", reg.IDString(), ph), stats
			}
			if reg.Valid && (reg.Covert == c09Coverts["bad"] || reg.Covert == c09Coverts["malformed"]) {
				return "forbidden-covert-validated", fmt.Sprintf("registration %s is valid with forbidden covert %s", reg.IDString(), reg.Covert), stats
			}
		}
	}
	if len(r.decoysTimeouts) != nreg {
		return "maps-not-in-bijection", fmt.Sprintf("%d time-out records for %d registrations", len(r.decoysTimeouts), nreg), stats
	}
	annMu.Lock()
	defer annMu.Unlock()
	if badValid != "" {
		return "forbidden-covert-validated", "a registration with forbidden covert " + badValid + " was announced", stats
	}
	for k, n := range newAnn {
		if int64(n) > 1+sweeps {
			return "announced-twice", fmt.Sprintf("%s announced as New %d times", k, n), stats
		}
	}
	stats["registrations"] = int64(nreg)
	_ = strings.Join
	return "", "", stats
}
