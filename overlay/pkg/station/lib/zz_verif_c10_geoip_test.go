package lib

// C10, two regions of "all admitted registrations" that the message generator alone does not reach
// (added after round-8 seeds):
//
//  1. The state of a dependency of the ingest path that has nothing to do with the detector channel:
//     the GeoIP database (rm.GeoIP) the registrant address is looked up in while the registration
//     is built. The database is scripted per case: empty (what a station without databases runs),
//     healthy (answers with a country and an AS number), or faulty - the country lookup, the AS
//     lookup or both return an error for a window [From, Until) of the lookups of the case (a
//     truncated / replaced mmdb, a read error; permanent, transient, or starting in the middle of a
//     dual-stack message). The property says nothing about WHETHER a registration is admitted in
//     that situation (that is C07's business) - the oracle is the unchanged one: whatever IS
//     admitted and announced must be acceptable to the detector and carry the registration's
//     phantom, port (the registrar-assigned one if there is one), protocol and registrant address;
//     nothing may be published for a message of which nothing was admitted.
//
//  2. Time between the moment a registration was made and the moment it is used. c10Advance moves
//     EVERY timestamp the station holds for its registrations backwards (the registry's expiry
//     record and the registration's own RegistrationTime), which is what the passage of time looks
//     like to code that only ever computes time.Since / time.Until of them.

import (
	"errors"
	"fmt"
	"net"
	"sync"
	"testing"
	"time"

	"github.com/refraction-networking/conjure/pkg/station/geoip"
	"pgregory.net/rapid"
	"verif/harness/vh"
)

// c10Case is what the announce / geoip sub-checks run: a message + station configuration (C07's
// case; embedded, so replay files of plain c07Case values still load), the behaviour of the GeoIP
// database while it is ingested, and the time that passes between validation and first use.
type c10Case struct {
	c07Case
	// UseAfterS: seconds between the registration being validated (New) and the connection that
	// makes it used (Update). Always shorter than the lifetime of an unused registration.
	UseAfterS int64 `json:"use_after_s,omitempty"`
	// Geo == nil: the empty database of a station that has none configured.
	Geo *c10Geo `json:"geoip,omitempty"`
}

type c10Geo struct {
	FailCC  bool `json:"fail_cc,omitempty"`
	FailASN bool `json:"fail_asn,omitempty"`
	// lookups (country and AS lookups counted together, in the order the station makes them)
	// with From <= index < Until fail; Until == 0: no end
	From  int    `json:"from,omitempty"`
	Until int    `json:"until,omitempty"`
	CC    string `json:"cc"`
	ASN   uint   `json:"asn"`
}

func (g *c10Geo) faulty() bool { return g != nil && (g.FailCC || g.FailASN) }

// c10GeoDB is the scripted geoip.Database.
type c10GeoDB struct {
	g         c10Geo
	mu        sync.Mutex
	n         int
	failed    int
	firstKind string
}

var _ geoip.Database = (*c10GeoDB)(nil)

func (db *c10GeoDB) lookup(kind string, fails bool) error {
	db.mu.Lock()
	defer db.mu.Unlock()
	i := db.n
	db.n++
	if fails && i >= db.g.From && (db.g.Until == 0 || i < db.g.Until) {
		if db.failed == 0 {
			db.firstKind = kind
		}
		db.failed++
		return fmt.Errorf("c10 scripted geoip: %s lookup %d: %w", kind, i, errC10GeoFault)
	}
	return nil
}

var errC10GeoFault = errors.New("unexpected end of database")

func (db *c10GeoDB) CC(net.IP) (string, error) {
	if err := db.lookup("cc", db.g.FailCC); err != nil {
		return "", err
	}
	return db.g.CC, nil
}

func (db *c10GeoDB) ASN(net.IP) (uint, error) {
	if err := db.lookup("asn", db.g.FailASN); err != nil {
		return 0, err
	}
	return db.g.ASN, nil
}

func (db *c10GeoDB) stats() (lookups, failed int, firstKind string) {
	db.mu.Lock()
	defer db.mu.Unlock()
	return db.n, db.failed, db.firstKind
}

// c10GenGeo draws a database behaviour. faulty: at least one kind of lookup fails in a window that
// starts within the lookups a message can cause (two per registration while it is built; a
// connecting transport makes two more per registration after validation).
func c10GenGeo(rt *rapid.T, faulty bool) *c10Geo {
	g := &c10Geo{
		CC:  rapid.SampledFrom([]string{"US", "IR", "CN", "RU", "unk", ""}).Draw(rt, "geo-cc"),
		ASN: uint(rapid.SampledFrom([]int{0, 1, 237, 13335, 64512, 4200000000}).Draw(rt, "geo-asn")),
	}
	if !faulty {
		return g
	}
	switch rapid.SampledFrom([]string{"cc", "asn", "both", "cc", "asn"}).Draw(rt, "geo-fails") {
	case "cc":
		g.FailCC = true
	case "asn":
		g.FailASN = true
	default:
		g.FailCC, g.FailASN = true, true
	}
	g.From = rapid.SampledFrom([]int{0, 0, 0, 0, 1, 2, 3, 4, 5}).Draw(rt, "geo-from")
	if rapid.IntRange(0, 3).Draw(rt, "geo-transient") == 0 {
		g.Until = g.From + rapid.IntRange(1, 3).Draw(rt, "geo-window")
	}
	return g
}

// c10Advance lets d pass for the station: every timestamp it holds for a tracked registration - the
// registry's expiry record and the registration's own RegistrationTime - moves d into the past.
func c10Advance(e *c07Env, d time.Duration) {
	r := e.rm.registeredDecoys
	r.m.Lock()
	for _, to := range r.decoysTimeouts {
		to.registrationTime = to.registrationTime.Add(-d)
	}
	for _, m := range r.decoys {
		for _, reg := range m {
			reg.RegistrationTime = reg.RegistrationTime.Add(-d)
		}
	}
	r.m.Unlock()
}

const c10GeoRule = "messages from C07's generator biased towards admission, ingested through the real pipeline while the station's GeoIP database (rm.GeoIP, consulted for the registrant address while the registration is built and again by connecting transports) misbehaves: the country lookup, the AS lookup or both return an error for a drawn window of the lookups of the case (from the first lookup on or starting at the 2nd..6th, permanent or for 1-3 lookups). Same oracle as announce, nothing added: whether the station admits a registration under the fault is not C10's business, but every message it publishes must be acted on by the modelled detector and carry the registration's phantom, destination port (the registrar-assigned one if the message has one), protocol and registrant address, request 10 min / 6 h, one message per admitted registration and none when nothing was admitted; admitted registrations are then used after a drawn 0-9 min (all station clocks moved) and the station is shut down. Non-trivial: a lookup actually failed. Distinct = distinct case description."

// TestVerif_C10_geoip: announcements of registrations ingested while the GeoIP database fails.
func TestVerif_C10_geoip(t *testing.T) {
	rec := vh.NewRec("C10", "geoip", c10GeoRule)
	defer rec.Flush()
	rec.Require("geoip:lookup-failed", "geoip:lookup-failed:cc-first", "geoip:lookup-failed:asn-first", "geoip:lookup-failed+port-registrar-assigned",
		"geoip:lookup-failed+phantom-registrar-assigned", "geoip:lookup-failed+dual-stack-message", "geoip:lookup-failed:from-first-lookup", "geoip:lookup-failed:later-lookup",
		"geoip:lookup-failed+registrant:absent", "geoip:lookup-failed+registrant:ipv4", "geoip:lookup-failed+registrant:ipv6", "geoip:lookup-failed+registrant:v4-mapped")
	w := c10NewWorld(t, rec)
	if p := vh.ReplayFile(); p != "" {
		var c c10Case
		if _, _, err := vh.LoadReplay(p, &c); err != nil {
			t.Fatal(err)
		}
		c10Check(t, rec, w, c, nil)
		return
	}
	later := &c10Deferred{}
	rapid.Check(t, func(rt *rapid.T) {
		c := c10Case{c07Case: c07Gen(rt, c07Admit)}
		c.Repeat = false
		c.Geo = c10GenGeo(rt, true)
		c.UseAfterS = c10GenUseAfter(rt)
		c10Check(rt, rec, w, c, later)
	})
	if later.V != nil && !t.Failed() {
		rec.Violation(t, later.V.Key, later.Case, "%s", later.V.Msg)
	}
}

// c10GenUseAfter draws the time between validation and first use: none, or up to 9 minutes (an
// unused registration lives for 10).
func c10GenUseAfter(rt *rapid.T) int64 {
	if rapid.IntRange(0, 2).Draw(rt, "use-at-once") == 0 {
		return 0
	}
	return int64(rapid.SampledFrom([]int{1, 20, 29, 31, 45, 59, 61, 90, 119, 121, 300, 420, 539, 540}).Draw(rt, "use-after-s"))
}
