package lib

// Shared harness piece: a scripted connecting transport (the station dials the client when the
// registration is ingested). The outcome of the dial is scripted per shared secret; every dial is
// logged with the registration object it was made for.

import (
	"context"
	"errors"
	"fmt"
	"net"
	"sync"

	"github.com/refraction-networking/conjure/pkg/core"
	"github.com/refraction-networking/conjure/pkg/transports"
	pb "github.com/refraction-networking/conjure/proto"
	"google.golang.org/protobuf/types/known/anypb"
	"verif/harness/vconn"
	"verif/harness/vh"
)

type vDial struct {
	Secret string // hex
	Covert string // covert address of the registration object the station dialled for
	Reg    *DecoyRegistration
}

type vConnTransport struct {
	mu      *sync.Mutex
	outcome map[string]string // shared secret (hex) -> "ok" | "timeout" | "fail" (default)
	dials   *[]vDial
}

func newVConnTransport() vConnTransport {
	return vConnTransport{mu: &sync.Mutex{}, outcome: map[string]string{}, dials: &[]vDial{}}
}

func (vConnTransport) Name() string      { return "dtls" }
func (vConnTransport) LogPrefix() string { return "DTLS" }
func (vConnTransport) GetIdentifier(r transports.Registration) string {
	return string(core.ConjureHMAC(r.SharedSecret(), "verif-connecting"))
}
func (vConnTransport) GetProto() pb.IPProto                        { return pb.IPProto_Udp }
func (vConnTransport) GetDstPort(uint, []byte, any) (uint16, error) { return 443, nil }
func (vConnTransport) ParseParams(uint, *anypb.Any) (any, error)    { return nil, nil }
func (vConnTransport) ParamStrings(any) []string                    { return nil }

func (t vConnTransport) Script(secret []byte, outcome string) {
	t.mu.Lock()
	t.outcome[fmt.Sprintf("%x", secret)] = outcome
	t.mu.Unlock()
}

func (t vConnTransport) Dials() []vDial {
	t.mu.Lock()
	defer t.mu.Unlock()
	return append([]vDial(nil), (*t.dials)...)
}

func (t vConnTransport) ClearDials() {
	t.mu.Lock()
	*t.dials = nil
	t.mu.Unlock()
}

func (t vConnTransport) Connect(ctx context.Context, reg transports.Registration) (net.Conn, error) {
	key := fmt.Sprintf("%x", reg.SharedSecret())
	t.mu.Lock()
	oc := t.outcome[key]
	d := vDial{Secret: key}
	if dr, ok := reg.(*DecoyRegistration); ok {
		d.Reg, d.Covert = dr, dr.Covert
	}
	*t.dials = append(*t.dials, d)
	t.mu.Unlock()
	switch oc {
	case "ok":
		return vconn.New(vconn.Script{Reads: []vconn.Step{{Data: vh.Hex([]byte("hello"))}}, End: "eof", Remote: "203.0.113.77:5555"}), nil
	case "timeout":
		return nil, context.DeadlineExceeded
	}
	return nil, errors.New("error connecting to dtls client: connection refused")
}

// vConnStats reports the end of every dial the station made ("ok" = connected and the relayed
// session has ended, "timeout", "fail").
type vConnStats struct{ done chan string }

func newVConnStats() *vConnStats { return &vConnStats{done: make(chan string, 256)} }

func (s *vConnStats) AddCreatedConnecting(uint, string, string)             {}
func (s *vConnStats) AddCreatedToSuccessfulConnecting(uint, string, string) {}
func (s *vConnStats) AddCreatedToTimeoutConnecting(uint, string, string)    { s.done <- "timeout" }
func (s *vConnStats) AddSuccessfulToDiscardedConnecting(uint, string, string) {
	s.done <- "ok"
}
func (s *vConnStats) AddOtherFailConnecting(uint, string, string) { s.done <- "fail" }
