package lib

// C10, real client: the other C10 sub-checks replace the package-level go-redis client after using
// up the package's sync.Once, so the station's own getRedisClient / initRedisClient never run. Here
// they do: nothing is swapped, the station dials its hard-coded "localhost:6379", where a tiny fake
// Redis (RESP: PING, PUBLISH) is switched on and off according to an availability history
// (e.g. down at the station's first use of the channel, then up; up; flapping).
//
// Oracle: every announcement for a validated / activated registration, and the clear request, that
// the station publishes WHILE Redis is reachable arrives at the server and is acted on by the model
// of the detector. (What is published while Redis is down is lost in any tree; nothing is asserted
// about it.)
//
// The sync.Once is per process, so every history runs in its own subprocess: the test binary
// re-executes itself with -test.run=TestVerif_C10_realclientChild and the history in an environment
// variable; the child hosts both the station and the fake Redis and writes what it saw to a file.
// Port 6379 is a machine-wide resource: runs are serialised with a lock file, only shard 0 runs
// them, and if the port cannot be bound (a real Redis, a foreign process) the sub-check records
// itself as not run instead of failing. A history that fails is run a second time and reported only
// if it fails again (the station's own client has 3 s time-outs that a starved machine could hit).

import (
	"encoding/json"
	"fmt"
	"net"
	"os"
	"os/exec"
	"path/filepath"
	"strings"
	"sync"
	"syscall"
	"testing"
	"time"

	pb "github.com/refraction-networking/conjure/proto"
	"google.golang.org/protobuf/proto"
	"verif/harness/vh"
)

const c10RedisPort = "6379"

// c10Switch is a fake Redis on the station's fixed address that can be switched on and off.
type c10Switch struct {
	c10Resp
	lns   []net.Listener
	cmu   sync.Mutex
	conns []net.Conn
	awg   sync.WaitGroup
}

func newC10Switch() *c10Switch {
	s := &c10Switch{}
	s.cmds = map[string]int{}
	return s
}

// Up binds 127.0.0.1:6379 (mandatory) and [::1]:6379 (if there is an IPv6 loopback): "localhost"
// may resolve to either.
func (s *c10Switch) Up() error {
	if len(s.lns) > 0 {
		return nil
	}
	ln, err := net.Listen("tcp", "127.0.0.1:"+c10RedisPort)
	if err != nil {
		return err
	}
	s.lns = append(s.lns, ln)
	if ln6, err := net.Listen("tcp", "[::1]:"+c10RedisPort); err == nil {
		s.lns = append(s.lns, ln6)
	}
	for _, l := range s.lns {
		l := l
		s.awg.Add(1)
		go func() {
			defer s.awg.Done()
			for {
				c, err := l.Accept()
				if err != nil {
					return
				}
				s.cmu.Lock()
				s.conns = append(s.conns, c)
				s.cmu.Unlock()
				s.awg.Add(1)
				go func() { defer s.awg.Done(); s.serve(c) }()
			}
		}()
	}
	return nil
}

// Down closes the listeners and every connection: connection attempts are refused from now on.
func (s *c10Switch) Down() {
	for _, l := range s.lns {
		l.Close()
	}
	s.lns = nil
	s.cmu.Lock()
	for _, c := range s.conns {
		c.Close()
	}
	s.conns = nil
	s.cmu.Unlock()
	s.awg.Wait()
}

// DropConns closes every established connection from the server side; the server stays up (what a
// Redis restart or an idle time-out looks like to a client that was idle meanwhile).
func (s *c10Switch) DropConns() {
	s.cmu.Lock()
	conns := s.conns
	s.conns = nil
	s.cmu.Unlock()
	for _, c := range conns {
		c.Close()
	}
	// give the FINs a moment to reach the client's sockets (loopback; the station is idle)
	time.Sleep(20 * time.Millisecond)
}

// ---- child

type c10RCStep struct {
	Phase    int      `json:"phase"`
	State    string   `json:"state"` // up | down
	Action   string   `json:"action"`
	Expected int      `json:"expected"`
	Arrived  int      `json:"arrived"`
	Handled  []string `json:"handled"` // what the modelled detector did with each arrival
}

type c10RCResult struct {
	NotRun string      `json:"not_run,omitempty"`
	Error  string      `json:"error,omitempty"`
	Steps  []c10RCStep `json:"steps"`
}

// TestVerif_C10_realclientChild is the subprocess side; without its environment variable it does nothing.
func TestVerif_C10_realclientChild(t *testing.T) {
	spec, outPath := os.Getenv("VERIF_C10_CHILD"), os.Getenv("VERIF_C10_CHILD_OUT")
	if spec == "" || outPath == "" {
		return
	}
	var phases []string
	res := c10RCResult{}
	defer func() {
		if r := recover(); r != nil {
			res.Error = fmt.Sprint("panic: ", r)
		}
		b, _ := json.Marshal(res)
		_ = os.WriteFile(outPath, b, 0o644)
	}()
	if err := json.Unmarshal([]byte(spec), &phases); err != nil || len(phases) == 0 {
		res.Error = "bad history"
		return
	}
	e := c07NewEnv(t, true) // real sendToDetector / clearDetector, and NOTHING touches once / client
	w := &c10World{e: e}
	conf := c07Conf{EnableV4: true, EnableV6: true, Transports: append([]int(nil), c07TransportsAll...)}
	e.apply(conf, "notlive")
	srv := newC10Switch()
	defer srv.Down()
	det := &c10Detector{Sessions: map[string]uint64{}}
	mine := map[string]bool{}

	collect := func(phase int, state, action string, expected int) {
		st := c10RCStep{Phase: phase, State: state, Action: action, Expected: expected}
		for _, p := range srv.Take() {
			if p.Channel != "dark_decoy_map" {
				continue
			}
			m := &pb.StationToDetector{}
			if err := proto.Unmarshal(p.Payload, m); err != nil {
				st.Arrived++
				st.Handled = append(st.Handled, "undecodable")
				continue
			}
			if m.GetOperation() != pb.StationOperations_Clear && !mine[m.GetPhantomIp()] {
				continue // somebody else on this machine talking to port 6379
			}
			did, _ := det.Handle(m)
			st.Arrived++
			st.Handled = append(st.Handled, m.GetOperation().String()+":"+did)
		}
		res.Steps = append(res.Steps, st)
	}

	for pi, state := range phases {
		if state == "up" || state == "drop" {
			if err := srv.Up(); err != nil {
				res.NotRun = "cannot bind the station's Redis address: " + err.Error()
				return
			}
		} else {
			srv.Down()
		}
		srv.Take()
		msg := c07Msg{HasSecret: true, Secret: vh.Hex(vSecret(9100 + pi)), HasPayload: true, Source: 2, HasRegAddr: true, RegAddr: c07IP("198.51.100.7"),
			LibVer: 4, Gen: 957, Transport: c07TransportsAll[pi%len(c07TransportsAll)], HasCovert: true, Covert: "192.0.2.10:443", V4: 1, V6: 1, Flags: 0}
		switch pb.TransportType(msg.Transport) {
		case pb.TransportType_Prefix:
			msg.Params = c07Params{Kind: "prefix", PrefixID: 1}
		case pb.TransportType_DTLS:
			msg.Params = c07Params{Kind: "dtls"}
		default:
			msg.Params = c07Params{Kind: "generic"}
		}
		if state == "down" {
			msg.V4 = 0 // one lost publish is enough
		}
		before := map[*DecoyRegistration]bool{}
		for _, d := range e.validRegs() {
			before[d] = true
		}
		// the phantoms are needed before the messages are looked at
		c := c07Case{Msg: msg, Conf: conf, Live: "notlive"}
		if exp, err := c07Model(e, c); err == nil {
			for _, f := range exp.Fam {
				if f.Phantom != nil {
					mine[f.Phantom.String()] = true
				}
			}
		}
		if state == "drop" {
			srv.DropConns() // the station was idle; the next publication (New) follows
		}
		if _, err := e.deliver(c07Build(msg)); err != nil {
			res.Error = "deliver: " + err.Error()
			return
		}
		var fresh []*DecoyRegistration
		for _, d := range e.validRegs() {
			if !before[d] {
				fresh = append(fresh, d)
			}
		}
		collect(pi, state, "New", len(fresh))
		for _, d := range fresh {
			if state == "drop" {
				srv.DropConns() // idle again; the next publication is an Update
			}
			w.use(d)
		}
		collect(pi, state, "Update", len(fresh))
	}
	if phases[len(phases)-1] == "drop" {
		srv.DropConns() // idle; the next publication is the shutdown Clear
	}
	e.rm.Cleanup()
	collect(len(phases)-1, phases[len(phases)-1], "Clear", 1)
}

// ---- parent

type c10RCHistory struct {
	Phases []string `json:"phases"`
}

func c10RunChild(t *testing.T, h c10RCHistory) (c10RCResult, error) {
	var res c10RCResult
	dir := t.TempDir()
	out := filepath.Join(dir, fmt.Sprintf("child-%d.json", time.Now().UnixNano()))
	spec, _ := json.Marshal(h.Phases)
	cmd := exec.Command(os.Args[0], "-test.run=^TestVerif_C10_realclientChild$", "-test.count=1", "-test.timeout=200s")
	cmd.Env = append(os.Environ(), "VERIF_C10_CHILD="+string(spec), "VERIF_C10_CHILD_OUT="+out)
	cmd.Dir = dir
	done := make(chan error, 1)
	var output []byte
	go func() {
		var err error
		output, err = cmd.CombinedOutput()
		done <- err
	}()
	select {
	case <-done:
	case <-time.After(240 * time.Second):
		if cmd.Process != nil {
			_ = cmd.Process.Kill()
		}
		return res, fmt.Errorf("child did not finish within 240 s")
	}
	b, err := os.ReadFile(out)
	if err != nil {
		tail := string(output)
		if len(tail) > 1500 {
			tail = tail[len(tail)-1500:]
		}
		return res, fmt.Errorf("child wrote no result (%v); output: %s", err, tail)
	}
	if err := json.Unmarshal(b, &res); err != nil {
		return res, err
	}
	if res.Error != "" {
		return res, fmt.Errorf("child: %s", res.Error)
	}
	return res, nil
}

// c10JudgeChild: the first announcement published while Redis was reachable that did not arrive or
// was not acted on.
func c10JudgeChild(h c10RCHistory, res c10RCResult) *c10Viol {
	for _, st := range res.Steps {
		if st.State != "up" && st.State != "drop" {
			continue // Redis unreachable: what is published is lost in any tree
		}
		if st.Arrived < st.Expected {
			return c10V("realclient:not-published:"+st.Action,
				"availability history %v: in phase %d Redis is reachable, the station has %d %s to publish, %d arrived (steps: %+v). The channel stays silent although Redis can be reached",
				h.Phases, st.Phase, st.Expected, st.Action, st.Arrived, res.Steps)
		}
		for _, did := range st.Handled {
			if !strings.HasSuffix(did, ":added") && !strings.HasSuffix(did, ":cleared") {
				return c10V("realclient:detector-rejects:"+st.Action, "availability history %v, phase %d: the detector does not act on a published message (%s)", h.Phases, st.Phase, did)
			}
		}
	}
	return nil
}

func c10HistoryClass(ph []string) string {
	switch {
	case strings.Contains(strings.Join(ph, ","), "drop"):
		return "availability:connection-dropped-while-idle"
	case !strings.Contains(strings.Join(ph, ","), "down"):
		return "availability:always-up"
	case ph[0] == "down" && len(ph) == 2:
		return "availability:down-at-first-use-then-up"
	case ph[0] == "down":
		return "availability:down-at-first-use-longer"
	}
	return "availability:flapping-after-good-start"
}

func TestVerif_C10_realclient(t *testing.T) {
	rec := vh.NewRec("C10", "realclient", "the station's REAL getRedisClient / initRedisClient (nothing swapped) against a fake Redis on the hard-coded localhost:6379 that is switched on and off by an availability history; one subprocess per history (the client is created under sync.Once). Per phase: a registration is ingested through the real pipeline (dual-stack when up), each new registration is used (MarkActive + Proxy), at the end Cleanup(). Every New / Update / Clear published while Redis is reachable must arrive and be acted on by the modelled detector. Exhaustive over the listed availability histories (quick: 6, thorough: every history of 1-4 phases over {up, down, drop} that ends reachable, plus two ending down); in a drop phase the server stays up but closes the established connections while the station is idle, before the New, before each Update and before the shutdown Clear. Non-trivial: a history with a down phase. Only shard 0 runs it; not run (and not failed) if port 6379 cannot be bound.")
	defer rec.Flush()
	rec.SetExhaustive(true)
	var hs []c10RCHistory
	if p := vh.ReplayFile(); p != "" {
		var h c10RCHistory
		if _, _, err := vh.LoadReplay(p, &h); err != nil {
			t.Fatal(err)
		}
		hs = []c10RCHistory{h}
	} else {
		if idx, _ := vh.Shard(); idx != 0 {
			return
		}
		hs = []c10RCHistory{{[]string{"up"}}, {[]string{"down", "up"}}, {[]string{"up", "down", "up"}}, {[]string{"down", "down", "up"}},
			{[]string{"up", "drop"}}, {[]string{"up", "drop", "up"}}}
		if vh.Thorough() {
			hs = nil
			var gen func(p []string)
			gen = func(p []string) {
				if len(p) > 0 && p[len(p)-1] != "down" {
					hs = append(hs, c10RCHistory{append([]string(nil), p...)})
				}
				if len(p) == 4 {
					return
				}
				gen(append(append([]string(nil), p...), "up"))
				gen(append(append([]string(nil), p...), "down"))
				if len(p) > 0 && len(p) < 3 {
					gen(append(append([]string(nil), p...), "drop"))
				}
			}
			gen(nil)
			hs = append(hs, c10RCHistory{[]string{"up", "down"}}, c10RCHistory{[]string{"down", "up", "down"}})
		}
	}
	// one run at a time on this machine
	lock, err := os.OpenFile(filepath.Join(os.TempDir(), "verif-c10-redis-port.lock"), os.O_CREATE|os.O_RDWR, 0o666)
	if err != nil {
		rec.Note("NOT RUN: cannot open the lock file: %v", err)
		rec.Class("not-run")
		return
	}
	defer lock.Close()
	locked := false
	for deadline := time.Now().Add(150 * time.Second); time.Now().Before(deadline); time.Sleep(200 * time.Millisecond) {
		if syscall.Flock(int(lock.Fd()), syscall.LOCK_EX|syscall.LOCK_NB) == nil {
			locked = true
			break
		}
	}
	if !locked {
		rec.Note("NOT RUN: another run held the Redis-port lock for 150 s")
		rec.Class("not-run")
		return
	}
	defer syscall.Flock(int(lock.Fd()), syscall.LOCK_UN)
	probe, err := net.Listen("tcp", "127.0.0.1:"+c10RedisPort)
	if err != nil {
		rec.Note("NOT RUN: the station's Redis address 127.0.0.1:%s cannot be bound here (%v); the real client path stays unexercised", c10RedisPort, err)
		rec.Class("not-run")
		return
	}
	probe.Close()
	if vh.ReplayFile() == "" {
		rec.Require("availability:always-up", "availability:down-at-first-use-then-up", "availability:flapping-after-good-start", "availability:connection-dropped-while-idle")
	}
	for _, h := range hs {
		var v *c10Viol
		for attempt := 0; attempt < 2; attempt++ {
			res, err := c10RunChild(t, h)
			if err != nil {
				t.Fatalf("harness problem: %v", err)
			}
			if res.NotRun != "" {
				rec.Note("NOT RUN (history %v): %s", h.Phases, res.NotRun)
				rec.Class("not-run")
				return
			}
			if v = c10JudgeChild(h, res); v == nil {
				break
			}
		}
		rec.Case(len(h.Phases) > 1, vh.Digest(h), h, c10HistoryClass(h.Phases))
		if v != nil {
			rec.Violation(t, v.Key, h, "%s (reproduced in two separate runs)", v.Msg)
		}
	}
}
