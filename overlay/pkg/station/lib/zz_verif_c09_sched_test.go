package lib

// C09 — concurrent ingest, lookup, activation and expiry behave like some serial order.
//
// Harness-owned schedules without any hook in /repo. Each actor runs the real code on its own
// shallow copy of the RegistrationManager (all registry / policy / stats state is shared through
// pointers) with its own debug-level Logger and its own liveness.Tester: the pipeline logs exactly
// between its critical sections and calls the tester between "track" and "validate", so a logger
// whose Write parks the goroutine and a tester that parks likewise give the harness control at
// every point where the pipeline has released its lock. One actor runs at a time; a schedule is the
// list of actor choices and is replayable.
//
// Oracle: (1) serialisability by differential replay — the observable outcome of the concurrent
// run (final registry state, announcements, per-operation results) must equal the outcome of
// running the same operations one after another, in some order consistent with their real-time
// order, on the same initial state; (2) invariants that do not depend on the replay.

import (
	"fmt"
	golog "log"
	"net"
	"runtime"
	"sort"
	"strings"
	"sync"
	"sync/atomic"
	"testing"
	"time"

	"github.com/refraction-networking/conjure/pkg/station/log"
	pb "github.com/refraction-networking/conjure/proto"
	"google.golang.org/protobuf/proto"
	"pgregory.net/rapid"
	"verif/harness/vh"
)

// ---- scenario ------------------------------------------------------------------------------------

type c09Pre struct {
	Secret int   `json:"secret"`
	TT     int   `json:"tt"`
	AgeS   int64 `json:"age_s"`
	Used   bool  `json:"used"`
	Valid  bool  `json:"valid"`
}

type c09Actor struct {
	Kind   string `json:"kind"` // ingest | sweep | lookup | reload
	Secret int    `json:"secret,omitempty"`
	TT     int    `json:"tt,omitempty"`
	Covert string `json:"covert,omitempty"` // ingest: "ok1" | "ok2" | "bad" (blocklisted) | "malformed"
	Live   bool   `json:"live,omitempty"`   // ingest: verdict of this actor's liveness probe
	Policy int    `json:"policy,omitempty"` // reload: 0 = initial policy, 1 = policy that also forbids ok2
	AgeS   int64  `json:"age_s,omitempty"`  // sweep: this much time has passed (for every tracked registration) when the sweep starts
	V6     bool   `json:"v6,omitempty"`     // ingest / lookup: IPv6 phantom (never probed for liveness)
	Pre    bool   `json:"pre,omitempty"`    // ingest: the registration is flagged pre-scanned (never probed)
}

type c09Scenario struct {
	Pre    []c09Pre   `json:"pre"`
	Actors []c09Actor `json:"actors"`
}

type c09Case struct {
	Scn      c09Scenario `json:"scenario"`
	Schedule []int       `json:"schedule"` // actor index chosen at each scheduling step (missing/invalid: lowest runnable)
	Sticky   bool        `json:"sticky,omitempty"` // beyond the schedule: stay with the actor that ran last while it is runnable
}

var c09TT = []pb.TransportType{pb.TransportType_Min, pb.TransportType_Prefix, pb.TransportType_Obfs4}

var c09Coverts = map[string]string{"ok1": "198.51.100.10:443", "ok2": "198.51.100.20:443", "bad": "127.0.0.1:22", "malformed": "no-port"}

func c09Conf(policy int) *RegConfig {
	c := &RegConfig{EnableIPv4: true, EnableIPv6: true, CovertBlocklistSubnets: []string{"127.0.0.0/8", "10.0.0.0/8"}}
	if policy == 1 {
		c.CovertBlocklistSubnets = append(c.CovertBlocklistSubnets, "198.51.100.16/28")
	}
	c.ParseBlocklists()
	return c
}

// ---- scheduler -----------------------------------------------------------------------------------

type c09Sched struct {
	mu      sync.Mutex
	events  chan c09Ev // actor -> scheduler: parked / finished
	resume  []chan struct{}
	release bool // when set, yields return immediately (used to unwind after a stall)
	log     []string
	seq     int
}

type c09Ev struct {
	actor    int
	point    string
	finished bool
	panicked any
}

func (s *c09Sched) yield(actor int, point string) {
	s.mu.Lock()
	rel := s.release
	s.mu.Unlock()
	if rel {
		return
	}
	s.events <- c09Ev{actor: actor, point: point}
	<-s.resume[actor]
}

func (s *c09Sched) note(format string, a ...any) {
	s.mu.Lock()
	s.seq++
	s.log = append(s.log, fmt.Sprintf("%03d ", s.seq)+fmt.Sprintf(format, a...))
	s.mu.Unlock()
}

type c09ParkWriter struct {
	s     *c09Sched
	actor int
}

func (w *c09ParkWriter) Write(p []byte) (int, error) {
	line := string(p)
	point := "log"
	switch {
	case strings.Contains(line, "New registration"):
		point = "after-exists:new"
	case strings.Contains(line, "Duplicate registration"):
		point = "after-exists:dup"
	case strings.Contains(line, "Dropping reg"):
		point = "dropped"
	case strings.Contains(line, "Adding registration"):
		point = "validated"
	case strings.Contains(line, "cleansing registrations"):
		point = "sweep:collected"
	case strings.Contains(line, "expired reg"):
		point = "sweep:removed-one"
	}
	w.s.yield(w.actor, point)
	return len(p), nil
}

type c09ParkTester struct {
	s     *c09Sched
	actor int
	live  bool
	calls int
}

func (t *c09ParkTester) PhantomIsLive(addr string, port uint16) (bool, error) {
	t.calls++
	t.s.yield(t.actor, "liveness-probe")
	return t.live, nil
}
func (t *c09ParkTester) PrintAndReset(*log.Logger) {}
func (t *c09ParkTester) PrintStats(*log.Logger)    {}
func (t *c09ParkTester) Reset()                    {}

// ---- world ---------------------------------------------------------------------------------------

type c09World struct {
	e     *vEnv
	evlog []string // global ordered log of observable events (announcements, lookup results)
	mu    sync.Mutex
	// set in scheduled runs: lets the announcement callbacks act as yield points when (and only
	// when) they are invoked without the registry lock held
	sched *c09Sched
	cur   int
	// the manager's "currently active registrations" gauge once the initial state is built
	baseActive int64
}

// announceYield parks the current actor inside a detector announcement iff the registry lock is not
// held at that moment. The pipeline announces inside the locked validation step, so on such code
// this never yields; if the announcement is made after the lock was released, other actors can run
// in between and the order of events becomes observable.
func (w *c09World) announceYield(point string) {
	if w.sched == nil {
		return
	}
	r := w.e.rm.registeredDecoys
	if r.m.TryLock() {
		r.m.Unlock()
		w.sched.yield(w.cur, point)
	}
}

func (w *c09World) ev(format string, a ...any) {
	w.mu.Lock()
	w.evlog = append(w.evlog, fmt.Sprintf(format, a...))
	w.mu.Unlock()
}

func c09KeyOf(e *vEnv, reg *DecoyRegistration) string {
	t := e.rm.registeredDecoys.transports[reg.Transport]
	return fmt.Sprintf("s%x/%s", reg.Keys.SharedSecret[6:8], shortTT(reg.Transport)) + "@" + reg.PhantomIp.String() + "#" + fmt.Sprintf("%x", t.GetIdentifier(reg))[:8]
}

func shortTT(t pb.TransportType) string { return strings.ToLower(t.String()) }

func c09MakeReg(e *vEnv, secret, tt int, covert string) (*DecoyRegistration, error) {
	return c09MakeRegX(e, secret, tt, covert, false, false)
}

func c09MakeRegX(e *vEnv, secret, tt int, covert string, v6, prescanned bool) (*DecoyRegistration, error) {
	w := vWrapper(vSecret(secret), c09TT[tt], 0, covert, !v6, v6, 4, 957, pb.RegistrationSource_API, net.ParseIP("198.51.100.7").To4())
	if prescanned {
		w.RegistrationPayload.Flags.Prescanned = proto.Bool(true)
	}
	return e.rm.NewRegistrationC2SWrapper(w, v6)
}

// c09Init builds the initial state (serially, through the real code).
func c09Init(e *vEnv, scn c09Scenario) (*c09World, error) {
	e.resetRegistry()
	*e.rm.RegConfig = *c09Conf(0)
	w := &c09World{e: e}
	r := e.rm.registeredDecoys
	r.registerForDetector = func(d *DecoyRegistration) {
		w.announceYield("announce-new:unlocked")
		w.ev("announce New %s covert=%s", c09KeyOf(e, d), d.Covert)
	}
	r.updateInDetector = func(d *DecoyRegistration) {
		w.announceYield("announce-update:unlocked")
		w.ev("announce Update %s covert=%s", c09KeyOf(e, d), d.Covert)
	}
	e.live.Verdict = nil
	for _, p := range scn.Pre {
		reg, err := c09MakeReg(e, p.Secret, p.TT, c09Coverts["ok1"])
		if err != nil {
			return nil, err
		}
		if p.Valid {
			e.rm.ingestRegistration(reg)
		} else if err := e.rm.TrackRegistration(reg); err != nil {
			return nil, err
		}
		if p.Used {
			e.rm.MarkActive(reg)
		}
		id := r.transports[reg.Transport].GetIdentifier(reg)
		r.m.Lock()
		for _, to := range r.decoysTimeouts {
			if to.decoy == reg.PhantomIp.String() && to.identifier == id {
				to.registrationTime = to.registrationTime.Add(-time.Duration(p.AgeS) * time.Second)
			}
		}
		r.m.Unlock()
	}
	w.evlog = nil // the initial state's announcements are not part of the observation
	w.baseActive = atomic.LoadInt64(&e.rm.RegistrationStats.activeRegistrations)
	return w, nil
}

// c09ActorState carries what a connection handler holds between its lookup and its activation.
type c09ActorState struct {
	found *DecoyRegistration
}

// c09Phases: a connection handler performs two separately atomic operations (lookup inside the
// transport's WrapConnection, activation afterwards); every other actor is one operation.
func c09Phases(a c09Actor) int {
	if a.Kind == "lookup" {
		return 2
	}
	return 1
}

// c09RunPhase executes one atomic-by-specification operation of an actor with the given manager view.
func c09RunPhase(w *c09World, rm *RegistrationManager, idx int, a c09Actor, phase int, st *c09ActorState) string {
	e := w.e
	switch a.Kind {
	case "ingest":
		reg, err := c09MakeRegX(e, a.Secret, a.TT, c09Coverts[a.Covert], a.V6, a.Pre)
		if err != nil {
			return "harness-error:" + err.Error()
		}
		rm.ingestRegistration(reg)
		return "ingested"
	case "sweep":
		if a.AgeS > 0 {
			// time passes: the sweep runs AgeS seconds later (one step, nothing else runs in between)
			r := rm.registeredDecoys
			r.m.Lock()
			for _, to := range r.decoysTimeouts {
				to.registrationTime = to.registrationTime.Add(-time.Duration(a.AgeS) * time.Second)
			}
			r.m.Unlock()
		}
		rm.RemoveOldRegistrations()
		return "swept"
	case "lookup":
		if phase == 0 {
			reg, err := c09MakeRegX(e, a.Secret, a.TT, c09Coverts["ok1"], a.V6, false)
			if err != nil {
				return "harness-error:" + err.Error()
			}
			id := rm.registeredDecoys.transports[reg.Transport].GetIdentifier(reg)
			found, ok := rm.GetRegistrations(reg.PhantomIp)[id]
			if !ok {
				w.ev("lookup[%d] %s -> not found", idx, c09KeyOf(e, reg))
				return "lookup:notfound"
			}
			st.found = found.(*DecoyRegistration)
			w.ev("lookup[%d] %s -> found covert=%s", idx, c09KeyOf(e, reg), st.found.Covert)
			return "lookup:found covert=" + st.found.Covert
		}
		if st.found != nil {
			rm.MarkActive(st.found)
		}
		return ""
	case "reload":
		// what main.go does on SIGHUP after a successful ParseConfig
		rm.OnReload(c09Conf(a.Policy))
		return "reloaded"
	}
	return "?"
}

// c09RunActor executes a whole actor; yield (nil in serial use) is called between its phases.
func c09RunActor(w *c09World, rm *RegistrationManager, idx int, a c09Actor, yield func(point string)) string {
	st := &c09ActorState{}
	res := c09RunPhase(w, rm, idx, a, 0, st)
	if c09Phases(a) == 2 {
		if st.found != nil && yield != nil {
			yield("lookup:found")
		}
		c09RunPhase(w, rm, idx, a, 1, st)
	}
	return res
}

type c09Obs struct {
	State   []string          // sorted "key valid=.. covert=.. count=.. used=.. timeout=.."
	Anns    []string          // sorted announcements
	Results map[int]string    // per actor
	Order   map[string]string // diagnostics only
}

func (o c09Obs) String() string {
	var rs []string
	for i := 0; i < len(o.Results); i++ {
		rs = append(rs, fmt.Sprintf("%d:%s", i, o.Results[i]))
	}
	return "state=" + strings.Join(o.State, "; ") + " | anns=" + strings.Join(o.Anns, "; ") + " | results=" + strings.Join(rs, "; ")
}

func c09Observe(w *c09World, results map[int]string) c09Obs {
	e := w.e
	r := e.rm.registeredDecoys
	o := c09Obs{Results: results}
	r.m.RLock()
	for ph, m := range r.decoys {
		for id, reg := range m {
			used, hasTO := false, false
			for _, to := range r.decoysTimeouts {
				if to.decoy == ph && to.identifier == id {
					hasTO = true
					used = to.status == regStatusUsed
				}
			}
			o.State = append(o.State, fmt.Sprintf("%s valid=%v covert=%s count=%d used=%v timeout=%v", c09KeyOf(e, reg), reg.Valid, reg.Covert, reg.regCount, used, hasTO))
		}
	}
	orphan := 0
	for _, to := range r.decoysTimeouts {
		if _, ok := r.decoys[to.decoy][to.identifier]; !ok {
			orphan++
		}
	}
	r.m.RUnlock()
	if orphan > 0 {
		o.State = append(o.State, fmt.Sprintf("orphan-timeouts=%d", orphan))
	}
	sort.Strings(o.State)
	// the manager's gauge of active (validated, still tracked) registrations, relative to the initial
	// state: +1 per registration validated, -1 per validated registration the sweeper really removed
	o.State = append(o.State, fmt.Sprintf("active-gauge-delta=%+d", atomic.LoadInt64(&e.rm.RegistrationStats.activeRegistrations)-w.baseActive))
	w.mu.Lock()
	for _, l := range w.evlog {
		if strings.HasPrefix(l, "announce ") {
			o.Anns = append(o.Anns, l)
		}
	}
	w.mu.Unlock()
	sort.Strings(o.Anns)
	return o
}

// ---- concurrent run under a chosen schedule ---------------------------------------------------------

type c09Run struct {
	Obs       c09Obs
	Trace     []string // scheduling trace: "actor@point"
	Choices   []int    // actor resumed at each step
	Options   [][]int  // runnable actors at each step (for enumeration)
	Start     []int    // step index at which each actor was first resumed
	End       []int    // step index at which each actor finished
	Stall     string
	Panic     string
	Overlap   bool // two actors were inside the pipeline (between their first step and their end) at the same time
	EvLog     []string
	ProbeCall []int
	StepEv    []int             // length of the event log after each scheduling step
	Tracked   []map[string]bool // tracked keys before the first step (index 0) and after each step (nil: not observable at that point)
}

// c09TrackedKeys returns the set of tracked keys, or nil when the registry lock is held by a parked actor.
func c09TrackedKeys(e *vEnv) map[string]bool {
	r := e.rm.registeredDecoys
	if !r.m.TryRLock() {
		return nil
	}
	defer r.m.RUnlock()
	out := map[string]bool{}
	for _, m := range r.decoys {
		for _, reg := range m {
			out[c09KeyOf(e, reg)] = true
		}
	}
	return out
}

func c09Concurrent(e *vEnv, c c09Case) (*c09Run, error) {
	w, err := c09Init(e, c.Scn)
	if err != nil {
		return nil, err
	}
	n := len(c.Scn.Actors)
	s := &c09Sched{events: make(chan c09Ev, n*4), resume: make([]chan struct{}, n)}
	run := &c09Run{Start: make([]int, n), End: make([]int, n), ProbeCall: make([]int, n)}
	results := map[int]string{}
	var resMu sync.Mutex
	testers := make([]*c09ParkTester, n)
	for i := range c.Scn.Actors {
		s.resume[i] = make(chan struct{})
		run.Start[i], run.End[i] = -1, -1
	}
	for i, a := range c.Scn.Actors {
		rmCopy := *e.rm // shallow: registry, policy and stats are shared through pointers
		lg := log.New(&c09ParkWriter{s: s, actor: i}, "", golog.Lmsgprefix)
		lg.SetLevel(log.DebugLevel)
		rmCopy.Logger = lg
		testers[i] = &c09ParkTester{s: s, actor: i, live: a.Live}
		rmCopy.LivenessTester = testers[i]
		go func(i int, a c09Actor, rm *RegistrationManager) {
			var pan any
			defer func() {
				if p := recover(); p != nil {
					pan = fmt.Sprintf("%v", p)
				}
				s.events <- c09Ev{actor: i, finished: true, panicked: pan}
			}()
			s.yield(i, "start")
			res := c09RunActor(w, rm, i, a, func(point string) { s.yield(i, point) })
			resMu.Lock()
			results[i] = res
			resMu.Unlock()
		}(i, a, &rmCopy)
	}
	w.sched = s
	defer func() { w.sched = nil }()
	parked := map[int]string{}
	finished := map[int]bool{}
	running := n // actors that have been started and not yet parked/finished
	wait := func(limit time.Duration) bool {
		timer := time.NewTimer(limit)
		defer timer.Stop()
		for running > 0 {
			select {
			case ev := <-s.events:
				running--
				if ev.finished {
					finished[ev.actor] = true
					run.End[ev.actor] = len(run.Choices)
					if ev.panicked != nil {
						run.Panic = fmt.Sprintf("actor %d (%s) panicked: %v", ev.actor, c.Scn.Actors[ev.actor].Kind, ev.panicked)
					}
				} else {
					parked[ev.actor] = ev.point
				}
			case <-timer.C:
				return false
			}
		}
		return true
	}
	if !wait(20 * time.Second) {
		return nil, fmt.Errorf("actors did not reach their start point")
	}
	step := 0
	run.Tracked = append(run.Tracked, c09TrackedKeys(e))
	for len(finished) < n {
		var opts []int
		for i := 0; i < n; i++ {
			if _, ok := parked[i]; ok {
				opts = append(opts, i)
			}
		}
		if len(opts) == 0 {
			return nil, fmt.Errorf("no runnable actor but %d unfinished", n-len(finished))
		}
		pick := opts[0]
		if c.Sticky && step > 0 {
			for _, o := range opts {
				if o == run.Choices[step-1] {
					pick = o
				}
			}
		}
		if step < len(c.Schedule) {
			for _, o := range opts {
				if o == c.Schedule[step] {
					pick = o
				}
			}
		}
		run.Options = append(run.Options, opts)
		run.Choices = append(run.Choices, pick)
		run.Trace = append(run.Trace, fmt.Sprintf("%d@%s", pick, parked[pick]))
		if run.Start[pick] < 0 {
			run.Start[pick] = step
		}
		// overlap: some other actor has started and not finished
		for i := 0; i < n; i++ {
			if i != pick && run.Start[i] >= 0 && !finished[i] && parked[pick] != "start" {
				run.Overlap = true
			}
		}
		delete(parked, pick)
		running = 1
		w.cur = pick
		s.resume[pick] <- struct{}{}
		if !wait(10 * time.Second) {
			// the resumed actor neither parked nor finished: release everybody and see whether the system ends
			s.mu.Lock()
			s.release = true
			s.mu.Unlock()
			for i := range parked {
				select {
				case s.resume[i] <- struct{}{}:
				default:
				}
			}
			running = n - len(finished)
			if !wait(10 * time.Second) {
				buf := make([]byte, 1<<16)
				buf = buf[:runtime.Stack(buf, true)]
				run.Stall = fmt.Sprintf("actor %d (%s) did not proceed after step %d and the system did not finish after releasing all actors; goroutines:\n%s", pick, c.Scn.Actors[pick].Kind, step, c09StackDigest(string(buf)))
				return run, nil
			}
			return nil, fmt.Errorf("actor %d blocked for 10 s at step %d but finished after release (harness grace too short?)", pick, step)
		}
		step++
		w.mu.Lock()
		run.StepEv = append(run.StepEv, len(w.evlog))
		w.mu.Unlock()
		run.Tracked = append(run.Tracked, c09TrackedKeys(e))
	}
	for i := 0; i < n; i++ {
		if run.End[i] < 0 {
			run.End[i] = step
		}
		run.ProbeCall[i] = testers[i].calls
	}
	run.Obs = c09Observe(w, results)
	w.mu.Lock()
	run.EvLog = append([]string(nil), w.evlog...)
	w.mu.Unlock()
	return run, nil
}

func c09StackDigest(st string) string {
	var out []string
	for _, g := range strings.Split(st, "\n\n") {
		if strings.Contains(g, "station/lib.") && (strings.Contains(g, "Lock") || strings.Contains(g, "chan ")) {
			lines := strings.Split(g, "\n")
			if len(lines) > 8 {
				lines = lines[:8]
			}
			out = append(out, strings.Join(lines, "\n"))
		}
	}
	return strings.Join(out, "\n--\n")
}

// ---- serial replay ---------------------------------------------------------------------------------

// c09Op is one atomic-by-specification operation: (actor, phase).
type c09Op struct{ actor, phase int }

func c09Ops(scn c09Scenario) []c09Op {
	var ops []c09Op
	for i, a := range scn.Actors {
		for ph := 0; ph < c09Phases(a); ph++ {
			ops = append(ops, c09Op{i, ph})
		}
	}
	return ops
}

func c09Serial(e *vEnv, scn c09Scenario, ops []c09Op, order []int) (c09Obs, error) {
	w, err := c09Init(e, scn)
	if err != nil {
		return c09Obs{}, err
	}
	results := map[int]string{}
	states := make([]c09ActorState, len(scn.Actors))
	for _, oi := range order {
		op := ops[oi]
		a := scn.Actors[op.actor]
		rmCopy := *e.rm
		rmCopy.Logger = log.New(discardWriter{}, "", 0)
		rmCopy.LivenessTester = &vTester{Verdict: func(string, uint16) (bool, error) { return a.Live, nil }}
		res := c09RunPhase(w, &rmCopy, op.actor, a, op.phase, &states[op.actor])
		if op.phase == 0 {
			results[op.actor] = res
		}
	}
	return c09Observe(w, results), nil
}

type discardWriter struct{}

func (discardWriter) Write(p []byte) (int, error) { return len(p), nil }

func c09Perms(n int, before [][2]int, f func([]int) bool) {
	perm := make([]int, 0, n)
	used := make([]bool, n)
	var rec func() bool
	rec = func() bool {
		if len(perm) == n {
			return f(perm)
		}
		for i := 0; i < n; i++ {
			if used[i] {
				continue
			}
			ok := true
			for _, b := range before { // b[0] must come before b[1]
				if b[1] == i && !used[b[0]] {
					ok = false
				}
			}
			if !ok {
				continue
			}
			used[i] = true
			perm = append(perm, i)
			if rec() {
				return true
			}
			perm = perm[:len(perm)-1]
			used[i] = false
		}
		return false
	}
	rec()
}

// ---- the check ---------------------------------------------------------------------------------------

type c09Verdict struct {
	key, msg string
	classes  []string
	nontriv  bool
	run      *c09Run
}

func c09Eval(e *vEnv, c c09Case) (v c09Verdict, err error) {
	run, err := c09Concurrent(e, c)
	if err != nil {
		return v, err
	}
	v.run = run
	v.nontriv = run.Overlap
	if run.Overlap {
		v.classes = append(v.classes, "overlap")
	}
	for _, tr := range run.Trace {
		p := tr[strings.Index(tr, "@")+1:]
		if p != "start" {
			v.classes = append(v.classes, "point:"+p)
		}
	}
	if run.Stall != "" {
		v.key, v.msg = "stall", run.Stall
		return v, nil
	}
	if run.Panic != "" {
		v.key, v.msg = "panic", run.Panic
		return v, nil
	}
	// invariants -------------------------------------------------------------------------------
	// (I1) New announced at most once per key (no key is removed and re-registered in these scenarios
	//      except through the sweeper; count removals generously: a key may be announced again only
	//      after it was swept)
	newCount := map[string]int{}
	for _, a := range run.Obs.Anns {
		if strings.HasPrefix(a, "announce New ") {
			k := strings.Fields(a)[2]
			newCount[k]++
		}
	}
	sweeps := 0
	for _, a := range c.Scn.Actors {
		if a.Kind == "sweep" {
			sweeps++
		}
	}
	for k, n := range newCount {
		if n > 1+sweeps {
			v.key, v.msg = "announced-twice", fmt.Sprintf("%s announced as New %d times", k, n)
			return v, nil
		}
	}
	// (I1') New announced at most once per lifetime of a key, a lifetime being a maximal span during
	//       which the key is tracked (observed at the step boundaries; announcement and tracking
	//       happen in one step when the validation step has to re-track a swept registration)
	{
		life := map[string]int{}
		news := map[string]int{} // "key#life" -> New announcements
		for _, p := range c.Scn.Pre {
			reg, _ := c09MakeReg(e, p.Secret, p.TT, c09Coverts["ok1"])
			k := c09KeyOf(e, reg)
			life[k] = 1
			if p.Valid {
				news[fmt.Sprintf("%s#1", k)] = 1
			}
		}
		prev := run.Tracked[0]
		lo := 0
		for st := 0; st < len(run.StepEv); st++ {
			cur := run.Tracked[st+1]
			if cur == nil {
				cur = prev
			}
			if prev != nil {
				for k := range cur {
					if !prev[k] {
						life[k]++
					}
				}
			}
			for _, l := range run.EvLog[lo:run.StepEv[st]] {
				if strings.HasPrefix(l, "announce New ") {
					k := strings.Fields(l)[2]
					id := fmt.Sprintf("%s#%d", k, life[k])
					news[id]++
					if news[id] > 1 && v.key == "" {
						v.key, v.msg = "announced-twice-in-one-lifetime", fmt.Sprintf("%s was announced to the detector as New %d times while it stayed tracked (lifetime %d of that key; step %d, schedule %v)", k, news[id], life[k], st, run.Trace)
					}
				}
			}
			lo = run.StepEv[st]
			prev = cur
		}
		if v.key != "" {
			return v, nil
		}
	}
	// (I2) a lookup sees a registration only after it was validated (= announced New, or valid initially)
	initiallyValid := map[string]bool{}
	for _, p := range c.Scn.Pre {
		if p.Valid {
			reg, _ := c09MakeReg(e, p.Secret, p.TT, c09Coverts["ok1"])
			initiallyValid[c09KeyOf(e, reg)] = true
		}
	}
	announced := map[string]bool{}
	for _, l := range run.EvLog {
		f := strings.Fields(l)
		if strings.HasPrefix(l, "announce New ") {
			announced[f[2]] = true
		}
		if strings.HasPrefix(l, "announce Update ") && !announced[f[2]] && !initiallyValid[f[2]] {
			v.key, v.msg = "update-before-new", fmt.Sprintf("the detector was told Update for %s before (or without) New", f[2])
			return v, nil
		}
		if strings.HasPrefix(l, "lookup[") && strings.Contains(l, "-> found") {
			if !announced[f[1]] && !initiallyValid[f[1]] {
				v.key, v.msg = "seen-before-validated", fmt.Sprintf("a connection handler saw %s before it was validated", f[1])
				return v, nil
			}
		}
	}
	// (I5) whatever is valid at quiescence was announced as New (or was valid initially)
	for _, st := range run.Obs.State {
		if strings.Contains(st, "valid=true") {
			k := strings.Fields(st)[0]
			if !announced[k] && !initiallyValid[k] {
				v.key, v.msg = "valid-but-never-announced", "a registration is usable by connections but was never announced to the detector: "+st
				return v, nil
			}
		}
	}
	// (I3) registrations and time-out records in bijection at quiescence
	for _, st := range run.Obs.State {
		if strings.Contains(st, "timeout=false") || strings.HasPrefix(st, "orphan-timeouts") {
			v.key, v.msg = "maps-not-in-bijection", "registration map and time-out map disagree at quiescence: "+st
			return v, nil
		}
	}
	// (I4) nothing valid or announced carries a covert address the policy in force forbids, and a
	//      registration whose own liveness probe said "live" is not what made a phantom usable
	for _, l := range append(append([]string(nil), run.Obs.State...), run.Obs.Anns...) {
		if (strings.Contains(l, "valid=true") || strings.HasPrefix(l, "announce ")) && (strings.Contains(l, "covert="+c09Coverts["bad"]) || strings.Contains(l, "covert="+c09Coverts["malformed"])) {
			v.key, v.msg = "forbidden-covert-validated", "a registration with a forbidden covert address became valid / was announced: "+l
			return v, nil
		}
	}
	// serialisability ----------------------------------------------------------------------------
	// Ingest is two-phase by design (track, probe for seconds, validate). A scenario in which
	// minutes pass while a delivery sits between its two phases (a sweep with AgeS) lets the sweeper
	// forget the half-ingested record, which no serial order of WHOLE operations reproduces (the
	// re-tracked record starts counting again). That is how expiry is specified (C08: forgotten
	// entirely), not an interleaving anomaly, so such scenarios are judged by the invariants above
	// only.
	for _, a := range c.Scn.Actors {
		if a.Kind == "sweep" && a.AgeS > 0 {
			v.classes = append(v.classes, "time-passes-in-flight:invariants-only")
			return v, nil
		}
	}
	n := len(c.Scn.Actors)
	ops := c09Ops(c.Scn)
	var before [][2]int
	for x, ox := range ops {
		for y, oy := range ops {
			if x == y {
				continue
			}
			i, j := ox.actor, oy.actor
			if i == j {
				if ox.phase < oy.phase {
					before = append(before, [2]int{x, y}) // program order
				}
				continue
			}
			// No real-time constraint between different actors: the property asks for SOME serial
			// order (serialisability), and ingest is two-phase by design (track, probe for seconds,
			// validate), so a duplicate delivery can complete - as a duplicate - before the first
			// delivery has been validated. What a handler may see and when is asserted separately
			// (invariant I2).
			_ = n
		}
	}
	want := run.Obs.String()
	matched := false
	var serials []string
	var serr error
	c09Perms(len(ops), before, func(order []int) bool {
		o, err := c09Serial(e, c.Scn, ops, order)
		if err != nil {
			serr = err
			return true
		}
		s := o.String()
		if len(serials) < 12 {
			var names []string
			for _, oi := range order {
				names = append(names, fmt.Sprintf("%d.%d", ops[oi].actor, ops[oi].phase))
			}
			serials = append(serials, fmt.Sprintf("%v => %s", names, s))
		}
		if s == want {
			matched = true
			return true
		}
		return false
	})
	if serr != nil {
		return v, serr
	}
	if !matched {
		v.key = "not-serialisable:" + c09Signature(c.Scn)
		v.msg = fmt.Sprintf("outcome of schedule %v matches no serial order.\n concurrent: %s\n serial candidates:\n  %s", run.Trace, want, strings.Join(serials, "\n  "))
	}
	return v, nil
}

// c09Signature names the kinds of operations involved (root-cause key).
func c09Signature(s c09Scenario) string {
	kinds := map[string]int{}
	for _, a := range s.Actors {
		kinds[a.Kind]++
	}
	var ks []string
	for k, n := range kinds {
		ks = append(ks, fmt.Sprintf("%s%d", k, n))
	}
	sort.Strings(ks)
	return strings.Join(ks, "+")
}

func c09Check(t vh.Fataler, rec *vh.Rec, e *vEnv, c c09Case) *c09Run {
	v, err := c09Eval(e, c)
	if err != nil {
		t.Fatalf("harness problem: %v (case %+v)", err, c)
	}
	full := c
	if v.run != nil {
		full.Schedule = v.run.Choices
	}
	rec.Case(v.nontriv, vh.Digest(full), map[string]any{"scenario": c.Scn, "trace": v.run.Trace}, v.classes...)
	if v.key != "" {
		rec.Violation(t, v.key, full, "%s", v.msg)
	}
	return v.run
}

// c09Explore enumerates every schedule of a scenario (stateless DFS over the choice points), up to max.
func c09Explore(t vh.Fataler, rec *vh.Rec, e *vEnv, scn c09Scenario, max int) (count int, complete bool) {
	type frame struct {
		opts []int
		next int
	}
	var prefix []int
	var stack []frame
	for {
		run := c09Check(t, rec, e, c09Case{Scn: scn, Schedule: prefix})
		count++
		if run == nil || run.Stall != "" {
			return count, false
		}
		// extend the stack with the choice points seen beyond the current prefix
		for i := len(stack); i < len(run.Options); i++ {
			stack = append(stack, frame{opts: run.Options[i], next: 1})
		}
		// backtrack to the deepest choice point with an untried option
		for len(stack) > 0 && stack[len(stack)-1].next >= len(stack[len(stack)-1].opts) {
			stack = stack[:len(stack)-1]
		}
		if len(stack) == 0 {
			return count, true
		}
		if count >= max {
			return count, false
		}
		top := &stack[len(stack)-1]
		prefix = append([]int(nil), run.Choices[:len(stack)-1]...)
		prefix = append(prefix, top.opts[top.next])
		top.next++
	}
}

// fixed scenarios, every interleaving
func c09Scenarios() []c09Scenario {
	aged := []c09Pre{{Secret: 5, TT: 0, AgeS: 11 * 60, Valid: true}, {Secret: 6, TT: 0, AgeS: 7 * 3600, Used: true, Valid: true}, {Secret: 7, TT: 0, AgeS: 60, Valid: true}}
	return []c09Scenario{
		// the same registration delivered twice
		{Actors: []c09Actor{{Kind: "ingest", Secret: 1, Covert: "ok1"}, {Kind: "ingest", Secret: 1, Covert: "ok1"}}},
		// ... on an IPv6 phantom / flagged pre-scanned (no liveness probe between track and validate)
		{Actors: []c09Actor{{Kind: "ingest", Secret: 1, Covert: "ok1", V6: true}, {Kind: "ingest", Secret: 1, Covert: "ok1", V6: true}}},
		{Actors: []c09Actor{{Kind: "ingest", Secret: 1, Covert: "ok1", Pre: true}, {Kind: "ingest", Secret: 1, Covert: "ok1", Pre: true}, {Kind: "lookup", Secret: 1}}},
		{Actors: []c09Actor{{Kind: "ingest", Secret: 1, Covert: "bad", V6: true}, {Kind: "ingest", Secret: 1, Covert: "ok1", V6: true}, {Kind: "lookup", Secret: 1, V6: true}}},
		// same key, different covert (one forbidden by policy)
		{Actors: []c09Actor{{Kind: "ingest", Secret: 1, Covert: "bad"}, {Kind: "ingest", Secret: 1, Covert: "ok1"}}},
		{Actors: []c09Actor{{Kind: "ingest", Secret: 1, Covert: "malformed"}, {Kind: "ingest", Secret: 1, Covert: "ok2"}}},
		// same key, different liveness verdicts
		{Actors: []c09Actor{{Kind: "ingest", Secret: 1, Covert: "ok1", Live: true}, {Kind: "ingest", Secret: 1, Covert: "ok1"}}},
		// different registrations
		{Actors: []c09Actor{{Kind: "ingest", Secret: 1, Covert: "ok1"}, {Kind: "ingest", Secret: 2, TT: 1, Covert: "ok2"}}},
		// ingest vs connection handler
		{Actors: []c09Actor{{Kind: "ingest", Secret: 1, Covert: "ok1"}, {Kind: "lookup", Secret: 1}}},
		// sweeper vs connection handler on an entry about to expire, and vs a duplicate ingest
		{Pre: aged, Actors: []c09Actor{{Kind: "sweep"}, {Kind: "lookup", Secret: 5}}},
		{Pre: aged, Actors: []c09Actor{{Kind: "sweep"}, {Kind: "ingest", Secret: 5, Covert: "ok1"}}},
		{Pre: aged, Actors: []c09Actor{{Kind: "sweep"}, {Kind: "lookup", Secret: 7}, {Kind: "ingest", Secret: 8, Covert: "ok1"}}},
		// reload vs ingest
		{Actors: []c09Actor{{Kind: "reload", Policy: 1}, {Kind: "ingest", Secret: 1, Covert: "ok2"}}},
		// three workers on one key
		{Actors: []c09Actor{{Kind: "ingest", Secret: 1, Covert: "ok1"}, {Kind: "ingest", Secret: 1, Covert: "bad"}, {Kind: "ingest", Secret: 1, Covert: "ok2"}}},
		{Pre: aged, Actors: []c09Actor{{Kind: "ingest", Secret: 1, Covert: "ok1"}, {Kind: "ingest", Secret: 1, Covert: "ok1", Live: true}, {Kind: "sweep"}, {Kind: "lookup", Secret: 1}}},
	}
}

func TestVerif_C09_schedules(t *testing.T) {
	rec := vh.NewRec("C09", "schedules", "every interleaving (at the points where the pipeline has released its lock: after the existence check, at the liveness probe, after a drop, after validation, between the sweeper's collection and each removal, between a handler's lookup and its activation) of fixed scenarios of 2-4 actors {ingest x2-3 (same key / different covert / different verdict / different key), sweeper over pre-aged entries, connection lookup+activate, reload}; non-trivial = a schedule in which two actors were inside the pipeline at the same time; distinct by (scenario, schedule)")
	defer rec.Flush()
	rec.Require("overlap", "point:after-exists:new", "point:liveness-probe", "point:sweep:collected", "point:lookup:found")
	e := vNewEnv(t, nil, "")
	if p := vh.ReplayFile(); p != "" {
		var c c09Case
		if _, _, err := vh.LoadReplay(p, &c); err != nil {
			t.Fatal(err)
		}
		c09Check(t, rec, e, c)
		return
	}
	limit := vh.Pick(1500, 60000)
	allComplete := true
	for i, scn := range c09Scenarios() {
		if !vh.Mine(i) {
			continue
		}
		n, complete := c09Explore(t, rec, e, scn, limit)
		rec.Note("scenario %d (%s): %d schedules, complete=%v", i, c09Signature(scn), n, complete)
		if !complete {
			allComplete = false
		}
	}
	rec.SetExhaustive(allComplete)
}

func c09GenScenario(rt *rapid.T) c09Scenario {
	var s c09Scenario
	if rapid.Bool().Draw(rt, "aged") {
		s.Pre = []c09Pre{{Secret: 5, TT: 0, AgeS: 11 * 60, Valid: true}, {Secret: 6, TT: 1, AgeS: 7 * 3600, Used: true, Valid: true}, {Secret: 7, TT: 0, AgeS: 60, Valid: rapid.Bool().Draw(rt, "v7")}}
	}
	n := rapid.IntRange(2, 4).Draw(rt, "nactors")
	for i := 0; i < n; i++ {
		k := rapid.SampledFrom([]string{"ingest", "ingest", "ingest", "sweep", "lookup", "reload"}).Draw(rt, "kind")
		if k == "sweep" {
			// the station runs exactly one sweeper (the property quantifies over one)
			for _, prev := range s.Actors {
				if prev.Kind == "sweep" {
					k = "lookup"
				}
			}
		}
		a := c09Actor{Kind: k}
		switch k {
		case "ingest":
			a.Secret = rapid.SampledFrom([]int{1, 1, 2, 5, 7}).Draw(rt, "secret")
			a.TT = rapid.SampledFrom([]int{0, 0, 1}).Draw(rt, "tt")
			a.Covert = rapid.SampledFrom([]string{"ok1", "ok1", "ok2", "bad", "malformed"}).Draw(rt, "covert")
			a.Live = rapid.IntRange(0, 3).Draw(rt, "live") == 0
			a.V6 = rapid.IntRange(0, 3).Draw(rt, "v6") == 0
			a.Pre = rapid.IntRange(0, 3).Draw(rt, "prescanned") == 0
		case "lookup":
			a.Secret = rapid.SampledFrom([]int{1, 2, 5, 6, 7}).Draw(rt, "secret")
			a.TT = rapid.SampledFrom([]int{0, 0, 1}).Draw(rt, "tt")
			a.V6 = rapid.IntRange(0, 3).Draw(rt, "v6") == 0
		case "reload":
			a.Policy = rapid.IntRange(0, 1).Draw(rt, "policy")
		}
		s.Actors = append(s.Actors, a)
	}
	return s
}

func TestVerif_C09_random(t *testing.T) {
	rec := vh.NewRec("C09", "random", "rapid-generated scenarios (2-4 actors drawn from ingest / sweep / lookup / reload over 5 secrets, 2 transports, 4 covert classes, 2 verdicts, optional pre-aged entries) with a rapid-drawn schedule; same oracle as 'schedules'; non-trivial = overlap; distinct by (scenario, schedule)")
	defer rec.Flush()
	rec.Require("overlap")
	e := vNewEnv(t, nil, "")
	if p := vh.ReplayFile(); p != "" {
		var c c09Case
		if _, _, err := vh.LoadReplay(p, &c); err != nil {
			t.Fatal(err)
		}
		c09Check(t, rec, e, c)
		return
	}
	rapid.Check(t, func(rt *rapid.T) {
		c := c09Case{Scn: c09GenScenario(rt)}
		c.Schedule = rapid.SliceOfN(rapid.IntRange(0, 3), 0, 24).Draw(rt, "schedule")
		c09Check(rt, rec, e, c)
	})
}
