package liveness

// C18 — the probe-outcome alphabet ("scripted probe outcomes" of the property's quantifier).
//
// The real phantomIsLive answers (true, err) for EVERY dial error that is not a time-out: not only
// "the phantom answered / refused" but also scans that failed on the station's own side (no route,
// out of descriptors, no buffer space, permission, resolver and address errors). For the cache all
// of these are measurements with the verdict "live"; the property makes no exception for them: an
// answer is taken from the cache only if it was measured within the lifetime, otherwise the
// phantom is probed and that probe's outcome is what the caller gets — an expired or evicted entry
// is never served, whatever the re-probe reports.
//
// ErrK of a query selects the error value that accompanies a live verdict:
//   0, 1                 the two values of the first rounds (stored replays refer to them)
//   2 .. len-1           curated dial errors, in the shapes net.DialTimeout builds them
//   c18ErrnoBase + e     *net.OpError{dial tcp, connect: errno e} for any errno 1..133 that is not
//                        a time-out (a time-out is reported as (false, NotLive) by the real probe)
// Every value is built once (the oracle compares the returned error by identity).

import (
	"context"
	"errors"
	"fmt"
	"net"
	"os"
	"syscall"
)

const (
	c18ErrnoBase = 1000
	c18ErrnoMax  = 133
)

type c18LiveErr struct {
	err  error
	kind string // "remote" (the phantom or its network answered), "local" (station-side errno), "resolver" (resolver / address / cancelled)
}

func c18DialErrno(call string, e syscall.Errno, v6 bool) error {
	var addr net.Addr = &net.TCPAddr{IP: net.IPv4(192, 0, 2, 1), Port: 443}
	if v6 {
		addr = &net.TCPAddr{IP: net.ParseIP("2001:db8::3"), Port: 443}
	}
	return &net.OpError{Op: "dial", Net: "tcp", Addr: addr, Err: os.NewSyscallError(call, e)}
}

var c18LiveErrs = func() []c18LiveErr {
	l := []c18LiveErr{
		{ErrLiveHost, "remote"},
		{&net.OpError{Op: "dial", Net: "tcp", Err: errors.New("connect: connection refused")}, "remote"},
		// answers of the phantom or of a router on the way to it
		{c18DialErrno("connect", syscall.ECONNREFUSED, false), "remote"},
		{c18DialErrno("connect", syscall.ECONNRESET, true), "remote"},
		{c18DialErrno("connect", syscall.EHOSTUNREACH, false), "remote"},
	}
	// the scan failed on the station's own side
	for i, e := range []syscall.Errno{syscall.ENETUNREACH, syscall.ENETDOWN, syscall.EHOSTDOWN, syscall.EADDRNOTAVAIL,
		syscall.EADDRINUSE, syscall.EACCES, syscall.EPERM, syscall.EINVAL, syscall.ENOBUFS, syscall.ENOMEM} {
		l = append(l, c18LiveErr{c18DialErrno("connect", e, i%2 == 1), "local"})
	}
	for i, e := range []syscall.Errno{syscall.EMFILE, syscall.ENFILE, syscall.EAFNOSUPPORT, syscall.ENOBUFS, syscall.EACCES} {
		l = append(l, c18LiveErr{c18DialErrno("socket", e, i%2 == 0), "local"})
	}
	l = append(l,
		// other wrappings of an errno: no SyscallError in between, a bare errno, a fmt-wrapped one
		c18LiveErr{&net.OpError{Op: "dial", Net: "tcp", Err: syscall.ENETUNREACH}, "local"},
		c18LiveErr{syscall.EMFILE, "local"},
		c18LiveErr{fmt.Errorf("scan: %w", c18DialErrno("connect", syscall.ENETDOWN, false)), "local"},
		c18LiveErr{&net.OpError{Op: "dial", Net: "tcp", Err: os.NewSyscallError("setsockopt", syscall.ENOPROTOOPT)}, "local"},
		// resolver, address and cancellation errors
		c18LiveErr{&net.OpError{Op: "dial", Net: "tcp", Err: &net.DNSError{Err: "no such host", Name: "phantom-a.example.test", IsNotFound: true}}, "resolver"},
		c18LiveErr{&net.OpError{Op: "dial", Net: "tcp", Err: &net.DNSError{Err: "server misbehaving", Name: "phantom-b.example.test", Server: "127.0.0.53:53", IsTemporary: true}}, "resolver"},
		c18LiveErr{&net.OpError{Op: "dial", Net: "tcp", Err: &net.AddrError{Err: "missing port in address", Addr: "192.0.2.1"}}, "resolver"},
		c18LiveErr{&net.OpError{Op: "dial", Net: "tcp", Err: &net.ParseError{Type: "IP address", Text: "010.0.0.1"}}, "resolver"},
		c18LiveErr{&net.OpError{Op: "dial", Net: "tcp", Err: net.UnknownNetworkError("tcp")}, "resolver"},
		c18LiveErr{&net.OpError{Op: "dial", Net: "tcp", Err: context.Canceled}, "resolver"},
	)
	return l
}()

// c18IsTimeout is the test the real probe applies before it calls a dial error "live".
func c18IsTimeout(err error) bool {
	e, ok := err.(net.Error)
	return ok && e.Timeout()
}

// c18ErrnoErrs[e] is the dial error for errno e (nil for time-outs: not an outcome of the real probe
// with the verdict live); c18Errnos lists the usable errnos.
var c18ErrnoErrs, c18Errnos = func() ([]error, []int) {
	errs := make([]error, c18ErrnoMax+1)
	var ok []int
	for e := 1; e <= c18ErrnoMax; e++ {
		x := c18DialErrno("connect", syscall.Errno(e), e%2 == 0)
		if c18IsTimeout(x) {
			continue
		}
		errs[e] = x
		ok = append(ok, e)
	}
	return errs, ok
}()

// c18LiveErrOf: the error value and its kind for a live probe outcome.
func c18LiveErrOf(k int) (error, string) {
	if k < 0 {
		k = -k
	}
	if k >= c18ErrnoBase {
		if e := k - c18ErrnoBase; e <= c18ErrnoMax && c18ErrnoErrs[e] != nil {
			kind := "local"
			switch syscall.Errno(e) {
			case syscall.ECONNREFUSED, syscall.ECONNRESET, syscall.EHOSTUNREACH:
				kind = "remote"
			}
			return c18ErrnoErrs[e], kind
		}
		return ErrLiveHost, "remote"
	}
	x := c18LiveErrs[k%len(c18LiveErrs)]
	return x.err, x.kind
}

// c18FaultKind: "" unless the query's scripted probe outcome is a scan that failed on the station's
// side ("local") or before a packet was sent ("resolver").
func c18FaultKind(o *c18Op) string {
	if !o.Live {
		return ""
	}
	if _, k := c18LiveErrOf(o.ErrK); k != "remote" {
		return k
	}
	return ""
}

// c18CheckAlphabet: every entry must be an outcome the real probe can produce with the verdict live.
func c18CheckAlphabet() error {
	for i, x := range c18LiveErrs {
		if x.err == nil || c18IsTimeout(x.err) {
			return fmt.Errorf("probe-outcome alphabet entry %d (%v) is not a (live, error) outcome of the real probe", i, x.err)
		}
	}
	if len(c18Errnos) < 100 {
		return fmt.Errorf("only %d usable errnos", len(c18Errnos))
	}
	return nil
}

// c18FaultPairs: the curated alphabet (all but ErrLiveHost) cut into pairs, for the exhaustive family.
func c18FaultPairs() [][2]int {
	var out [][2]int
	n := len(c18LiveErrs)
	for k := 1; k < n; k += 2 {
		k2 := k + 1
		if k2 >= n {
			k2 = 2
		}
		out = append(out, [2]int{k, k2})
	}
	return out
}
