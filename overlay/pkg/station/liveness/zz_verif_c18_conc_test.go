package liveness

// C18 — concurrent variant (built with -race). Several goroutines query one tester at the same
// time (optionally with a goroutine running ClearExpiredCache), in bursts; virtual time passes only
// between bursts, when everything is quiescent. Only weak invariants are asserted, because the
// interleaving is not controlled:
//   * no panic (and no data race: the unit is built with the race detector);
//   * every query either made exactly one probe call and returned its result unchanged, or made
//     none and returned ErrCachedPhantom;
//   * a verdict answered from the cache was measured (by a probe that had started before the answer
//     was given) less than that class's lifetime ago — i.e. it is one of the verdicts measured
//     within the lifetime;
//   * at quiescence after every burst, Len() <= configured capacity.

import (
	"fmt"
	"net"
	"runtime"
	"strconv"
	"sync"
	"sync/atomic"
	"testing"
	"time"

	"pgregory.net/rapid"
	"verif/harness/vh"
)

type c18CRound struct {
	Workers [][]c18Op `json:"workers"` // per goroutine: q operations only
	Clear   bool      `json:"clear"`   // a further goroutine calls ClearExpiredCache during the burst
	AdvS    int64     `json:"adv_s"`   // virtual seconds ...
	AdvMs   int64     `json:"adv_ms"`  // ... plus milliseconds that pass after the burst
}

type c18CCase struct {
	Conf   c18Conf     `json:"conf"`
	Rounds []c18CRound `json:"rounds"`
}

type c18CEvent struct {
	addr  int
	live  bool
	round int
	seq   int64 // measurement: sequence number taken when the probe started; answer: when the query returned
	op    c18Op
}

type c18CWorker struct {
	cur      *c18Op
	calls    int
	got      string
	startSeq int64
	meas     []c18CEvent
	served   []c18CEvent
	vkey     string
	vmsg     string
}

const c18CPortBase = 20000

func c18CRun(c c18CCase) (key, msg string, st map[string]bool) {
	st = map[string]bool{}
	var seq int64
	var cur []*c18CWorker // replaced only at quiescence
	probe := func(address string) (bool, error) {
		_, ps, err := net.SplitHostPort(address)
		p, err2 := strconv.Atoi(ps)
		if err != nil || err2 != nil || p < c18CPortBase || p-c18CPortBase >= len(cur) {
			// cannot attribute the call; answered as non-live, flagged below through the call count
			return false, NotLive
		}
		w := cur[p-c18CPortBase]
		w.calls++
		w.got = address
		w.startSeq = atomic.AddInt64(&seq, 1)
		runtime.Gosched() // the probe is where the tester holds no lock: let others in
		return w.cur.Live, c18Err(w.cur)
	}
	s, err := c18Build(c.Conf, probe)
	if err != nil {
		return "harness", err.Error(), st
	}
	var allMeas []c18CEvent
	var advBefore []int64 // advBefore[r] = virtual time (ms) at the start of round r
	vnow := int64(0)
	for ri, rd := range c.Rounds {
		advBefore = append(advBefore, vnow)
		workers := make([]*c18CWorker, len(rd.Workers))
		for i := range workers {
			workers[i] = &c18CWorker{}
		}
		cur = workers
		var wg, wgClear sync.WaitGroup
		start := make(chan struct{})
		var done int32
		for wi := range rd.Workers {
			wg.Add(1)
			go func(wi int) {
				defer wg.Done()
				c18CWork(s, workers[wi], rd.Workers[wi], ri, wi, start, &seq)
			}(wi)
		}
		var cpanic string
		if rd.Clear && s.cached != nil {
			wgClear.Add(1)
			go func() {
				defer wgClear.Done()
				defer func() {
					if x := recover(); x != nil {
						cpanic = fmt.Sprint(x)
					}
				}()
				<-start
				for {
					s.cached.ClearExpiredCache()
					if atomic.LoadInt32(&done) != 0 {
						return
					}
					runtime.Gosched()
				}
			}()
		}
		close(start)
		wg.Wait()
		atomic.StoreInt32(&done, 1)
		wgClear.Wait()
		if cpanic != "" {
			return "panic", fmt.Sprintf("round %d: ClearExpiredCache panicked: %s", ri, cpanic), st
		}
		// ---- quiescent: evaluate the burst ----
		for _, w := range workers {
			if w.vkey != "" {
				return w.vkey, w.vmsg, st
			}
		}
		for _, w := range workers {
			allMeas = append(allMeas, w.meas...)
			if len(w.meas) > 0 {
				st["probe"] = true
			}
		}
		probedBy := map[int]int{}
		for wi, w := range workers {
			for _, m := range w.meas {
				if v, ok := probedBy[m.addr]; ok && v != wi {
					st["same-address-probed-by-several"] = true
				}
				probedBy[m.addr] = wi
			}
		}
		for wi, w := range workers {
			for _, a := range w.served {
				ci := c18Ci(a.live)
				cn := c18ClassName[ci]
				if !s.on[ci] {
					return "served:" + cn + "-caching-disabled", fmt.Sprintf("round %d worker %d: %v answered %q from the cache although caching of that class is not configured", ri, wi, a.op, cn), st
				}
				same, ok := false, false
				for _, m := range allMeas {
					if m.addr != a.addr || m.live != a.live {
						continue
					}
					if m.round == a.round && m.seq > a.seq {
						continue // that probe started after the answer was given
					}
					same = true
					age := time.Duration(advBefore[a.round]-advBefore[m.round]) * time.Millisecond
					if age < s.life[ci] {
						ok = true
						if m.round < a.round {
							st["cached-answer-from-earlier-burst"] = true
						}
					}
				}
				if !same {
					return "flipped", fmt.Sprintf("round %d worker %d: %v answered %q from the cache but no probe of this address had said so", ri, wi, a.op, cn), st
				}
				if !ok {
					return "stale:" + cn, fmt.Sprintf("round %d worker %d: %v answered %q from the cache; every such measurement is older than the %s lifetime %v", ri, wi, a.op, cn, cn, s.life[ci]), st
				}
				st["cached-answer"] = true
				st["hit-"+cn] = true
			}
		}
		for ci := 0; ci < 2; ci++ {
			cc := s.cacheOf(ci)
			if cc == nil || !s.on[ci] || s.cap[ci] <= 0 {
				continue
			}
			if n := cc.Len(); n > s.cap[ci] {
				_, isMap := cc.(*mapCache)
				k := "overfull:" + c18ClassName[ci]
				if isMap {
					k = "unbounded:" + c18ClassName[ci]
				}
				return k, fmt.Sprintf("after burst %d (quiescent) the %s cache holds %d entries, configured capacity %d", ri, c18ClassName[ci], n, s.cap[ci]), st
			}
			if n := cc.Len(); n == s.cap[ci] {
				st["at-capacity"] = true
			}
		}
		// time passes
		adv := time.Duration(rd.AdvS)*time.Second + time.Duration(rd.AdvMs)*time.Millisecond
		vnow += int64(adv / time.Millisecond)
		for ci := 0; ci < 2; ci++ {
			if err := c18Shift(s.cacheOf(ci), adv); err != nil {
				return "harness", err.Error(), st
			}
		}
		if len(rd.Workers) > 1 {
			st["concurrent"] = true
		}
	}
	return "", "", st
}

// c18CWork is one querying goroutine: its operations in order, each judged on the spot for the
// per-call invariants; answers and measurements are logged for the evaluation at quiescence.
func c18CWork(s *c18Sys, w *c18CWorker, ops []c18Op, ri, wi int, start chan struct{}, seq *int64) {
	<-start
	for i := range ops {
		o := &ops[i]
		if o.Kind != "q" || o.Addr < 0 || o.Addr >= len(c18Addrs) {
			w.vkey, w.vmsg = "harness", fmt.Sprintf("bad concurrent op %v", *o)
			return
		}
		w.cur, w.calls = o, 0
		port := uint16(c18CPortBase + wi)
		live, err, pv := c18Call(s.t, c18Addrs[o.Addr], port)
		end := atomic.AddInt64(seq, 1)
		switch {
		case pv != "":
			w.vkey, w.vmsg = "panic", fmt.Sprintf("round %d worker %d: PhantomIsLive(%s) panicked: %s", ri, wi, c18Addrs[o.Addr], pv)
			return
		case w.calls == 0:
			if err != ErrCachedPhantom {
				w.vkey, w.vmsg = "unprobed-answer", fmt.Sprintf("round %d worker %d: %v returned (%v, %v) without probing and without ErrCachedPhantom", ri, wi, *o, live, err)
				return
			}
			w.served = append(w.served, c18CEvent{addr: o.Addr, live: live, round: ri, seq: end, op: *o})
		case w.calls == 1:
			if want := net.JoinHostPort(c18Addrs[o.Addr], strconv.Itoa(int(port))); w.got != want {
				w.vkey, w.vmsg = "probe-address", fmt.Sprintf("round %d worker %d: probed %q, want %q", ri, wi, w.got, want)
				return
			}
			if live != o.Live || err != c18Err(o) {
				w.vkey, w.vmsg = "probe-result-altered", fmt.Sprintf("round %d worker %d: %v: probe said (%v, %v), PhantomIsLive returned (%v, %v)", ri, wi, *o, o.Live, c18Err(o), live, err)
				return
			}
			w.meas = append(w.meas, c18CEvent{addr: o.Addr, live: o.Live, round: ri, seq: w.startSeq, op: *o})
		default:
			w.vkey, w.vmsg = "probed-more-than-once", fmt.Sprintf("round %d worker %d: %v made %d probe calls", ri, wi, *o, w.calls)
			return
		}
	}
}

func c18CGen(rt *rapid.T) c18CCase {
	cf := c18GenConf(rt)
	// concurrency is only interesting with a cache; keep a few uncached configurations
	if cf.DurLive == "" && cf.DurNon == "" && rapid.IntRange(0, 3).Draw(rt, "keep_uncached") > 0 {
		cf.DurLive = "1h"
	}
	deltas := c18Deltas(cf)
	addrs := c18GenAddrs(rt, 2, 5)
	nr := rapid.IntRange(1, 4).Draw(rt, "rounds")
	c := c18CCase{Conf: cf}
	for r := 0; r < nr; r++ {
		d := rapid.SampledFrom(deltas).Draw(rt, "adv_ms")
		rd := c18CRound{Clear: rapid.Bool().Draw(rt, "clear"), AdvS: d / 1000, AdvMs: d % 1000}
		nw := rapid.IntRange(2, 6).Draw(rt, "workers")
		for w := 0; w < nw; w++ {
			n := rapid.IntRange(1, 12).Draw(rt, "nops")
			var ops []c18Op
			for i := 0; i < n; i++ {
				ops = append(ops, c18Op{Kind: "q", Addr: rapid.SampledFrom(addrs).Draw(rt, "addr"),
					Live: rapid.Bool().Draw(rt, "live"), ErrK: c18GenErrK(rt)})
			}
			rd.Workers = append(rd.Workers, ops)
		}
		c.Rounds = append(c.Rounds, rd)
	}
	return c
}

func c18CCheck(t vh.Fataler, rec *vh.Rec, c c18CCase) {
	key, msg, st := c18CRun(c)
	classes := make([]string, 0, len(st))
	for k := range st {
		classes = append(classes, k)
	}
	rec.Case(st["cached-answer"] && st["concurrent"], vh.Digest(c), c, classes...)
	if key == "harness" {
		t.Fatalf("harness problem: %s", msg)
	}
	if key != "" {
		rec.Violation(t, key, c, "%s; conf=%v", msg, c.Conf)
	}
}

func TestVerif_C18_concurrent(t *testing.T) {
	rec := vh.NewRec("C18", "concurrent", "rapid-generated bursts: 1-4 bursts of 2-6 goroutines x 1-12 queries over 2-5 addresses on one tester (half of the bursts with a goroutine running ClearExpiredCache), virtual time advancing between bursts; built with the race detector; the interleaving is the Go scheduler's (sampled, not controlled); non-trivial = at least one answer came from the cache while several goroutines were querying; distinct by case (the schedule is not part of the case)")
	defer rec.Flush()
	rec.Require("cached-answer", "probe", "concurrent", "same-address-probed-by-several", "cached-answer-from-earlier-burst")
	if p := vh.ReplayFile(); p != "" {
		var c c18CCase
		if _, _, err := vh.LoadReplay(p, &c); err != nil {
			t.Fatal(err)
		}
		// the schedule is not replayable: repeat the case
		for i := 0; i < 200; i++ {
			c18CCheck(t, rec, c)
		}
		return
	}
	rapid.Check(t, func(rt *rapid.T) {
		c18CCheck(rt, rec, c18CGen(rt))
	})
}
