package liveness

// C18 — cached liveness verdicts are never stale or flipped, and the cache is bounded.
//
// Shared part of the check: the case type (configuration + history), the white-box seams used to
// advance time (cachedTime is shifted backwards; the code only ever uses time.Since(cachedTime)),
// the scripted probe function injected through the testers' phantomIsLive field, and the reference
// model / oracle written from the property text:
//
//   * a query is answered from the cache (ErrCachedPhantom, no probe call) ONLY IF the address was
//     measured less than the lifetime of that verdict's class ago, and then with the verdict that
//     was measured (sequentially: the verdict of the LAST measurement of that address);
//   * otherwise exactly one probe call is made, for the right "addr:port", and its (verdict, error)
//     is returned unchanged;
//   * with a capacity c configured for a class, Len() of that class's cache <= c after every step;
//   * an entry the LRU has evicted, or whose lifetime is over, is never served.
//
// Deliberately NOT asserted (not stated by the property): that a fresh measurement must be served
// from the cache (a miss is always allowed: "only if"), which entry an LRU evicts, whether
// ClearExpired removes anything, which of two overlapping contradictory measurements wins.

import (
	"errors"
	"fmt"
	"net"
	"sort"
	"strconv"
	"time"

	"verif/harness/vh"
)

type c18Conf struct {
	DurLive string `json:"dur_live"`    // Config.CacheDuration ("" = live verdicts are not cached)
	CapLive int    `json:"cap_live"`    // Config.CacheCapacity
	DurNon  string `json:"dur_nonlive"` // Config.CacheDurationNonLive
	CapNon  int    `json:"cap_nonlive"` // Config.CacheCapacityNonLive
}

func (c c18Conf) String() string {
	return fmt.Sprintf("{live: lifetime=%q capacity=%d; non-live: lifetime=%q capacity=%d}", c.DurLive, c.CapLive, c.DurNon, c.CapNon)
}

type c18Op struct {
	Kind    string  `json:"k"`                // q | adv | clear
	Addr    int     `json:"a,omitempty"`      // index into c18Addrs
	Port    uint16  `json:"p,omitempty"`      //
	Live    bool    `json:"live,omitempty"`   // verdict the probe returns if the host is probed at this moment
	ErrK    int     `json:"e,omitempty"`      // which realistic error value accompanies the verdict
	DeltaS  int64   `json:"d,omitempty"`      // adv: seconds ...
	DeltaMs int64   `json:"ms,omitempty"`     // ... plus milliseconds (lifetimes need not be whole seconds)
	Nested  []c18Op `json:"nested,omitempty"` // operations that happen while this query's probe is in flight
}

func (o c18Op) String() string {
	switch o.Kind {
	case "adv":
		return fmt.Sprintf("adv(%v)", o.delta())
	case "clear":
		return "clear-expired"
	}
	v := "non-live"
	if o.Live {
		v = "live"
	}
	a := "?"
	if o.Addr >= 0 && o.Addr < len(c18Addrs) {
		a = c18Addrs[o.Addr]
	}
	if o.Live && o.ErrK != 0 {
		v += fmt.Sprintf(" with the dial error %q", c18Err(&o))
	}
	s := fmt.Sprintf("q(%s port %d; probe would say %s)", a, o.Port, v)
	if len(o.Nested) > 0 {
		s += fmt.Sprintf("{while probing: %v}", o.Nested)
	}
	return s
}

// delta is the advance of an adv operation.
func (o c18Op) delta() time.Duration {
	return time.Duration(o.DeltaS)*time.Second + time.Duration(o.DeltaMs)*time.Millisecond
}

type c18Case struct {
	Conf c18Conf `json:"conf"`
	Ops  []c18Op `json:"ops"`
}

// The phantoms, identified by the address STRING the caller passes (the code keys its caches on the
// string as given). Indexes 0-5 are canonical literals (kept first: stored replays refer to them).
// From c18OddFrom on: spellings that are not canonical IP literals or not literals at all — zoned
// IPv6 (two zones = two hosts), host names, a zero-padded and a space-prefixed IPv4, upper-case and
// v4-mapped IPv6. Every entry denotes a host of its own (no two entries are spellings of one IP, so
// an implementation that canonicalises equal addresses onto one entry is not judged here), with
// independently scripted liveness.
var c18Addrs = []string{"192.0.2.1", "192.0.2.2", "2001:db8::3", "192.0.2.4", "2001:db8::5", "192.0.2.6",
	"fe80::1%eth0", "fe80::1%eth1", "phantom-a.example.test", "phantom-b.example.test", "010.0.0.1", " 10.0.0.2",
	"2001:DB8::AB", "::ffff:192.0.2.77"}

const c18OddFrom = 6

// The error values phantomIsLive really produces: (true, ErrLiveHost), (true, <any dial error that
// is not a time-out>) — see zz_verif_c18_faults_test.go for that alphabet —, (false, NotLive),
// (false, fmt.Errorf("%w %v", NotLive, timeout)).
var c18ErrsNon = []error{NotLive, fmt.Errorf("%w %v", NotLive, 750*time.Millisecond)}

func c18Err(o *c18Op) error {
	k := o.ErrK
	if k < 0 {
		k = -k
	}
	if o.Live {
		e, _ := c18LiveErrOf(k)
		return e
	}
	return c18ErrsNon[k%len(c18ErrsNon)]
}

var c18ClassName = [2]string{"nonlive", "live"}

func c18Ci(live bool) int {
	if live {
		return 1
	}
	return 0
}

// c18Sys is the system under test built through the public constructor, plus what the model needs to
// know about the configuration (parsed here, independently of the code under test).
type c18Sys struct {
	t      Tester
	cached *CachedLivenessTester // nil for the uncached tester
	on     [2]bool               // caching of class configured (index: 0 non-live, 1 live)
	life   [2]time.Duration
	cap    [2]int
}

func c18Build(cf c18Conf, probe func(string) (bool, error)) (*c18Sys, error) {
	s := &c18Sys{cap: [2]int{cf.CapNon, cf.CapLive}}
	for i, d := range []string{cf.DurNon, cf.DurLive} {
		if d == "" {
			continue
		}
		v, err := time.ParseDuration(d)
		if err != nil {
			return nil, fmt.Errorf("case has an unparsable lifetime %q: %v", d, err)
		}
		s.on[i], s.life[i] = true, v
	}
	t, err := New(&Config{CacheDuration: cf.DurLive, CacheCapacity: cf.CapLive, CacheDurationNonLive: cf.DurNon, CacheCapacityNonLive: cf.CapNon})
	if err != nil {
		return nil, fmt.Errorf("New(%v): %v", cf, err)
	}
	switch x := t.(type) {
	case *CachedLivenessTester:
		x.phantomIsLive = probe
		s.cached = x
	case *UncachedLivenessTester:
		x.phantomIsLive = probe
	default:
		return nil, fmt.Errorf("New(%v) returned unknown tester type %T", cf, t)
	}
	s.t = t
	return s, nil
}

func (s *c18Sys) cacheOf(ci int) cache {
	if s.cached == nil {
		return nil
	}
	if ci == 1 {
		return s.cached.ipCacheLive
	}
	return s.cached.ipCacheNonLive
}

// c18Shift makes every stored measurement d older.
func c18Shift(c cache, d time.Duration) error {
	switch x := c.(type) {
	case nil:
	case *mapCache:
		x.m.Lock()
		for _, e := range x.ipCache {
			e.cachedTime = e.cachedTime.Add(-d)
		}
		x.m.Unlock()
	case *lruCache:
		x.m.Lock()
		for _, e := range x.ipCache {
			e.cachedTime = e.cachedTime.Add(-d)
		}
		x.m.Unlock()
	default:
		return fmt.Errorf("unknown cache implementation %T", c)
	}
	return nil
}

type c18Obs struct {
	kind  string // "", "map", "lru"
	keys  []string
	inLRU bool // lru only: the LRU list still holds the key (it has not been evicted / removed)
}

func c18Observe(c cache, key string) c18Obs {
	var o c18Obs
	switch x := c.(type) {
	case *mapCache:
		o.kind = "map"
		x.m.RLock()
		for k := range x.ipCache {
			o.keys = append(o.keys, k)
		}
		x.m.RUnlock()
	case *lruCache:
		o.kind = "lru"
		x.m.RLock()
		for k := range x.ipCache {
			o.keys = append(o.keys, k)
		}
		x.m.RUnlock()
		o.inLRU = x.lru.Contains(key)
	}
	sort.Strings(o.keys)
	return o
}

func c18Has(keys []string, k string) bool {
	for _, x := range keys {
		if x == k {
			return true
		}
	}
	return false
}

func c18Call(t Tester, addr string, port uint16) (live bool, err error, pv string) {
	defer func() {
		if x := recover(); x != nil {
			pv = fmt.Sprint(x)
		}
	}()
	live, err = t.PhantomIsLive(addr, port)
	return
}

// ---- reference model + runner -------------------------------------------------------------------

type c18Meas struct {
	live bool
	at   int64 // virtual millisecond at which the probe completed
}

type c18Frame struct {
	op    *c18Op
	calls int
	got   string
	depth int
}

type c18Run struct {
	sys      *c18Sys
	vnow     int64
	meas     map[int][]c18Meas // completed measurements per address, in completion order
	weak     map[int]bool      // address had two overlapping probes: "the last measurement" is ambiguous
	oddSeen  map[int]bool      // evidence: distinct queried addresses that are not IP literals
	stack    []*c18Frame
	st       map[string]bool
	key, msg string
	nstep    int
}

func (r *c18Run) fail(key, format string, a ...any) {
	if r.key == "" {
		r.key, r.msg = key, fmt.Sprintf("step %d: ", r.nstep)+fmt.Sprintf(format, a...)
	}
}

func (r *c18Run) age(m c18Meas) time.Duration { return time.Duration(r.vnow-m.at) * time.Millisecond }

// probe is the function injected as phantomIsLive.
func (r *c18Run) probe(address string) (bool, error) {
	if len(r.stack) == 0 {
		r.fail("harness", "probe function called outside a query (%s)", address)
		return false, NotLive
	}
	f := r.stack[len(r.stack)-1]
	f.calls++
	f.got = address
	o := f.op
	if f.calls == 1 {
		for _, g := range r.stack[:len(r.stack)-1] {
			if g.op.Addr == o.Addr {
				r.weak[o.Addr] = true
				r.st["overlap-same-address"] = true
			}
		}
		if len(o.Nested) > 0 && r.key == "" {
			r.st["nested"] = true
			r.exec(o.Nested, f.depth+1)
		}
		r.meas[o.Addr] = append(r.meas[o.Addr], c18Meas{live: o.Live, at: r.vnow})
	}
	return o.Live, c18Err(o)
}

func (r *c18Run) exec(ops []c18Op, depth int) {
	for i := range ops {
		if r.key != "" {
			return
		}
		r.nstep++
		o := &ops[i]
		switch o.Kind {
		case "q":
			if o.Addr < 0 || o.Addr >= len(c18Addrs) {
				r.fail("harness", "bad address index %d", o.Addr)
				return
			}
			r.query(o, depth)
		case "adv":
			r.vnow += int64(o.delta() / time.Millisecond)
			if o.DeltaMs%1000 != 0 {
				r.st["adv-subsecond"] = true
			}
			for ci := 0; ci < 2; ci++ {
				if err := c18Shift(r.sys.cacheOf(ci), o.delta()); err != nil {
					r.fail("harness", "%v", err)
					return
				}
			}
		case "clear":
			if r.sys.cached != nil {
				before := r.lens()
				func() {
					defer func() {
						if x := recover(); x != nil {
							r.fail("panic", "ClearExpiredCache panicked: %v", x)
						}
					}()
					r.sys.cached.ClearExpiredCache()
				}()
				if after := r.lens(); after != before {
					r.st["clear-removed"] = true
				}
			}
		default:
			r.fail("harness", "unknown op kind %q", o.Kind)
			return
		}
		if r.key != "" {
			return
		}
		// the bound holds after every step
		for ci := 0; ci < 2; ci++ {
			c := r.sys.cacheOf(ci)
			if c == nil || !r.sys.on[ci] || r.sys.cap[ci] <= 0 {
				continue
			}
			if n := c.Len(); n > r.sys.cap[ci] {
				_, isMap := c.(*mapCache)
				k := "overfull:" + c18ClassName[ci]
				what := "the cache holds more entries than its capacity"
				if isMap {
					k = "unbounded:" + c18ClassName[ci]
					what = "a capacity is configured for this class but its cache was built as an unbounded map"
				}
				r.fail(k, "after %v the %s cache holds %d entries, configured capacity %d (%s)", *o, c18ClassName[ci], n, r.sys.cap[ci], what)
				return
			}
		}
	}
}

func (r *c18Run) lens() [2]int {
	var l [2]int
	for ci := 0; ci < 2; ci++ {
		if c := r.sys.cacheOf(ci); c != nil {
			l[ci] = c.Len()
		}
	}
	return l
}

// judgeCached: is (live, ErrCachedPhantom) a legitimate answer from the cache, given the completed
// measurements hist of the address (in completion order)? Returns a violation key and message, or "".
func (r *c18Run) judgeCached(o *c18Op, live bool, hist []c18Meas) (string, string) {
	s := r.sys
	ci := c18Ci(live)
	cn := c18ClassName[ci]
	if !s.on[ci] {
		return "served:" + cn + "-caching-disabled", fmt.Sprintf("%v answered %q from the cache although caching of %s verdicts is not configured", *o, cn, cn)
	}
	if len(hist) == 0 {
		return "served-unmeasured", fmt.Sprintf("%v answered %q from the cache but the address was never measured", *o, cn)
	}
	if !r.weak[o.Addr] {
		last := hist[len(hist)-1]
		if last.live != live {
			return "flipped", fmt.Sprintf("%v answered %q from the cache but the last measurement of this address (%v ago) said %q", *o, cn, r.age(last), c18ClassName[c18Ci(last.live)])
		}
		if r.age(last) >= s.life[ci] {
			return "stale:" + cn, fmt.Sprintf("%v answered %q from the cache; that was measured %v ago, the %s lifetime is %v", *o, cn, r.age(last), cn, s.life[ci])
		}
	} else {
		same, fresh := false, false
		for _, m := range hist {
			if m.live == live {
				same = true
				if r.age(m) < s.life[ci] {
					fresh = true
				}
			}
		}
		if !same {
			return "flipped", fmt.Sprintf("%v answered %q from the cache but no measurement of this address ever said so", *o, cn)
		}
		if !fresh {
			return "stale:" + cn, fmt.Sprintf("%v answered %q from the cache; every such measurement is older than the %s lifetime %v", *o, cn, cn, s.life[ci])
		}
	}
	return "", ""
}

func (r *c18Run) query(o *c18Op, depth int) {
	s := r.sys
	addr := c18Addrs[o.Addr]
	if o.Addr >= c18OddFrom {
		r.st["addr:non-canonical-spelling"] = true
		if net.ParseIP(addr) == nil {
			r.oddSeen[o.Addr] = true
			if len(r.oddSeen) > 1 {
				r.st["addr:two-non-literal-phantoms"] = true
			}
		}
	}
	var pre [2]c18Obs
	for ci := 0; ci < 2; ci++ {
		pre[ci] = c18Observe(s.cacheOf(ci), addr)
	}
	prev := r.meas[o.Addr]
	startNow := r.vnow
	if len(prev) > 0 {
		// evidence: the query falls between a lifetime that is not a whole number of seconds and
		// the next whole second of age
		p := prev[len(prev)-1]
		pc := c18Ci(p.live)
		if l, age := s.life[pc], time.Duration(startNow-p.at)*time.Millisecond; s.on[pc] && l > 0 && l%time.Second != 0 && age >= l && age < l.Truncate(time.Second)+time.Second {
			r.st["query-within-1s-after-fractional-expiry"] = true
		}
	}
	f := &c18Frame{op: o, depth: depth}
	r.stack = append(r.stack, f)
	live, err, pv := c18Call(s.t, addr, o.Port)
	r.stack = r.stack[:len(r.stack)-1]
	if r.key != "" {
		return
	}
	if pv != "" {
		r.fail("panic", "PhantomIsLive(%s, %d) panicked: %s", addr, o.Port, pv)
		return
	}
	ci := c18Ci(live)
	cn := c18ClassName[ci]
	switch {
	case f.calls == 0:
		// the answer did not come from a probe: it must be a legitimate cache answer
		if err != ErrCachedPhantom {
			r.fail("unprobed-answer", "%v returned (%v, %v) without probing the host and without the cached marker ErrCachedPhantom", *o, live, err)
			return
		}
		hist := r.meas[o.Addr]
		if k, m := r.judgeCached(o, live, hist); k != "" {
			r.fail(k, "%s", m)
			return
		}
		if pre[ci].kind == "lru" && !pre[ci].inLRU {
			r.fail("evicted-served:"+cn, "%v answered %q from the cache although the LRU no longer held this address (evicted / removed entry served)", *o, cn)
			return
		}
		r.st["hit-"+cn] = true
		// evidence: measurements of BOTH verdicts are within their lifetimes (re-probe after an
		// eviction with the opposite verdict, or overlapping probes): here "a measurement with
		// that verdict exists" and "the last measurement has that verdict" differ
		var fr [2]bool
		for _, m := range hist {
			mc := c18Ci(m.live)
			if s.on[mc] && r.age(m) < s.life[mc] {
				fr[mc] = true
			}
		}
		if fr[0] && fr[1] {
			r.st["hit-with-both-verdicts-in-lifetime"] = true
			r.st["both-verdicts-in-lifetime-served-"+cn] = true
		}
	case f.calls == 1:
		if want := net.JoinHostPort(addr, strconv.Itoa(int(o.Port))); f.got != want {
			r.fail("probe-address", "%v probed %q, want %q", *o, f.got, want)
			return
		}
		fk := c18FaultKind(o)
		var held [2]bool
		for hc := 0; hc < 2; hc++ {
			held[hc] = c18Has(pre[hc].keys, addr)
		}
		if fk != "" {
			// the scan failed on the station's side; what the cache held for the address when the
			// query came in (it was not servable, or there would have been no probe)
			r.st["probe-fault"] = true
			r.st["probe-fault:"+fk] = true
			for hc := 0; hc < 2; hc++ {
				if held[hc] {
					r.st["fault-reprobe:"+c18ClassName[hc]+"-entry-held"] = true
				}
			}
			if !held[0] && !held[1] {
				r.st["fault-probe:nothing-held"] = true
			}
			if len(r.meas[o.Addr]) > len(prev)+1 {
				r.st["fault-probe:same-address-measured-meanwhile"] = true
			}
		}
		if errors.Is(err, ErrCachedPhantom) && err != c18Err(o) {
			// A probe was made, yet the caller is given an answer marked as taken from the cache:
			// judged as a cache answer, against the measurements completed before this probe's own
			// (its own outcome is not what it was given). An entry that is past its lifetime must
			// not be served whatever the re-probe reported.
			hist := r.meas[o.Addr]
			if n := len(hist); n > 0 {
				hist = hist[:n-1]
			}
			if k, m := r.judgeCached(o, live, hist); k != "" {
				r.fail(k, "the probe made for this query said (%v, %v), but the caller was answered (%v, %v) from the cache: %s", o.Live, c18Err(o), live, err, m)
				return
			}
		}
		if live != o.Live || err != c18Err(o) {
			r.fail("probe-result-altered", "%v: the probe said (%v, %v) but PhantomIsLive returned (%v, %v)", *o, o.Live, c18Err(o), live, err)
			return
		}
		r.st["probe"] = true
		if len(prev) > 0 {
			p := prev[len(prev)-1]
			pc := c18Ci(p.live)
			expired := !s.on[pc] || time.Duration(startNow-p.at)*time.Millisecond >= s.life[pc]
			switch {
			case expired && s.on[pc]:
				r.st["reprobe-after-expiry"] = true
				if p.live != o.Live {
					r.st["expiry-then-flip"] = true
				}
			case !expired:
				r.st["reprobe-while-fresh"] = true // evicted, cleared, or never stored
			}
		}
	default:
		r.fail("probed-more-than-once", "%v made %d probe calls", *o, f.calls)
		return
	}
	if len(o.Nested) == 0 || f.calls == 0 {
		for ci := 0; ci < 2; ci++ {
			if pre[ci].kind == "" {
				continue
			}
			post := c18Observe(s.cacheOf(ci), addr)
			for _, k := range pre[ci].keys {
				if !c18Has(post.keys, k) {
					r.st["eviction"] = true
					r.st["eviction-"+c18ClassName[ci]] = true
				}
			}
		}
	}
}

// c18RunCase applies the history to a fresh tester and to the model.
func c18RunCase(c c18Case) (key, msg string, st map[string]bool) {
	r := &c18Run{meas: map[int][]c18Meas{}, weak: map[int]bool{}, oddSeen: map[int]bool{}, st: map[string]bool{}}
	s, err := c18Build(c.Conf, r.probe)
	if err != nil {
		return "harness", err.Error(), r.st
	}
	r.sys = s
	// configuration classes
	switch {
	case s.on[0] && s.on[1]:
		r.st["conf:both"] = true
	case s.on[1]:
		r.st["conf:live-only"] = true
	case s.on[0]:
		r.st["conf:nonlive-only"] = true
	default:
		r.st["conf:uncached"] = true
	}
	for ci := 0; ci < 2; ci++ {
		if s.on[ci] && s.life[ci]%time.Second != 0 {
			r.st["conf:fractional-lifetime"] = true
		}
		if s.on[ci] && s.cap[ci] > 0 {
			r.st["conf:capacity-"+c18ClassName[ci]] = true
		}
		if s.on[ci] && s.cap[ci] == 0 {
			r.st["conf:unbounded-"+c18ClassName[ci]] = true
		}
		switch s.cacheOf(ci).(type) {
		case *mapCache:
			r.st["kind:"+c18ClassName[ci]+"=map"] = true
		case *lruCache:
			r.st["kind:"+c18ClassName[ci]+"=lru"] = true
		}
	}
	r.exec(c.Ops, 0)
	return r.key, r.msg, r.st
}

func c18Nontrivial(st map[string]bool) bool {
	return st["hit-live"] || st["hit-nonlive"] || st["expiry-then-flip"] || st["eviction"]
}

func c18Check(t vh.Fataler, rec *vh.Rec, c c18Case) {
	key, msg, st := c18RunCase(c)
	classes := make([]string, 0, len(st)+1)
	for k := range st {
		classes = append(classes, k)
	}
	switch n := len(c.Ops); {
	case n >= 150:
		classes = append(classes, "len>=150")
	case n >= 50:
		classes = append(classes, "len>=50")
	case n >= 10:
		classes = append(classes, "len>=10")
	}
	sort.Strings(classes)
	rec.Case(c18Nontrivial(st), vh.Digest(c), c, classes...)
	if key == "harness" {
		t.Fatalf("harness problem: %s", msg)
	}
	if key != "" {
		// rapid cannot always shorten a history whose minimum length was drawn: minimise here
		// (deterministic greedy deletion, same violation key required), so the replay file is small
		if m := c18Minimize(c, key); len(m.Ops) > 0 {
			if k2, m2, _ := c18RunCase(m); k2 == key {
				c, msg = m, m2
			}
		}
		rec.Violation(t, key, c, "%s; conf=%v history=%v", msg, c.Conf, c.Ops)
	}
}

func c18Minimize(c c18Case, key string) c18Case {
	test := func(ops []c18Op) bool {
		if len(ops) == 0 {
			return false
		}
		k, _, _ := c18RunCase(c18Case{Conf: c.Conf, Ops: ops})
		return k == key
	}
	return c18Case{Conf: c.Conf, Ops: c18MinOps(c.Ops, test)}
}

func c18MinOps(in []c18Op, test func([]c18Op) bool) []c18Op {
	ops := append([]c18Op(nil), in...)
	for changed := true; changed; {
		changed = false
		for i := 0; i < len(ops); i++ {
			cand := append(append([]c18Op(nil), ops[:i]...), ops[i+1:]...)
			if test(cand) {
				ops, changed = cand, true
				i--
			}
		}
	}
	for i := range ops {
		if len(ops[i].Nested) == 0 {
			continue
		}
		i := i
		sub := c18MinOps(ops[i].Nested, func(n []c18Op) bool {
			cand := append([]c18Op(nil), ops...)
			cand[i].Nested = n
			return test(cand)
		})
		// the nested list may also go away entirely
		cand := append([]c18Op(nil), ops...)
		cand[i].Nested = nil
		if test(cand) {
			sub = nil
		}
		ops[i].Nested = sub
	}
	return ops
}
