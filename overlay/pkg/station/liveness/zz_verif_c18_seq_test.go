package liveness

// C18 — sequential sub-checks: exhaustive short histories, rapid-generated long histories, and
// histories with overlapping probes (a deterministic stand-in for concurrent queries: further
// operations run while a query's probe is in flight, which is exactly where PhantomIsLive holds
// no lock).

import (
	"testing"
	"time"

	"pgregory.net/rapid"
	"verif/harness/vh"
)

func c18Replay(t *testing.T, rec *vh.Rec) bool {
	p := vh.ReplayFile()
	if p == "" {
		return false
	}
	var c c18Case
	if _, _, err := vh.LoadReplay(p, &c); err != nil {
		t.Fatal(err)
	}
	c18Check(t, rec, c)
	return true
}

// Exhaustive alphabet: 3 addresses x scripted verdict, two advances chosen so that the boundaries
// are hit exactly (300 s = the short lifetime; 3300 s + 300 s = the long lifetime), clear-expired.
func c18Alphabet() []c18Op { return c18AlphabetMs(300_000, 3_300_000, 0, 1, 2) }

// c18AlphabetMs: the same alphabet with the two advances given in milliseconds (short lifetime;
// long lifetime minus short lifetime).
func c18AlphabetMs(shortMs, restMs int64, a0, a1, a2 int) []c18Op {
	q := func(a int, live bool) c18Op { return c18Op{Kind: "q", Addr: a, Port: 443, Live: live} }
	adv := func(ms int64) c18Op { return c18Op{Kind: "adv", DeltaS: ms / 1000, DeltaMs: ms % 1000} }
	return []c18Op{
		q(a0, true), q(a0, false), q(a1, true), q(a1, false), q(a2, true), q(a2, false),
		adv(shortMs), adv(restMs), {Kind: "clear"},
	}
}

// c18ExhConfs: every combination of {class off, on} x capacity {0,1,2} for both classes (the
// capacity of a switched-off class is kept in the product: it must not influence the other class).
func c18ExhConfs(swapped, reduced bool) []c18Conf { return c18ExhConfsD("1h", "5m", swapped, reduced) }

func c18ExhConfsD(long, short string, swapped, reduced bool) []c18Conf {
	var out []c18Conf
	for _, dl := range []string{"", long} {
		for _, dn := range []string{"", short} {
			for cl := 0; cl <= 2; cl++ {
				for cn := 0; cn <= 2; cn++ {
					c := c18Conf{DurLive: dl, CapLive: cl, DurNon: dn, CapNon: cn}
					if swapped {
						if dl != "" {
							c.DurLive = short
						}
						if dn != "" {
							c.DurNon = long
						}
					}
					if reduced {
						// the longest histories only on the configurations where both the bound and
						// the interplay of the two classes matter
						if (dl == "" && dn == "") || (cl == 0 && cn == 0) || cl == 2 && cn == 2 {
							continue
						}
						if (dl == "" && cl != 0) || (dn == "" && cn != 0) {
							continue
						}
					}
					out = append(out, c)
				}
			}
		}
	}
	return out
}

// classes of the probe-fault region (added after the round-8 seed): a query whose probe failed on
// the station's side / in the resolver; such a probe while the cache still held an entry of the
// address that it could not serve (expired, not cleaned up, not evicted) - non-live, live -; such a
// probe with nothing held.
var c18FaultClasses = []string{"probe-fault:local", "probe-fault:resolver", "fault-reprobe:nonlive-entry-held", "fault-reprobe:live-entry-held", "fault-probe:nothing-held"}

func TestVerif_C18_exhaustive(t *testing.T) {
	rec := vh.NewRec("C18", "exhaustive", "every history of length 1..L over the 9-symbol alphabet {query A/B/C x probe verdict live/non-live, advance 300 s, advance 3300 s, clear-expired} on every configuration {live off / 1h} x {non-live off / 5m} x capacities {0,1,2}^2 (thorough: also with the two lifetimes swapped; the longest length on a reduced configuration set), plus the same product with lifetimes 1500ms / 500ms and advances 500 ms / 1000 ms up to length 4 (thorough 5), and the 1h / 5m product over three phantoms written as zoned IPv6, host name and zero-padded IPv4 up to length 4 (thorough 5), and a probe-fault family: two phantoms x {live, non-live, live with a dial error} with every pair of the curated dial errors (station-side errnos from connect/socket, resolver and address errors, refusals) on every caching configuration up to length 3 (thorough 4) and one pair per configuration up to length 4 (thorough 5); shortest histories first; non-trivial = the history contains a cache hit, an expiry followed by a re-probe with the opposite verdict, or an eviction; distinct by (configuration, history)")
	defer rec.Flush()
	rec.Require("hit-live", "hit-nonlive", "expiry-then-flip", "eviction", "reprobe-after-expiry", "reprobe-while-fresh", "clear-removed",
		"conf:both", "conf:live-only", "conf:nonlive-only", "conf:uncached", "conf:capacity-live", "conf:capacity-nonlive")
	rec.Require("conf:fractional-lifetime", "adv-subsecond", "query-within-1s-after-fractional-expiry", "addr:non-canonical-spelling", "addr:two-non-literal-phantoms")
	rec.Require(c18FaultClasses...)
	if err := c18CheckAlphabet(); err != nil {
		t.Fatalf("harness problem: %v", err)
	}
	if c18Replay(t, rec) {
		return
	}
	alpha := c18Alphabet()
	fullLen := vh.Pick(5, 6)
	maxLen := vh.Pick(5, 7)
	rec.SetExhaustive(true)
	rec.Extra("max_len_all_confs", fullLen)
	rec.Extra("max_len_reduced_confs", maxLen)
	// a second family with lifetimes that are NOT whole seconds (live 1500ms, non-live 500ms) and
	// advances of 500 ms and 1000 ms: every expiry falls exactly on a lifetime, strictly inside a
	// second of age
	fracAlpha := c18AlphabetMs(500, 1000, 0, 1, 2)
	// a third family whose three phantoms are written as a zoned IPv6 address, a host name and a
	// zero-padded IPv4 address (none is an IP literal for net.ParseIP): distinct strings are
	// distinct phantoms
	oddAlpha := c18AlphabetMs(300_000, 3_300_000, 6, 8, 10)
	oddLen := vh.Pick(4, 5)
	rec.Extra("max_len_non_literal_address_confs", oddLen)
	fracLen := vh.Pick(4, 5)
	rec.Extra("max_len_fractional_lifetime_confs", fracLen)
	// a fourth family whose probes can also FAIL: two phantoms x {live, non-live, live with a dial
	// error}; every pair of the curated dial errors on every caching configuration up to length
	// faultLenAll (the shortest history in which an expired entry meets a failed re-probe has 3
	// operations), one pair per configuration (rotating) up to faultLen
	faultPairs := c18FaultPairs()
	faultLenAll := vh.Pick(3, 4)
	faultLen := vh.Pick(4, 5)
	rec.Extra("max_len_probe_fault_all_error_pairs", faultLenAll)
	rec.Extra("max_len_probe_fault_one_error_pair_per_conf", faultLen)
	rec.Extra("probe_fault_error_pairs", len(faultPairs))
	idx := 0
	ops := make([]int, 0, maxLen)
	type fam struct {
		alpha []c18Op
		confs []c18Conf
	}
	for L := 1; L <= maxLen; L++ {
		var fams []fam
		if L <= fullLen {
			confs := c18ExhConfs(false, false)
			if vh.Thorough() {
				confs = append(confs, c18ExhConfs(true, false)[9:]...) // first 9 = uncached, same as unswapped
			}
			fams = append(fams, fam{alpha, confs})
		} else {
			fams = append(fams, fam{alpha, c18ExhConfs(false, true)})
		}
		if L <= fracLen {
			fams = append(fams, fam{fracAlpha, c18ExhConfsD("1500ms", "500ms", false, false)[9:]})
		}
		if L <= oddLen {
			fams = append(fams, fam{oddAlpha, c18ExhConfs(false, false)[9:]})
		}
		if L <= faultLen {
			for i, cf := range c18ExhConfs(false, false)[9:] {
				for j, pr := range faultPairs {
					if L <= faultLenAll || j == i%len(faultPairs) {
						fams = append(fams, fam{c18FaultAlphabet(pr[0], pr[1]), []c18Conf{cf}})
					}
				}
			}
		}
		total := 1
		for i := 0; i < L; i++ {
			total *= len(alpha)
		}
		for _, f := range fams {
			alpha := f.alpha
			for _, cf := range f.confs {
				for n := 0; n < total; n++ {
					idx++
					if !vh.Mine(idx) {
						continue
					}
					ops = ops[:0]
					for i, x := 0, n; i < L; i++ {
						ops = append(ops, x%len(alpha))
						x /= len(alpha)
					}
					h := make([]c18Op, L)
					for i := range h {
						h[i] = alpha[ops[L-1-i]]
					}
					c18Check(t, rec, c18Case{Conf: cf, Ops: h})
					if t.Failed() {
						return
					}
				}
			}
		}
	}
}

// lifetimes: whole seconds and — whatever time.ParseDuration accepts is a legal configuration —
// fractional ones
var c18Durs = []string{"", "5m", "1h", "90s", "5m", "1h", "", "0s", "1500ms", "2.5s", "500ms", "1m0.25s", "999ms", "1001ms"}

func c18GenConf(rt *rapid.T) c18Conf {
	return c18Conf{
		DurLive: rapid.SampledFrom(c18Durs).Draw(rt, "dur_live"),
		CapLive: rapid.IntRange(0, 4).Draw(rt, "cap_live"),
		DurNon:  rapid.SampledFrom(c18Durs).Draw(rt, "dur_nonlive"),
		CapNon:  rapid.IntRange(0, 4).Draw(rt, "cap_nonlive"),
	}
}

// c18Deltas: advances (milliseconds) biased to the configured lifetimes' boundaries, at second and
// at sub-second distance on both sides.
func c18Deltas(cf c18Conf) []int64 {
	out := []int64{1, 300, 1000, 7000, 60000}
	for _, d := range []string{cf.DurLive, cf.DurNon} {
		if d == "" {
			continue
		}
		v, err := time.ParseDuration(d)
		if err != nil || v <= 0 {
			continue
		}
		l := int64(v / time.Millisecond)
		nextSec := (l/1000 + 1) * 1000
		for _, x := range []int64{l, l - 1, l + 1, l + 400, l + 999, nextSec, nextSec - 1, l - 1000, l + 1000, l / 2, l / 3, l - l/2} {
			if x > 0 {
				out = append(out, x)
			}
		}
	}
	return out
}

func c18GenOp(rt *rapid.T, addrs []int, deltas []int64, depth int, nestP int, parent int) c18Op {
	kinds := []string{"q", "q", "q", "q", "q", "q", "adv", "adv", "clear"}
	k := rapid.SampledFrom(kinds).Draw(rt, "kind")
	o := c18Op{Kind: k}
	switch k {
	case "adv":
		d := rapid.SampledFrom(deltas).Draw(rt, "delta_ms")
		o.DeltaS, o.DeltaMs = d/1000, d%1000
	case "q":
		o.Addr = rapid.SampledFrom(addrs).Draw(rt, "addr")
		if parent >= 0 && rapid.IntRange(0, 2).Draw(rt, "same") > 0 {
			o.Addr = parent // overlap on the same address is the interesting case
		}
		o.Port = rapid.SampledFrom([]uint16{443, 443, 80}).Draw(rt, "port")
		o.Live = rapid.Bool().Draw(rt, "live")
		o.ErrK = c18GenErrK(rt)
		if nestP > 0 && depth < 2 && rapid.IntRange(0, 99).Draw(rt, "nest") < nestP {
			n := rapid.IntRange(1, 3).Draw(rt, "nnested")
			for i := 0; i < n; i++ {
				o.Nested = append(o.Nested, c18GenOp(rt, addrs, deltas, depth+1, nestP, o.Addr))
			}
		}
	}
	return o
}

// c18GenErrK draws the error that accompanies the scripted verdict (it only matters for a live
// verdict): the phantom picked up the connection, or a dial error — from the curated alphabet or an
// arbitrary errno (see zz_verif_c18_faults_test.go). Station-side scan failures make up about half.
func c18GenErrK(rt *rapid.T) int {
	switch m := rapid.IntRange(0, 9).Draw(rt, "errmode"); {
	case m <= 2:
		return 0
	case m == 3:
		return 1
	case m <= 7:
		return rapid.IntRange(2, len(c18LiveErrs)-1).Draw(rt, "errk")
	default:
		return c18ErrnoBase + rapid.SampledFrom(c18Errnos).Draw(rt, "errno")
	}
}

// c18FaultAlphabet: the exhaustive alphabet over two phantoms whose probes can also fail with the
// dial errors k0 / k1 (verdict live): 9 symbols like the other families.
func c18FaultAlphabet(k0, k1 int) []c18Op {
	q := func(a int, live bool, k int) c18Op { return c18Op{Kind: "q", Addr: a, Port: 443, Live: live, ErrK: k} }
	return []c18Op{
		q(0, true, 0), q(0, false, 0), q(0, true, k0), q(2, true, 0), q(2, false, 0), q(2, true, k1),
		{Kind: "adv", DeltaS: 300}, {Kind: "adv", DeltaS: 3300}, {Kind: "clear"},
	}
}

// c18GenAddrs draws the case's phantoms: lo..hi distinct entries of c18Addrs — canonical literals
// and odd spellings mixed (half of the cases are forced to hold at least two addresses that are
// not IP literals).
func c18GenAddrs(rt *rapid.T, lo, hi int) []int {
	addrs := rapid.SliceOfNDistinct(rapid.IntRange(0, len(c18Addrs)-1), lo, hi, func(i int) int { return i }).Draw(rt, "addrs")
	if rapid.Bool().Draw(rt, "force_non_literal") {
		nonLit := []int{6, 7, 8, 9, 10, 11}
		a := rapid.SampledFrom(nonLit).Draw(rt, "nl0")
		b := rapid.SampledFrom(nonLit).Draw(rt, "nl1")
		have := map[int]bool{}
		for _, x := range addrs {
			have[x] = true
		}
		for i, x := range []int{a, b} {
			if !have[x] && i < len(addrs) {
				have[addrs[i]] = false
				addrs[i] = x
				have[x] = true
			}
		}
	}
	return addrs
}

func c18Gen(rt *rapid.T, maxOps, nestP int) c18Case {
	cf := c18GenConf(rt)
	addrs := c18GenAddrs(rt, 4, 6)
	deltas := c18Deltas(cf)
	// a slice generator (not "draw n, then n ops") so that rapid can delete operations anywhere
	// in the history while shrinking
	opGen := rapid.Custom(func(t *rapid.T) c18Op { return c18GenOp(t, addrs, deltas, 0, nestP, -1) })
	// rapid's slice lengths are strongly biased to short: draw a minimum length first (a draw, so
	// it shrinks too) to get long histories as well
	lo := rapid.SampledFrom([]int{1, 1, maxOps / 8, maxOps / 3, maxOps * 3 / 5, maxOps}).Draw(rt, "minlen")
	if lo < 1 {
		lo = 1
	}
	return c18Case{Conf: cf, Ops: rapid.SliceOfN(opGen, lo, maxOps).Draw(rt, "ops")}
}

func TestVerif_C18_random(t *testing.T) {
	rec := vh.NewRec("C18", "random", "rapid-generated sequential histories of 1-200 operations {query, advance, clear-expired} over 4-6 phantoms drawn from 14 address strings (canonical v4/v6 literals, zoned v6 with two zones, two host names, zero-padded and space-prefixed v4, upper-case and v4-mapped v6; each string a host of its own), ports {443,80}, scripted verdicts with the error values the real probe produces (live: the phantom answered, or any dial error that is not a time-out - a curated list of refusals, station-side errnos from connect/socket in several wrappings, resolver/address errors, or a drawn errno 1..133; about half of the live outcomes are scans that failed on the station's side); configurations: lifetimes {off,0s,90s,5m,1h,500ms,999ms,1001ms,1500ms,2.5s,1m0.25s}^2 x capacities {0..4}^2; advances (ms resolution) biased to lifetime, lifetime+-1 ms, +400 ms, +999 ms, the next whole second, +-1 s and fractions; non-trivial as in the exhaustive sub-check; distinct by (configuration, history)")
	defer rec.Flush()
	rec.Require("hit-live", "hit-nonlive", "expiry-then-flip", "eviction-live", "eviction-nonlive", "reprobe-after-expiry", "clear-removed",
		"conf:both", "conf:live-only", "conf:nonlive-only", "conf:uncached", "conf:capacity-live", "conf:capacity-nonlive")
	rec.Require("conf:fractional-lifetime", "adv-subsecond", "query-within-1s-after-fractional-expiry", "addr:non-canonical-spelling", "addr:two-non-literal-phantoms")
	rec.Require(c18FaultClasses...)
	if err := c18CheckAlphabet(); err != nil {
		t.Fatalf("harness problem: %v", err)
	}
	if c18Replay(t, rec) {
		return
	}
	rapid.Check(t, func(rt *rapid.T) {
		c18Check(rt, rec, c18Gen(rt, 200, 0))
	})
}

func TestVerif_C18_overlap(t *testing.T) {
	rec := vh.NewRec("C18", "overlap", "as the random sub-check (up to 80 top-level operations) but 30% of the queries have 1-3 further operations (nesting depth <= 2, two thirds of them on the same address) executed while their probe is in flight — every interleaving at the point where PhantomIsLive holds no lock, replayable; for an address with overlapping probes the oracle accepts any verdict measured within its lifetime; non-trivial as in the exhaustive sub-check; distinct by (configuration, history)")
	defer rec.Flush()
	rec.Require("addr:two-non-literal-phantoms", "overlap-same-address", "hit-with-both-verdicts-in-lifetime", "hit-live", "hit-nonlive", "eviction", "nested")
	rec.Require(c18FaultClasses...)
	rec.Require("fault-probe:same-address-measured-meanwhile")
	if err := c18CheckAlphabet(); err != nil {
		t.Fatalf("harness problem: %v", err)
	}
	if c18Replay(t, rec) {
		return
	}
	rapid.Check(t, func(rt *rapid.T) {
		c18Check(rt, rec, c18Gen(rt, 80, 30))
	})
}
