package liveness

// C18 — "hammer": expiry clean-up racing capacity evictions on an LRU-backed cache (-race build).
//
// One round, on a fresh tester whose exercised class has capacity C:
//   1. fill: C never-seen addresses are queried one after another (cache at capacity, all fresh);
//   2. at quiescence the `aged` MOST RECENTLY stored entries are made older than the lifetime, so
//      the next clean-up is guaranteed to find expired entries, while the LRU's next victims (the
//      oldest entries) are fresh;
//   3. burst: S goroutines stream never-seen addresses through the cache (every store evicts a
//      fresh entry) while another goroutine calls ClearExpiredCache continuously, starting after a
//      drawn number of streamer operations;
//   4. everything is stopped and, at quiescence, the schedule-independent invariants are judged:
//        * every address the LRU no longer tracks (evicted, or removed by the clean-up) and that
//          has not been probed since must be probed again when queried — it is never answered from
//          the cache ("evicted or expired entries are never served");
//        * Len() <= C;
//        * every entry of the verdict map is tracked by the LRU (an untracked entry can never be
//          evicted again: it is an evicted entry that is still servable).
// During the burst every query is for a never-measured address, so each must make exactly one probe
// call and return its result unchanged.
//
// Nothing here depends on the wall clock: time is "advanced" by shifting cachedTime at quiescence;
// which interleavings happen is the Go scheduler's choice (sampled). The class
// "eviction-overlapped-effective-cleanup" counts the rounds in which streamer operations completed
// while the clean-up that found expired entries was running — the overlap the sub-check is about.

import (
	"fmt"
	"net"
	"runtime"
	"strconv"
	"sync"
	"sync/atomic"
	"testing"
	"time"

	"pgregory.net/rapid"
	"verif/harness/vh"
)

type c18HCase struct {
	Live      bool `json:"live"`          // class exercised (all probes return this verdict)
	Cap       int  `json:"cap"`           // its capacity
	Aged      int  `json:"aged"`          // entries (most recently stored) aged past the lifetime before the burst
	Streamers int  `json:"streamers"`     // goroutines streaming never-seen addresses
	PerStream int  `json:"per_streamer"`  // addresses each of them pushes through
	Delay     int  `json:"cleaner_delay"` // streamer operations completed before the first clean-up starts
	Other     int  `json:"other_class"`   // the other class: 0 off, 1 unbounded map, 2 LRU
	Reps      int  `json:"reps"`          // independent rounds (fresh tester each)
	Dup       bool `json:"dup,omitempty"` // duplicate-probe round instead (see c18HDupRound)
}

func (c c18HCase) conf() c18Conf {
	var cf c18Conf
	od, oc := "", 0
	switch c.Other {
	case 1:
		od = "5m"
	case 2:
		od, oc = "5m", 7
	}
	if c.Live {
		cf = c18Conf{DurLive: "1h", CapLive: c.Cap, DurNon: od, CapNon: oc}
	} else {
		cf = c18Conf{DurNon: "1h", CapNon: c.Cap, DurLive: od, CapLive: oc}
	}
	return cf
}

func c18HAddr(i int) string {
	return fmt.Sprintf("10.%d.%d.%d", (i>>16)&255, (i>>8)&255, i&255)
}

type c18HSlot struct {
	calls int
	got   string
}

const c18HPortBase = 30000

// c18HRound runs one round; returns (violation key, message).
func c18HRound(c c18HCase, st map[string]bool) (string, string) {
	ci := c18Ci(c.Live)
	cn := c18ClassName[ci]
	op := &c18Op{Kind: "q", Live: c.Live}
	wantErr := c18Err(op)
	slots := make([]*c18HSlot, c.Streamers+1) // slot 0: the sequential phases
	for i := range slots {
		slots[i] = &c18HSlot{}
	}
	probe := func(address string) (bool, error) {
		_, ps, err := net.SplitHostPort(address)
		p, err2 := strconv.Atoi(ps)
		if err != nil || err2 != nil || p < c18HPortBase || p-c18HPortBase >= len(slots) {
			return c.Live, wantErr // cannot attribute; shows as a missing call at the caller
		}
		sl := slots[p-c18HPortBase]
		sl.calls++
		sl.got = address
		return c.Live, wantErr
	}
	cf := c.conf()
	s, err := c18Build(cf, probe)
	if err != nil {
		return "harness", err.Error()
	}
	// query judges the per-call invariants; mustProbe: the address has no servable measurement
	query := func(slot int, addr string, mustProbe bool, why string) (string, string) {
		sl := slots[slot]
		sl.calls = 0
		port := uint16(c18HPortBase + slot)
		live, err, pv := c18Call(s.t, addr, port)
		switch {
		case pv != "":
			return "panic", fmt.Sprintf("PhantomIsLive(%s) panicked: %s", addr, pv)
		case sl.calls == 0:
			if err != ErrCachedPhantom {
				return "unprobed-answer", fmt.Sprintf("query %s returned (%v, %v) without probing and without ErrCachedPhantom", addr, live, err)
			}
			if mustProbe {
				return why, ""
			}
			if live != c.Live {
				return "flipped", fmt.Sprintf("query %s answered %q from the cache, the only verdict ever measured is %q", addr, c18ClassName[c18Ci(live)], cn)
			}
		case sl.calls == 1:
			if want := net.JoinHostPort(addr, strconv.Itoa(int(port))); sl.got != want {
				return "probe-address", fmt.Sprintf("probed %q, want %q", sl.got, want)
			}
			if live != c.Live || err != wantErr {
				return "probe-result-altered", fmt.Sprintf("query %s: probe said (%v, %v), PhantomIsLive returned (%v, %v)", addr, c.Live, wantErr, live, err)
			}
		default:
			return "probed-more-than-once", fmt.Sprintf("query %s made %d probe calls", addr, sl.calls)
		}
		return "", ""
	}

	// 1. fill
	for i := 0; i < c.Cap; i++ {
		if k, m := query(0, c18HAddr(i), true, "served-unmeasured"); k != "" {
			if m == "" {
				m = fmt.Sprintf("fill: never-measured address %s answered from the cache", c18HAddr(i))
			}
			return k, m
		}
	}
	cc := s.cacheOf(ci)
	// 2. age the most recently stored entries (quiescent: nobody reads the elements now)
	aged := c.Aged
	if aged > c.Cap {
		aged = c.Cap
	}
	agedKeys := map[string]bool{}
	for i := c.Cap - aged; i < c.Cap; i++ {
		agedKeys[c18HAddr(i)] = true
	}
	if err := c18ShiftKeys(cc, agedKeys, s.life[ci]+time.Second); err != nil {
		return "harness", err.Error()
	}
	// 3. burst
	total := c.Streamers * c.PerStream
	var progress int64
	var done int32
	var wg, wgClear sync.WaitGroup
	start := make(chan struct{})
	sv := make([][2]string, c.Streamers)
	for w := 0; w < c.Streamers; w++ {
		wg.Add(1)
		go func(w int) {
			defer wg.Done()
			<-start
			for j := 0; j < c.PerStream; j++ {
				a := c18HAddr(c.Cap + w*c.PerStream + j)
				if k, m := query(w+1, a, true, "served-unmeasured"); k != "" {
					if m == "" {
						m = fmt.Sprintf("burst: never-measured address %s answered from the cache", a)
					}
					sv[w] = [2]string{k, m}
					return
				}
				atomic.AddInt64(&progress, 1)
			}
		}(w)
	}
	var cpanic string
	var lenAfter int
	var progBefore, progAfter int64
	effective := false
	wgClear.Add(1)
	go func() {
		defer wgClear.Done()
		defer func() {
			if x := recover(); x != nil {
				cpanic = fmt.Sprint(x)
			}
		}()
		<-start
		for atomic.LoadInt64(&progress) < int64(c.Delay) && atomic.LoadInt32(&done) == 0 {
			runtime.Gosched()
		}
		for {
			if s.cached != nil {
				if !effective {
					// evidence only: did streamer operations complete while the clean-up that still
					// had the aged entries to find was running?
					pb := atomic.LoadInt64(&progress)
					s.cached.ClearExpiredCache()
					pa := atomic.LoadInt64(&progress)
					effective = true
					progBefore, progAfter = pb, pa
				} else {
					s.cached.ClearExpiredCache()
				}
			}
			if atomic.LoadInt32(&done) != 0 {
				return
			}
			runtime.Gosched()
		}
	}()
	close(start)
	wg.Wait()
	atomic.StoreInt32(&done, 1)
	wgClear.Wait()
	if cpanic != "" {
		return "panic", "ClearExpiredCache panicked during the burst: " + cpanic
	}
	for _, v := range sv {
		if v[0] != "" {
			return v[0], v[1]
		}
	}
	if progAfter > progBefore && progBefore < int64(total) {
		st["eviction-overlapped-effective-cleanup"] = true
	}
	if progBefore > 0 && progBefore < int64(total) {
		st["cleanup-started-mid-burst"] = true
	}
	// 4. quiescent judgement
	if cc == nil {
		return "", ""
	}
	lenAfter = cc.Len()
	lc, isLRU := cc.(*lruCache)
	if !isLRU {
		if lenAfter > c.Cap {
			return "unbounded:" + cn, fmt.Sprintf("after the burst the %s cache holds %d entries, configured capacity %d (built as an unbounded map)", cn, lenAfter, c.Cap)
		}
		return "", ""
	}
	tracked := map[string]bool{}
	for _, k := range lc.lru.Keys() {
		tracked[k.(string)] = true
	}
	var untracked []string
	lc.m.RLock()
	for k := range lc.ipCache {
		if !tracked[k] {
			untracked = append(untracked, k)
		}
	}
	lc.m.RUnlock()
	cleaned := 0
	for k := range agedKeys {
		if !tracked[k] {
			cleaned++
		}
	}
	if cleaned > 0 {
		st["cleanup-removed-aged"] = true
	}
	if len(tracked) == c.Cap {
		st["at-capacity"] = true
	}
	// every address the LRU has let go and that was not probed since must be probed again
	nAll := c.Cap + total
	served := 0
	first := ""
	for i := 0; i < nAll; i++ {
		a := c18HAddr(i)
		if tracked[a] {
			continue
		}
		st["evicted-requeried"] = true
		k, m := query(0, a, true, "evicted-served:"+cn)
		if k == "evicted-served:"+cn {
			served++
			if first == "" {
				first = a
			}
			continue
		}
		if k != "" {
			return k, m
		}
	}
	if served > 0 {
		return "evicted-served:" + cn, fmt.Sprintf("after the burst (quiescent) %d address(es) that the LRU no longer tracked (evicted / removed) and that had not been probed since were answered from the cache, first %s; the %s cache held %d entries (capacity %d), %d of them not tracked by the LRU", served, first, cn, lenAfter, c.Cap, len(untracked))
	}
	if lenAfter > c.Cap {
		return "overfull:" + cn, fmt.Sprintf("after the burst (quiescent) the %s cache holds %d entries, configured capacity %d (%d entries not tracked by the LRU)", cn, lenAfter, c.Cap, len(untracked))
	}
	if len(untracked) > 0 {
		return "untracked-entry:" + cn, fmt.Sprintf("after the burst (quiescent) the %s verdict map holds %d entr(ies) the LRU does not track (e.g. %s): they can never be evicted again", cn, len(untracked), untracked[0])
	}
	return "", ""
}

// c18HDupRound: duplicate probes of one phantom finishing at the same moment. `Streamers`
// goroutines walk the SAME list of never-seen addresses (at most the capacity, so nothing is
// evicted during the burst): all of them miss, probe and store the same address at about the same
// time. Afterwards, at quiescence, `capacity` further never-seen addresses are pushed through one
// after another, so the LRU lets go of every address of the burst; then, as in the other round:
// none of them may be answered from the cache, Len() <= capacity, verdict map subset of LRU keys.
func c18HDupRound(c c18HCase, st map[string]bool) (string, string) {
	ci := c18Ci(c.Live)
	cn := c18ClassName[ci]
	op := &c18Op{Kind: "q", Live: c.Live}
	wantErr := c18Err(op)
	slots := make([]*c18HSlot, c.Streamers+1)
	for i := range slots {
		slots[i] = &c18HSlot{}
	}
	probe := func(address string) (bool, error) {
		_, ps, err := net.SplitHostPort(address)
		p, err2 := strconv.Atoi(ps)
		if err == nil && err2 == nil && p >= c18HPortBase && p-c18HPortBase < len(slots) {
			slots[p-c18HPortBase].calls++
		}
		runtime.Gosched() // the probe is where the tester holds no lock: let the others catch up
		return c.Live, wantErr
	}
	s, err := c18Build(c.conf(), probe)
	if err != nil {
		return "harness", err.Error()
	}
	// returns (key, msg, served-from-cache)
	query := func(slot int, addr string) (string, string, bool) {
		sl := slots[slot]
		sl.calls = 0
		live, err, pv := c18Call(s.t, addr, uint16(c18HPortBase+slot))
		switch {
		case pv != "":
			return "panic", fmt.Sprintf("PhantomIsLive(%s) panicked: %s", addr, pv), false
		case sl.calls == 0:
			if err != ErrCachedPhantom {
				return "unprobed-answer", fmt.Sprintf("query %s returned (%v, %v) without probing and without ErrCachedPhantom", addr, live, err), false
			}
			if live != c.Live {
				return "flipped", fmt.Sprintf("query %s answered %q from the cache, the only verdict ever measured is %q", addr, c18ClassName[c18Ci(live)], cn), false
			}
			return "", "", true
		case sl.calls == 1:
			if live != c.Live || err != wantErr {
				return "probe-result-altered", fmt.Sprintf("query %s: probe said (%v, %v), PhantomIsLive returned (%v, %v)", addr, c.Live, wantErr, live, err), false
			}
		default:
			return "probed-more-than-once", fmt.Sprintf("query %s made %d probe calls", addr, sl.calls), false
		}
		return "", "", false
	}
	m := c.PerStream
	if m > c.Cap {
		m = c.Cap
	}
	var wg sync.WaitGroup
	start := make(chan struct{})
	sv := make([][2]string, c.Streamers)
	var dupProbes int64
	for w := 0; w < c.Streamers; w++ {
		wg.Add(1)
		go func(w int) {
			defer wg.Done()
			<-start
			for j := 0; j < m; j++ {
				k, msg, cached := query(w+1, c18HAddr(j))
				if k != "" {
					sv[w] = [2]string{k, msg}
					return
				}
				if !cached {
					atomic.AddInt64(&dupProbes, 1)
				}
			}
		}(w)
	}
	close(start)
	wg.Wait()
	for _, v := range sv {
		if v[0] != "" {
			return v[0], v[1]
		}
	}
	if dupProbes > int64(m) {
		st["same-address-probed-concurrently"] = true
	}
	// quiescent: flush the LRU with `capacity` never-seen addresses
	for i := 0; i < c.Cap; i++ {
		a := c18HAddr(m + i)
		k, msg, cached := query(0, a)
		if k != "" {
			return k, msg
		}
		if cached {
			return "served-unmeasured", fmt.Sprintf("flush: never-measured address %s answered from the cache", a)
		}
	}
	cc := s.cacheOf(ci)
	if cc == nil {
		return "", ""
	}
	lenAfter := cc.Len()
	lc, isLRU := cc.(*lruCache)
	if !isLRU {
		if lenAfter > c.Cap {
			return "unbounded:" + cn, fmt.Sprintf("the %s cache holds %d entries, configured capacity %d (built as an unbounded map)", cn, lenAfter, c.Cap)
		}
		return "", ""
	}
	tracked := map[string]bool{}
	for _, k := range lc.lru.Keys() {
		tracked[k.(string)] = true
	}
	untracked := 0
	lc.m.RLock()
	for k := range lc.ipCache {
		if !tracked[k] {
			untracked++
		}
	}
	lc.m.RUnlock()
	served, first := 0, ""
	for j := 0; j < m; j++ {
		a := c18HAddr(j)
		if tracked[a] {
			continue
		}
		st["evicted-requeried"] = true
		k, msg, cached := query(0, a)
		if k != "" {
			return k, msg
		}
		if cached {
			served++
			if first == "" {
				first = a
			}
		}
	}
	what := fmt.Sprintf("after %d goroutines had queried the same %d never-seen addresses concurrently and %d further addresses had then been pushed through (quiescent)", c.Streamers, m, c.Cap)
	if served > 0 {
		return "evicted-served:" + cn, fmt.Sprintf("%s, %d address(es) the LRU no longer tracked and that had not been probed since were answered from the cache, first %s; the %s cache held %d entries (capacity %d), %d not tracked by the LRU", what, served, first, cn, lenAfter, c.Cap, untracked)
	}
	if lenAfter > c.Cap {
		return "overfull:" + cn, fmt.Sprintf("%s the %s cache holds %d entries, configured capacity %d (%d not tracked by the LRU)", what, cn, lenAfter, c.Cap, untracked)
	}
	if untracked > 0 {
		return "untracked-entry:" + cn, fmt.Sprintf("%s the %s verdict map holds %d entr(ies) the LRU does not track: they can never be evicted again", what, cn, untracked)
	}
	return "", ""
}

// c18ShiftKeys makes the stored measurements of the given keys d older (quiescent use only).
func c18ShiftKeys(c cache, keys map[string]bool, d time.Duration) error {
	var m map[string]*cacheElement
	var mu *sync.RWMutex
	switch x := c.(type) {
	case nil:
		return nil
	case *mapCache:
		m, mu = x.ipCache, &x.m
	case *lruCache:
		m, mu = x.ipCache, &x.m
	default:
		return fmt.Errorf("unknown cache implementation %T", c)
	}
	mu.Lock()
	for k, e := range m {
		if keys[k] {
			e.cachedTime = e.cachedTime.Add(-d)
		}
	}
	mu.Unlock()
	return nil
}

func c18HGen(rt *rapid.T) c18HCase {
	caps := []int{8, 64, 256, 1024, 1024, 2048}
	if !vh.Thorough() {
		caps = []int{8, 64, 256, 512, 1024, 1024}
	}
	c := c18HCase{
		Live:      rapid.Bool().Draw(rt, "live"),
		Cap:       rapid.SampledFrom(caps).Draw(rt, "cap"),
		Streamers: rapid.IntRange(1, 6).Draw(rt, "streamers"),
		Other:     rapid.IntRange(0, 2).Draw(rt, "other"),
	}
	c.Aged = rapid.IntRange(1, 1+c.Cap/4).Draw(rt, "aged")
	c.PerStream = rapid.IntRange(1+c.Cap/8, 1+c.Cap/2).Draw(rt, "per_streamer")
	// the aged entries are the last ones the LRU evicts: start the clean-up before they are gone
	maxDelay := c.Streamers * c.PerStream / 2
	if lim := c.Cap - c.Aged - 1; maxDelay > lim {
		maxDelay = lim
	}
	if maxDelay < 0 {
		maxDelay = 0
	}
	c.Delay = rapid.IntRange(0, maxDelay).Draw(rt, "cleaner_delay")
	c.Dup = rapid.IntRange(0, 2).Draw(rt, "dup") == 0
	if c.Dup && c.Streamers < 2 {
		c.Streamers = 2
	}
	c.Reps = 1024 / c.Cap
	if c.Reps < 1 {
		c.Reps = 1
	}
	if c.Reps > 8 {
		c.Reps = 8
	}
	return c
}

func c18HCheck(t vh.Fataler, rec *vh.Rec, c c18HCase) {
	st := map[string]bool{}
	key, msg := "", ""
	if c.Cap < 1 || c.Streamers < 1 || c.Streamers > 64 || c.PerStream < 1 || c.Cap+c.Streamers*c.PerStream >= 1<<24 {
		t.Fatalf("harness problem: bad hammer case %+v", c)
	}
	reps := c.Reps
	if reps < 1 {
		reps = 1
	}
	for r := 0; r < reps && key == ""; r++ {
		if c.Dup {
			st["mode:duplicate-probes"] = true
			key, msg = c18HDupRound(c, st)
		} else {
			st["mode:cleanup-vs-evictions"] = true
			key, msg = c18HRound(c, st)
		}
	}
	classes := make([]string, 0, len(st)+1)
	for k := range st {
		classes = append(classes, k)
	}
	classes = append(classes, fmt.Sprintf("cap=%d", c.Cap))
	rec.Case(st["eviction-overlapped-effective-cleanup"] || st["same-address-probed-concurrently"], vh.Digest(c), c, classes...)
	if key == "harness" {
		t.Fatalf("harness problem: %s", msg)
	}
	if key != "" {
		rec.Violation(t, key, c, "%s; conf=%v streamers=%d x %d addresses, %d entries aged, clean-up started after %d streamer operations", msg, c.conf(), c.Streamers, c.PerStream, c.Aged, c.Delay)
	}
}

func TestVerif_C18_hammer(t *testing.T) {
	rec := vh.NewRec("C18", "hammer", "rapid-generated rounds on an LRU-backed class (capacity 8-2048, live or non-live, other class off/map/LRU): fill to capacity, age the most recently stored 1..C/4 entries past the lifetime at quiescence, then 1-6 goroutines stream C/8..C/2 never-seen addresses each (constant evictions of fresh entries) while a goroutine runs ClearExpiredCache continuously from a drawn point of the burst on; judged at quiescence: every address the LRU no longer tracks is probed again when queried, Len() <= capacity, verdict map subset of the LRU's keys; -race build; the interleaving is the Go scheduler's (sampled); a third of the rounds are duplicate-probe rounds instead: 2-6 goroutines query the SAME never-seen addresses concurrently (all miss, probe and store one address at the same moment), then a capacity's worth of further addresses is pushed through at quiescence and the same three invariants are judged; non-trivial = streamer operations completed while the clean-up that had expired entries to find was running, or one address was probed by several goroutines; distinct by case")
	defer rec.Flush()
	rec.Require("eviction-overlapped-effective-cleanup", "cleanup-removed-aged", "evicted-requeried", "at-capacity", "mode:duplicate-probes", "same-address-probed-concurrently")
	if p := vh.ReplayFile(); p != "" {
		var c c18HCase
		if _, _, err := vh.LoadReplay(p, &c); err != nil {
			t.Fatal(err)
		}
		// the schedule is not replayable: repeat the case
		for i := 0; i < 300 && !t.Failed(); i++ {
			c18HCheck(t, rec, c)
		}
		return
	}
	rapid.Check(t, func(rt *rapid.T) {
		c18HCheck(rt, rec, c18HGen(rt))
	})
}
