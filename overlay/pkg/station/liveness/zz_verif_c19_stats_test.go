package liveness

// C19 (liveness part) — the statistics printers of every liveness tester the configuration can
// produce never panic, also on caches that have been filled, expired and cleared.
//
// The four liveness keys of the station configuration arrive here as a *Config. Every combination of
// {unset/zero, usable values, unusable value} is enumerated; New either refuses the configuration
// (the station then refuses to start: logger.Fatal in NewRegistrationManager) or returns a tester,
// on which a history of {query with a scripted probe verdict, PrintStats, PrintAndReset, Reset,
// ClearExpiredCache, age entries} is run. Oracle: no step panics.

import (
	"bytes"
	"fmt"
	golog "log"
	"runtime/debug"
	"sort"
	"strings"
	"sync"
	"sync/atomic"
	"testing"
	"time"

	"github.com/refraction-networking/conjure/pkg/station/log"
	"pgregory.net/rapid"
	"verif/harness/vh"
)

type c19LConf struct {
	Nil     bool   `json:"nil,omitempty"` // New(nil)
	DurLive string `json:"dur_live"`
	CapLive int    `json:"cap_live"`
	DurNon  string `json:"dur_nonlive"`
	CapNon  int    `json:"cap_nonlive"`
}

type c19LOp struct {
	Kind string `json:"k"` // q | print | printreset | reset | clear | age
	Addr int    `json:"a,omitempty"`
	Live bool   `json:"live,omitempty"`
	Secs int64  `json:"s,omitempty"`
}

type c19LCase struct {
	Conf c19LConf `json:"conf"`
	Ops  []c19LOp `json:"ops"`
}

var c19LDurs = []string{"", "2.0h", "5m", "1ns", "0s", "-5m", "5 minutes", "2h "}
var c19LCaps = []int{0, 1, 3, 100000, -1}

func c19LRecover(f func()) (val string, stack string) {
	defer func() {
		if r := recover(); r != nil {
			val, stack = fmt.Sprint(r), string(debug.Stack())
		}
	}()
	f()
	return "", ""
}

func c19LFrame(stack string) string {
	seen := false
	for _, ln := range strings.Split(stack, "\n") {
		if strings.HasPrefix(ln, "panic(") {
			seen = true
			continue
		}
		if seen && strings.HasPrefix(ln, "\t") && strings.Contains(ln, ".go:") && !strings.Contains(ln, "zz_verif") && !strings.Contains(ln, "/src/runtime/") {
			f := strings.TrimSpace(ln)
			if i := strings.Index(f, " +0x"); i > 0 {
				f = f[:i]
			}
			return f
		}
	}
	return ""
}

func c19LAge(t Tester, d time.Duration) {
	clt, ok := t.(*CachedLivenessTester)
	if !ok {
		return
	}
	for _, c := range []cache{clt.ipCacheLive, clt.ipCacheNonLive} {
		switch x := c.(type) {
		case *mapCache:
			if x == nil {
				continue
			}
			x.m.Lock()
			for _, e := range x.ipCache {
				e.cachedTime = e.cachedTime.Add(-d)
			}
			x.m.Unlock()
		case *lruCache:
			if x == nil {
				continue
			}
			x.m.Lock()
			for _, e := range x.ipCache {
				e.cachedTime = e.cachedTime.Add(-d)
			}
			x.m.Unlock()
		}
	}
}

// c19LRun returns (violation key, message, classes).
func c19LRun(c c19LCase) (string, string, map[string]bool) {
	cls := map[string]bool{}
	var conf *Config
	if !c.Conf.Nil {
		conf = &Config{CacheDuration: c.Conf.DurLive, CacheCapacity: c.Conf.CapLive, CacheDurationNonLive: c.Conf.DurNon, CacheCapacityNonLive: c.Conf.CapNon}
	}
	var t Tester
	var err error
	if v, st := c19LRecover(func() { t, err = New(conf) }); v != "" {
		return "panic:liveness-new", fmt.Sprintf("liveness.New(%+v) panicked: %s [%s]", c.Conf, v, c19LFrame(st)), cls
	}
	if err != nil {
		cls["refused"] = true
		return "", "", cls
	}
	cls["built"] = true
	probeLive := false
	probe := func(string) (bool, error) {
		if probeLive {
			return true, ErrLiveHost
		}
		return false, NotLive
	}
	switch x := t.(type) {
	case *CachedLivenessTester:
		x.phantomIsLive = probe
		switch {
		case x.ipCacheLive != nil && x.ipCacheNonLive != nil:
			cls["cache:both"] = true
		case x.ipCacheLive != nil:
			cls["cache:live-only"] = true
		case x.ipCacheNonLive != nil:
			cls["cache:nonlive-only"] = true
		default:
			cls["cache:none"] = true
		}
		for _, cc := range []cache{x.ipCacheLive, x.ipCacheNonLive} {
			switch cc.(type) {
			case *lruCache:
				cls["cache:lru"] = true
			case *mapCache:
				cls["cache:map"] = true
			}
		}
	case *UncachedLivenessTester:
		x.phantomIsLive = probe
		cls["cache:none"] = true
	default:
		return "harness", fmt.Sprintf("unknown tester type %T", t), cls
	}
	var buf bytes.Buffer
	logger := log.New(&buf, "[STATS] ", golog.Ldate|golog.Lmicroseconds)
	logger.SetLevel(log.TraceLevel)
	for i, o := range c.Ops {
		var v, st string
		what := o.Kind
		switch o.Kind {
		case "q":
			probeLive = o.Live
			addr := fmt.Sprintf("192.0.2.%d", o.Addr)
			v, st = c19LRecover(func() { _, _ = t.PhantomIsLive(addr, 443) })
			what = "query"
		case "print":
			v, st = c19LRecover(func() { t.PrintStats(logger) })
			what = "printstats"
		case "printreset":
			v, st = c19LRecover(func() { t.PrintAndReset(logger) })
			what = "printstats"
		case "reset":
			v, st = c19LRecover(func() { t.Reset() })
		case "clear":
			if clt, ok := t.(*CachedLivenessTester); ok {
				v, st = c19LRecover(func() { clt.ClearExpiredCache() })
			}
		case "age":
			c19LAge(t, time.Duration(o.Secs)*time.Second)
		}
		if v != "" {
			return "panic:liveness-" + what, fmt.Sprintf("step %d (%s) of the liveness tester built from %+v panicked: %s [%s]", i, o.Kind, c.Conf, v, c19LFrame(st)), cls
		}
		if clt, ok := t.(*CachedLivenessTester); ok {
			n := 0
			if clt.ipCacheLive != nil {
				n += clt.ipCacheLive.Len()
			}
			if clt.ipCacheNonLive != nil {
				n += clt.ipCacheNonLive.Len()
			}
			if n > 0 && (o.Kind == "print" || o.Kind == "printreset") {
				cls["printed-with-entries"] = true
			}
		}
	}
	return "", "", cls
}

func c19LCheck(t vh.Fataler, rec *vh.Rec, c c19LCase) {
	key, msg, cls := c19LRun(c)
	var classes []string
	for k := range cls {
		classes = append(classes, k)
	}
	sort.Strings(classes)
	// the shipped file has both lifetimes set and both capacities 0
	nontriv := !(c.Conf.DurLive == "2.0h" && c.Conf.DurNon == "5m" && c.Conf.CapLive == 0 && c.Conf.CapNon == 0 && !c.Conf.Nil)
	rec.Case(nontriv, vh.Digest(c), c, classes...)
	if key == "harness" {
		t.Fatalf("harness problem: %s", msg)
	}
	if key != "" {
		rec.Violation(t, key, c, "%s", msg)
	}
}

var c19LFixedOps = []c19LOp{{Kind: "print"}, {Kind: "printreset"}, {Kind: "q", Addr: 1, Live: true}, {Kind: "q", Addr: 2}, {Kind: "q", Addr: 3, Live: true}, {Kind: "q", Addr: 4},
	{Kind: "q", Addr: 1, Live: true}, {Kind: "print"}, {Kind: "printreset"}, {Kind: "age", Secs: 600}, {Kind: "q", Addr: 2}, {Kind: "clear"}, {Kind: "printreset"},
	{Kind: "age", Secs: 3 * 3600}, {Kind: "clear"}, {Kind: "reset"}, {Kind: "print"}, {Kind: "printreset"}}

// TestVerif_C19_livestats: all combinations of the four liveness keys with a fixed history
// (exhaustive), then rapid-generated histories on drawn combinations.
func TestVerif_C19_livestats(t *testing.T) {
	rec := vh.NewRec("C19", "livestats", "liveness.New on every combination of the 4 liveness settings (lifetime in {unset, 2.0h, 5m, 1ns, 0s, -5m, unusable x2} x capacity in {0, 1, 3, 100000, -1}, for live and non-live; plus no configuration at all) followed by a fixed history (exhaustive part) and rapid-generated histories of {query with scripted verdict, PrintStats, PrintAndReset, Reset, ClearExpiredCache, age entries}; oracle: no step panics; non-trivial = settings differ from the shipped file's; distinct by (settings, history)")
	defer rec.Flush()
	rec.Require("built", "refused", "cache:both", "cache:live-only", "cache:nonlive-only", "cache:none", "cache:lru", "cache:map", "printed-with-entries")
	if p := vh.ReplayFile(); p != "" {
		var c c19LCase
		if _, _, err := vh.LoadReplay(p, &c); err != nil {
			t.Fatal(err)
		}
		c19LCheck(t, rec, c)
		return
	}
	idx := 0
	run := func(c c19LCase) {
		idx++
		if vh.Mine(idx) {
			c19LCheck(t, rec, c)
		}
	}
	run(c19LCase{Conf: c19LConf{Nil: true}, Ops: c19LFixedOps})
	for _, dl := range c19LDurs {
		for _, cl := range c19LCaps {
			for _, dn := range c19LDurs {
				for _, cn := range c19LCaps {
					run(c19LCase{Conf: c19LConf{DurLive: dl, CapLive: cl, DurNon: dn, CapNon: cn}, Ops: c19LFixedOps})
				}
			}
		}
	}
	rec.Extra("enumerated", idx)
	rapid.Check(t, func(rt *rapid.T) {
		var c c19LCase
		c.Conf = c19LConf{
			DurLive: rapid.SampledFrom(c19LDurs).Draw(rt, "dl"), CapLive: rapid.SampledFrom(c19LCaps).Draw(rt, "cl"),
			DurNon: rapid.SampledFrom(c19LDurs).Draw(rt, "dn"), CapNon: rapid.SampledFrom(c19LCaps).Draw(rt, "cn"),
		}
		n := rapid.IntRange(1, 40).Draw(rt, "n")
		for i := 0; i < n; i++ {
			o := c19LOp{Kind: rapid.SampledFrom([]string{"q", "q", "q", "print", "printreset", "reset", "clear", "age"}).Draw(rt, "k")}
			switch o.Kind {
			case "q":
				o.Addr = rapid.IntRange(1, 6).Draw(rt, "a")
				o.Live = rapid.Bool().Draw(rt, "live")
			case "age":
				o.Secs = rapid.SampledFrom([]int64{1, 299, 301, 7199, 7201}).Draw(rt, "s")
			}
			c.Ops = append(c.Ops, o)
		}
		c.Ops = append(c.Ops, c19LOp{Kind: "print"}, c19LOp{Kind: "printreset"})
		c19LCheck(rt, rec, c)
	})
}

// TestVerif_C19_liverace (built with -race): the liveness module's PrintAndReset / PrintStats in a
// tight loop (the statistics tick) while workers query the tester (scripted probe: verdict a pure
// function of the address) and the cache is aged and cleared. Oracle: no recovered panic; a race
// report or runtime fatal error fails the binary (vcheck reports the crash).
func TestVerif_C19_liverace(t *testing.T) {
	rec := vh.NewRec("C19", "liverace", "race-detector build: every liveness tester kind (no cache, live-only, non-live-only, both; map and LRU with capacity 1/3/100000) x a statistics-tick goroutine looping PrintAndReset/PrintStats while 4 workers issue queries over 1-40 addresses (verdict = function of the address) and one goroutine clears expired entries (1ns lifetimes expire by themselves); work bounded by operation counts; oracle: no panic, no race report; non-trivial = settings differ from the shipped file's; distinct by settings")
	defer rec.Flush()
	rec.Require("cache:both", "cache:live-only", "cache:nonlive-only", "cache:none", "ticks-ran-during-activity")
	var buf bytes.Buffer
	_ = buf
	idx := 0
	for _, dl := range []string{"", "2.0h", "1ns"} {
		for _, cl := range []int{0, 1, 3, 100000} {
			for _, dn := range []string{"", "5m", "1ns"} {
				for _, cn := range []int{0, 1, 3} {
					idx++
					if !vh.Mine(idx) {
						continue
					}
					conf := c19LConf{DurLive: dl, CapLive: cl, DurNon: dn, CapNon: cn}
					c := c19LCase{Conf: conf}
					tst, err := New(&Config{CacheDuration: dl, CacheCapacity: cl, CacheDurationNonLive: dn, CacheCapacityNonLive: cn})
					if err != nil {
						t.Fatalf("harness problem: %v", err)
					}
					probe := func(a string) (bool, error) {
						if len(a)%2 == 0 {
							return true, ErrLiveHost
						}
						return false, NotLive
					}
					cls := []string{}
					switch x := tst.(type) {
					case *CachedLivenessTester:
						x.phantomIsLive = probe
						switch {
						case x.ipCacheLive != nil && x.ipCacheNonLive != nil:
							cls = append(cls, "cache:both")
						case x.ipCacheLive != nil:
							cls = append(cls, "cache:live-only")
						default:
							cls = append(cls, "cache:nonlive-only")
						}
					case *UncachedLivenessTester:
						x.phantomIsLive = probe
						cls = append(cls, "cache:none")
					}
					logger := log.New(discardWriter{}, "[STATS] ", golog.Ldate|golog.Lmicroseconds)
					logger.SetLevel(log.TraceLevel)
					var stop int32
					var ticks int64
					var mu sync.Mutex
					var fails []string
					guard := func(who string, f func()) {
						if v, st := c19LRecover(f); v != "" {
							mu.Lock()
							fails = append(fails, fmt.Sprintf("%s: %s [%s]", who, v, c19LFrame(st)))
							mu.Unlock()
						}
					}
					var workers, printer sync.WaitGroup
					printer.Add(1)
					go func() {
						defer printer.Done()
						guard("stats-tick", func() {
							for atomic.LoadInt32(&stop) == 0 {
								tst.PrintAndReset(logger)
								tst.PrintStats(logger)
								atomic.AddInt64(&ticks, 1)
							}
						})
					}()
					n := vh.Pick(200, 4000)
					for g := 0; g < 4; g++ {
						g := g
						workers.Add(1)
						go func() {
							defer workers.Done()
							guard("query", func() {
								for i := 0; i < n; i++ {
									_, _ = tst.PhantomIsLive(fmt.Sprintf("192.0.2.%d", (i*7+g)%40+1), 443)
								}
							})
						}()
					}
					workers.Add(1)
					go func() {
						defer workers.Done()
						guard("clear", func() {
							if clt, ok := tst.(*CachedLivenessTester); ok {
								// no ageing here: cache elements are immutable once stored and Lookup reads
								// them outside the lock, so shifting times concurrently would be a race
								// of the harness's making; the "1ns" lifetimes expire by themselves
								for i := 0; i < n/4+1; i++ {
									clt.ClearExpiredCache()
								}
							}
						})
					}()
					workers.Wait()
					atomic.StoreInt32(&stop, 1)
					printer.Wait()
					if atomic.LoadInt64(&ticks) > 1 {
						cls = append(cls, "ticks-ran-during-activity")
					}
					sort.Strings(cls)
					nontriv := !(dl == "2.0h" && dn == "5m" && cl == 0 && cn == 0)
					rec.Case(nontriv, vh.Digest(c), c, cls...)
					sort.Strings(fails)
					for _, f := range fails {
						rec.Violation(t, "panic:concurrent:liveness", c, "liveness tester built from %+v, statistics printed concurrently with queries: %s", conf, f)
					}
				}
			}
		}
	}
	rec.SetExhaustive(true)
}

type discardWriter struct{}

func (discardWriter) Write(p []byte) (int, error) { return len(p), nil }
