package regprocessor

// C12 — sub-checks at the RegProcessor entry points (RegisterBidirectional / RegisterUnidirectional).
// Case type, generators, environment and oracle live in zz_verif_c12_core.go.

import (
	"sort"
	"testing"

	"pgregory.net/rapid"
	"verif/harness/vh"
)

// c12Report records one evaluated case and reports its findings.
func c12Report(t vh.Fataler, rec *vh.Rec, c any, res C12Result) {
	if res.Harness != "" {
		t.Fatalf("harness problem: %s", res.Harness)
		return
	}
	cl := append([]string(nil), res.Classes...)
	sort.Strings(cl)
	rec.Case(res.NonTrivial, vh.Digest(c), c, cl...)
	for _, f := range res.Findings {
		rec.Violation(t, f.Key, c, "%s", f.Msg)
	}
}

func TestVerif_C12_bidir(t *testing.T) {
	rec := vh.NewRec("C12", "bidir", "rapid-generated (phantom subnet file x registrar configuration x one hostile client request) through RegisterBidirectional with a recording ZMQ sender; the forwarded bytes are ingested by a station built from the same subnet file; non-trivial = the request was accepted and a forged registrar-only field, a parameter override or a substituted phantom is present; distinct by whole case")
	defer rec.Flush()
	defer func() { rec.Extra("open_fds_at_end_sum_over_shards", C12OpenFDs()) }()
	rec.Require("accepted", "refused", "forged-response", "forged-signature-fields", "authenticated", "unauthenticated",
		"built-by-exported-constructor:auth=true", "built-by-exported-constructor:auth=false",
		"param-override", "overrides-disabled-and-configured", "substituted:Min_Transport", "substituted:Prefix_Transport",
		"substituted-from-subnet-written-non-canonically", "original-in-exclusion", "exclusion-decisive:unlabelled", "exclusion-decisive:labelled-own-transport", "exclusion-decisive:labelled-other-transport",
		"station-v4", "station-v6", "dual-stack", "forwarded-source-not-bidirectional-and-registrar-changed-something",
		"forwarded-source:API", "forwarded-source:DNS", "forwarded-source:DetectorPrescan", "forwarded-source:Detector", "forwarded-source:BidirectionalAPI", "forwarded-source:BidirectionalDNS")
	e := C12NewEnv(t)
	if p := vh.ReplayFile(); p != "" {
		var c C12Case
		if _, _, err := vh.LoadReplay(p, &c); err != nil {
			t.Fatal(err)
		}
		c12Report(t, rec, c, C12Run(e, c, C12DirectEntry))
		return
	}
	rapid.Check(t, func(rt *rapid.T) {
		c := C12Gen(rt, true)
		c12Report(rt, rec, c, C12Run(e, c, C12DirectEntry))
	})
}

func TestVerif_C12_unidir(t *testing.T) {
	rec := vh.NewRec("C12", "unidir", "rapid-generated (phantom subnet file x registrar configuration x one hostile client request) through RegisterUnidirectional; the forwarded message must carry no response / signature fields and the client's payload unchanged, and a station ingesting it must end with the phantom its own selector derives; non-trivial = accepted and a forged registrar-only field was present; distinct by whole case")
	defer rec.Flush()
	defer func() { rec.Extra("open_fds_at_end_sum_over_shards", C12OpenFDs()) }()
	rec.Require("accepted", "forged-response", "forged-signature-fields", "authenticated", "unauthenticated", "station-v4", "station-v6")
	e := C12NewEnv(t)
	if p := vh.ReplayFile(); p != "" {
		var c C12Case
		if _, _, err := vh.LoadReplay(p, &c); err != nil {
			t.Fatal(err)
		}
		c12Report(t, rec, c, C12Run(e, c, C12DirectEntry))
		return
	}
	rapid.Check(t, func(rt *rapid.T) {
		c := C12Gen(rt, false)
		c12Report(rt, rec, c, C12Run(e, c, C12DirectEntry))
	})
}
