package regprocessor

// C13 — uncontrolled stress (built with -race): request goroutines run flat out against one goroutine
// that reloads the subnet file again and again (valid files with disjoint subnets, an unreadable path,
// an invalid file). A watchdog decides about stalls: only a goroutine dump in which *every* live
// worker and the reloader sit in a sync lock wait (a closed system that nobody can wake), unchanged
// with zero progress over a further wait, is reported as a violation; running out of patience
// without that pattern is a harness problem.

import (
	"fmt"
	"net"
	"os"
	"sort"
	"strings"
	"sync"
	"sync/atomic"
	"testing"
	"time"

	"github.com/refraction-networking/conjure/pkg/phantoms"
	pb "github.com/refraction-networking/conjure/proto"
	"verif/harness/vh"
)

type c13StressCase struct {
	Workers int    `json:"workers"`
	Reloads int    `json:"reloads"`
	Note    string `json:"note,omitempty"`
}

type c13StressSample struct {
	Worker     int    `json:"worker"`
	Seq        int    `json:"seq"`
	Kind       string `json:"kind"`
	Overlapped bool   `json:"overlapped_a_reload"`
	Set        int    `json:"answered_from_set"`
}

type c13StressViol struct {
	key, msg string
}

func TestVerif_C13_stress(t *testing.T) {
	rec := vh.NewRec("C13", "stress", "uncontrolled goroutines under the race detector: W request loops (dual/dualx/dualalt/v4/v6/badgen/v6x in rotation - four of the seven kinds are refused under some or all sets and must return their error -, fresh secret per request) against one loop of R sequential reloads (3 of 5 valid files with subnets disjoint from all others, 1 unreadable path, 1 invalid file), each reload followed by a probe request; every answer must come from one set that was installed (or being installed) during the request; watchdog on stalls; non-trivial = a request during which a reload started, ran or ended; distinct by (worker, sequence number)")
	defer rec.Flush()
	e := c13NewEnv(t)
	shard, _ := vh.Shard()
	c := c13StressCase{Workers: 6 + 5*shard, Reloads: vh.Pick(2500, 20000)}
	if vh.ReplayFile() != "" {
		c.Note = "stress runs are not replayable step by step; the scenario is simply run again"
	} else {
		rec.Require("overlapped-a-reload", "reload-ok", "reload-failed", "dual", "v4", "v6", "badgen", "v6x", "dualx", "dualalt", "refused", "overlapped-refused", "overlapped-answered-from-new-set", "overlapped-answered-from-old-set")
	}

	// plan of reloads, fixed in advance: setAfter[i] = set installed after the first i reloads
	type step struct {
		kind   string
		target int
	}
	plan := make([]step, c.Reloads)
	setAfter := make([]int, c.Reloads+1)
	cur := 0
	for i := range plan {
		switch i % 5 {
		case 2:
			plan[i] = step{kind: "missing"}
		case 4:
			plan[i] = step{kind: "garbage"}
		default:
			cur = (cur + 1) % c13NSets
			plan[i] = step{kind: "new", target: cur}
		}
		setAfter[i+1] = cur
	}

	sel0, err := phantoms.SubnetsFromTomlFile(e.files[0])
	if err != nil {
		t.Fatalf("harness problem: %v", err)
	}
	p := e.newRP(sel0)

	var (
		stop     atomic.Bool
		progress atomic.Int64
		started  atomic.Int64 // reloads started
		finished atomic.Int64 // reloads finished
		gmu      sync.Mutex
		gids     = map[int64]string{}
		viol     = make(chan c13StressViol, 64)
		wg       sync.WaitGroup
		done     = make(chan struct{})
	)
	report := func(k, m string) {
		select {
		case viol <- c13StressViol{k, m}:
		default:
		}
	}
	register := func(name string) {
		gmu.Lock()
		gids[c13Gid()] = name
		gmu.Unlock()
	}
	call := func(secret []byte, kind string) (resp *pb.RegistrationResponse, err error, pan string) {
		defer func() {
			if r := recover(); r != nil {
				pan = fmt.Sprint(r)
			}
		}()
		resp, err = p.RegisterBidirectional(c13Request(secret, kind), pb.RegistrationSource_BidirectionalAPI, net.ParseIP("198.51.100.9").To4())
		return
	}

	for w := 0; w < c.Workers; w++ {
		wg.Add(1)
		go func(w int) {
			defer wg.Done()
			register(fmt.Sprintf("worker%d", w))
			for seq := 0; !stop.Load(); seq++ {
				kind := c13AllReqKinds[(w+seq)%len(c13AllReqKinds)]
				f0 := finished.Load()
				resp, err, pan := call(c13Secret("stress", w, seq), kind)
				s1 := started.Load()
				progress.Add(1)
				if pan != "" {
					report("request-panic", fmt.Sprintf("worker %d request %d [%s] panicked: %s", w, seq, kind, pan))
					return
				}
				var window []int
				for j := f0; j <= s1; j++ {
					window = append(window, setAfter[j])
				}
				set, refused, k, m := e.c13Judge(kind, resp, err, window)
				if k != "" {
					report(k, fmt.Sprintf("worker %d request %d [%s] (reloads finished before it started: %d, started before it ended: %d): %s", w, seq, kind, f0, s1, m))
					return
				}
				if refused {
					cl := []string{kind, "refused"}
					if s1 > f0 {
						cl = append(cl, "overlapped-a-reload", "overlapped-refused")
					}
					rec.Case(s1 > f0, vh.Digest(fmt.Sprintf("%d/%d", w, seq)), c13StressSample{w, seq, kind, s1 > f0, -1}, cl...)
					continue
				}
				ok := false
				for j := f0; j <= s1; j++ {
					if setAfter[j] == set {
						ok = true
					}
				}
				if !ok {
					report("stale-set", fmt.Sprintf("worker %d request %d [%s] was answered from set %d, but the sets installed or being installed during the request were %v", w, seq, kind, set, setAfter[f0:s1+1]))
					return
				}
				over := s1 > f0
				classes := []string{kind}
				if over {
					classes = append(classes, "overlapped-a-reload")
					if set != setAfter[f0] {
						classes = append(classes, "overlapped-answered-from-new-set")
					} else if setAfter[s1] != setAfter[f0] {
						classes = append(classes, "overlapped-answered-from-old-set")
					}
				}
				rec.Case(over, vh.Digest(fmt.Sprintf("%d/%d", w, seq)), c13StressSample{w, seq, kind, over, set}, classes...)
			}
		}(w)
	}
	wg.Add(1)
	go func() {
		defer wg.Done()
		defer close(done)
		register("reloader")
		for i, st := range plan {
			if stop.Load() {
				return
			}
			path := e.missing
			switch st.kind {
			case "new":
				path = e.files[st.target]
			case "garbage":
				path = e.garbage
			}
			os.Setenv("PHANTOM_SUBNET_LOCATION", path)
			started.Add(1)
			var rerr error
			pan := ""
			func() {
				defer func() {
					if r := recover(); r != nil {
						pan = fmt.Sprint(r)
					}
				}()
				rerr = p.ReloadSubnets()
			}()
			finished.Add(1)
			progress.Add(1)
			if pan != "" {
				report("reload-panic", fmt.Sprintf("reload %d [%s] panicked: %s", i, st.kind, pan))
				return
			}
			if st.kind == "new" && rerr != nil {
				report("reload-error", fmt.Sprintf("reload %d of a valid subnet file failed: %v", i, rerr))
				return
			}
			if rerr != nil {
				rec.Class("reload-failed")
			} else {
				rec.Class("reload-ok")
			}
			// probe: the set in effect after the reload returned
			resp, err, ppan := call(c13Secret("stress-probe", i, 0), "dual")
			progress.Add(1)
			if ppan != "" {
				report("request-panic", fmt.Sprintf("request after reload %d [%s] panicked: %s", i, st.kind, ppan))
				return
			}
			set, _, k, m := e.c13Judge("dual", resp, err, nil)
			if k != "" {
				report(k, fmt.Sprintf("request after reload %d [%s]: %s", i, st.kind, m))
				return
			}
			if set != setAfter[i+1] {
				report("final-set", fmt.Sprintf("after reload %d [%s, returned %v] the registrar answers from set %d, expected set %d", i, st.kind, rerr, set, setAfter[i+1]))
				return
			}
		}
	}()

	// ---- watchdog ---------------------------------------------------------------------------
	lockedUp := func() (bool, string) {
		d := c13Dump()
		gmu.Lock()
		defer gmu.Unlock()
		n := 0
		hist := map[string]int{}
		for id, name := range gids {
			g, ok := d[id]
			if !ok {
				continue // finished
			}
			if !g.blocked() {
				return false, fmt.Sprintf("%s is in state %q", name, g.state)
			}
			n++
			hist[g.where()]++
		}
		if n == 0 {
			return false, "no live goroutine"
		}
		var parts []string
		for k, v := range hist {
			parts = append(parts, fmt.Sprintf("%d x %s", v, k))
		}
		sort.Strings(parts)
		return true, strings.Join(parts, "; ")
	}
	const patience = 120 * time.Second
	last, lastChange := int64(-1), time.Now()
	tick := time.NewTicker(50 * time.Millisecond)
	defer tick.Stop()
	var v *c13StressViol
	harness := ""
loop:
	for {
		select {
		case x := <-viol:
			v = &x
			break loop
		case <-done:
			break loop
		case <-tick.C:
		}
		if pr := progress.Load(); pr != last {
			last, lastChange = pr, time.Now()
			continue
		}
		if time.Since(lastChange) < time.Second {
			continue
		}
		if up, what := lockedUp(); up {
			// confirm: zero progress and the same picture after a further generous wait
			time.Sleep(3 * time.Second)
			up2, what2 := lockedUp()
			if up2 && progress.Load() == last {
				v = &c13StressViol{"stall", fmt.Sprintf("registrar blocked for good after %d reloads and %d completed operations: every request goroutine and the reloader are in a lock wait, unchanged over 3 s: %s", finished.Load(), last, what2)}
				break loop
			}
			_ = what
			continue
		}
		if time.Since(lastChange) > patience {
			_, what := lockedUp()
			harness = fmt.Sprintf("no progress for %v but the goroutines are not all in lock waits (%s)", patience, what)
			break loop
		}
	}
	stop.Store(true)
	if v == nil && harness == "" {
		fin := make(chan struct{})
		go func() { wg.Wait(); close(fin) }()
		select {
		case <-fin:
		case <-time.After(patience):
			harness = "workers did not stop"
		}
		select {
		case x := <-viol:
			v = &x
		default:
		}
	}
	rec.Extra("reloads_done", finished.Load())
	rec.Extra("workers", c.Workers)
	if harness != "" {
		t.Fatalf("harness problem: %s", harness)
	}
	if v != nil {
		// after a stall the blocked goroutines are abandoned (they leak until the process exits)
		rec.Violation(t, v.key, c, "%s", v.msg)
	}
}
