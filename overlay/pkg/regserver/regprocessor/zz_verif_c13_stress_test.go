package regprocessor

// C13 — uncontrolled stress (built with -race): request goroutines run flat out against one goroutine
// that reloads the subnet file again and again (valid files with disjoint subnets, an unreadable path,
// an invalid file). A watchdog decides about stalls: only a goroutine dump in which *every* live
// worker and the reloader sit in a sync lock wait (a closed system that nobody can wake), unchanged
// with zero progress over a further wait, is reported as a violation; running out of patience
// without that pattern is a harness problem.

import (
	"fmt"
	"net"
	"os"
	"sort"
	"strings"
	"sync"
	"sync/atomic"
	"testing"
	"time"

	"github.com/refraction-networking/conjure/pkg/phantoms"
	pb "github.com/refraction-networking/conjure/proto"
	"verif/harness/vh"
)

type c13StressCase struct {
	Workers int    `json:"workers"`
	Reloads int    `json:"reloads"`
	Note    string `json:"note,omitempty"`
}

type c13StressSample struct {
	Worker     int    `json:"worker"`
	Seq        int    `json:"seq"`
	Kind       string `json:"kind"`
	Overlapped bool   `json:"overlapped_a_reload"`
	Set        int    `json:"answered_from_set"`
}

type c13StressViol struct {
	key, msg string
}

func TestVerif_C13_stress(t *testing.T) {
	rec := vh.NewRec("C13", "stress", "uncontrolled goroutines under the race detector: W request loops (dual/dualx/dualalt/v4/v6/badgen/v6x in rotation - four of the seven kinds are refused under some or all sets and must return their error -, fresh secret per request) against one loop of R sequential reloads (the first 24 valid ones under a saturating load of 32 request goroutines; then per 7: 4 valid files with subnets disjoint from all others, 1 unreadable path, 1 invalid file, 1 file that parses but defines no usable generation), each reload followed by a probe request; a reload that is still running after 50 000 registrations have been answered since it started (and 10 s) is stopped-load-confirmed and reported as starved; every answer must come from one set that was installed (or being installed) during the request; watchdog on stalls; non-trivial = a request during which a reload started, ran or ended; distinct by (worker, sequence number)")
	defer rec.Flush()
	e := c13NewEnv(t)
	shard, _ := vh.Shard()
	c := c13StressCase{Workers: 6 + 5*shard, Reloads: vh.Pick(2500, 20000)}
	if vh.ReplayFile() != "" {
		c.Note = "stress runs are not replayable step by step; the scenario is simply run again"
	} else {
		rec.Require("overlapped-a-reload", "reload-ok", "reload-failed", "dual", "v4", "v6", "badgen", "v6x", "dualx", "dualalt", "refused", "overlapped-refused", "overlapped-answered-from-new-set", "overlapped-answered-from-old-set", "reload-empty-family", "reload-under-saturating-load", "refused-by-empty-set")
	}

	// plan of reloads, fixed in advance: setAfter[i] = set installed after the first i reloads
	type step struct {
		kind   string
		target int
	}
	// The first sat reloads (all valid) run against a saturating load of 32 request goroutines: the
	// registrar is never idle then, so a reload that only completes when no request is in flight
	// never returns. After that the load drops to the W checked loops and the reloads rotate through
	// valid / unreadable / invalid / parses-but-defines-nothing (setAfter >= c13EmptyBase: the
	// unchanged tree installs that empty set and refuses everything until the next good reload;
	// keeping the old set, good[i], is accepted as well).
	const sat = 24
	plan := make([]step, c.Reloads)
	setAfter := make([]int, c.Reloads+1)
	good := make([]int, c.Reloads+1)
	cur := 0
	for i := range plan {
		installed := -1
		switch {
		case i >= sat && i%7 == 2:
			plan[i] = step{kind: "missing"}
		case i >= sat && i%7 == 4:
			plan[i] = step{kind: "garbage"}
		case i >= sat && i%7 == 6:
			plan[i] = step{kind: c13EmptyKinds[(i/7)%len(c13EmptyKinds)]}
			installed = c13EmptyBase + cur
		default:
			cur = (cur + 1) % c13NSets
			plan[i] = step{kind: "new", target: cur}
			installed = cur
		}
		if installed < 0 {
			installed = setAfter[i] // a failing reload changes nothing
		}
		setAfter[i+1] = installed
		good[i+1] = cur
	}
	// every set a request may have been served from while reloads f0+1..s1 started and reloads up to f0 had finished
	windowOf := func(f0, s1 int64) []int {
		var w []int
		for j := f0; j <= s1; j++ {
			w = append(w, setAfter[j])
			if setAfter[j] >= c13EmptyBase {
				w = append(w, good[j])
			}
		}
		return w
	}

	sel0, err := phantoms.SubnetsFromTomlFile(e.files[0])
	if err != nil {
		t.Fatalf("harness problem: %v", err)
	}
	p := e.newRP(sel0)

	var (
		stop     atomic.Bool
		progress atomic.Int64
		started  atomic.Int64 // reloads started
		finished atomic.Int64 // reloads finished
		gmu      sync.Mutex
		gids     = map[int64]string{}
		reqDone  atomic.Int64 // answered registrations of all request loops
		satOps   atomic.Int64
		relRun   atomic.Bool  // a reload is running ...
		relIdx   atomic.Int64 // ... this one ...
		relReq   atomic.Int64 // ... reqDone when it started ...
		relT     atomic.Int64 // ... and the time
		relGid   atomic.Int64
		viol     = make(chan c13StressViol, 64)
		wg       sync.WaitGroup
		done     = make(chan struct{})
	)
	report := func(k, m string) {
		select {
		case viol <- c13StressViol{k, m}:
		default:
		}
	}
	register := func(name string) {
		gmu.Lock()
		gids[c13Gid()] = name
		gmu.Unlock()
	}
	call := func(secret []byte, kind string) (resp *pb.RegistrationResponse, err error, pan string) {
		defer func() {
			if r := recover(); r != nil {
				pan = fmt.Sprint(r)
			}
		}()
		resp, err = p.RegisterBidirectional(c13Request(secret, kind), pb.RegistrationSource_BidirectionalAPI, net.ParseIP("198.51.100.9").To4())
		return
	}

	nSat := 32 - c.Workers
	if nSat < 0 {
		nSat = 0
	}
	for w := 0; w < c.Workers+nSat; w++ {
		wg.Add(1)
		go func(w int) {
			defer wg.Done()
			satur := w >= c.Workers
			register(fmt.Sprintf("worker%d", w))
			for seq := 0; !stop.Load(); seq++ {
				if satur && finished.Load() >= sat {
					satOps.Add(int64(seq))
					return
				}
				kind := c13AllReqKinds[(w+seq)%len(c13AllReqKinds)]
				f0 := finished.Load()
				resp, err, pan := call(c13Secret("stress", w, seq), kind)
				s1 := started.Load()
				progress.Add(1)
				if pan != "" {
					report("request-panic", fmt.Sprintf("worker %d request %d [%s] panicked: %s", w, seq, kind, pan))
					return
				}
				reqDone.Add(1)
				window := windowOf(f0, s1)
				set, refused, k, m := e.c13Judge(kind, resp, err, window)
				if k != "" {
					report(k, fmt.Sprintf("worker %d request %d [%s] (reloads finished before it started: %d, started before it ended: %d): %s", w, seq, kind, f0, s1, m))
					return
				}
				if satur {
					if !refused {
						okSet := false
						for _, x := range window {
							okSet = okSet || x == set
						}
						if !okSet {
							report("stale-set", fmt.Sprintf("worker %d request %d [%s] was answered from set %d, but the sets installed or being installed during the request were %v", w, seq, kind, set, window))
							return
						}
					}
					continue // the saturating loops are judged but not recorded one by one
				}
				if refused {
					cl := []string{kind, "refused"}
					if s1 > f0 {
						cl = append(cl, "overlapped-a-reload", "overlapped-refused")
					}
					rec.Case(s1 > f0, vh.Digest(fmt.Sprintf("%d/%d", w, seq)), c13StressSample{w, seq, kind, s1 > f0, -1}, cl...)
					continue
				}
				ok := false
				for _, x := range window {
					ok = ok || x == set
				}
				if !ok {
					report("stale-set", fmt.Sprintf("worker %d request %d [%s] was answered from set %d, but the sets installed or being installed during the request were %v", w, seq, kind, set, window))
					return
				}
				over := s1 > f0
				classes := []string{kind}
				if over {
					classes = append(classes, "overlapped-a-reload")
					if set != setAfter[f0] {
						classes = append(classes, "overlapped-answered-from-new-set")
					} else if setAfter[s1] != setAfter[f0] {
						classes = append(classes, "overlapped-answered-from-old-set")
					}
				}
				rec.Case(over, vh.Digest(fmt.Sprintf("%d/%d", w, seq)), c13StressSample{w, seq, kind, over, set}, classes...)
			}
		}(w)
	}
	wg.Add(1)
	go func() {
		defer wg.Done()
		defer close(done)
		register("reloader")
		relGid.Store(c13Gid())
		begin := time.Now()
		budget := time.Duration(vh.Pick(40, 300)) * time.Second
		for i, st := range plan {
			if stop.Load() {
				return
			}
			if i >= sat && time.Since(begin) > budget {
				// explored less, never a failure
				rec.Note("wall-clock allowance of %v used up after %d of %d reloads", budget, i, len(plan))
				return
			}
			path := e.missing
			switch st.kind {
			case "new":
				path = e.files[st.target]
			case "garbage":
				path = e.garbage
			case "missing":
			default:
				path = e.emptyFiles[st.kind]
			}
			os.Setenv("PHANTOM_SUBNET_LOCATION", path)
			relIdx.Store(int64(i))
			relReq.Store(reqDone.Load())
			relT.Store(time.Now().UnixNano())
			relRun.Store(true)
			started.Add(1)
			var rerr error
			pan := ""
			func() {
				defer func() {
					if r := recover(); r != nil {
						pan = fmt.Sprint(r)
					}
				}()
				rerr = p.ReloadSubnets()
			}()
			relRun.Store(false)
			finished.Add(1)
			progress.Add(1)
			if pan != "" {
				report("reload-panic", fmt.Sprintf("reload %d [%s] panicked: %s", i, st.kind, pan))
				return
			}
			if st.kind == "new" && rerr != nil {
				report("reload-error", fmt.Sprintf("reload %d of a valid subnet file failed: %v", i, rerr))
				return
			}
			if rerr != nil {
				rec.Class("reload-failed")
			} else {
				rec.Class("reload-ok")
			}
			if setAfter[i+1] >= c13EmptyBase {
				rec.Class("reload-empty-family")
			}
			if i < sat {
				rec.Class("reload-under-saturating-load")
			}
			// probe: the set in effect after the reload returned
			resp, err, ppan := call(c13Secret("stress-probe", i, 0), "dual")
			progress.Add(1)
			if ppan != "" {
				report("request-panic", fmt.Sprintf("request after reload %d [%s] panicked: %s", i, st.kind, ppan))
				return
			}
			var pw []int
			if setAfter[i+1] >= c13EmptyBase {
				pw = []int{setAfter[i+1]}
			}
			set, prefused, k, m := e.c13Judge("dual", resp, err, pw)
			if k != "" {
				report(k, fmt.Sprintf("request after reload %d [%s]: %s", i, st.kind, m))
				return
			}
			if prefused || (setAfter[i+1] >= c13EmptyBase && set == good[i+1]) {
				if prefused {
					rec.Class("refused-by-empty-set")
				}
				continue
			}
			if set != setAfter[i+1] {
				report("final-set", fmt.Sprintf("after reload %d [%s, returned %v] the registrar answers from set %d, expected set %d", i, st.kind, rerr, set, setAfter[i+1]))
				return
			}
		}
	}()

	// ---- watchdog ---------------------------------------------------------------------------
	lockedUp := func() (bool, string) {
		d := c13Dump()
		gmu.Lock()
		defer gmu.Unlock()
		n := 0
		hist := map[string]int{}
		for id, name := range gids {
			g, ok := d[id]
			if !ok {
				continue // finished
			}
			if !g.blocked() {
				return false, fmt.Sprintf("%s is in state %q", name, g.state)
			}
			n++
			hist[g.where()]++
		}
		if n == 0 {
			return false, "no live goroutine"
		}
		var parts []string
		for k, v := range hist {
			parts = append(parts, fmt.Sprintf("%d x %s", v, k))
		}
		sort.Strings(parts)
		return true, strings.Join(parts, "; ")
	}
	const patience = 120 * time.Second
	last, lastChange := int64(-1), time.Now()
	tick := time.NewTicker(50 * time.Millisecond)
	defer tick.Stop()
	var v *c13StressViol
	harness := ""
loop:
	for {
		select {
		case x := <-viol:
			v = &x
			break loop
		case <-done:
			break loop
		case <-tick.C:
		}
		if relRun.Load() {
			idx, since, el := relIdx.Load(), reqDone.Load()-relReq.Load(), time.Duration(time.Now().UnixNano()-relT.Load())
			if relRun.Load() && relIdx.Load() == idx && ((since >= 50000 && el >= 10*time.Second) || (since >= 1000 && el >= 60*time.Second)) {
				// One reload has been running while tens of thousands of registrations were answered.
				// Stop the load and see whether it returns then.
				stop.Store(true)
				t0 := time.Now()
				for finished.Load() <= idx && time.Since(t0) < 60*time.Second {
					time.Sleep(10 * time.Millisecond)
				}
				head := fmt.Sprintf("reload %d [%s] had not returned after %v during which %d registrations were answered (every one of them correctly)", idx, plan[idx].kind, el.Round(time.Millisecond), since)
				if finished.Load() > idx {
					v = &c13StressViol{"stall:reload-starved", fmt.Sprintf("%s; it returned %v after the request load was stopped: the reload completes only when the registrar is idle, continuous traffic starves it", head, time.Since(t0).Round(time.Millisecond))}
				} else if g := c13Dump()[relGid.Load()]; g.blocked() {
					v = &c13StressViol{"stall", fmt.Sprintf("%s and not within 60 s after the request load was stopped either; it waits in %s", head, g.where())}
				} else {
					v = &c13StressViol{"stall:reload-starved", fmt.Sprintf("%s and not within 60 s after the request load was stopped either; its goroutine is in state %q", head, g.state)}
				}
				break loop
			}
		}
		if pr := progress.Load(); pr != last {
			last, lastChange = pr, time.Now()
			continue
		}
		if time.Since(lastChange) < time.Second {
			continue
		}
		if up, what := lockedUp(); up {
			// confirm: zero progress and the same picture after a further generous wait
			time.Sleep(3 * time.Second)
			up2, what2 := lockedUp()
			if up2 && progress.Load() == last {
				v = &c13StressViol{"stall", fmt.Sprintf("registrar blocked for good after %d reloads and %d completed operations: every request goroutine and the reloader are in a lock wait, unchanged over 3 s: %s", finished.Load(), last, what2)}
				break loop
			}
			_ = what
			continue
		}
		if time.Since(lastChange) > patience {
			_, what := lockedUp()
			harness = fmt.Sprintf("no progress for %v but the goroutines are not all in lock waits (%s)", patience, what)
			break loop
		}
	}
	stop.Store(true)
	if v == nil && harness == "" {
		fin := make(chan struct{})
		go func() { wg.Wait(); close(fin) }()
		select {
		case <-fin:
		case <-time.After(patience):
			harness = "workers did not stop"
		}
		select {
		case x := <-viol:
			v = &x
		default:
		}
	}
	rec.Extra("reloads_done", finished.Load())
	rec.Extra("workers", c.Workers)
	rec.Extra("requests_of_saturating_loops", satOps.Load())
	if harness != "" {
		t.Fatalf("harness problem: %s", harness)
	}
	if v != nil {
		// after a stall the blocked goroutines are abandoned (they leak until the process exits)
		rec.Violation(t, v.key, c, "%s", v.msg)
	}
}
