package regprocessor

// C13 — the registrar keeps answering while its phantom-subnet configuration is reloaded.
//
// Harness-owned schedules, no hook in /repo:
//
//   - RegProcessor.ipSelector is an interface. The harness installs c13Wrap around the real
//     phantoms.PhantomIPSelector; its Select parks the calling request goroutine on entry and on exit
//     (in the unchanged tree the caller holds selectorMutex.RLock at both moments).
//   - every request (RegisterBidirectional) and every reload (ReloadSubnets) is an actor goroutine.
//     Exactly one move is made at a time: start a request / resume a parked request / start the next
//     reload (reloads are sequential, as in cmd/registration-server/main.go where one goroutine
//     handles SIGHUP). After each move the harness waits until every started actor is in a *stable*
//     state: parked in the wrapper, finished, or blocked in a sync lock wait. "Blocked" is read off the
//     runtime's goroutine dump (wait reason sync.RWMutex.RLock / sync.RWMutex.Lock / sync.Mutex.Lock
//     with the registrar's own code as the caller of the lock operation), and a blocked reload is
//     cross-checked with selectorMutex.TryRLock() (fails while a writer waits). Wake-ups are performed
//     synchronously by the releasing goroutine before it reports its own next event, so a dump taken
//     after the last event reflects every wake-up it caused.
//   - a stall is reported only when no move is enabled, every unfinished actor is blocked, nothing
//     moved during a further generous wait and the dump taken after that wait still shows the lock
//     frames. Anything that moves during that wait means "not a stall" and the schedule goes on; every
//     other harness wait that expires is a harness problem (exit 2), never a verdict.
//   - a schedule is the list of moves (actor names); it is replayable because enabledness of moves is
//     a function of the stable states only.
//   - ReloadSubnets replaces the wrapper with the raw new selector. At the next stable point with no
//     reload in flight (nobody can hold the lock then, see c13Sched.rewrap) the harness wraps the new
//     selector again so that later requests park as well. Requests that were queued behind the
//     writer run through the raw selector without parking; that interleaving is the same as the one
//     where the request starts after the reload.
//
// Oracle (exactly the property): every request and every reload completes; the phantoms of one
// response all lie in one of the pairwise-disjoint sets S0,S1,... and that set is not older than the
// one installed when the request started; a reload of an unreadable / invalid file leaves the set
// unchanged; a reload of a valid file succeeds and is in effect afterwards. Requests whose selection
// fails (unknown generation, IPv6 from a generation without IPv6 subnets) must return their error -
// that is their way of completing - and only when a set in force during the request refuses them;
// every schedule is followed by a request, one more valid reload and another request, so whatever a
// request or reload left behind (a lock not released on an error path) shows as a stall there.

import (
	"bytes"
	"crypto/sha256"
	"encoding/binary"
	"fmt"
	"hash/fnv"
	"io"
	"net"
	"os"
	"path/filepath"
	"runtime"
	"runtime/debug"
	"sort"
	"strconv"
	"strings"
	"sync"
	"sync/atomic"
	"testing"
	"time"

	zmq "github.com/pebbe/zmq4"
	"github.com/refraction-networking/conjure/pkg/core"
	"github.com/refraction-networking/conjure/pkg/core/interfaces"
	"github.com/refraction-networking/conjure/pkg/metrics"
	"github.com/refraction-networking/conjure/pkg/phantoms"
	"github.com/refraction-networking/conjure/pkg/regserver/overrides"
	"github.com/refraction-networking/conjure/pkg/transports/wrapping/min"
	pb "github.com/refraction-networking/conjure/proto"
	log "github.com/sirupsen/logrus"
	"google.golang.org/protobuf/proto"
	"pgregory.net/rapid"
	"verif/harness/vh"
)

const (
	c13Generation     = 1  // both families in every set
	c13GenV4Only      = 2  // IPv4 subnets only in every set
	c13GenAlt         = 3  // IPv4 only in even-numbered sets, both families in odd-numbered sets
	c13GenUnknown     = 99 // in no file
	c13NSets          = 8
	c13SettleTimeout  = 45 * time.Second  // harness wait; expiry = harness problem, never a verdict
	c13ParkTimeout    = 180 * time.Second // a parked actor nobody resumes = harness problem
	c13StallWaitLong  = 2 * time.Second   // final generous wait before the first stall of a process is reported
	c13StallWaitNext  = 150 * time.Millisecond
	c13RewrapPatience = 250 * time.Millisecond
)

// ---------------------------------------------------------------------------------------------------
// environment: subnet files, shared metrics object

type c13Env struct {
	dir     string
	files   []string       // files[i] holds set i
	nets    [][]*net.IPNet // nets[i] = the CIDRs of set i (pairwise disjoint over i)
	missing string
	garbage string
	metrics *metrics.Metrics
	// files that are valid TOML but define no usable generation (what a reload sees while the file is
	// being rewritten); the unchanged tree installs them: every registration is refused until the
	// next good reload
	emptyFiles map[string]string
}

var c13EmptyContents = map[string]string{
	"empty":    "",
	"nonet":    "# being rewritten\ntitle = \"phantom subnets\"\n",
	"emptynet": "[Networks]\n",
	"trunc":    "[Networks]\n    [Networks.1]\n        Generation = 1\n        [[Networks.1.WeightedSubnets]]\n            Weight = 1\n",
}

var c13EmptyKinds = []string{"empty", "nonet", "emptynet", "trunc"}

const c13EmptyBase = 1000 // an installed set number t that is empty appears in windows as t+c13EmptyBase

func c13SetCIDRs(i int) [][2]string {
	return [][2]string{
		{fmt.Sprintf("10.%d.0.0/16", 20+i), fmt.Sprintf("2001:db8:%x::/64", 0x100+i)},
		{fmt.Sprintf("172.%d.8.0/24", 16+i), fmt.Sprintf("fd00:%x::/48", 0x200+i)},
	}
}

func c13NewEnv(t testing.TB) *c13Env {
	dir, err := os.MkdirTemp("", "verif-c13-")
	if err != nil {
		t.Fatalf("harness problem: %v", err)
	}
	t.Cleanup(func() { os.RemoveAll(dir) })
	// thousands of tiny cases on a tiny heap: the default pacing spends a third of the time in GC cycles
	oldGC := debug.SetGCPercent(1600)
	t.Cleanup(func() { debug.SetGCPercent(oldGC) })
	l := log.New()
	l.SetOutput(io.Discard)
	e := &c13Env{dir: dir, metrics: metrics.NewMetrics(log.NewEntry(l), 1000*time.Hour)}
	for i := 0; i < c13NSets; i++ {
		var sb strings.Builder
		fmt.Fprintf(&sb, "[Networks]\n    [Networks.%d]\n        Generation = %d\n", c13Generation, c13Generation)
		var nets []*net.IPNet
		addNet := func(s string) {
			_, n, err := net.ParseCIDR(s)
			if err != nil {
				t.Fatalf("harness problem: %v", err)
			}
			nets = append(nets, n)
		}
		for j, g := range c13SetCIDRs(i) {
			fmt.Fprintf(&sb, "        [[Networks.%d.WeightedSubnets]]\n            Weight = %d\n            RandomizeDstPort = %v\n            Subnets = [%q, %q]\n",
				c13Generation, 1+j, j == 0, g[0], g[1])
			addNet(g[0])
			addNet(g[1])
		}
		// generation 2: IPv4 subnets only, in every set
		g2 := fmt.Sprintf("10.%d.0.0/16", 60+i)
		fmt.Fprintf(&sb, "    [Networks.%d]\n        Generation = %d\n        [[Networks.%d.WeightedSubnets]]\n            Weight = 1\n            RandomizeDstPort = true\n            Subnets = [%q]\n",
			c13GenV4Only, c13GenV4Only, c13GenV4Only, g2)
		addNet(g2)
		// generation 3: IPv4 only in the even-numbered sets, both families in the odd-numbered ones
		g3 := []string{fmt.Sprintf("10.%d.0.0/16", 100+i)}
		if i%2 == 1 {
			g3 = append(g3, fmt.Sprintf("2001:db8:%x::/64", 0x300+i))
		}
		fmt.Fprintf(&sb, "    [Networks.%d]\n        Generation = %d\n        [[Networks.%d.WeightedSubnets]]\n            Weight = 1\n            RandomizeDstPort = true\n            Subnets = [%s]\n",
			c13GenAlt, c13GenAlt, c13GenAlt, `"`+strings.Join(g3, `", "`)+`"`)
		for _, x := range g3 {
			addNet(x)
		}
		p := filepath.Join(dir, fmt.Sprintf("set%d.toml", i))
		if err := os.WriteFile(p, []byte(sb.String()), 0o644); err != nil {
			t.Fatalf("harness problem: %v", err)
		}
		e.files = append(e.files, p)
		e.nets = append(e.nets, nets)
	}
	e.emptyFiles = map[string]string{}
	for k, content := range c13EmptyContents {
		p := filepath.Join(dir, k+".toml")
		if err := os.WriteFile(p, []byte(content), 0o644); err != nil {
			t.Fatalf("harness problem: %v", err)
		}
		e.emptyFiles[k] = p
		// anchor: the phantoms package loads such a file and the resulting selector refuses everything
		sel, err := phantoms.SubnetsFromTomlFile(p)
		if err != nil {
			t.Fatalf("harness problem: %s file does not load: %v", k, err)
		}
		if _, err := sel.Select(bytes.Repeat([]byte{7}, 32), c13Generation, uint(core.CurrentClientLibraryVersion()), false); err == nil {
			t.Fatalf("harness problem: selector from the %s file selects", k)
		}
	}
	e.missing = filepath.Join(dir, "does-not-exist.toml")
	e.garbage = filepath.Join(dir, "garbage.toml")
	if err := os.WriteFile(e.garbage, []byte("[Networks\n  this is = = not toml ]]\n\x00\x01"), 0o644); err != nil {
		t.Fatalf("harness problem: %v", err)
	}
	// sanity of the harness' own files: every set loads and selects inside itself, the bad files fail
	for i, f := range e.files {
		sel, err := phantoms.SubnetsFromTomlFile(f)
		if err != nil {
			t.Fatalf("harness problem: set file %d does not load: %v", i, err)
		}
		for _, gen := range []uint{c13Generation, c13GenV4Only, c13GenAlt, c13GenUnknown} {
			for _, v6 := range []bool{false, true} {
				ip, err := sel.Select(bytes.Repeat([]byte{byte(i + 1)}, 32), gen, uint(core.CurrentClientLibraryVersion()), v6)
				wantErr := c13SelectFails(gen, v6, i)
				if (err != nil) != wantErr || (err == nil && e.setOf(*ip.IP()) != i) {
					t.Fatalf("harness problem: set %d generation %d v6=%v selects %v err=%v (failure expected: %v)", i, gen, v6, ip, err, wantErr)
				}
			}
		}
	}
	for _, f := range []string{e.missing, e.garbage} {
		if _, err := phantoms.SubnetsFromTomlFile(f); err == nil {
			t.Fatalf("harness problem: bad file %s loads", f)
		}
	}
	return e
}

func (e *c13Env) setOf(ip net.IP) int {
	for i, ns := range e.nets {
		for _, n := range ns {
			if n.Contains(ip) {
				return i
			}
		}
	}
	return -1
}

type c13Sock struct{}

func (c13Sock) SendBytes(b []byte, _ zmq.Flag) (int, error) { return len(b), nil }
func (c13Sock) Close() error                                { return nil }

// newRP builds a registrar the way the package's own tests do (struct literal, fake ZMQ socket), with
// the production override list and the Min transport.
func (e *c13Env) newRP(sel ipSelector) *RegProcessor {
	p := &RegProcessor{
		ipSelector:    sel,
		sock:          c13Sock{},
		metrics:       e.metrics,
		authenticated: false,
		regOverrides:  interfaces.Overrides([]interfaces.RegOverride{overrides.NewRandPrefixOverride()}),
	}
	_ = p.AddTransport(pb.TransportType_Min, min.Transport{})
	return p
}

func c13Secret(tag string, i, j int) []byte {
	s := sha256.Sum256([]byte(fmt.Sprintf("verif-c13-%s-%d-%d", tag, i, j)))
	return s[:]
}

// Request kinds. The first three always succeed; the others contain a selection that fails (the client
// gets the registrar's ordinary error): "badgen" names a generation the registrar does not know (its
// only Select, the IPv4 one, fails), "v6x" asks for IPv6 only from a generation that has only IPv4
// subnets (one failing Select), "dualx" is dual-stack on that generation (IPv4 Select succeeds, IPv6
// Select fails), "dualalt" is dual-stack on a generation that lacks IPv6 in the even-numbered sets
// only (so it is refused under the old set and answered under the new one, or the other way round).
type c13Kind struct {
	gen    uint32
	v4, v6 bool
}

var c13Kinds = map[string]c13Kind{
	"dual":    {c13Generation, true, true},
	"v4":      {c13Generation, true, false},
	"v6":      {c13Generation, false, true},
	"badgen":  {c13GenUnknown, true, true},
	"v6x":     {c13GenV4Only, false, true},
	"dualx":   {c13GenV4Only, true, true},
	"dualalt": {c13GenAlt, true, true},
}

var c13ReqKinds = []string{"dual", "v4", "v6"}
var c13AllReqKinds = []string{"dual", "dualx", "dualalt", "v4", "v6", "badgen", "v6x"}

// c13SelectFails is the harness' knowledge of its own subnet files: does Select(gen, v6) fail in set i?
func c13SelectFails(gen uint, v6 bool, set int) bool {
	switch gen {
	case c13Generation:
		return false
	case c13GenV4Only:
		return v6
	case c13GenAlt:
		return v6 && set%2 == 0
	}
	return true
}

// c13Refused reports whether a request of this kind is refused when it is served from set i.
func c13Refused(kind string, set int) bool {
	if set >= c13EmptyBase {
		return true
	}
	k := c13Kinds[kind]
	return (k.v4 && c13SelectFails(uint(k.gen), false, set)) || (k.v6 && c13SelectFails(uint(k.gen), true, set))
}

// c13TwoSelects: kinds that can be caught between two selections.
func c13TwoSelects(kind string) bool {
	k := c13Kinds[kind]
	return k.v4 && k.v6 && k.gen != c13GenUnknown
}

func c13Request(secret []byte, kind string) *pb.C2SWrapper {
	tt := pb.TransportType_Min
	k := c13Kinds[kind]
	return &pb.C2SWrapper{
		SharedSecret: secret,
		RegistrationPayload: &pb.ClientToStation{
			Transport:           &tt,
			DecoyListGeneration: proto.Uint32(k.gen),
			CovertAddress:       proto.String("192.0.2.77:443"),
			V4Support:           proto.Bool(k.v4),
			V6Support:           proto.Bool(k.v6),
			ClientLibVersion:    proto.Uint32(core.CurrentClientLibraryVersion()),
		},
	}
}

func c13Seed(secret []byte) string {
	k, err := core.GenSharedKeys(uint(core.CurrentClientLibraryVersion()), secret, pb.TransportType_Min)
	if err != nil {
		panic(err)
	}
	return string(k.ConjureSeed)
}

// c13Judge evaluates the outcome of one request. window lists the sets that were installed or being
// installed while the request ran. An error is the correct outcome iff the request is refused under
// one of those sets (refused=true); otherwise key != "" is a violation. For an answer, set is the
// set its phantoms lie in.
func (e *c13Env) c13Judge(kind string, resp *pb.RegistrationResponse, err error, window []int) (set int, refused bool, key, msg string) {
	if err != nil {
		for _, w := range window {
			if c13Refused(kind, w) {
				return -1, true, "", ""
			}
		}
		return -1, false, "request-error", fmt.Sprintf("request failed although no subnet set in force during it (%v) refuses it: %v", window, err)
	}
	if resp == nil {
		return -1, false, "request-error", "request returned neither response nor error"
	}
	s4, s6 := -2, -2
	var ip4, ip6 net.IP
	if c13Kinds[kind].v4 {
		if resp.Ipv4Addr == nil {
			return -1, false, "response-missing-family", "v4-capable request got no IPv4 phantom"
		}
		ip4 = make(net.IP, 4)
		binary.BigEndian.PutUint32(ip4, resp.GetIpv4Addr())
		s4 = e.setOf(ip4)
	}
	if c13Kinds[kind].v6 {
		if len(resp.GetIpv6Addr()) != 16 {
			return -1, false, "response-missing-family", "v6-capable request got no IPv6 phantom"
		}
		ip6 = net.IP(resp.GetIpv6Addr())
		s6 = e.setOf(ip6)
	}
	if s4 == -1 || s6 == -1 {
		return -1, false, "foreign-phantom", fmt.Sprintf("phantom outside every configured subnet set: v4=%v v6=%v", ip4, ip6)
	}
	if s4 >= 0 && s6 >= 0 && s4 != s6 {
		return -1, false, "mixed-sets", fmt.Sprintf("one response mixes subnet sets: v4 phantom %v is from set %d, v6 phantom %v is from set %d", ip4, s4, ip6, s6)
	}
	if s4 >= 0 {
		return s4, false, "", ""
	}
	return s6, false, "", ""
}

// ---------------------------------------------------------------------------------------------------
// goroutine dumps

type c13G struct {
	state string // wait reason without decorations
	text  string
}

var c13DumpBuf = make([]byte, 1<<20)

func c13Dump() map[int64]c13G {
	for {
		n := runtime.Stack(c13DumpBuf, true)
		if n < len(c13DumpBuf) {
			return c13ParseDump(string(c13DumpBuf[:n]))
		}
		c13DumpBuf = make([]byte, 2*len(c13DumpBuf))
	}
}

func c13ParseDump(s string) map[int64]c13G {
	out := map[int64]c13G{}
	for _, blk := range strings.Split(s, "\n\n") {
		if !strings.HasPrefix(blk, "goroutine ") {
			continue
		}
		sp := strings.IndexByte(blk[10:], ' ')
		if sp < 0 {
			continue
		}
		id, err := strconv.ParseInt(blk[10:10+sp], 10, 64)
		if err != nil {
			continue
		}
		rest := blk[10+sp:]
		lb, rb := strings.IndexByte(rest, '['), strings.IndexByte(rest, ']')
		if lb < 0 || rb < lb {
			continue
		}
		st := rest[lb+1 : rb]
		if c := strings.IndexByte(st, ','); c >= 0 {
			st = st[:c]
		}
		out[id] = c13G{state: st, text: blk}
	}
	return out
}

func c13Gid() int64 {
	var b [64]byte
	n := runtime.Stack(b[:], false)
	f := strings.Fields(string(b[:n]))
	if len(f) < 2 {
		return -1
	}
	id, _ := strconv.ParseInt(f[1], 10, 64)
	return id
}

// lockWait reports whether a goroutine is parked by the runtime inside a sync lock operation.
func (g c13G) lockWait() bool {
	return g.state == "sync.RWMutex.RLock" || g.state == "sync.RWMutex.Lock" || g.state == "sync.Mutex.Lock" || g.state == "semacquire"
}

// blocked reports whether the goroutine waits for a lock that the registrar's own code asked for
// (selectorMutex, zmqMutex, the metrics mutex). Lock waits inside library code (sync.Pool's global
// mutex after a GC cycle, protobuf's lazy initialisation, ...) have holders outside the harness'
// closed system of actors; they are transient and count as "running".
func (g c13G) blocked() bool {
	if !g.lockWait() {
		return false
	}
	w := g.where()
	i := strings.Index(w, " <- ")
	if i < 0 {
		return false
	}
	caller := w[i+4:]
	return strings.HasPrefix(caller, "regprocessor.") || strings.HasPrefix(caller, "metrics.")
}

// polling reports whether the goroutine sleeps inside registrar code (a wait loop of the code under
// test, e.g. a reload that polls until something drains). Like a lock wait it is a state in which the
// actor makes no progress on its own account; unlike a lock wait it can end by itself, so it never
// supports a "stall" verdict - see the end of c13Run.
func (g c13G) polling() bool {
	if g.state != "sleep" {
		return false
	}
	lines := strings.Split(g.text, "\n")
	for i := 1; i+1 < len(lines); i += 2 {
		fn := lines[i]
		if strings.HasPrefix(fn, "time.Sleep") {
			continue
		}
		return strings.Contains(fn, "/regprocessor.") || strings.Contains(fn, "/metrics.")
	}
	return false
}

// where returns "sync.(*RWMutex).RLock <- regprocessor.(*RegProcessor).processBdReq regprocessor.go:514".
func (g c13G) where() string {
	lines := strings.Split(g.text, "\n")
	lockFn, caller := "", ""
	for i := 1; i+1 < len(lines); i += 2 {
		fn := lines[i]
		if p := strings.LastIndexByte(fn, '('); p > 0 {
			fn = fn[:p]
		}
		loc := strings.TrimSpace(lines[i+1])
		if sp := strings.IndexByte(loc, ' '); sp > 0 {
			loc = loc[:sp]
		}
		if strings.HasPrefix(fn, "sync.(*RWMutex).") || strings.HasPrefix(fn, "sync.(*Mutex).") {
			lockFn = fn
			continue
		}
		if lockFn != "" && !strings.HasPrefix(fn, "sync.") {
			if s := strings.LastIndexByte(fn, '/'); s >= 0 {
				fn = fn[s+1:]
			}
			caller = fn + " " + filepath.Base(loc)
			break
		}
	}
	if lockFn == "" {
		return ""
	}
	return lockFn + " <- " + caller
}

// ---------------------------------------------------------------------------------------------------
// cases and the scheduler

type c13Case struct {
	Reqs     []string `json:"reqs"`               // "v4" | "v6" | "dual"
	Reloads  []string `json:"reloads"`            // "new" | "missing" | "garbage" | "empty" | "nonet" | "emptynet" | "trunc"
	Schedule []string `json:"schedule,omitempty"` // authoritative when present: actor to move, "r<i>" or "L<j>"
	Picks    []int    `json:"picks,omitempty"`    // otherwise: index into the list of enabled moves (mod its length); then first-enabled
	Reduce   bool     `json:"reduce,omitempty"`   // requests move in index order within each segment between reload events
	Secrets  []int    `json:"secrets,omitempty"`  // Secrets[i] = j < i: request i is a resend of request j (same shared secret)
	Sym      bool     `json:"sym,omitempty"`      // requests of the same kind are started in index order
}

const (
	c13New = iota
	c13Running
	c13Parked
	c13Blocked
	c13Done
)

type c13Actor struct {
	name     string
	reload   bool
	idx      int
	kind     string
	state    int
	gid      int64
	moves    int
	point    string
	resume   chan struct{}
	lastWait string // goroutine dump entry that last showed this actor in a lock wait
	polls    bool   // "blocked" means: sleeps in a wait loop of the registrar, not in a lock wait

	// request
	secret  []byte
	req     *pb.C2SWrapper
	resp    *pb.RegistrationResponse
	err     error
	pan     string
	lo      int   // set installed when the request started
	needHi  bool  // finished in the current settle round
	window  []int // sets installed or being installed while the request ran
	hi      int   // set installed at the stable point after it finished
	between []int // targets of "new" reloads that started while this request was between its two selections
	target  int   // reload: the set file it loads (kind "new")
}

type c13Ev struct {
	a   *c13Actor
	typ int // 0 started 1 parked 2 finished
	pt  string
	gid int64
}

type c13Sched struct {
	e             *c13Env
	p             *RegProcessor
	reqs          []*c13Actor
	reloads       []*c13Actor
	byGid         sync.Map // goroutine id -> request actor (requests may share a shared secret, so the seed does not identify them)
	ev            chan c13Ev
	abandon       chan struct{}
	abandoned     bool
	cur           int
	nextNew       int
	nextReload    int
	inflight      *c13Actor
	segLast       int
	needRewrap    bool
	startedMax    int          // newest set a started reload is loading / has loaded
	empty         map[int]bool // set numbers that are empty (reload of an empty-family file)
	dead          map[int]bool // ... whose reload returned an error: never installed
	lastGood      int          // newest non-empty set that was installed
	rewrapSkipped bool
	classes       map[string]bool
	nontrivial    bool
	parkTO        atomic.Int32
	dumps         int
}

type c13Wrap struct {
	inner ipSelector
	s     *c13Sched
}

func (w *c13Wrap) Select(seed []byte, gen uint, ver uint, v6 bool) (*phantoms.PhantomIP, error) {
	var a *c13Actor
	if x, ok := w.s.byGid.Load(c13Gid()); ok {
		a = x.(*c13Actor)
	}
	fam := "4"
	if v6 {
		fam = "6"
	}
	if a != nil {
		w.s.park(a, "in"+fam)
	}
	ip, err := w.inner.Select(seed, gen, ver, v6)
	if a != nil {
		w.s.park(a, "out"+fam)
	}
	return ip, err
}

func (s *c13Sched) park(a *c13Actor, pt string) {
	select {
	case <-s.abandon:
		return
	default:
	}
	s.ev <- c13Ev{a: a, typ: 1, pt: pt}
	tm := time.NewTimer(c13ParkTimeout)
	defer tm.Stop()
	select {
	case <-a.resume:
	case <-s.abandon:
	case <-tm.C:
		s.parkTO.Add(1)
	}
}

func c13NewSched(e *c13Env, c c13Case) (*c13Sched, error) {
	s := &c13Sched{e: e, ev: make(chan c13Ev, 1024), abandon: make(chan struct{}),
		segLast: -1, nextNew: 1, classes: map[string]bool{}, empty: map[int]bool{}, dead: map[int]bool{}}
	for i, k := range c.Reqs {
		if _, ok := c13Kinds[k]; !ok {
			return nil, fmt.Errorf("bad request kind %q", k)
		}
		sid := i
		if i < len(c.Secrets) && c.Secrets[i] >= 0 && c.Secrets[i] < i {
			sid = c.Secrets[i] // a resend: the same shared secret as an earlier request
			s.classes["resend-inside-schedule"] = true
		}
		sec := c13Secret("sched", sid, 0)
		a := &c13Actor{name: "r" + strconv.Itoa(i), idx: i, kind: k, resume: make(chan struct{}, 1), req: c13Request(sec, k), secret: sec}
		s.reqs = append(s.reqs, a)
		s.classes[k] = true
	}
	nNew := 0
	for j, k := range c.Reloads {
		if _, isEmpty := c13EmptyContents[k]; !isEmpty && k != "new" && k != "missing" && k != "garbage" {
			return nil, fmt.Errorf("bad reload kind %q", k)
		}
		if _, isEmpty := c13EmptyContents[k]; isEmpty || k == "new" {
			nNew++
		}
		s.reloads = append(s.reloads, &c13Actor{name: "L" + strconv.Itoa(j), reload: true, idx: j, kind: k})
	}
	if nNew >= c13NSets-1 { // one more set is needed for the reload that follows every schedule
		return nil, fmt.Errorf("too many valid reloads (%d)", nNew)
	}
	s.classes[fmt.Sprintf("k=%d", len(c.Reqs))] = true
	s.classes[fmt.Sprintf("m=%d", len(c.Reloads))] = true
	sel0, err := phantoms.SubnetsFromTomlFile(e.files[0])
	if err != nil {
		return nil, err
	}
	s.p = e.newRP(&c13Wrap{inner: sel0, s: s})
	return s, nil
}

func (s *c13Sched) enabled(reduce, sym bool) []*c13Actor {
	reloadLeft := s.nextReload < len(s.reloads)
	var cands []*c13Actor
	for i, a := range s.reqs {
		if a.state != c13New && a.state != c13Parked {
			continue
		}
		if sym && a.state == c13New && i > 0 && s.reqs[i-1].kind == a.kind && s.reqs[i-1].state == c13New {
			continue // interchangeable with its not yet started predecessor
		}
		cands = append(cands, a)
	}
	if reduce && len(cands) > 0 {
		if s.inflight == nil && !reloadLeft {
			cands = cands[:1] // single canonical completion after the last reload has returned
		} else {
			// within a segment between reload events (start / return) requests move in index order
			var f []*c13Actor
			for _, a := range cands {
				if a.idx >= s.segLast {
					f = append(f, a)
				}
			}
			if len(f) > 0 || s.inflight == nil {
				cands = f // with no reload in flight the next reload can be started, f may be empty
			}
			// else: a reload waits and only requests below the last mover can still move: new sorted run
		}
	}
	if s.inflight == nil && reloadLeft {
		cands = append(cands, s.reloads[s.nextReload])
	}
	return cands
}

func (s *c13Sched) move(a *c13Actor) {
	a.moves++
	switch {
	case a.reload:
		between, inside := false, false
		for _, r := range s.reqs {
			if r.state != c13Parked {
				continue
			}
			if c13TwoSelects(r.kind) && (r.point == "out4" || r.point == "in6") {
				between = true
				if a.kind == "new" {
					r.between = append(r.between, s.nextNew)
				}
			}
			if strings.HasPrefix(r.point, "in") {
				inside = true
			}
		}
		if between {
			s.nontrivial = true
			s.classes["reload-between-selections"] = true
		}
		if inside {
			s.classes["reload-inside-selection"] = true
		}
		s.classes["reload-"+a.kind] = true
		path := s.e.missing
		switch a.kind {
		case "new":
			a.target = s.nextNew
			s.nextNew++
			s.startedMax = a.target
			path = s.e.files[a.target]
		case "garbage":
			path = s.e.garbage
		case "empty", "nonet", "emptynet", "trunc":
			// takes a set number like a valid file; that set refuses everything
			a.target = s.nextNew
			s.nextNew++
			s.startedMax = a.target
			s.empty[a.target] = true
			path = s.e.emptyFiles[a.kind]
			s.classes["reload-empty-family"] = true
		}
		os.Setenv("PHANTOM_SUBNET_LOCATION", path)
		s.inflight = a
		s.segLast = -1
		a.state = c13Running
		go func() {
			s.ev <- c13Ev{a: a, typ: 0, gid: c13Gid()}
			defer func() {
				if r := recover(); r != nil {
					a.pan = fmt.Sprint(r)
				}
				s.ev <- c13Ev{a: a, typ: 2}
			}()
			a.err = s.p.ReloadSubnets()
		}()
	case a.state == c13New:
		a.lo = s.cur
		a.state = c13Running
		s.segLast = a.idx
		go func() {
			gid := c13Gid()
			s.ev <- c13Ev{a: a, typ: 0, gid: gid}
			defer func() {
				if r := recover(); r != nil {
					a.pan = fmt.Sprint(r)
				}
				s.ev <- c13Ev{a: a, typ: 2}
			}()
			s.byGid.Store(gid, a)
			defer s.byGid.Delete(gid)
			a.resp, a.err = s.p.RegisterBidirectional(a.req, pb.RegistrationSource_BidirectionalAPI, net.ParseIP("198.51.100.9").To4())
		}()
	default:
		a.state = c13Running
		s.segLast = a.idx
		a.resume <- struct{}{}
	}
}

// c13HasWrap is only called by the harness while it holds selectorMutex.
func c13HasWrap(p *RegProcessor) bool {
	_, ok := p.ipSelector.(*c13Wrap)
	return ok
}

func (s *c13Sched) apply(e c13Ev) {
	a := e.a
	switch e.typ {
	case 0:
		a.gid = e.gid
	case 1:
		a.state = c13Parked
		a.point = e.pt
	case 2:
		a.state = c13Done
		if a.reload {
			s.inflight = nil
			s.segLast = -1
			s.nextReload = a.idx + 1
			s.needRewrap = true
			if a.kind == "new" && a.err == nil && a.pan == "" {
				s.cur = a.target
				s.lastGood = a.target
			}
			if s.empty[a.target] {
				if a.err == nil && a.pan == "" {
					s.cur = a.target // the empty set is installed (unchanged tree)
					s.classes["empty-set-installed"] = true
				} else {
					s.dead[a.target] = true // the file was refused: the old set stays
					s.classes["empty-file-refused"] = true
				}
			}
		} else {
			a.needHi = true
			// reloads are only started at stable points, so this is every set that was installed
			// or being installed while the request ran
			a.window = nil
			for w := a.lo; w <= s.startedMax || w <= s.cur; w++ {
				switch {
				case s.dead[w]:
				case s.empty[w]:
					a.window = append(a.window, w+c13EmptyBase)
				default:
					a.window = append(a.window, w)
				}
			}
		}
	}
}

func (s *c13Sched) all() []*c13Actor {
	return append(append([]*c13Actor(nil), s.reqs...), s.reloads...)
}

func (s *c13Sched) drain() {
	for {
		select {
		case e := <-s.ev:
			s.apply(e)
		default:
			return
		}
	}
}

func (s *c13Sched) describe(d map[int64]c13G) string {
	var parts []string
	for _, a := range s.all() {
		st := [...]string{"not-started", "running", "parked", "blocked", "finished"}[a.state]
		x := fmt.Sprintf("%s[%s] %s", a.name, a.kind, st)
		if a.state == c13Parked {
			x += "@" + a.point
		}
		if d != nil && (a.state == c13Blocked || a.state == c13Running) {
			if g, ok := d[a.gid]; ok {
				x += fmt.Sprintf(" {%s; %s}", g.state, g.where())
			}
		}
		parts = append(parts, x)
	}
	return strings.Join(parts, ", ")
}

// settle waits until every started actor is parked, finished or blocked in a lock wait, and that
// this is stable. An error is a harness problem.
func (s *c13Sched) settle() error {
	deadline := time.Now().Add(c13SettleTimeout)
	wait := 20 * time.Microsecond
	tm := time.NewTimer(time.Hour)
	defer tm.Stop()
	for {
		s.drain()
		if s.parkTO.Load() > 0 {
			return fmt.Errorf("a parked actor was never resumed")
		}
		nrun, nblk := 0, 0
		for _, a := range s.all() {
			switch a.state {
			case c13Running:
				nrun++
			case c13Blocked:
				nblk++
			}
		}
		if nrun == 0 {
			if nblk == 0 {
				break
			}
			d := c13Dump()
			s.dumps++
			changed := false
			for _, a := range s.all() {
				if a.state != c13Blocked {
					continue
				}
				if g := d[a.gid]; g.blocked() || g.polling() {
					a.lastWait = g.text
					a.polls = g.polling()
				} else {
					a.state = c13Running
					changed = true
				}
			}
			if !changed && len(s.ev) == 0 {
				if s.inflight != nil && s.inflight.state == c13Blocked && !s.inflight.polls {
					// cross-check: a writer that waits makes TryRLock fail
					if s.p.selectorMutex.TryRLock() {
						s.p.selectorMutex.RUnlock()
						if time.Now().After(deadline) {
							return fmt.Errorf("reload is blocked in %s but selectorMutex.TryRLock succeeds: %s", d[s.inflight.gid].where(), s.describe(d))
						}
						time.Sleep(wait)
						continue
					}
					s.classes["writer-pending"] = true
				}
				break
			}
			if time.Now().After(deadline) {
				return fmt.Errorf("no stable state within %v: %s", c13SettleTimeout, s.describe(d))
			}
			continue
		}
		tm.Reset(wait)
		select {
		case e := <-s.ev:
			if !tm.Stop() {
				select {
				case <-tm.C:
				default:
				}
			}
			s.apply(e)
			wait = 20 * time.Microsecond
			continue
		case <-tm.C:
		}
		d := c13Dump()
		s.dumps++
		for _, a := range s.all() {
			if a.state == c13Running && a.gid != 0 && (d[a.gid].blocked() || d[a.gid].polling()) {
				a.state = c13Blocked
				a.polls = d[a.gid].polling()
				if a.polls {
					s.classes["actor-polls-in-registrar-code"] = true
				}
				if !a.reload {
					s.classes["reader-queued-behind-writer"] = true
				}
			}
		}
		if wait < 2*time.Millisecond {
			wait *= 2
		}
		if time.Now().After(deadline) {
			return fmt.Errorf("no stable state within %v: %s", c13SettleTimeout, s.describe(d))
		}
	}
	for _, a := range s.reqs {
		if a.needHi {
			a.needHi = false
			a.hi = s.cur
		}
	}
	s.rewrap()
	return nil
}

// rewrap puts the parking wrapper around a selector installed by a reload. It runs only at a stable
// point with no reload in flight. Nobody can hold the lock then if the selector changed: readers
// that held it before the swap had to leave for the writer to get in, and readers admitted after the
// swap ran through the raw selector without parking, i.e. they are finished at a stable point.
// If the mutex is nevertheless held (a lock leaked by the code under test) the harness gives up on
// the wrapper and carries on: the leak then shows as a stall of the next request or reload. A case
// in which the wrapper could not be re-installed and nothing stalled is a harness problem.
func (s *c13Sched) rewrap() {
	if !s.needRewrap || s.inflight != nil {
		return
	}
	deadline := time.Now().Add(c13RewrapPatience)
	for {
		if s.p.selectorMutex.TryRLock() {
			ok := c13HasWrap(s.p)
			s.p.selectorMutex.RUnlock()
			if ok {
				s.needRewrap = false
				return
			}
			if s.p.selectorMutex.TryLock() {
				if !c13HasWrap(s.p) {
					s.p.ipSelector = &c13Wrap{inner: s.p.ipSelector, s: s}
				}
				s.p.selectorMutex.Unlock()
				s.needRewrap = false
				return
			}
		}
		if time.Now().After(deadline) {
			s.needRewrap = false
			s.rewrapSkipped = true
			s.classes["rewrap-skipped"] = true
			return
		}
		time.Sleep(50 * time.Microsecond)
	}
}

// release lets every parked actor run through and waits for everything that can finish.
func (s *c13Sched) release(wait time.Duration) {
	if !s.abandoned {
		s.abandoned = true
		close(s.abandon)
	}
	deadline := time.After(wait)
	for {
		s.drain()
		open := 0
		for _, a := range s.all() {
			if a.state != c13New && a.state != c13Done {
				open++
			}
		}
		if open == 0 {
			return
		}
		select {
		case e := <-s.ev:
			s.apply(e)
		case <-deadline:
			return
		}
	}
}

var c13StallsSeen atomic.Int32

type c13Result struct {
	Trace   []string
	Picked  []int
	Counts  []int
	Key     string // violation key
	Msg     string
	Harness string // harness problem
	Classes []string
	Nontriv bool
	Stalled bool
	Notes   []string
}

// c13Run executes one schedule on a fresh registrar.
func c13Run(e *c13Env, c c13Case) (res c13Result) {
	s, err := c13NewSched(e, c)
	if err != nil {
		res.Harness = err.Error()
		return
	}
	defer func() {
		if res.Stalled && res.Harness == "" {
			// confirmed stall: let go of what can be let go and abandon the blocked goroutines
			s.release(20 * time.Millisecond)
		} else {
			s.release(5 * time.Second)
		}
		if s.rewrapSkipped && res.Key == "" && res.Harness == "" {
			res.Harness = "selectorMutex was held at a stable point with no reload in flight (wrapper not re-installed), yet nothing stalled"
		}
		for k := range s.classes {
			res.Classes = append(res.Classes, k)
		}
		sort.Strings(res.Classes)
		res.Nontriv = s.nontrivial
	}()
	si := 0
	stallMsg, stallKey := "", "stall"
	for step := 0; ; step++ {
		if step > 4096 {
			res.Harness = "schedule does not terminate"
			return
		}
		en := s.enabled(c.Reduce, c.Sym)
		if len(en) == 0 {
			// a reload that could not be started because its predecessor never returned is not "open"
			var open []*c13Actor
			for _, a := range s.all() {
				if a.state != c13Done && a.state != c13New {
					open = append(open, a)
				}
			}
			if len(open) == 0 {
				break
			}
			// Nothing can move and every unfinished actor was seen blocked. Before this is called a
			// stall: one more generous wait. Anything that moves during it means "not a stall"
			// (the schedule simply goes on); a time-out alone decides nothing either - the dump
			// taken after it must still show every open actor in its lock wait.
			w := c13StallWaitNext
			if c13StallsSeen.Load() == 0 {
				w = c13StallWaitLong
			}
			tm := time.NewTimer(w)
			select {
			case ev := <-s.ev:
				tm.Stop()
				s.apply(ev)
				s.classes["late-wakeup"] = true
				res.Notes = append(res.Notes, fmt.Sprintf("late wake-up: %s moved during the final wait although it had been seen in a lock wait as: %s", ev.a.name, c13G{text: ev.a.lastWait}.where()))
				if err := s.settle(); err != nil {
					res.Harness = err.Error()
					return
				}
				continue
			case <-tm.C:
			}
			d := c13Dump()
			var poller *c13Actor
			for _, a := range open {
				g, ok := d[a.gid]
				if ok && g.polling() {
					poller = a
					continue
				}
				if !ok || !g.blocked() {
					res.Harness = fmt.Sprintf("unfinished actor %s is not in a lock wait after the final wait: %s", a.name, s.describe(d))
					return
				}
			}
			if len(s.ev) > 0 {
				continue
			}
			if poller != nil {
				// an actor sleeps in a wait loop of the registrar while nothing else runs: it may end
				// by itself, so only a long hang watchdog applies
				tm := time.NewTimer(c13SettleTimeout)
				select {
				case ev := <-s.ev:
					tm.Stop()
					s.apply(ev)
					if err := s.settle(); err != nil {
						res.Harness = err.Error()
						return
					}
					continue
				case <-tm.C:
				}
				res.Stalled = true
				stallMsg = fmt.Sprintf("%s does not return although nothing else is running: after %v it still sleeps in a wait loop of the registrar: %s", poller.name, c13SettleTimeout, s.describe(c13Dump()))
				stallKey = "stall:not-returning"
				break
			}
			c13StallsSeen.Add(1)
			res.Stalled = true
			stallMsg = fmt.Sprintf("registrar blocked for good: no actor can move and after a further %v the goroutine dump still shows: %s", w, s.describe(d))
			break
		}
		pick := 0
		if c.Schedule != nil {
			for si < len(c.Schedule) {
				name := c.Schedule[si]
				si++
				found := -1
				for i, a := range en {
					if a.name == name {
						found = i
					}
				}
				if found >= 0 {
					pick = found
					break
				}
			}
		} else if dec := len(res.Picked); dec < len(c.Picks) {
			pick = c.Picks[dec] % len(en)
			if pick < 0 {
				pick = -pick
			}
		}
		a := en[pick]
		res.Trace = append(res.Trace, a.name)
		res.Picked = append(res.Picked, pick)
		res.Counts = append(res.Counts, len(en))
		s.move(a)
		if err := s.settle(); err != nil {
			res.Harness = err.Error()
			return
		}
	}

	// ---- oracle -----------------------------------------------------------------------------
	first := func(k, m string) {
		if res.Key == "" {
			res.Key, res.Msg = k, m
		}
	}
	for _, a := range s.reqs {
		if a.state != c13Done {
			continue
		}
		if a.pan != "" {
			first("request-panic", fmt.Sprintf("%s[%s] panicked: %s", a.name, a.kind, a.pan))
			continue
		}
		set, refused, k, m := e.c13Judge(a.kind, a.resp, a.err, a.window)
		if k != "" {
			first(k, fmt.Sprintf("%s[%s]: %s", a.name, a.kind, m))
			continue
		}
		if refused {
			s.classes["refused"] = true
			if len(a.between) > 0 {
				s.classes["overlapped-request-refused"] = true
			}
			continue
		}
		if set < a.lo {
			first("stale-set", fmt.Sprintf("%s[%s] started when set %d was installed (the reload that installed it had returned) but was answered from set %d", a.name, a.kind, a.lo, set))
		}
		if set > a.hi {
			s.classes["used-ahead-of-reload"] = true
		}
		for _, tgt := range a.between {
			if set == tgt {
				s.classes["overlapped-request-used-new-set"] = true
			} else if set < tgt {
				s.classes["overlapped-request-used-old-set"] = true
			}
		}
	}
	for _, a := range s.reloads {
		if a.state != c13Done {
			continue
		}
		if a.pan != "" {
			first("reload-panic", fmt.Sprintf("%s[%s] panicked: %s", a.name, a.kind, a.pan))
		} else if a.kind == "new" && a.err != nil {
			first("reload-error", fmt.Sprintf("%s: reload of a valid subnet file failed: %v", a.name, a.err))
		}
		if a.err != nil {
			s.classes["reload-failed"] = true
		} else {
			s.classes["reload-ok"] = true
		}
	}
	if res.Stalled {
		first(stallKey, stallMsg)
		return
	}

	// ---- after the schedule: a request, one more (valid) reload, another request. Everything the
	// schedule left behind (a lock that was never released, a selector that was not installed) shows here.
	// after runs fn in its own goroutine. stalled means: fn waits for a registrar lock although every
	// actor has returned, still so after the final wait.
	after := func(what string, fn func()) (pan string, ok bool) {
		type msg struct {
			gid int64
			pan string
		}
		ch := make(chan msg, 2)
		go func() {
			ch <- msg{gid: c13Gid()}
			var m msg
			defer func() {
				if x := recover(); x != nil {
					m.pan = fmt.Sprint(x)
				}
				ch <- m
			}()
			fn()
		}()
		gid := (<-ch).gid
		deadline := time.Now().Add(c13SettleTimeout)
		wait := 200 * time.Microsecond
		for {
			select {
			case m := <-ch:
				return m.pan, true
			case <-time.After(wait):
			}
			if wait < 5*time.Millisecond {
				wait *= 2
			}
			if g := c13Dump()[gid]; g.blocked() {
				// every actor has returned, so nobody is left who could release that lock; confirm anyway
				w := c13StallWaitNext
				if c13StallsSeen.Load() == 0 {
					w = c13StallWaitLong
				}
				select {
				case m := <-ch:
					return m.pan, true
				case <-time.After(w):
				}
				if g = c13Dump()[gid]; g.blocked() {
					c13StallsSeen.Add(1)
					res.Stalled = true
					first("stall", fmt.Sprintf("registrar blocked for good: every request and reload of the schedule has returned, yet %s still waits after %v in %s", what, w, g.where()))
					return "", false
				}
			}
			if time.Now().After(deadline) {
				res.Harness = what + " after the schedule did not return: " + c13Dump()[gid].text
				return "", false
			}
		}
	}
	probe := func(tag string, want int, what string) bool {
		var resp *pb.RegistrationResponse
		var err error
		pan, ok := after("a further request", func() {
			resp, err = s.p.RegisterBidirectional(c13Request(c13Secret("probe-"+tag, 0, 0), "dual"), pb.RegistrationSource_BidirectionalAPI, net.ParseIP("198.51.100.9").To4())
		})
		if !ok {
			return false
		}
		if pan != "" {
			first("request-panic", "request after "+tag+" panicked: "+pan)
			return false
		}
		var window []int
		if s.empty[want] {
			window = []int{want + c13EmptyBase}
		}
		set, refused, k, m := e.c13Judge("dual", resp, err, window)
		if k != "" {
			first(k, "request after "+tag+": "+m)
			return false
		}
		if refused || (s.empty[want] && set == s.lastGood) {
			// the installed set is the empty one: the request is refused (an implementation that
			// returns nil for such a file but keeps the previous set is tolerated as well)
			return true
		}
		if set != want {
			first("final-set", fmt.Sprintf("after %s the registrar answers from set %d, expected set %d (%s)", tag, set, want, what))
			return false
		}
		return true
	}
	// Every registration is delivered once more (clients re-send, with the same shared secret). All
	// reloads have returned, so the answer must come wholly from the set that is installed now.
	for _, a := range s.reqs {
		if a.state != c13Done || a.pan != "" {
			continue
		}
		var resp *pb.RegistrationResponse
		var err error
		pan, ok := after("the re-sent registration "+a.name, func() {
			resp, err = s.p.RegisterBidirectional(c13Request(a.secret, a.kind), pb.RegistrationSource_BidirectionalAPI, net.ParseIP("198.51.100.9").To4())
		})
		if !ok {
			return
		}
		if pan != "" {
			first("request-panic", fmt.Sprintf("%s[%s] re-sent after the schedule panicked: %s", a.name, a.kind, pan))
			return
		}
		window := []int{s.cur}
		if s.empty[s.cur] {
			window = []int{s.cur + c13EmptyBase}
		}
		set, refused, k, m := e.c13Judge(a.kind, resp, err, window)
		if k != "" {
			first(k, fmt.Sprintf("%s[%s] re-sent (same shared secret) after every reload had returned: %s", a.name, a.kind, m))
			return
		}
		s.classes["resent-after-schedule"] = true
		if refused || (s.empty[s.cur] && set == s.lastGood) {
			continue
		}
		if set != s.cur {
			first("stale-set", fmt.Sprintf("%s[%s] re-sent (same shared secret) after every reload had returned was answered from set %d although set %d is installed (the first delivery overlapped a reload)", a.name, a.kind, set, s.cur))
			return
		}
	}
	what := "a successful reload is not in effect"
	if len(s.reloads) > 0 {
		if last := s.reloads[len(s.reloads)-1]; last.kind != "new" && !s.empty[last.target] {
			what = "a failed reload changed the installed set, or an earlier successful reload is not in effect"
		}
	}
	if !probe("the schedule", s.cur, what) {
		return
	}
	os.Setenv("PHANTOM_SUBNET_LOCATION", e.files[s.nextNew])
	var rerr error
	pan, ok := after("a further reload", func() { rerr = s.p.ReloadSubnets() })
	if !ok {
		return
	}
	if pan != "" {
		first("reload-panic", "reload after the schedule panicked: "+pan)
		return
	}
	if rerr != nil {
		first("reload-error", fmt.Sprintf("reload of a valid subnet file after the schedule failed: %v", rerr))
		return
	}
	probe("the schedule and one more reload", s.nextNew, "the last reload is not in effect")
	return
}

// c13Check runs a case, records it and reports a violation.
func c13Check(t vh.Fataler, rec *vh.Rec, e *c13Env, c c13Case) c13Result {
	res := c13Run(e, c)
	shown := c13Case{Reqs: c.Reqs, Reloads: c.Reloads, Schedule: res.Trace, Reduce: c.Reduce, Sym: c.Sym, Secrets: c.Secrets}
	if res.Harness != "" {
		t.Fatalf("harness problem: %s (case %+v)", res.Harness, shown)
		return res
	}
	rec.Case(res.Nontriv, vh.Digest(shown), shown, res.Classes...)
	for _, n := range res.Notes {
		rec.Note("%s", n)
	}
	if res.Key != "" {
		rec.Violation(t, res.Key, shown, "%s; requests=%v reloads=%v schedule=%v", res.Msg, c.Reqs, c.Reloads, res.Trace)
	}
	return res
}

// c13Explore enumerates every schedule of a scenario that starts with the given fixed picks
// (depth-first over the lists of enabled moves). It returns the number of schedules executed.
func c13Explore(t vh.Fataler, rec *vh.Rec, e *c13Env, base c13Case, fixed []int) int {
	picks := append([]int(nil), fixed...)
	n := 0
	for {
		c := base
		c.Picks = picks
		// a fixed prefix that names a move which does not exist is an empty sub-tree
		if len(fixed) > 0 && n == 0 {
			if !c13PrefixValid(e, c, fixed) {
				return 0
			}
		}
		res := c13Check(t, rec, e, c)
		n++
		i := len(res.Counts) - 1
		for i >= len(fixed) && res.Picked[i]+1 >= res.Counts[i] {
			i--
		}
		if i < len(fixed) {
			return n
		}
		picks = append(append([]int(nil), res.Picked[:i]...), res.Picked[i]+1)
	}
}

// c13PrefixValid runs the first len(fixed) moves only and reports whether each pick existed.
func c13PrefixValid(e *c13Env, c c13Case, fixed []int) bool {
	s, err := c13NewSched(e, c)
	if err != nil {
		return false
	}
	defer s.release(5 * time.Second)
	for _, p := range fixed {
		en := s.enabled(c.Reduce, c.Sym)
		if p >= len(en) {
			return false
		}
		s.move(en[p])
		if s.settle() != nil {
			return true // let the real run report the harness problem
		}
	}
	return true
}

// ---------------------------------------------------------------------------------------------------
// scenarios

func c13Multisets(kinds []string, k int) [][]string {
	var out [][]string
	var rec func(start int, cur []string)
	rec = func(start int, cur []string) {
		if len(cur) == k {
			out = append(out, append([]string(nil), cur...))
			return
		}
		for i := start; i < len(kinds); i++ {
			rec(i, append(cur, kinds[i]))
		}
	}
	rec(0, nil)
	return out
}

func c13Tuples(kinds []string, m int) [][]string {
	out := [][]string{{}}
	for i := 0; i < m; i++ {
		var nx [][]string
		for _, p := range out {
			for _, k := range kinds {
				nx = append(nx, append(append([]string(nil), p...), k))
			}
		}
		out = nx
	}
	return out
}

func c13Replay(t *testing.T, rec *vh.Rec, e *c13Env) bool {
	p := vh.ReplayFile()
	if p == "" {
		return false
	}
	var c c13Case
	if _, _, err := vh.LoadReplay(p, &c); err != nil {
		t.Fatal(err)
	}
	// VERIF_C13_REPEAT=n replays the case n times (debugging aid for the harness itself)
	n, _ := strconv.Atoi(os.Getenv("VERIF_C13_REPEAT"))
	for i := 0; i < n-1; i++ {
		c13Check(t, rec, e, c)
	}
	c13Check(t, rec, e, c)
	return true
}

type c13Scen struct {
	reqs, reloads []string
	sym           bool
}

func c13Scens(reqKinds []string, kmin, kmax, m int, reloadKinds []string, sym bool) []c13Scen {
	var out []c13Scen
	for k := kmin; k <= kmax; k++ {
		for _, rq := range c13Multisets(reqKinds, k) {
			for _, rl := range c13Tuples(reloadKinds, m) {
				out = append(out, c13Scen{rq, rl, sym})
			}
		}
	}
	return out
}

// c13RunScens explores every scenario completely. The work is cut into items (scenario, first
// depth(k) picks) that are dealt out to the shards by a hash (a running index would correlate with
// the number of shards). budget is a wall-clock allowance for this process: when it runs out the
// remaining items are skipped, which is recorded as "explored less" (never as a failure) and takes
// the exhaustive flag away. It only matters for implementations that keep the lock across the
// selections, where every move costs goroutine dumps.
func c13RunScens(t *testing.T, rec *vh.Rec, e *c13Env, scens []c13Scen, reduce bool, depth func(k int) int, budget time.Duration, exhaustive bool) {
	total, items, skipped := 0, 0, 0
	start := time.Now()
	seen := map[string]bool{}
	var uniq []c13Scen
	for _, sc := range scens {
		k := fmt.Sprint(sc.reqs, sc.reloads, sc.sym)
		if !seen[k] {
			seen[k] = true
			uniq = append(uniq, sc)
		}
	}
	scens = uniq
	for si, sc := range scens {
		base := c13Case{Reqs: sc.reqs, Reloads: sc.reloads, Reduce: reduce, Sym: sc.sym}
		w := len(sc.reqs) + 1
		dp := depth(len(sc.reqs))
		n := 1
		for i := 0; i < dp; i++ {
			n *= w
		}
		for x := 0; x < n; x++ {
			h := fnv.New32a()
			fmt.Fprintf(h, "%d/%d/%d", si, x, len(scens))
			if !vh.Mine(int(h.Sum32() >> 4)) {
				continue
			}
			if time.Since(start) > budget {
				skipped++
				continue
			}
			fixed := make([]int, dp)
			for i, y := 0, x; i < dp; i++ {
				fixed[i] = y % w
				y /= w
			}
			if c := c13Explore(t, rec, e, base, fixed); c > 0 {
				total += c
				items++
			}
		}
	}
	rec.SetExhaustive(exhaustive && skipped == 0)
	if skipped > 0 {
		rec.Note("wall-clock allowance of %v used up: %d candidate work items (scenario x first picks) not explored by this shard", budget, skipped)
		rec.Extra("work_items_skipped_for_time", skipped)
	}
	if idx, _ := vh.Shard(); idx == 0 {
		rec.Extra("scenarios", len(scens)) // vcheck sums numeric extras over the shards
	}
	rec.Extra("schedules", total)
	rec.Extra("work_items", items)
}

// TestVerif_C13_exhaustive: literally every interleaving of the moves {start request, resume parked
// request, start next reload} for small scenarios.
func TestVerif_C13_exhaustive(t *testing.T) {
	rec := vh.NewRec("C13", "exhaustive", "all interleavings of harness-owned moves (start a request; resume a request parked at entry/exit of an address selection; start the next reload) for every multiset of k requests over {dual,v4,v6} plus, with {valid,unreadable} reloads, over the kinds whose selection fails {badgen: unknown generation; v6x: IPv6 only from a generation with IPv4 subnets only; dualx: dual-stack on that generation; dualalt: dual-stack on a generation that lacks IPv6 in every second set} and every sequence of m reloads over {valid file with disjoint subnets, unreadable file, invalid file} and, for {dual,v4,v6}, over the files that parse but define no usable generation {0 bytes, no Networks table, empty Networks table, truncated mid-table: the unchanged tree installs them and refuses every registration until the next good reload; refusing the file and keeping the old set is accepted too}; quick: k<=2,m=1; thorough: k<=2,m<=2, and k=3,m=1 over {valid,unreadable} (three dual-stack requests: valid only) where requests of the same kind are started in index order (they are interchangeable, so this loses nothing); non-trivial = a reload starts while a dual-stack request is parked between its two selections; distinct by (scenario, schedule)")
	defer rec.Flush()
	e := c13NewEnv(t)
	if c13Replay(t, rec, e) {
		return
	}
	rec.Require("reload-between-selections", "reload-inside-selection", "reload-ok", "reload-failed", "dual", "v4", "v6", "badgen", "v6x", "dualx", "dualalt", "refused", "overlapped-request-refused", "reload-empty-family", "empty-set-installed", "resent-after-schedule")
	all := []string{"new", "missing", "garbage"}
	two := []string{"new", "missing"}
	scens := c13Scens(c13ReqKinds, 1, 2, 1, all, false)
	scens = append(scens, c13Scens(c13AllReqKinds, 1, 2, 1, two, false)...)
	scens = append(scens, c13Scens(c13ReqKinds, 1, 2, 1, c13EmptyKinds, false)...)
	if vh.Thorough() {
		scens = append(scens, c13Scens(c13AllReqKinds, 1, 2, 1, c13EmptyKinds, false)...)
		scens = append(scens, c13Scens(c13ReqKinds, 1, 2, 2, []string{"new", "emptynet", "trunc"}, false)...)
		scens = append(scens, c13Scens(c13ReqKinds, 1, 2, 2, all, false)...)
		scens = append(scens, c13Scens(c13AllReqKinds, 1, 2, 2, two, false)...)
		for _, sc := range c13Scens(c13ReqKinds, 3, 3, 1, two, true) {
			// three dual-stack requests: only with the reload that takes the lock (2 million schedules)
			if sc.reqs[2] == "dual" && sc.reloads[0] != "new" {
				continue
			}
			scens = append(scens, sc)
		}
	}
	c13RunScens(t, rec, e, scens, false, func(k int) int {
		if k >= 3 {
			return 5
		}
		return 2
	}, time.Duration(vh.Pick(45, 540))*time.Second, true)
}

// TestVerif_C13_reduced: larger scenarios, enumerated modulo the order of request moves between
// reload events (requests only read-lock; their moves commute): every vector of request positions at
// every reload start. All orders are covered by the exhaustive sub-check for the small scenarios.
func TestVerif_C13_reduced(t *testing.T) {
	rec := vh.NewRec("C13", "reduced", "every vector of request positions (not started / inside 1st selection / between selections / inside 2nd / after / finished) at the start of every reload: within each segment between reload events (a reload starts / returns) requests move in index order (they only read-lock, so their moves commute; while a reload waits for the lock a new index-ordered run starts when only lower-numbered requests can still move); quick: k=3,m=1 and k<=2,m=2 over all seven request kinds (incl. the refused ones); k=3 with >=2 dual-stack requests and two valid reloads; thorough: k<=3,m<=2 all reload kinds; k<=2,m=3; k=4,m=1; k=4 with two valid reloads (refused kinds for k<=3); non-trivial and distinct as in the exhaustive sub-check. Not an enumeration of all interleavings.")
	defer rec.Flush()
	e := c13NewEnv(t)
	if c13Replay(t, rec, e) {
		return
	}
	rec.Require("reload-between-selections", "reload-ok", "reload-failed", "k=3", "m=2", "badgen", "v6x", "dualx", "dualalt", "refused", "overlapped-request-refused", "reload-empty-family", "empty-set-installed", "resent-after-schedule")
	all := []string{"new", "missing", "garbage"}
	two := []string{"new", "missing"}
	var scens []c13Scen
	if vh.Thorough() {
		scens = append(scens, c13Scens(c13ReqKinds, 3, 4, 1, all, false)...)
		scens = append(scens, c13Scens(c13AllReqKinds, 3, 3, 1, all, false)...)
		scens = append(scens, c13Scens(c13ReqKinds, 3, 3, 2, all, false)...)
		scens = append(scens, c13Scens([]string{"dual", "dualalt", "badgen", "v6x"}, 3, 3, 2, []string{"new"}, false)...)
		scens = append(scens, c13Scens(c13ReqKinds, 1, 2, 3, two, false)...)
		scens = append(scens, c13Scens(c13AllReqKinds, 1, 2, 3, []string{"new"}, false)...)
		scens = append(scens, c13Scens(c13ReqKinds, 4, 4, 2, []string{"new"}, false)...)
		scens = append(scens, c13Scens(c13ReqKinds, 3, 3, 1, c13EmptyKinds, false)...)
		scens = append(scens, c13Scens(c13AllReqKinds, 1, 3, 2, []string{"new", "emptynet", "trunc"}, false)...)
	} else {
		scens = append(scens, c13Scens(c13AllReqKinds, 3, 3, 1, two, false)...)
		scens = append(scens, c13Scens(c13AllReqKinds, 1, 2, 2, two, false)...)
		scens = append(scens, c13Scens(c13ReqKinds, 3, 3, 1, []string{"emptynet", "trunc"}, false)...)
		scens = append(scens, c13Scens(c13ReqKinds, 1, 2, 2, []string{"new", "emptynet", "empty"}, false)...)
		for _, sc := range c13Scens(c13ReqKinds, 3, 3, 2, []string{"new"}, false) {
			if sc.reqs[1] == "dual" { // multisets are sorted dual first: at least two dual-stack requests
				scens = append(scens, sc)
			}
		}
	}
	c13RunScens(t, rec, e, scens, true, func(k int) int { return k - 1 }, time.Duration(vh.Pick(40, 240))*time.Second, false)
}

func c13Gen(rt *rapid.T) c13Case {
	k := rapid.IntRange(1, 6).Draw(rt, "k")
	m := rapid.IntRange(1, 4).Draw(rt, "m")
	var c c13Case
	for i := 0; i < k; i++ {
		c.Reqs = append(c.Reqs, rapid.SampledFrom([]string{"dual", "dual", "dual", "v4", "v6", "dualalt", "dualalt", "dualx", "badgen", "v6x"}).Draw(rt, "req"))
	}
	for i := 0; i < m; i++ {
		c.Reloads = append(c.Reloads, rapid.SampledFrom([]string{"new", "new", "new", "new", "missing", "garbage", "empty", "nonet", "emptynet", "trunc"}).Draw(rt, "reload"))
	}
	for i := 0; i < k; i++ {
		// one request in three is a resend of an earlier one (same shared secret, any shape)
		j := -1
		if i > 0 && rapid.IntRange(0, 2).Draw(rt, "resend") == 0 {
			j = rapid.IntRange(0, i-1).Draw(rt, "of")
		}
		c.Secrets = append(c.Secrets, j)
	}
	c.Picks = rapid.SliceOfN(rapid.IntRange(0, 7), 0, 5*k+m).Draw(rt, "picks")
	return c
}

// TestVerif_C13_random: rapid-drawn scenarios and schedules beyond the enumerated sizes.
func TestVerif_C13_random(t *testing.T) {
	rec := vh.NewRec("C13", "random", "rapid-drawn scenarios (1-6 requests over {dual,v4,v6,dualalt,dualx,badgen,v6x}, 1-4 sequential reloads over {valid,unreadable,invalid,empty,nonet,emptynet,trunc}) with a drawn list of scheduler picks (index into the enabled moves), completed first-enabled-first; non-trivial and distinct as in the exhaustive sub-check")
	defer rec.Flush()
	e := c13NewEnv(t)
	if c13Replay(t, rec, e) {
		return
	}
	rec.Require("reload-between-selections", "reload-ok", "reload-failed", "dual", "badgen", "v6x", "dualx", "dualalt", "refused", "reload-empty-family", "empty-set-installed", "resent-after-schedule", "resend-inside-schedule")
	rapid.Check(t, func(rt *rapid.T) {
		c13Check(rt, rec, e, c13Gen(rt))
	})
}
