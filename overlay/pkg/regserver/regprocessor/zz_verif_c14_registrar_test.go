package regprocessor

// C14 — "destination-port randomisation is granted only if that subnet allows it", at the place
// where the per-subnet flag is consumed: the registrar's bidirectional path (processBdReq) turns
// the flags of the selected phantom(s) into the destination port it hands to client and stations.
//
// Generated selectors (weighted blocks with RandomizeDstPort true / false / absent, disjoint subnets)
// x {v4-only, v6-only, dual-stack} x library version x transport x randomisation requested or not.
// Oracle (one direction only, as the property states it): if any phantom in the response lies in a
// block that does not allow randomisation, the port handed out must be a fixed one — 443 (what the
// registrar uses when it withholds randomisation) or the transport's own port for the same request
// with randomisation not requested. The block is found from the response's addresses and the
// configuration, not from the selector's flag.

import (
	"fmt"
	"net"
	"net/netip"
	"testing"

	"github.com/refraction-networking/conjure/pkg/core"
	"github.com/refraction-networking/conjure/pkg/phantoms"
	"github.com/refraction-networking/conjure/pkg/station/lib"
	"github.com/refraction-networking/conjure/pkg/transports/connecting/dtls"
	"github.com/refraction-networking/conjure/pkg/transports/wrapping/min"
	"github.com/refraction-networking/conjure/pkg/transports/wrapping/obfs4"
	"github.com/refraction-networking/conjure/pkg/transports/wrapping/prefix"
	pb "github.com/refraction-networking/conjure/proto"
	"google.golang.org/protobuf/proto"
	"google.golang.org/protobuf/types/known/anypb"
	"pgregory.net/rapid"
	"verif/harness/vh"
)

type c14RPBlock struct {
	Weight uint32 `json:"weight"`
	Rand   int    `json:"rand"` // -1 no RandomizeDstPort key, 0 false, 1 true
	V4     string `json:"v4"`   // "" = the block has no IPv4 subnet
	V6     string `json:"v6"`
}

type c14RPCase struct {
	Blocks    []c14RPBlock `json:"blocks"`
	Secret    vh.Hex       `json:"secret"`
	LibVer    uint32       `json:"libver"`
	V4        bool         `json:"v4"`
	V6        bool         `json:"v6"`
	Transport int32        `json:"transport"`
	Randomize int          `json:"randomize"` // -1 no transport params at all, 0 false, 1 true
	PrefixID  int32        `json:"prefix_id"`
}

const c14RPGen = 7

func c14RPParams(tt pb.TransportType, randomize int, prefixID int32) *anypb.Any {
	if randomize < 0 {
		return nil
	}
	r := proto.Bool(randomize > 0)
	var m proto.Message
	name := "GenericTransportParams"
	switch tt {
	case pb.TransportType_Prefix:
		m, name = &pb.PrefixTransportParams{PrefixId: proto.Int32(prefixID), RandomizeDstPort: r}, "PrefixTransportParams"
	case pb.TransportType_DTLS:
		m, name = &pb.DTLSTransportParams{RandomizeDstPort: r}, "DTLSTransportParams"
	default:
		m = &pb.GenericTransportParams{RandomizeDstPort: r}
	}
	b, err := proto.Marshal(m)
	if err != nil {
		panic(err)
	}
	return &anypb.Any{TypeUrl: "type.googleapis.com/proto." + name, Value: b}
}

func c14RPTransports() map[pb.TransportType]lib.Transport {
	return map[pb.TransportType]lib.Transport{
		pb.TransportType_Min:    min.Transport{},
		pb.TransportType_Obfs4:  obfs4.Transport{},
		pb.TransportType_Prefix: prefix.DefaultSet(),
		pb.TransportType_DTLS:   dtls.Transport{},
	}
}

// c14RPBlockOf returns the index of the block whose subnet contains ip (-1: none).
func c14RPBlockOf(blocks []c14RPBlock, ip netip.Addr) int {
	for i, b := range blocks {
		for _, s := range []string{b.V4, b.V6} {
			if s == "" {
				continue
			}
			if p, err := netip.ParsePrefix(s); err == nil && p.Contains(ip.Unmap()) {
				return i
			}
		}
	}
	return -1
}

func c14RPCheck(t vh.Fataler, rec *vh.Rec, trs map[pb.TransportType]lib.Transport, c c14RPCase) {
	if len(c.Blocks) == 0 {
		t.Fatalf("harness problem: case without blocks")
	}
	var ws []*pb.PhantomSubnets
	for i := range c.Blocks {
		b := c.Blocks[i]
		g := &pb.PhantomSubnets{Weight: proto.Uint32(b.Weight)}
		if b.Rand >= 0 {
			g.RandomizeDstPort = proto.Bool(b.Rand > 0)
		}
		for _, s := range []string{b.V4, b.V6} {
			if s != "" {
				g.Subnets = append(g.Subnets, s)
			}
		}
		ws = append(ws, g)
	}
	sel := &phantoms.PhantomIPSelector{Networks: map[uint]*phantoms.SubnetConfig{c14RPGen: {WeightedSubnets: ws}}}
	p := &RegProcessor{ipSelector: sel, transports: trs}
	tt := pb.TransportType(c.Transport)
	c2s := &pb.ClientToStation{
		ClientLibVersion:    proto.Uint32(c.LibVer),
		DecoyListGeneration: proto.Uint32(c14RPGen),
		V4Support:           proto.Bool(c.V4),
		V6Support:           proto.Bool(c.V6),
		Transport:           &tt,
		TransportParams:     c14RPParams(tt, c.Randomize, c.PrefixID),
		Flags:               &pb.RegistrationFlags{},
		CovertAddress:       proto.String("192.0.2.10:443"),
	}
	w := &pb.C2SWrapper{SharedSecret: c.Secret, RegistrationPayload: c2s}

	classes := []string{"transport:" + tt.String(), fmt.Sprintf("libver:%d", c.LibVer)}
	switch {
	case c.V4 && c.V6:
		classes = append(classes, "dual-stack")
	case c.V6:
		classes = append(classes, "v6-only")
	case c.V4:
		classes = append(classes, "v4-only")
	default:
		classes = append(classes, "no-family")
	}
	if c.Randomize > 0 {
		classes = append(classes, "randomisation-requested")
	}

	var resp *pb.RegistrationResponse
	var err error
	var panicked any
	func() {
		defer func() { panicked = recover() }()
		resp, err = p.processBdReq(w)
	}()
	if panicked != nil {
		rec.Case(false, vh.Digest(c), c, append(classes, "panic")...)
		rec.Violation(t, "panic:registrar", c, "processBdReq panicked: %v", panicked)
		return
	}
	if err != nil || resp == nil {
		rec.Case(false, vh.Digest(c), c, append(classes, "refused")...)
		return
	}

	// which blocks did the phantoms come from, according to the configuration
	allowed := true
	var from []string
	addrs := []netip.Addr{}
	if resp.Ipv4Addr != nil {
		var b [4]byte
		b[0], b[1], b[2], b[3] = byte(*resp.Ipv4Addr>>24), byte(*resp.Ipv4Addr>>16), byte(*resp.Ipv4Addr>>8), byte(*resp.Ipv4Addr)
		addrs = append(addrs, netip.AddrFrom4(b))
	}
	if len(resp.Ipv6Addr) > 0 {
		if a, ok := netip.AddrFromSlice(net.IP(resp.Ipv6Addr)); ok {
			addrs = append(addrs, a)
		}
	}
	if len(addrs) == 0 {
		rec.Case(false, vh.Digest(c), c, append(classes, "no-phantom-in-response")...)
		return
	}
	for _, a := range addrs {
		bi := c14RPBlockOf(c.Blocks, a)
		if bi < 0 {
			// containment is the business of the phantoms-level sub-checks; nothing to say about the flag
			rec.Case(false, vh.Digest(c), c, append(classes, "phantom-outside-blocks")...)
			return
		}
		from = append(from, fmt.Sprintf("%s in block %d (RandomizeDstPort %s)", a, bi, map[int]string{-1: "absent", 0: "false", 1: "true"}[c.Blocks[bi].Rand]))
		if c.Blocks[bi].Rand != 1 {
			allowed = false
			classes = append(classes, map[int]string{-1: "block-flag:absent", 0: "block-flag:false"}[c.Blocks[bi].Rand])
		} else {
			classes = append(classes, "block-flag:true")
		}
	}

	// the fixed ports of this request: 443, and the transport's own port with randomisation not requested
	fixed := map[uint32]bool{443: true}
	keys, kerr := core.GenSharedKeys(uint(c.LibVer), c.Secret, tt)
	if kerr != nil {
		t.Fatalf("harness problem: shared keys: %v", kerr)
	}
	if tr := trs[tt]; tr != nil {
		for _, r := range []int{0, -1} {
			if params, perr := tr.ParseParams(uint(c.LibVer), c14RPParams(tt, r, c.PrefixID)); perr == nil {
				if port, gerr := tr.GetDstPort(uint(c.LibVer), keys.ConjureSeed, params); gerr == nil {
					fixed[uint32(port)] = true
				}
			}
		}
	}
	port := resp.GetDstPort()
	randomised := !fixed[port]
	if randomised {
		classes = append(classes, "randomised-port-handed-out")
	} else {
		classes = append(classes, "fixed-port-handed-out")
	}
	if !allowed {
		classes = append(classes, "randomisation-not-allowed")
	}
	nontrivial := c.Randomize > 0 && c.LibVer >= 3 && !allowed
	if nontrivial {
		classes = append(classes, "requested-but-not-allowed")
	}
	rec.Case(nontrivial, vh.Digest(c), c, classes...)
	if !allowed && randomised {
		rec.Violation(t, "randport-not-allowed:registrar", c, "the registrar handed out the randomised destination port %d (fixed ports of this request: 443 and the transport's own) although a phantom of the response comes from a block that does not allow randomisation: %v; request: libver %d, v4=%v v6=%v, transport %s, randomize=%d",
			port, from, c.LibVer, c.V4, c.V6, tt, c.Randomize)
	}
}

func c14RPGenCase(rt *rapid.T) c14RPCase {
	c := c14RPCase{}
	n := rapid.IntRange(1, 4).Draw(rt, "nblocks")
	for i := 0; i < n; i++ {
		b := c14RPBlock{
			Weight: rapid.SampledFrom([]uint32{1, 9, 3, 1, 100}).Draw(rt, "weight"),
			Rand:   rapid.SampledFrom([]int{0, 1, -1}).Draw(rt, "rand"),
			V4:     fmt.Sprintf("10.%d.0.0/16", 20+i),
			V6:     fmt.Sprintf("2001:db8:%x::/64", 0x20+i),
		}
		switch rapid.SampledFrom([]string{"both", "both", "both", "v4", "v6"}).Draw(rt, "fams") {
		case "v4":
			b.V6 = ""
		case "v6":
			b.V4 = ""
		}
		c.Blocks = append(c.Blocks, b)
	}
	var in [8]byte
	u := rapid.Uint64().Draw(rt, "secret")
	for i := range in {
		in[i] = byte(u >> (8 * i))
	}
	c.Secret = make([]byte, 32)
	for i := range c.Secret {
		c.Secret[i] = in[i%8] ^ byte(i*37)
	}
	c.LibVer = rapid.SampledFrom([]uint32{4, 3, 2, 1, 0, 5}).Draw(rt, "libver")
	switch rapid.SampledFrom([]string{"v6", "dual", "v4", "v6", "dual"}).Draw(rt, "stack") {
	case "v6":
		c.V6 = true
	case "v4":
		c.V4 = true
	default:
		c.V4, c.V6 = true, true
	}
	c.Transport = int32(rapid.SampledFrom([]pb.TransportType{pb.TransportType_Min, pb.TransportType_Prefix, pb.TransportType_Obfs4, pb.TransportType_DTLS}).Draw(rt, "transport"))
	c.Randomize = rapid.SampledFrom([]int{1, 1, 1, 0, -1}).Draw(rt, "randomize")
	c.PrefixID = rapid.SampledFrom([]int32{0, 1, 2, 3, 4, 5, 6, -1}).Draw(rt, "prefixid")
	return c
}

func TestVerif_C14_registrar(t *testing.T) {
	rec := vh.NewRec("C14", "registrar", "processBdReq on generated selectors: exhaustive product of one block with RandomizeDstPort true/false/absent x {v4-only, v6-only, dual-stack} x library versions 0-4 x {min, prefix, obfs4, dtls} x randomisation requested/declined/no params x 3 secrets, then rapid: 1-4 weighted blocks with disjoint subnets (flag true/false/absent, both families or one), same request space plus prefix ids and library version 5. Oracle: a phantom of the response lying in a block that does not allow randomisation => the port handed out is 443 or the transport's own port for the same request without randomisation. one evaluation = one registration; non-trivial = randomisation requested, library version >= 3 and a phantom from a block that does not allow it; distinct = distinct case.")
	defer rec.Flush()
	rec.Require("requested-but-not-allowed", "randomised-port-handed-out", "fixed-port-handed-out", "v6-only", "v4-only", "dual-stack", "block-flag:false", "block-flag:absent", "block-flag:true")
	trs := c14RPTransports()
	if p := vh.ReplayFile(); p != "" {
		var c c14RPCase
		if _, _, err := vh.LoadReplay(p, &c); err != nil {
			t.Fatal(err)
		}
		c14RPCheck(t, rec, trs, c)
		return
	}
	idx := 0
	for _, flag := range []int{1, 0, -1} {
		for _, stack := range [][2]bool{{true, false}, {false, true}, {true, true}} {
			for lv := uint32(0); lv <= 4; lv++ {
				for _, tt := range []pb.TransportType{pb.TransportType_Min, pb.TransportType_Prefix, pb.TransportType_Obfs4, pb.TransportType_DTLS} {
					for _, rz := range []int{1, 0, -1} {
						for s := 0; s < 3; s++ {
							idx++
							if !vh.Mine(idx) {
								continue
							}
							secret := make([]byte, 32)
							for i := range secret {
								secret[i] = byte(i*7 + s*53 + 1)
							}
							c14RPCheck(t, rec, trs, c14RPCase{Blocks: []c14RPBlock{{Weight: 1, Rand: flag, V4: "10.20.0.0/16", V6: "2001:db8:20::/64"}},
								Secret: secret, LibVer: lv, V4: stack[0], V6: stack[1], Transport: int32(tt), Randomize: rz, PrefixID: 0})
						}
					}
				}
			}
		}
	}
	rapid.Check(t, func(rt *rapid.T) {
		c14RPCheck(rt, rec, trs, c14RPGenCase(rt))
	})
}
