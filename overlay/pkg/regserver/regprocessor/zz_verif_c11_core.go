package regprocessor

// C11 — no externally supplied bytes can crash a registrar process.
//
// This is a NON-test file that is only ever compiled through the /verif overlay for property C11
// (vcheck maps zz_verif_c11_* files for C11 builds only; it never exists in /repo). It is non-test
// so that the in-package C11 checks of pkg/regserver/apiregserver and pkg/regserver/dnsregserver
// can put a real RegProcessor — built the way NewRegProcessor / NewRegProcessorNoAuth build it, but
// with a recording sender instead of a bound ZMQ socket — behind their handlers.

import (
	"crypto/ed25519"
	"errors"
	"fmt"
	"io"
	"net"
	"os"
	"path/filepath"
	"strings"
	"sync"
	"time"

	zmq "github.com/pebbe/zmq4"
	"github.com/refraction-networking/conjure/pkg/core"
	"github.com/refraction-networking/conjure/pkg/core/interfaces"
	"github.com/refraction-networking/conjure/pkg/metrics"
	"github.com/refraction-networking/conjure/pkg/phantoms"
	"github.com/refraction-networking/conjure/pkg/regserver/overrides"
	"github.com/refraction-networking/conjure/pkg/station/lib"
	"github.com/refraction-networking/conjure/pkg/transports/connecting/dtls"
	"github.com/refraction-networking/conjure/pkg/transports/wrapping/min"
	"github.com/refraction-networking/conjure/pkg/transports/wrapping/obfs4"
	"github.com/refraction-networking/conjure/pkg/transports/wrapping/prefix"
	pb "github.com/refraction-networking/conjure/proto"
	"github.com/sirupsen/logrus"
	"google.golang.org/protobuf/proto"
	"google.golang.org/protobuf/types/known/anypb"
)

// C11Subnets is the phantom subnet file of the C11 registrars (generations 1 and 957).
const C11Subnets = `
[Networks]
    [Networks.1]
        Generation = 1
        [[Networks.1.WeightedSubnets]]
            Weight = 9
            Subnets = ["192.122.190.0/24", "2001:48a8:687f:1::/64"]
    [Networks.957]
        Generation = 957
        [[Networks.957.WeightedSubnets]]
            Weight = 9
            RandomizeDstPort = true
            Subnets = ["192.122.190.0/24", "2001:48a8:687f:1::/64"]
        [[Networks.957.WeightedSubnets]]
            Weight = 1
            RandomizeDstPort = false
            Subnets = ["141.219.0.0/16", "35.8.0.0/16"]
`

// C11Gens are the generations C11Subnets defines.
var C11Gens = []uint32{1, 957}

// C11Sender records what the registrar publishes.
type C11Sender struct {
	mu   sync.Mutex
	Sent [][]byte
	Fail bool
}

func (s *C11Sender) SendBytes(b []byte, _ zmq.Flag) (int, error) {
	s.mu.Lock()
	defer s.mu.Unlock()
	if s.Fail {
		return 0, errors.New("verif: zmq send fails")
	}
	s.Sent = append(s.Sent, append([]byte(nil), b...))
	return len(b), nil
}
func (s *C11Sender) Close() error { return nil }

// Take returns and forgets the recorded messages.
func (s *C11Sender) Take() [][]byte {
	s.mu.Lock()
	defer s.mu.Unlock()
	out := s.Sent
	s.Sent = nil
	return out
}

// C11Proc is a registrar core with its recording sender.
type C11Proc struct {
	RP     *RegProcessor
	Sender *C11Sender
	Pub    ed25519.PublicKey
}

var (
	c11Once    sync.Once
	c11Metrics *metrics.Metrics
	c11Sel     *phantoms.PhantomIPSelector
	c11Err     error
)

// C11Metrics returns the process-wide metrics object (its logger is silent).
func C11Metrics() *metrics.Metrics {
	c11Init()
	return c11Metrics
}

func c11Init() {
	c11Once.Do(func() {
		lg := logrus.New()
		lg.SetOutput(io.Discard)
		c11Metrics = metrics.NewMetrics(lg, 24*time.Hour)
		dir, err := os.MkdirTemp("", "verif-c11-")
		if err != nil {
			c11Err = err
			return
		}
		p := filepath.Join(dir, "phantom_subnets.toml")
		if err := os.WriteFile(p, []byte(C11Subnets), 0o644); err != nil {
			c11Err = err
			return
		}
		os.Setenv("PHANTOM_SUBNET_LOCATION", p)
		c11Sel, c11Err = phantoms.GetPhantomSubnetSelector()
		os.RemoveAll(dir)
	})
}

// C11Configs is the number of registrar configurations C11NewProc knows.
const C11Configs = 4

// C11NewProc builds registrar configuration number cfg (mod C11Configs):
//
//	0  ZMQ auth "NULL": unauthenticated, no parameter overrides (NewRegProcessorNoAuth)
//	1  ZMQ auth "CURVE": signs its responses, random-prefix override (NewRegProcessor)
//	2  as 1, plus enforce_subnet_overrides with Min and Prefix override subnets at 100 %
//	3  as 0, plus enforce_subnet_overrides at 100 % and an exclusion
//
// The transports are those of cmd/registration-server (min, obfs4, prefix.DefaultSet, dtls).
func C11NewProc(cfg int) (*C11Proc, error) {
	c11Init()
	return C11NewProcMetrics(cfg, c11Metrics)
}

// C11FastMetrics returns a metrics object built by the real constructor with the smallest log period,
// so that its own periodic logger (waitAndLog -> log) runs in a tight loop next to the handlers that
// call Add on every request (concurrency sub-checks, -race).
func C11FastMetrics() *metrics.Metrics {
	lg := logrus.New()
	lg.SetOutput(io.Discard)
	return metrics.NewMetrics(lg, time.Nanosecond)
}

// C11NewProcMetrics is C11NewProc with the metrics object the registrar shares with its front ends.
func C11NewProcMetrics(cfg int, m *metrics.Metrics) (*C11Proc, error) {
	c11Init()
	if c11Err != nil {
		return nil, c11Err
	}
	cfg = ((cfg % C11Configs) + C11Configs) % C11Configs
	seed := make([]byte, ed25519.SeedSize)
	for i := range seed {
		seed[i] = byte(i*3 + 1)
	}
	priv := ed25519.NewKeyFromSeed(seed)
	pr := &C11Proc{Sender: &C11Sender{}, Pub: priv.Public().(ed25519.PublicKey)}
	auth := cfg == 1 || cfg == 2
	enforce := cfg >= 2
	var subnets, excl []Subnet
	if enforce {
		for _, s := range []struct {
			cidr, tr string
			w        float64
			port     uint32
			id       prefix.PrefixID
		}{
			{"10.1.0.0/16", "Min_Transport", 1, 443, 0},
			{"10.2.0.0/24", "Min_Transport", 3, 443, 0},
			{"10.3.0.0/16", "Prefix_Transport", 1, 80, prefix.GetLong},
			{"10.4.4.0/28", "Prefix_Transport", 2, 22, prefix.OpenSSH2},
			{"10.5.0.0/16", "Prefix_Transport", 1, 1234, prefix.PrefixID(77)},
		} {
			var n Ipnet
			if err := n.UnmarshalText([]byte(s.cidr)); err != nil {
				return nil, err
			}
			subnets = append(subnets, Subnet{CIDR: n, Weight: s.w, Port: s.port, Transport: s.tr, PrefixId: s.id})
		}
		if cfg == 3 {
			var n Ipnet
			if err := n.UnmarshalText([]byte("192.122.190.0/25")); err != nil {
				return nil, err
			}
			excl = append(excl, Subnet{CIDR: n})
		}
	}
	var regOverrides interfaces.Overrides
	if auth {
		regOverrides = interfaces.Overrides([]interfaces.RegOverride{overrides.NewRandPrefixOverride()})
	}
	pMin, pPre := validateOverridePercentages(100, 100)
	minS, preS := splitOverrideSubnets(subnets)
	rp := &RegProcessor{
		ipSelector:                             c11Sel,
		sock:                                   pr.Sender,
		metrics:                                m,
		transports:                             make(map[pb.TransportType]lib.Transport),
		authenticated:                          auth,
		regOverrides:                           regOverrides,
		enforceSubnetOverrides:                 enforce,
		minOverrideSubnets:                     minS,
		prefixOverrideSubnets:                  preS,
		minOverrideSubnetsCumulativeWeights:    processOverrideSubnetsWeights(minS),
		prefixOverrideSubnetsCumulativeWeights: processOverrideSubnetsWeights(preS),
		exclusionsFromOverride:                 make([]Subnet, len(excl)),
		prcntMinRegsToOverride:                 pMin,
		prcntPrefixRegsToOverride:              pPre,
	}
	copy(rp.exclusionsFromOverride, excl)
	if auth {
		rp.privkey = priv
	}
	for tt, t := range map[pb.TransportType]lib.Transport{
		pb.TransportType_Min:    min.Transport{},
		pb.TransportType_Obfs4:  obfs4.Transport{},
		pb.TransportType_Prefix: prefix.DefaultSet(),
		pb.TransportType_DTLS:   dtls.Transport{},
	} {
		if err := rp.AddTransport(tt, t); err != nil {
			return nil, fmt.Errorf("AddTransport: %w", err)
		}
	}
	pr.RP = rp
	return pr, nil
}

// C11Procs builds every registrar configuration once.
func C11Procs() ([]*C11Proc, error) {
	var out []*C11Proc
	for i := 0; i < C11Configs; i++ {
		p, err := C11NewProc(i)
		if err != nil {
			return nil, err
		}
		out = append(out, p)
	}
	return out, nil
}

// C11ErrClass names the registrar's error (shared with the front-end checks).
func C11ErrClass(err error) string {
	switch {
	case err == nil:
		return "ok"
	case errors.Is(err, ErrNoC2SBody):
		return "no-c2s-body"
	case errors.Is(err, ErrSharedSecret):
		return "shared-secret"
	case errors.Is(err, ErrRegProcessFailed):
		return "process-failed"
	case errors.Is(err, phantoms.ErrLegacyAddrSelectBug), errors.Is(err, phantoms.ErrLegacyMissingAddrs), errors.Is(err, phantoms.ErrLegacyV0SelectionBug):
		return "legacy-select"
	}
	s := err.Error()
	for _, k := range []string{"unknown transport", "failed to parse transport parameters", "error determining destination port", "no registration to modify", "generation number not recognized", "incorrect non-empty TypeUrl", "proto:"} {
		if strings.Contains(s, k) {
			return strings.ReplaceAll(k, " ", "-")
		}
	}
	return "other"
}

// C11ClientMessages returns registration messages as a client builds them: a C2SWrapper with the
// shared secret and a ClientToStation carrying the transport's parameters as the client transports
// return them (GetParams), for every transport x {full type URL, no type URL (DNS registrar)}, plus
// hostile constants (absent sub-messages, wrong lengths, out-of-range enums).
func C11ClientMessages() (valid, hostile []*pb.C2SWrapper) {
	secret := func(i int) []byte {
		s := make([]byte, 32)
		for j := range s {
			s[j] = byte(i*29 + j*3 + 1)
		}
		return s
	}
	mk := func(i int, tt pb.TransportType, params proto.Message, gen uint32, libver uint32, v4, v6 bool) *pb.C2SWrapper {
		c2s := &pb.ClientToStation{
			ClientLibVersion: proto.Uint32(libver), DecoyListGeneration: proto.Uint32(gen), CovertAddress: proto.String("192.0.2.10:443"),
			V4Support: proto.Bool(v4), V6Support: proto.Bool(v6), Transport: tt.Enum(), Flags: &pb.RegistrationFlags{UploadOnly: proto.Bool(false), ProxyHeader: proto.Bool(true)},
		}
		if params != nil {
			a, err := anypb.New(params)
			if err != nil {
				panic(err)
			}
			c2s.TransportParams = a
		}
		return &pb.C2SWrapper{SharedSecret: secret(i), RegistrationPayload: c2s}
	}
	cur := core.CurrentClientLibraryVersion()
	i := 0
	for _, tt := range []pb.TransportType{pb.TransportType_Min, pb.TransportType_Obfs4, pb.TransportType_Prefix, pb.TransportType_DTLS} {
		var params []proto.Message
		switch tt {
		case pb.TransportType_Prefix:
			params = []proto.Message{&pb.PrefixTransportParams{PrefixId: proto.Int32(0), RandomizeDstPort: proto.Bool(false), CustomFlushPolicy: proto.Int32(0)},
				&pb.PrefixTransportParams{PrefixId: proto.Int32(9), RandomizeDstPort: proto.Bool(true), CustomFlushPolicy: proto.Int32(2)},
				&pb.PrefixTransportParams{PrefixId: proto.Int32(-1), RandomizeDstPort: proto.Bool(true)}}
		case pb.TransportType_DTLS:
			params = []proto.Message{&pb.DTLSTransportParams{SrcAddr4: &pb.Addr{IP: []byte{198, 51, 100, 7}, Port: proto.Uint32(40000)},
				SrcAddr6: &pb.Addr{IP: net.ParseIP("2001:db8::7"), Port: proto.Uint32(40001)}, RandomizeDstPort: proto.Bool(true), Unordered: proto.Bool(false)}}
		default:
			params = []proto.Message{&pb.GenericTransportParams{RandomizeDstPort: proto.Bool(true)}, &pb.GenericTransportParams{RandomizeDstPort: proto.Bool(false)}, nil}
		}
		for _, p := range params {
			for _, fam := range [][2]bool{{true, true}, {true, false}, {false, true}} {
				i++
				w := mk(i, tt, p, 957, cur, fam[0], fam[1])
				valid = append(valid, w)
				if p != nil && fam[0] && fam[1] {
					w2 := proto.Clone(w).(*pb.C2SWrapper)
					w2.RegistrationPayload.TransportParams.TypeUrl = "" // as the DNS registrar sends it
					w2.RegistrationSource = pb.RegistrationSource_BidirectionalDNS.Enum()
					valid = append(valid, w2)
				}
			}
		}
	}
	valid = append(valid, mk(90, pb.TransportType_Min, nil, 1, 1, true, true), mk(91, pb.TransportType_Min, nil, 1, 0, true, false),
		mk(92, pb.TransportType_Obfs4, &pb.GenericTransportParams{RandomizeDstPort: proto.Bool(true)}, 1, 2, true, true))
	base := func() *pb.C2SWrapper {
		return mk(100, pb.TransportType_Min, &pb.GenericTransportParams{RandomizeDstPort: proto.Bool(true)}, 957, cur, true, true)
	}
	w := base()
	w.RegistrationPayload = nil
	hostile = append(hostile, w)
	w = base()
	w.SharedSecret = nil
	hostile = append(hostile, w)
	w = base()
	w.SharedSecret = []byte{1, 2, 3, 4, 5, 6, 7}
	hostile = append(hostile, w)
	w = base()
	w.RegistrationPayload.DecoyListGeneration = proto.Uint32(12345)
	hostile = append(hostile, w)
	w = base()
	w.RegistrationPayload.DecoyListGeneration = nil
	w.RegistrationPayload.ClientLibVersion = nil
	hostile = append(hostile, w)
	w = base()
	w.RegistrationPayload.Transport = pb.TransportType(77).Enum()
	hostile = append(hostile, w)
	w = base()
	w.RegistrationPayload.Transport = nil
	hostile = append(hostile, w)
	w = base()
	w.RegistrationPayload.Transport = pb.TransportType_Prefix.Enum() // generic parameters for the prefix transport
	hostile = append(hostile, w)
	w = base()
	w.RegistrationPayload.Transport = pb.TransportType_Prefix.Enum()
	w.RegistrationPayload.TransportParams = nil
	hostile = append(hostile, w)
	w = base()
	w.RegistrationPayload.Transport = pb.TransportType_Prefix.Enum()
	w.RegistrationPayload.TransportParams = nil
	w.RegistrationPayload.ClientLibVersion = proto.Uint32(2)
	hostile = append(hostile, w)
	w = base()
	w.RegistrationPayload.Transport = pb.TransportType_Prefix.Enum()
	w.RegistrationPayload.TransportParams, _ = anypb.New(&pb.PrefixTransportParams{PrefixId: proto.Int32(1 << 30)})
	hostile = append(hostile, w)
	w = base()
	w.RegistrationPayload.TransportParams = &anypb.Any{TypeUrl: "type.googleapis.com/proto.GenericTransportParams", Value: []byte{0x68, 0xff}}
	hostile = append(hostile, w)
	w = base()
	w.RegistrationPayload.V4Support, w.RegistrationPayload.V6Support = nil, nil
	hostile = append(hostile, w)
	w = base()
	w.RegistrationSource = pb.RegistrationSource(99).Enum()
	w.RegistrationAddress = []byte{1, 2, 3}
	w.DecoyAddress = []byte{}
	hostile = append(hostile, w)
	w = base() // registrar-only fields forged by the client
	w.RegistrationResponse = &pb.RegistrationResponse{Ipv4Addr: proto.Uint32(0x0a000001), Ipv6Addr: []byte{1}, DstPort: proto.Uint32(1 << 20),
		TransportParams: &anypb.Any{TypeUrl: "x", Value: []byte{0xff}}, ClientConf: &pb.ClientConf{}}
	w.RegRespBytes = []byte{1}
	w.RegRespSignature = []byte{2}
	hostile = append(hostile, w)
	w = base()
	w.RegistrationPayload.DisableRegistrarOverrides = proto.Bool(true)
	w.RegistrationPayload.Transport = pb.TransportType_Prefix.Enum()
	w.RegistrationPayload.TransportParams, _ = anypb.New(&pb.PrefixTransportParams{PrefixId: proto.Int32(3)})
	hostile = append(hostile, w)
	w = base()
	w.RegistrationPayload.Transport = pb.TransportType_DTLS.Enum()
	w.RegistrationPayload.TransportParams, _ = anypb.New(&pb.DTLSTransportParams{SrcAddr4: &pb.Addr{IP: []byte{1}, Port: proto.Uint32(^uint32(0))}})
	hostile = append(hostile, w)
	return valid, hostile
}

// C11MustMarshal marshals a generated message.
func C11MustMarshal(w *pb.C2SWrapper) []byte {
	b, err := proto.Marshal(w)
	if err != nil {
		panic(err)
	}
	return b
}
