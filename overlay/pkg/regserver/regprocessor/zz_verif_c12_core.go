package regprocessor

// C12 — what the registrar tells the client is what it tells the stations, unforgeably.
//
// This is a NON-test file that is only ever compiled through the /verif overlay for property C12
// (vcheck maps zz_verif_c12_* files for C12 builds only; it never exists in /repo). It is non-test
// so that the in-package checks of pkg/regserver/apiregserver and pkg/regserver/dnsregserver can
// drive a real RegProcessor (fake ZMQ sender, generated configuration) through their handlers and
// reuse the same case type, generator and oracle as the regprocessor-level checks.
//
// One case = (phantom subnet configuration, registrar configuration, one client request).
// run(case):
//   1. the phantom subnet configuration is written as a TOML file; the registrar's selector and the
//      station's selector are both parsed from that file (phantoms.SubnetsFromTomlFile);
//   2. a RegProcessor is built the way NewRegProcessor/NewRegProcessorNoAuth build it (same helper
//      functions for percentages / split / cumulative weights) but with a recording ZMQ sender;
//   3. the client's C2SWrapper is marshalled and handed to the entry point (RegisterBidirectional /
//      RegisterUnidirectional, or an HTTP / DNS handler in the other packages);
//   4. the bytes handed to the sender are ingested by a lib.RegistrationManager exactly as
//      parseRegMessage does (NewRegistrationC2SWrapper per family);
//   5. the oracle compares the client's view, the forwarded message and the station's view.

import (
	"bytes"
	"crypto/ed25519"
	"crypto/sha256"
	"encoding/binary"
	"encoding/json"
	"fmt"
	"io"
	"math"
	"net"
	"os"
	"path/filepath"
	"runtime"
	"sort"
	"strings"
	"sync"
	"time"

	"github.com/BurntSushi/toml"
	zmq "github.com/pebbe/zmq4"
	"github.com/refraction-networking/conjure/pkg/core"
	"github.com/refraction-networking/conjure/pkg/core/interfaces"
	"github.com/refraction-networking/conjure/pkg/metrics"
	"github.com/refraction-networking/conjure/pkg/phantoms"
	"github.com/refraction-networking/conjure/pkg/regserver/overrides"
	"github.com/refraction-networking/conjure/pkg/station/lib"
	stationlog "github.com/refraction-networking/conjure/pkg/station/log"
	"github.com/refraction-networking/conjure/pkg/transports/connecting/dtls"
	"github.com/refraction-networking/conjure/pkg/transports/wrapping/min"
	"github.com/refraction-networking/conjure/pkg/transports/wrapping/obfs4"
	"github.com/refraction-networking/conjure/pkg/transports/wrapping/prefix"
	pb "github.com/refraction-networking/conjure/proto"
	"github.com/sirupsen/logrus"
	"google.golang.org/protobuf/proto"
	"google.golang.org/protobuf/types/known/anypb"
	"pgregory.net/rapid"
	"verif/harness/vh"
)

// ---------------------------------------------------------------------------------------------
// Case
// ---------------------------------------------------------------------------------------------

// C12PhGroup is one weighted group of phantom subnets.
type C12PhGroup struct {
	Weight   uint32   `json:"weight"`
	RandPort bool     `json:"rand_port"`
	Subnets  []string `json:"subnets"`
}

// C12PhGen is one generation of the phantom subnet file.
type C12PhGen struct {
	Gen    uint32       `json:"gen"`
	Groups []C12PhGroup `json:"groups"`
}

// C12OvrSubnet is one override_subnet entry of the registrar configuration.
type C12OvrSubnet struct {
	CIDR      string  `json:"cidr"`
	Weight    float64 `json:"weight"`
	Port      uint32  `json:"port"`
	Transport string  `json:"transport"`
	PrefixID  int     `json:"prefix_id"`
}

// C12Excl is one excluded_subnet_from_overrides entry, written the way an operator writes it: the
// cidr alone, or (as in the sample reg_config.toml) together with weight / port / transport keys that
// the registrar reserves "for future features" and that do not change what the entry excludes.
type C12Excl struct {
	CIDR      string   `json:"cidr"`
	Weight    *float64 `json:"weight,omitempty"`
	Port      *uint32  `json:"port,omitempty"`
	Transport *string  `json:"transport,omitempty"`
}

// UnmarshalJSON also accepts a bare CIDR string (replay files written before labels were generated).
func (x *C12Excl) UnmarshalJSON(b []byte) error {
	if len(b) > 0 && b[0] == '"' {
		*x = C12Excl{}
		return json.Unmarshal(b, &x.CIDR)
	}
	type plain C12Excl
	return json.Unmarshal(b, (*plain)(x))
}

// C12ParamOvr is one member of the registrar's parameter override set.
type C12ParamOvr struct {
	Kind    string `json:"kind"`               // rand | fixed | file
	FixedID int    `json:"fixed_id,omitempty"` // fixed: prefix id
	File    string `json:"file,omitempty"`     // file: contents in the ParsePrefixes format
}

// C12Registrar is the registrar configuration.
type C12Registrar struct {
	Auth       bool           `json:"auth"`
	KeySeed    vh.Hex         `json:"key_seed"` // 32 bytes, ed25519 seed of the registrar key
	ParamOvr   []C12ParamOvr  `json:"param_overrides"`
	Enforce    bool           `json:"enforce_subnet_overrides"`
	Subnets    []C12OvrSubnet `json:"override_subnets"`
	Exclusions []C12Excl      `json:"exclusions"`
	PctMin     float64        `json:"pct_min"`
	PctPrefix  float64        `json:"pct_prefix"`
	// Build says how the RegProcessor is made: "" = struct literal filled the way the constructors
	// fill it, "constructor" = through the exported constructor the registration server calls
	// (NewRegProcessor for an authenticated registrar, NewRegProcessorNoAuth otherwise) on an
	// ephemeral local port, after which only the ZMQ socket is swapped for the recording sender (and
	// the selector / parameter override set / transports are installed as the server's main does).
	Build string `json:"build,omitempty"`
}

// C12Params describes a transport_params Any.
type C12Params struct {
	Kind      string `json:"kind"`     // none | generic | prefix | dtls
	TypeURL   string `json:"type_url"` // full | empty | tapdance
	PrefixID  *int32 `json:"prefix_id,omitempty"`
	Randomize *bool  `json:"randomize,omitempty"`
	Prefix    vh.Hex `json:"prefix,omitempty"`
	Flush     *int32 `json:"flush,omitempty"`
}

// C12Forged is what a hostile client puts into the registrar-only fields of the C2SWrapper.
type C12Forged struct {
	HasResp    bool       `json:"has_resp"`
	V4         *uint32    `json:"v4,omitempty"`
	V6         vh.Hex     `json:"v6,omitempty"`
	Port       *uint32    `json:"port,omitempty"`
	Params     *C12Params `json:"params,omitempty"`
	SelfSigned bool       `json:"self_signed"` // RegRespBytes = marshalled forged response, signature by the client's own key
	RespBytes  vh.Hex     `json:"resp_bytes,omitempty"`
	Sig        vh.Hex     `json:"sig,omitempty"`
}

// C12Request is one client registration request plus what the front end passes along with it.
type C12Request struct {
	Secret     vh.Hex    `json:"secret"`
	LibVer     uint32    `json:"libver"`
	Gen        uint32    `json:"gen"`
	V4         bool      `json:"v4"`
	V6         bool      `json:"v6"`
	Transport  int32     `json:"transport"`
	Params     C12Params `json:"params"`
	Disable    *bool     `json:"disable_overrides,omitempty"`
	Covert     string    `json:"covert"`
	Source     *int32    `json:"source,omitempty"`   // registration_source set by the client
	RegAddr    vh.Hex    `json:"reg_addr,omitempty"` // registration_address set by the client
	Forged     C12Forged `json:"forged"`
	ClientAddr vh.Hex    `json:"client_addr,omitempty"` // what the front end saw (nil for DNS)
	Method     int32     `json:"method"`                // registration source of the front end
}

// C12Case is one complete case.
type C12Case struct {
	Bidir    bool         `json:"bidirectional"`
	Phantoms []C12PhGen   `json:"phantoms"`
	Reg      C12Registrar `json:"registrar"`
	Req      C12Request   `json:"request"`
	// FrontGen is the generation of the ClientConf the front end (API / DNS server) holds; only
	// used by the front-end sub-checks. The API server rewrites the request's generation to it when
	// the client is behind.
	FrontGen *uint32 `json:"front_end_clientconf_gen,omitempty"`
}

// C12AdaptAPI makes a generated case one the HTTP front end can produce: it always sees a client
// address and registers with source API / BidirectionalAPI.
func C12AdaptAPI(rt *rapid.T, c *C12Case) {
	if len(c.Req.ClientAddr) == 0 {
		c.Req.ClientAddr = vh.Hex(net.ParseIP("198.51.100.77").To16())
	}
	c.Req.Method = int32(pb.RegistrationSource_API)
	if c.Bidir {
		c.Req.Method = int32(pb.RegistrationSource_BidirectionalAPI)
	}
	c12GenFrontGen(rt, c)
}

// C12AdaptDNS makes a generated case one the DNS front end can produce: no client address, and the
// request is bidirectional exactly when the client says its source is BidirectionalDNS.
func C12AdaptDNS(rt *rapid.T, c *C12Case) {
	c.Req.ClientAddr = nil
	c.Req.Method = int32(pb.RegistrationSource_DNS)
	if c.Bidir {
		c.Req.Method = int32(pb.RegistrationSource_BidirectionalDNS)
		s := int32(pb.RegistrationSource_BidirectionalDNS)
		c.Req.Source = &s
	} else if c.Req.Source != nil && *c.Req.Source == int32(pb.RegistrationSource_BidirectionalDNS) {
		c.Req.Source = nil
	}
	c12GenFrontGen(rt, c)
}

func c12GenFrontGen(rt *rapid.T, c *C12Case) {
	switch rapid.SampledFrom([]int{0, 1, 1, 2}).Draw(rt, "front_gen") {
	case 1: // one of the generations of the subnet file
		g := c.Phantoms[rapid.IntRange(0, len(c.Phantoms)-1).Draw(rt, "front_gen_idx")].Gen
		c.FrontGen = &g
	case 2:
		g := uint32(rapid.SampledFrom([]int{0, 5000}).Draw(rt, "front_gen_other"))
		c.FrontGen = &g
	}
}

// C12UsageCase is a case of the usage sub-check: one configuration, N requests.
type C12UsageCase struct {
	Phantoms []C12PhGen   `json:"phantoms"`
	Reg      C12Registrar `json:"registrar"`
	Base     vh.Hex       `json:"base"` // request i uses secret sha256(base || transport || i)
	N        int          `json:"n"`    // lower bound on the requests per transport; the number actually sent is C12UsageN
	V6Too    bool         `json:"v6_too"`
}

// ---------------------------------------------------------------------------------------------
// Pools the generators draw from
// ---------------------------------------------------------------------------------------------

var (
	// the /30 makes boundary addresses of small exclusions (first / last address, /31, /32) likely
	c12PhV4 = []string{"192.122.190.0/24", "141.219.0.0/16", "35.8.0.0/16", "203.0.113.64/26", "198.18.0.0/15", "203.0.113.200/30", "203.0.113.200/30"}
	c12PhV6 = []string{"2001:48a8:687f:1::/64", "2002:c000:204::/48", "2620:10:2000::/52"}
	// override subnets: mutually disjoint (so a substituted address identifies the subnet that was
	// chosen); the last two are special: one overlaps a phantom subnet, one is IPv6.
	c12OvDisjoint = []string{"10.1.0.0/16", "10.2.0.0/24", "10.3.3.0/28", "172.16.0.0/12", "100.64.0.0/10", "10.4.4.4/32", "10.5.0.0/31", "255.255.255.0/24", "10.6.0.0/20", "10.7.7.0/24", "192.168.0.0/16", "10.8.0.0/30"}
	c12OvSpecial  = []string{"192.122.190.128/25", "fd00:12::/64"}
	c12ExPool     = []string{"192.122.190.0/24", "192.122.190.0/25", "141.219.0.0/17", "35.8.0.0/16", "203.0.113.64/27", "198.18.0.0/16", "8.8.8.0/24", "2001:48a8:687f:1::/64", "0.0.0.0/1", "203.0.113.200/30", "203.0.113.200/30", "203.0.113.202/31", "203.0.113.200/31", "203.0.113.201/32", "203.0.113.203/32", "203.0.113.200/32"}
	c12Gens       = []uint32{1, 957, 1164}
	// forged values lie outside every pool above and are no port any transport or configuration
	// generated here can produce (ports < 1024 other than 22/53/80/443 are never legitimate).
	c12ForgedV4    = []uint32{0xC6336407, 0xC6336463} // 198.51.100.7, 198.51.100.99
	c12ForgedV6    = []string{"2001:db8:f0f0::1", "2001:db8:f0f0::2"}
	c12ForgedPorts = []uint32{1, 7, 9}
	c12ForgedMark  = []byte("FORGED-BY-CLIENT")
	c12CfgPorts    = []uint32{22, 53, 80, 443, 8080, 1024, 65535}
)

// C12DefaultPhantoms is the subnet file the shipped tests use.
func C12DefaultPhantoms() []C12PhGen {
	return []C12PhGen{
		{Gen: 1, Groups: []C12PhGroup{{Weight: 9, RandPort: false, Subnets: []string{"192.122.190.0/24", "2001:48a8:687f:1::/64"}}}},
		{Gen: 957, Groups: []C12PhGroup{
			{Weight: 9, RandPort: true, Subnets: []string{"192.122.190.0/24", "2001:48a8:687f:1::/64"}},
			{Weight: 1, RandPort: false, Subnets: []string{"141.219.0.0/16", "35.8.0.0/16"}},
		}},
	}
}

// ---------------------------------------------------------------------------------------------
// Generators
// ---------------------------------------------------------------------------------------------

// c12Chance is true with probability num/den (rapid's integer generators favour small values and
// boundaries, so rare events are drawn as an index into an explicit table; shrinks towards false).
func c12Chance(rt *rapid.T, label string, num, den int) bool {
	tab := make([]bool, den)
	for i := den - num; i < den; i++ {
		tab[i] = true
	}
	return rapid.SampledFrom(tab).Draw(rt, label)
}

// c12Spell draws how an operator writes a subnet in reg_config.toml: canonical, or with host bits set
// (copied from an interface address: lowest host, a high host, all-ones host part), and for IPv6 also
// upper-case hex or fully expanded groups with leading zeros. Every spelling denotes the same subnet
// (net.ParseCIDR accepts all of them; IPv4 octets with leading zeros are rejected by the parser and
// therefore not generated).
func c12Spell(rt *rapid.T, cidr string, label string) string {
	_, n, err := net.ParseCIDR(cidr)
	if err != nil {
		return cidr
	}
	ones, bits := n.Mask.Size()
	v6 := n.IP.To4() == nil
	modes := []string{"canonical", "canonical", "host-low", "host-high", "host-ones"}
	if v6 {
		modes = append(modes, "upper", "expanded")
	}
	mode := rapid.SampledFrom(modes).Draw(rt, label+"_spelling")
	ip := append(net.IP(nil), n.IP...)
	if !v6 {
		ip = ip.To4()
	}
	host := bits - ones
	if strings.HasPrefix(mode, "host-") && host > 0 {
		for i := range ip {
			ip[i] |= ^n.Mask[i]
		}
		switch mode {
		case "host-low":
			for i := range ip {
				ip[i] &= n.Mask[i]
			}
			ip[len(ip)-1] |= 1
		case "host-high":
			if host >= 2 {
				ip[len(ip)-1] &^= 1 // all ones minus one
			}
		}
	}
	str := ip.String()
	switch mode {
	case "upper":
		str = strings.ToUpper(str)
	case "expanded":
		var g []string
		for i := 0; i < 16; i += 2 {
			g = append(g, fmt.Sprintf("%02x%02x", ip[i], ip[i+1]))
		}
		str = strings.Join(g, ":")
	}
	return fmt.Sprintf("%s/%d", str, ones)
}

func c12GenPhantoms(rt *rapid.T) []C12PhGen {
	if c12Chance(rt, "ph_default", 1, 4) {
		return C12DefaultPhantoms()
	}
	ng := rapid.IntRange(1, 2).Draw(rt, "ph_ngen")
	gens := append([]uint32(nil), c12Gens...)
	var out []C12PhGen
	for g := 0; g < ng; g++ {
		gi := rapid.IntRange(0, len(gens)-1).Draw(rt, "ph_gen")
		gen := C12PhGen{Gen: gens[gi]}
		gens = append(gens[:gi], gens[gi+1:]...)
		nw := rapid.IntRange(1, 3).Draw(rt, "ph_ngroups")
		fam := rapid.SampledFrom([]string{"both", "both", "both", "both", "both", "both", "both", "both", "both", "both", "v4", "v6"}).Draw(rt, "ph_family")
		for w := 0; w < nw; w++ {
			grp := C12PhGroup{Weight: uint32(rapid.IntRange(1, 9).Draw(rt, "ph_weight")), RandPort: rapid.Bool().Draw(rt, "ph_randport")}
			ns := rapid.IntRange(1, 3).Draw(rt, "ph_nsub")
			if fam == "both" && ns < 2 && !c12Chance(rt, "ph_single_family_group", 1, 10) {
				ns = 2
			}
			for s := 0; s < ns; s++ {
				var pool []string
				switch fam {
				case "v4":
					pool = c12PhV4
				case "v6":
					pool = c12PhV6
				default:
					if s == 0 {
						pool = c12PhV4
					} else if s == 1 {
						pool = c12PhV6
					} else {
						pool = append(append([]string(nil), c12PhV4...), c12PhV6...)
					}
				}
				grp.Subnets = append(grp.Subnets, rapid.SampledFrom(pool).Draw(rt, "ph_subnet"))
			}
			gen.Groups = append(gen.Groups, grp)
		}
		out = append(out, gen)
	}
	return out
}

func c12GenParamOvr(rt *rapid.T) []C12ParamOvr {
	n := rapid.SampledFrom([]int{0, 1, 1, 1, 2}).Draw(rt, "po_n")
	var out []C12ParamOvr
	for i := 0; i < n; i++ {
		k := rapid.SampledFrom([]string{"rand", "rand", "fixed", "file"}).Draw(rt, "po_kind")
		o := C12ParamOvr{Kind: k}
		switch k {
		case "fixed":
			o.FixedID = rapid.IntRange(0, 9).Draw(rt, "po_fixed")
		case "file":
			nl := rapid.IntRange(0, 3).Draw(rt, "po_lines")
			var sb strings.Builder
			sb.WriteString("# max bar id port prefix\n")
			for l := 0; l < nl; l++ {
				bar := rapid.SampledFrom([]int{0, 50, 100, 100}).Draw(rt, "po_bar")
				id := rapid.IntRange(0, 9).Draw(rt, "po_id")
				port := rapid.SampledFrom(c12CfgPorts).Draw(rt, "po_port")
				word := rapid.SampledFrom([]string{"GET", "HTTP/1.1", "SSH-2.0", "x"}).Draw(rt, "po_word")
				fmt.Fprintf(&sb, "100 %d %d %d %s\n", bar, id, port, word)
			}
			o.File = sb.String()
		}
		out = append(out, o)
	}
	return out
}

func c12GenOvrSubnet(rt *rapid.T, pool []string) C12OvrSubnet {
	s := C12OvrSubnet{
		CIDR:      c12Spell(rt, rapid.SampledFrom(pool).Draw(rt, "os_cidr"), "os"),
		Weight:    rapid.SampledFrom([]float64{0, 0.5, 1, 1, 2, 3, 10, 90}).Draw(rt, "os_weight"),
		Transport: rapid.SampledFrom([]string{"Min_Transport", "Min_Transport", "Min_Transport", "Prefix_Transport", "Prefix_Transport", "Prefix_Transport", "Prefix_Transport", "Obfs4_Transport"}).Draw(rt, "os_transport"),
	}
	if rapid.Bool().Draw(rt, "os_port_fixed") {
		s.Port = rapid.SampledFrom(c12CfgPorts).Draw(rt, "os_port")
	} else {
		s.Port = uint32(rapid.IntRange(1024, 65535).Draw(rt, "os_port_hi"))
	}
	// prefix ids -1 (random) .. 9 are the shipped prefixes; 11 and 42 are unknown to TryFromID (the
	// registrar then leaves the response alone). 10 is deliberately not generated: TryFromID lets
	// it through (off by one) and overridePrefix dereferences a nil prefix — a configuration crash,
	// outside this property.
	s.PrefixID = rapid.SampledFrom([]int{-1, 0, 1, 2, 3, 4, 5, 6, 7, 8, 9, 11, 42}).Draw(rt, "os_prefix")
	return s
}

// c12GenExcl draws an exclusion entry: unlabelled (cidr only), written like the sample configuration
// (weight, port and a transport label), or partially labelled; labels are the ones the configuration
// format uses for override subnets, occasionally another string.
func c12GenExcl(rt *rapid.T) C12Excl {
	x := C12Excl{CIDR: c12Spell(rt, rapid.SampledFrom(c12ExPool).Draw(rt, "excl"), "excl")}
	label := func() {
		t := rapid.SampledFrom([]string{"Min_Transport", "Min_Transport", "Min_Transport", "Prefix_Transport", "Prefix_Transport", "Prefix_Transport", "Obfs4_Transport", "Min", "Prefix", ""}).Draw(rt, "excl_transport")
		x.Transport = &t
	}
	switch rapid.SampledFrom([]string{"bare", "bare", "sample", "sample", "sample", "label"}).Draw(rt, "excl_shape") {
	case "sample":
		w := rapid.SampledFrom([]float64{28.7, 1, 0, 10}).Draw(rt, "excl_weight")
		pt := rapid.SampledFrom(c12CfgPorts).Draw(rt, "excl_port")
		x.Weight, x.Port = &w, &pt
		label()
	case "label":
		label()
	}
	return x
}

func c12GenRegistrar(rt *rapid.T) C12Registrar {
	r := C12Registrar{
		Auth:     rapid.Bool().Draw(rt, "auth"),
		KeySeed:  vh.Hex(rapid.SliceOfN(rapid.Byte(), 32, 32).Draw(rt, "key_seed")),
		ParamOvr: c12GenParamOvr(rt),
		Enforce:  c12Chance(rt, "enforce", 5, 6),
	}
	if c12Chance(rt, "exported_constructor", 1, 4) {
		r.Build = "constructor"
	}
	pcts := []float64{0, 100, 100, 100, 100, 100, 50, 50, 12.5, 99.9, 0.1, 150, -1}
	r.PctMin = rapid.SampledFrom(pcts).Draw(rt, "pct_min")
	r.PctPrefix = rapid.SampledFrom(pcts).Draw(rt, "pct_prefix")
	pool := append(append([]string(nil), c12OvDisjoint...), c12OvSpecial...)
	n := rapid.IntRange(0, 8).Draw(rt, "n_ovr_subnets")
	for i := 0; i < n; i++ {
		r.Subnets = append(r.Subnets, c12GenOvrSubnet(rt, pool))
	}
	ne := rapid.SampledFrom([]int{0, 0, 1, 1, 2, 3}).Draw(rt, "n_excl")
	for i := 0; i < ne; i++ {
		r.Exclusions = append(r.Exclusions, c12GenExcl(rt))
	}
	return r
}

func c12GenParams(rt *rapid.T, kind string, label string) C12Params {
	p := C12Params{Kind: kind, TypeURL: rapid.SampledFrom([]string{"full", "full", "full", "empty", "tapdance"}).Draw(rt, label+"_url")}
	switch kind {
	case "generic", "dtls":
		if c12Chance(rt, label+"_has_rand", 3, 4) {
			b := rapid.Bool().Draw(rt, label+"_rand")
			p.Randomize = &b
		}
	case "prefix":
		if c12Chance(rt, label+"_has_id", 9, 10) {
			id := int32(rapid.SampledFrom([]int{0, 0, 0, 1, 1, 2, 2, 3, 3, 4, 4, 5, 5, 6, 6, 7, 7, 8, 8, 9, 9, -1, 10, 22}).Draw(rt, label+"_id"))
			p.PrefixID = &id
		}
		if c12Chance(rt, label+"_has_rand", 3, 4) {
			b := rapid.Bool().Draw(rt, label+"_rand")
			p.Randomize = &b
		}
		if c12Chance(rt, label+"_has_prefix", 1, 6) {
			p.Prefix = vh.Hex(rapid.SliceOfN(rapid.Byte(), 0, 6).Draw(rt, label+"_prefix"))
		}
		if c12Chance(rt, label+"_has_flush", 1, 6) {
			f := int32(rapid.IntRange(0, 3).Draw(rt, label+"_flush"))
			p.Flush = &f
		}
	}
	return p
}

func c12MatchingKind(tt int32) string {
	switch pb.TransportType(tt) {
	case pb.TransportType_Min, pb.TransportType_Obfs4:
		return "generic"
	case pb.TransportType_Prefix:
		return "prefix"
	case pb.TransportType_DTLS:
		return "dtls"
	}
	return "generic"
}

func c12GenRequest(rt *rapid.T, ph []C12PhGen, bidir bool) C12Request {
	q := C12Request{}
	sl := rapid.SampledFrom([]int{32, 32, 32, 32, 32, 32, 32, 32, 32, 32, 32, 32, 32, 32, 32, 16, 8, 7, 0, 48}).Draw(rt, "secret_len")
	q.Secret = vh.Hex(rapid.SliceOfN(rapid.Byte(), sl, sl).Draw(rt, "secret"))
	q.LibVer = uint32(rapid.SampledFrom([]int{4, 4, 4, 4, 4, 4, 4, 4, 4, 3, 3, 3, 2, 1, 0, 7}).Draw(rt, "libver"))
	if c12Chance(rt, "gen_unknown", 1, 25) {
		q.Gen = uint32(rapid.SampledFrom([]int{0, 2, 958, 4000000000}).Draw(rt, "gen_other"))
	} else {
		q.Gen = ph[rapid.IntRange(0, len(ph)-1).Draw(rt, "gen_idx")].Gen
	}
	switch rapid.SampledFrom([]string{"both", "both", "both", "both", "both", "v4", "v4", "v4", "v4", "v4", "v6", "v6", "v6", "none"}).Draw(rt, "families") {
	case "both":
		q.V4, q.V6 = true, true
	case "v4":
		q.V4 = true
	case "v6":
		q.V6 = true
	}
	q.Transport = int32(rapid.SampledFrom([]pb.TransportType{
		pb.TransportType_Min, pb.TransportType_Min, pb.TransportType_Min, pb.TransportType_Min,
		pb.TransportType_Prefix, pb.TransportType_Prefix, pb.TransportType_Prefix, pb.TransportType_Prefix, pb.TransportType_Prefix,
		pb.TransportType_Min, pb.TransportType_Prefix, pb.TransportType_Prefix,
		pb.TransportType_Obfs4, pb.TransportType_DTLS, pb.TransportType_Null, pb.TransportType_Webrtc,
	}).Draw(rt, "transport"))
	kind := c12MatchingKind(q.Transport)
	switch rapid.SampledFrom([]int{0, 1, 2, 2, 2, 2, 2, 2, 2, 2, 2, 2, 2, 2, 2, 2, 2, 2, 2, 2}).Draw(rt, "param_shape") {
	case 0:
		kind = "none"
	case 1:
		kind = rapid.SampledFrom([]string{"generic", "prefix", "dtls"}).Draw(rt, "param_kind_any")
	}
	q.Params = c12GenParams(rt, kind, "p")
	switch rapid.SampledFrom([]int{0, 1, 2, 3, 4, 5, 6, 7}).Draw(rt, "disable") {
	case 0, 1:
		t := true
		q.Disable = &t
	case 2:
		f := false
		q.Disable = &f
	}
	q.Covert = rapid.SampledFrom([]string{"192.0.2.10:443", "[2001:db8::10]:443", "example.com:80", ""}).Draw(rt, "covert")
	if c12Chance(rt, "has_source", 1, 2) {
		s := int32(rapid.SampledFrom([]pb.RegistrationSource{pb.RegistrationSource_Unspecified, pb.RegistrationSource_Detector, pb.RegistrationSource_API, pb.RegistrationSource_DetectorPrescan, pb.RegistrationSource_BidirectionalAPI, pb.RegistrationSource_DNS, pb.RegistrationSource_BidirectionalDNS}).Draw(rt, "source"))
		q.Source = &s
	}
	switch rapid.SampledFrom([]int{0, 1, 2, 3, 4, 5, 6, 7}).Draw(rt, "reg_addr") {
	case 0:
		q.RegAddr = vh.Hex(net.ParseIP("198.51.100.33").To4())
	case 1:
		q.RegAddr = vh.Hex(net.ParseIP("198.51.100.34").To16())
	case 2:
		q.RegAddr = vh.Hex(net.ParseIP("2001:db8:aaaa::34").To16())
	}
	// hostile registrar-only fields
	f := C12Forged{}
	if c12Chance(rt, "forge_resp", 7, 10) {
		f.HasResp = true
		if c12Chance(rt, "forge_v4", 4, 5) {
			v := rapid.SampledFrom(c12ForgedV4).Draw(rt, "forged_v4")
			f.V4 = &v
		}
		if c12Chance(rt, "forge_v6", 4, 5) {
			f.V6 = vh.Hex(net.ParseIP(rapid.SampledFrom(c12ForgedV6).Draw(rt, "forged_v6")).To16())
		}
		if c12Chance(rt, "forge_port", 4, 5) {
			v := rapid.SampledFrom(c12ForgedPorts).Draw(rt, "forged_port")
			f.Port = &v
		}
		if c12Chance(rt, "forge_params", 4, 5) {
			fp := C12Params{Kind: c12MatchingKind(q.Transport), TypeURL: "full"}
			t := true
			fp.Randomize = &t
			if fp.Kind == "prefix" {
				id := int32(rapid.IntRange(0, 9).Draw(rt, "forged_prefix_id"))
				fl := int32(2)
				fp.PrefixID, fp.Flush, fp.Prefix = &id, &fl, vh.Hex(c12ForgedMark)
			}
			f.Params = &fp
		}
	}
	switch rapid.SampledFrom([]int{0, 1, 2, 3}).Draw(rt, "forge_sig") {
	case 0:
		f.SelfSigned = true
	case 1:
		f.RespBytes = vh.Hex(rapid.SliceOfN(rapid.Byte(), 0, 24).Draw(rt, "forged_resp_bytes"))
		f.Sig = vh.Hex(rapid.SliceOfN(rapid.Byte(), 64, 64).Draw(rt, "forged_sig"))
	case 2:
		f.Sig = vh.Hex(rapid.SliceOfN(rapid.Byte(), 1, 64).Draw(rt, "forged_sig_only"))
	}
	q.Forged = f
	// what the front end saw
	switch rapid.SampledFrom([]int{0, 1, 2, 3, 4, 5, 6, 7, 8, 9}).Draw(rt, "client_addr") {
	case 0:
		q.ClientAddr = nil // DNS front end
	case 1, 2:
		q.ClientAddr = vh.Hex(net.ParseIP("2001:db8:c11e::7").To16())
	default:
		q.ClientAddr = vh.Hex(net.ParseIP("198.51.100.77").To16())
	}
	if bidir {
		q.Method = int32(rapid.SampledFrom([]pb.RegistrationSource{pb.RegistrationSource_BidirectionalAPI, pb.RegistrationSource_BidirectionalAPI, pb.RegistrationSource_BidirectionalDNS}).Draw(rt, "method"))
	} else {
		q.Method = int32(rapid.SampledFrom([]pb.RegistrationSource{pb.RegistrationSource_API, pb.RegistrationSource_API, pb.RegistrationSource_DNS}).Draw(rt, "method"))
	}
	return q
}

// C12Gen draws one case.
func C12Gen(rt *rapid.T, bidir bool) C12Case {
	c := C12Case{Bidir: bidir}
	c.Phantoms = c12GenPhantoms(rt)
	c.Reg = c12GenRegistrar(rt)
	c.Req = c12GenRequest(rt, c.Phantoms, bidir)
	return c
}

// C12GenUsage draws one usage case: subnet overrides enforced, the override percentage of each
// transport drawn from 5..100 (mostly below 100), 1-5 mutually disjoint weighted override subnets per
// transport (weights 1..3, so the smallest share is >= 1/13), optionally extra zero-weight subnets
// (must never be used) and entries for other transports, in any order; no exclusion covers a phantom
// subnet of the shipped configuration. The number of requests follows from the case (C12UsageN).
func C12GenUsage(rt *rapid.T) C12UsageCase {
	u := C12UsageCase{Phantoms: C12DefaultPhantoms(), N: 0, V6Too: rapid.Bool().Draw(rt, "v6_too")}
	u.Base = vh.Hex(rapid.SliceOfN(rapid.Byte(), 8, 8).Draw(rt, "base"))
	r := C12Registrar{
		Auth:    rapid.Bool().Draw(rt, "auth"),
		KeySeed: vh.Hex(bytes.Repeat([]byte{0x12}, 32)),
		Enforce: true,
	}
	// the override percentage is part of the case: mostly below 100 (the weighted choice must not
	// depend on the draw that decided whether to override), sometimes exactly 100
	pcts := []float64{5, 10, 12.5, 25, 33.3, 40, 50, 50, 60, 75, 90, 99.9, 100, 100, 100}
	r.PctMin = rapid.SampledFrom(pcts).Draw(rt, "pct_min")
	r.PctPrefix = rapid.SampledFrom(pcts).Draw(rt, "pct_prefix")
	if rapid.Bool().Draw(rt, "rand_override") {
		r.ParamOvr = []C12ParamOvr{{Kind: "rand"}}
	}
	perm := rapid.Permutation(c12OvDisjoint).Draw(rt, "cidrs")
	kMin := rapid.SampledFrom([]int{1, 2, 2, 3, 3, 4, 5}).Draw(rt, "k_min")
	kPre := rapid.SampledFrom([]int{1, 2, 2, 3, 3, 4, 5}).Draw(rt, "k_prefix")
	next := 0
	for i := 0; i < kMin; i++ {
		r.Subnets = append(r.Subnets, C12OvrSubnet{CIDR: c12Spell(rt, perm[next], "min"), Weight: float64(rapid.IntRange(1, 3).Draw(rt, "w_min")), Transport: "Min_Transport", Port: 443})
		next++
	}
	for i := 0; i < kPre; i++ {
		r.Subnets = append(r.Subnets, C12OvrSubnet{CIDR: c12Spell(rt, perm[next], "prefix"), Weight: float64(rapid.IntRange(1, 3).Draw(rt, "w_prefix")),
			Transport: "Prefix_Transport", Port: rapid.SampledFrom(c12CfgPorts).Draw(rt, "port"), PrefixID: rapid.IntRange(-1, 9).Draw(rt, "prefix_id")})
		next++
	}
	// extras share the remaining CIDRs or reuse one (a zero-weight duplicate range cannot be told
	// apart from its twin, so extras only use fresh CIDRs when there are any left)
	nx := rapid.IntRange(0, 3).Draw(rt, "n_extra")
	for i := 0; i < nx && next < len(perm); i++ {
		tr := rapid.SampledFrom([]string{"Min_Transport", "Min_Transport", "Prefix_Transport", "Prefix_Transport", "Obfs4_Transport"}).Draw(rt, "extra_transport")
		r.Subnets = append(r.Subnets, C12OvrSubnet{CIDR: c12Spell(rt, perm[next], "extra"), Weight: 0, Transport: tr, Port: 80, PrefixID: 1})
		next++
	}
	r.Subnets = rapid.Permutation(r.Subnets).Draw(rt, "order")
	if c12Chance(rt, "exported_constructor", 1, 3) {
		r.Build = "constructor"
	}
	if rapid.Bool().Draw(rt, "unrelated_exclusion") {
		t := rapid.SampledFrom([]string{"", "Min_Transport", "Prefix_Transport"}).Draw(rt, "unrelated_exclusion_label")
		x := C12Excl{CIDR: "8.8.8.0/24"}
		if t != "" {
			x.Transport = &t
		}
		r.Exclusions = []C12Excl{x}
	}
	u.Reg = r
	return u
}

// ---------------------------------------------------------------------------------------------
// Environment: recording sender, station, selectors
// ---------------------------------------------------------------------------------------------

// C12Sender is the fake ZMQ socket: it records every message handed to it.
type C12Sender struct {
	Sent [][]byte
}

func (s *C12Sender) SendBytes(b []byte, _ zmq.Flag) (int, error) {
	s.Sent = append(s.Sent, append([]byte(nil), b...))
	return len(b), nil
}
func (s *C12Sender) Close() error { return nil }

// C12TB is the part of testing.TB the environment needs.
type C12TB interface {
	TempDir() string
	Fatalf(format string, args ...any)
}

// C12Env holds what is shared by all cases of one test function.
type C12Env struct {
	dir     string
	Station *lib.RegistrationManager
	Metrics *metrics.Metrics
	selReg  map[[8]byte]*phantoms.PhantomIPSelector
	selSta  map[[8]byte]*phantoms.PhantomIPSelector
	nfile   int
	Prefix  *prefix.Transport
}

// C12PhantomTOML renders a phantom subnet configuration in the format of phantom_subnets.toml.
func C12PhantomTOML(ph []C12PhGen) string {
	var sb strings.Builder
	sb.WriteString("[Networks]\n")
	for _, g := range ph {
		fmt.Fprintf(&sb, "    [Networks.%d]\n        Generation = %d\n", g.Gen, g.Gen)
		for _, w := range g.Groups {
			fmt.Fprintf(&sb, "        [[Networks.%d.WeightedSubnets]]\n            Weight = %d\n            RandomizeDstPort = %v\n            Subnets = [", g.Gen, w.Weight, w.RandPort)
			for i, s := range w.Subnets {
				if i > 0 {
					sb.WriteString(", ")
				}
				fmt.Fprintf(&sb, "%q", s)
			}
			sb.WriteString("]\n")
		}
	}
	return sb.String()
}

// C12NewEnv builds the station and the metrics sink once per test function.
func C12NewEnv(tb C12TB) *C12Env {
	e := &C12Env{dir: tb.TempDir(), selReg: map[[8]byte]*phantoms.PhantomIPSelector{}, selSta: map[[8]byte]*phantoms.PhantomIPSelector{}}
	p := filepath.Join(e.dir, "phantom_subnets_default.toml")
	if err := os.WriteFile(p, []byte(C12PhantomTOML(C12DefaultPhantoms())), 0o644); err != nil {
		tb.Fatalf("harness problem: %v", err)
	}
	os.Setenv("PHANTOM_SUBNET_LOCATION", p)
	conf := &lib.RegConfig{EnableIPv4: true, EnableIPv6: true}
	conf.ParseBlocklists()
	// NewRegistrationManager logs a "missing geoip DB" warning to stdout; keep the test log clean.
	devnull, _ := os.OpenFile(os.DevNull, os.O_WRONLY, 0)
	saved := os.Stdout
	if devnull != nil {
		os.Stdout = devnull
	}
	rm := lib.NewRegistrationManager(conf)
	os.Stdout = saved
	if devnull != nil {
		devnull.Close()
	}
	if rm == nil {
		tb.Fatalf("harness problem: NewRegistrationManager returned nil")
		return nil
	}
	e.Prefix = prefix.DefaultSet()
	for tt, t := range c12Transports(e.Prefix) {
		if err := rm.AddTransport(tt, t); err != nil {
			tb.Fatalf("harness problem: station AddTransport: %v", err)
		}
	}
	rm.Logger = stationlog.New(io.Discard, "", 0)
	e.Station = rm
	lg := logrus.New()
	lg.SetOutput(io.Discard)
	e.Metrics = metrics.NewMetrics(logrus.NewEntry(lg), 24*time.Hour)
	return e
}

// the transports the shipped registration server and station enable
func c12Transports(p *prefix.Transport) map[pb.TransportType]lib.Transport {
	return map[pb.TransportType]lib.Transport{
		pb.TransportType_Min:    min.Transport{},
		pb.TransportType_Obfs4:  obfs4.Transport{},
		pb.TransportType_Prefix: p,
		pb.TransportType_DTLS:   dtls.Transport{},
	}
}

// selectors returns two independent selectors parsed from one file holding the configuration.
func (e *C12Env) selectors(ph []C12PhGen) (reg, sta *phantoms.PhantomIPSelector, err error) {
	d := vh.Digest(ph)
	if r, ok := e.selReg[d]; ok {
		return r, e.selSta[d], nil
	}
	e.nfile++
	p := filepath.Join(e.dir, fmt.Sprintf("phantom_subnets_%d.toml", e.nfile))
	if err = os.WriteFile(p, []byte(C12PhantomTOML(ph)), 0o644); err != nil {
		return nil, nil, err
	}
	defer os.Remove(p)
	if reg, err = phantoms.SubnetsFromTomlFile(p); err != nil {
		return nil, nil, err
	}
	if sta, err = phantoms.SubnetsFromTomlFile(p); err != nil {
		return nil, nil, err
	}
	if len(e.selReg) > 20000 {
		e.selReg, e.selSta = map[[8]byte]*phantoms.PhantomIPSelector{}, map[[8]byte]*phantoms.PhantomIPSelector{}
	}
	e.selReg[d], e.selSta[d] = reg, sta
	return reg, sta, nil
}

type c12Net struct {
	*net.IPNet
	src C12OvrSubnet
}

type c12ExNet struct {
	*net.IPNet
	src C12Excl
}

// c12RegConf has the override-related keys of cmd/registration-server's config struct, with the same
// toml tags and element type, so the generated configuration is decoded by the same code path
// (BurntSushi/toml -> regprocessor.Subnet / Ipnet.UnmarshalText) as a real reg_config.toml.
type c12RegConf struct {
	EnforceSubnetOverrides    bool     `toml:"enforce_subnet_overrides"`
	PrcntMinRegsToOverride    float64  `toml:"prcnt_min_regs_to_override"`
	PrcntPrefixRegsToOverride float64  `toml:"prcnt_prefix_regs_to_override"`
	OverrideSubnets           []Subnet `toml:"override_subnet"`
	ExclusionsFromOverride    []Subnet `toml:"excluded_subnet_from_overrides"`
}

func c12Float(f float64) string {
	s := fmt.Sprintf("%g", f)
	if !strings.ContainsAny(s, ".e") {
		s += ".0"
	}
	return s
}

// C12RegConfigTOML renders the override part of a registrar configuration in the format of
// cmd/registration-server/reg_config.toml.
func C12RegConfigTOML(r C12Registrar) string {
	var sb strings.Builder
	fmt.Fprintf(&sb, "enforce_subnet_overrides = %v\nprcnt_min_regs_to_override = %s\nprcnt_prefix_regs_to_override = %s\n", r.Enforce, c12Float(r.PctMin), c12Float(r.PctPrefix))
	for _, s := range r.Subnets {
		fmt.Fprintf(&sb, "\n[[override_subnet]]\ncidr = %q\nweight = %s\nport = %d\ntransport = %q\n", s.CIDR, c12Float(s.Weight), s.Port, s.Transport)
		if s.Transport == "Prefix_Transport" || s.PrefixID != 0 {
			fmt.Fprintf(&sb, "prefix_id = %d\n", s.PrefixID)
		}
	}
	for _, x := range r.Exclusions {
		fmt.Fprintf(&sb, "\n[[excluded_subnet_from_overrides]]\ncidr = %q\n", x.CIDR)
		if x.Weight != nil {
			fmt.Fprintf(&sb, "weight = %s\n", c12Float(*x.Weight))
		}
		if x.Port != nil {
			fmt.Fprintf(&sb, "port = %d\n", *x.Port)
		}
		if x.Transport != nil {
			fmt.Fprintf(&sb, "transport = %q\n", *x.Transport)
		}
	}
	return sb.String()
}

// C12Proc is a RegProcessor built from a C12Registrar together with what the oracle needs.
type C12Proc struct {
	closeFn func()
	// ByConstructor: the processor came from the exported constructor. ConstructorUnavailable: the
	// case asked for it but the process was short of descriptors, a struct literal was used.
	ByConstructor          bool
	ConstructorUnavailable bool
	RP                     *RegProcessor
	Sender                 *C12Sender
	Pub                    ed25519.PublicKey
	ovr                    []c12Net
	excl                   []c12ExNet
	sel                    *phantoms.PhantomIPSelector
}

// --- descriptor budget of the constructor-built processors -------------------------------------------
//
// Every processor made by an exported constructor owns a real ZMQ socket (signalling descriptors, a
// TCP listener) and, when authenticated, the process-wide ZAP handler. libzmq closes sockets
// asynchronously (reaper thread) and a context holds at most 1023 sockets, so the harness (a) waits
// after an authenticated case until the ZAP endpoint is really free instead of retrying a constructor
// that leaks its socket when AuthStart fails, (b) watches the number of open descriptors and lets the
// reaper catch up, and (c) falls back to a struct-literal processor — counted, never a verdict —
// when descriptors stay short.

var (
	c12CtorBuilt   int
	c12CtorSkipFor int
)

// C12OpenFDs counts the open descriptors of the process (evidence: must stay bounded).
func C12OpenFDs() int {
	ents, err := os.ReadDir("/proc/self/fd")
	if err != nil {
		return -1
	}
	return len(ents)
}

// c12CtorBudgetOK says whether this case may use an exported constructor.
func c12CtorBudgetOK() bool {
	if c12CtorSkipFor > 0 {
		c12CtorSkipFor--
		return false
	}
	c12CtorBuilt++
	if c12CtorBuilt%32 != 0 {
		return true
	}
	for i := 0; i < 200 && C12OpenFDs() > 300; i++ {
		time.Sleep(time.Millisecond) // let the reaper close what earlier cases released
	}
	if C12OpenFDs() > 600 {
		c12CtorPenalty()
		return false
	}
	return true
}

func c12CtorPenalty() { c12CtorSkipFor = 500 }

func c12ResourceErr(err error) bool {
	if err == nil {
		return false
	}
	s := err.Error()
	for _, k := range []string{"too many open files", "non-socket", "address already in use", "failed to create zmq socket", "Cannot allocate", "resource temporarily unavailable"} {
		if strings.Contains(s, k) {
			return true
		}
	}
	return false
}

// c12WaitZapFree returns when the inproc endpoint of the ZAP handler can be bound again (zmq.AuthStop
// returns before the handler's socket is gone). The probe unbinds before it is closed, so it does not
// hold the endpoint itself. Bounded; on time-out the next constructor call reports the problem.
func c12WaitZapFree() {
	const ep = "inproc://zeromq.zap.01"
	for i := 0; i < 4000; i++ {
		probe, err := zmq.NewSocket(zmq.REP)
		if err != nil {
			return
		}
		_ = probe.SetLinger(0)
		err = probe.Bind(ep)
		if err == nil {
			_ = probe.Unbind(ep)
		}
		_ = probe.Close()
		if err == nil {
			return
		}
		time.Sleep(50 * time.Microsecond)
	}
}

// Close releases what an exported constructor allocated (real ZMQ socket, auth handler).
func (pr *C12Proc) Close() {
	if pr != nil && pr.closeFn != nil {
		pr.closeFn()
		pr.closeFn = nil
	}
}

// C12NewProc builds the registrar the way NewRegProcessor / NewRegProcessorNoAuth do, with the
// recording sender instead of a ZMQ socket and the generated parameter override set.
func C12NewProc(e *C12Env, r C12Registrar, sel *phantoms.PhantomIPSelector) (*C12Proc, error) {
	if len(r.KeySeed) != ed25519.SeedSize {
		return nil, fmt.Errorf("registrar key seed must be %d bytes", ed25519.SeedSize)
	}
	priv := ed25519.NewKeyFromSeed(r.KeySeed)
	pr := &C12Proc{Sender: &C12Sender{}, Pub: priv.Public().(ed25519.PublicKey), sel: sel}
	// the configuration goes through the registrar's own decoding path
	var conf c12RegConf
	doc := C12RegConfigTOML(r)
	if _, err := toml.Decode(doc, &conf); err != nil {
		return nil, fmt.Errorf("generated reg_config does not decode: %v\n%s", err, doc)
	}
	if len(conf.OverrideSubnets) != len(r.Subnets) || len(conf.ExclusionsFromOverride) != len(r.Exclusions) {
		return nil, fmt.Errorf("generated reg_config decoded to %d override subnets / %d exclusions, want %d / %d", len(conf.OverrideSubnets), len(conf.ExclusionsFromOverride), len(r.Subnets), len(r.Exclusions))
	}
	subnets, excl := conf.OverrideSubnets, conf.ExclusionsFromOverride
	for i, s := range r.Subnets {
		if subnets[i].CIDR.IPNet == nil || subnets[i].Transport != s.Transport || subnets[i].Weight != s.Weight || subnets[i].Port != s.Port || int(subnets[i].PrefixId) != s.PrefixID {
			return nil, fmt.Errorf("override subnet %d decoded as %+v, generated %+v", i, subnets[i], s)
		}
		// the oracle's view of the subnet is parsed independently of the registrar's decoder
		_, n, err := net.ParseCIDR(s.CIDR)
		if err != nil {
			return nil, fmt.Errorf("override subnet %q: %v", s.CIDR, err)
		}
		pr.ovr = append(pr.ovr, c12Net{IPNet: n, src: s})
	}
	for i, x := range r.Exclusions {
		if excl[i].CIDR.IPNet == nil {
			return nil, fmt.Errorf("exclusion %d decoded without a cidr", i)
		}
		_, n, err := net.ParseCIDR(x.CIDR)
		if err != nil {
			return nil, fmt.Errorf("exclusion %q: %v", x.CIDR, err)
		}
		pr.excl = append(pr.excl, c12ExNet{IPNet: n, src: x})
	}
	var ovr []interfaces.RegOverride
	for _, o := range r.ParamOvr {
		switch o.Kind {
		case "rand":
			ovr = append(ovr, overrides.NewRandPrefixOverride())
		case "fixed":
			p, ok := prefix.DefaultPrefixes[prefix.PrefixID(o.FixedID)]
			if !ok {
				return nil, fmt.Errorf("fixed override: unknown prefix id %d", o.FixedID)
			}
			ovr = append(ovr, overrides.NewFixedPrefixOverride(p))
		case "file":
			po, err := overrides.ParsePrefixes(strings.NewReader(o.File))
			if err != nil {
				return nil, fmt.Errorf("file override: %v", err)
			}
			ovr = append(ovr, po)
		default:
			return nil, fmt.Errorf("unknown override kind %q", o.Kind)
		}
	}
	var regOverrides interfaces.Overrides
	if len(ovr) > 0 {
		regOverrides = interfaces.Overrides(ovr)
	}
	if r.Build == "constructor" && c12CtorBudgetOK() {
		// PHANTOM_SUBNET_LOCATION points at the environment's default file (set by C12NewEnv); the
		// case's selector replaces the one the constructor loads from it.
		var rp *RegProcessor
		var err error
		if r.Auth {
			// the ZAP endpoint of the previous authenticated case has been released (c12WaitZapFree in
			// the previous Close), so this normally succeeds at once; a constructor that fails in
			// AuthStart leaves its socket open, hence at most a few attempts
			for attempt := 0; attempt < 3; attempt++ {
				rp, err = NewRegProcessor("127.0.0.1", 0, priv, false, nil, e.Metrics, conf.EnforceSubnetOverrides, conf.OverrideSubnets, conf.ExclusionsFromOverride, conf.PrcntMinRegsToOverride, conf.PrcntPrefixRegsToOverride)
				if err == nil || !strings.Contains(err.Error(), "address already in use") {
					break
				}
				c12WaitZapFree()
			}
		} else {
			rp, err = NewRegProcessorNoAuth("127.0.0.1", 0, e.Metrics, conf.EnforceSubnetOverrides, conf.OverrideSubnets, conf.ExclusionsFromOverride, conf.PrcntMinRegsToOverride, conf.PrcntPrefixRegsToOverride)
		}
		switch {
		case err == nil && rp != nil:
			real := rp.sock
			auth := r.Auth
			pr.closeFn = func() {
				if auth {
					zmq.AuthStop()
				}
				_ = real.Close()
				if auth {
					c12WaitZapFree()
				}
			}
			rp.sock = pr.Sender
			rp.ipSelector = sel
			rp.regOverrides = regOverrides
			for tt, t := range c12Transports(prefix.DefaultSet()) {
				if err := rp.AddTransport(tt, t); err != nil {
					pr.Close()
					return nil, err
				}
			}
			pr.RP = rp
			pr.ByConstructor = true
			return pr, nil
		case c12ResourceErr(err):
			// the process ran out of sockets / descriptors (or the endpoint never came free): a
			// limit of the harness, not of the code under test. Run this case on a struct-literal
			// processor instead and stop using the constructor for a while.
			if r.Auth {
				zmq.AuthStop()
			}
			c12CtorPenalty()
			pr.ConstructorUnavailable = true
		default:
			if r.Auth {
				zmq.AuthStop()
			}
			return nil, fmt.Errorf("exported constructor (auth=%v) failed: %v", r.Auth, err)
		}
	} else if r.Build == "constructor" {
		pr.ConstructorUnavailable = true
	}
	// --- from here on: the body of newRegProcessor / NewRegProcessorNoAuth -----------------------
	pMin, pPre := validateOverridePercentages(conf.PrcntMinRegsToOverride, conf.PrcntPrefixRegsToOverride)
	minS, preS := splitOverrideSubnets(subnets)
	rp := &RegProcessor{
		ipSelector:                             sel,
		sock:                                   pr.Sender,
		metrics:                                e.Metrics,
		transports:                             make(map[pb.TransportType]lib.Transport),
		authenticated:                          r.Auth,
		regOverrides:                           regOverrides,
		enforceSubnetOverrides:                 conf.EnforceSubnetOverrides,
		minOverrideSubnets:                     minS,
		prefixOverrideSubnets:                  preS,
		minOverrideSubnetsCumulativeWeights:    processOverrideSubnetsWeights(minS),
		prefixOverrideSubnetsCumulativeWeights: processOverrideSubnetsWeights(preS),
		exclusionsFromOverride:                 make([]Subnet, len(excl)),
		prcntMinRegsToOverride:                 pMin,
		prcntPrefixRegsToOverride:              pPre,
	}
	copy(rp.exclusionsFromOverride, excl)
	if r.Auth {
		rp.privkey = priv
	}
	for tt, t := range c12Transports(prefix.DefaultSet()) {
		if err := rp.AddTransport(tt, t); err != nil {
			return nil, err
		}
	}
	pr.RP = rp
	return pr, nil
}

// ---------------------------------------------------------------------------------------------
// Building the client's message
// ---------------------------------------------------------------------------------------------

func c12TypeURL(kind, mode string) string {
	name := map[string]string{"generic": "GenericTransportParams", "prefix": "PrefixTransportParams", "dtls": "DTLSTransportParams"}[kind]
	switch mode {
	case "empty":
		return ""
	case "tapdance":
		return "type.googleapis.com/tapdance." + name
	}
	return "type.googleapis.com/proto." + name
}

// C12BuildParams renders a C12Params as the Any a client would send (nil for kind none).
func C12BuildParams(p C12Params) *anypb.Any {
	var m proto.Message
	switch p.Kind {
	case "generic":
		m = &pb.GenericTransportParams{RandomizeDstPort: p.Randomize}
	case "dtls":
		m = &pb.DTLSTransportParams{RandomizeDstPort: p.Randomize}
	case "prefix":
		x := &pb.PrefixTransportParams{PrefixId: p.PrefixID, RandomizeDstPort: p.Randomize, CustomFlushPolicy: p.Flush}
		if len(p.Prefix) > 0 {
			x.Prefix = []byte(p.Prefix)
		}
		m = x
	default:
		return nil
	}
	b, err := proto.Marshal(m)
	if err != nil {
		panic(err)
	}
	return &anypb.Any{TypeUrl: c12TypeURL(p.Kind, p.TypeURL), Value: b}
}

var c12AttackerKey = ed25519.NewKeyFromSeed(bytes.Repeat([]byte{0xA7}, 32))

// C12ForgedResponse is the registration_response the hostile client supplies (nil if none).
func C12ForgedResponse(f C12Forged) *pb.RegistrationResponse {
	if !f.HasResp {
		return nil
	}
	rr := &pb.RegistrationResponse{Ipv4Addr: f.V4, DstPort: f.Port}
	if len(f.V6) > 0 {
		rr.Ipv6Addr = []byte(f.V6)
	}
	if f.Params != nil {
		rr.TransportParams = C12BuildParams(*f.Params)
	}
	return rr
}

// C12ForgedSig returns the RegRespBytes / RegRespSignature the hostile client supplies.
func C12ForgedSig(f C12Forged) (rb, sig []byte) {
	if f.SelfSigned {
		rr := C12ForgedResponse(f)
		if rr == nil {
			rr = &pb.RegistrationResponse{DstPort: proto.Uint32(c12ForgedPorts[0])}
		}
		rb, _ = proto.Marshal(rr)
		return rb, ed25519.Sign(c12AttackerKey, rb)
	}
	if len(f.RespBytes) > 0 {
		rb = []byte(f.RespBytes)
	}
	if len(f.Sig) > 0 {
		sig = []byte(f.Sig)
	}
	return rb, sig
}

// C12ClientPayload is the registration_payload the client sends.
func C12ClientPayload(q C12Request) *pb.ClientToStation {
	tt := pb.TransportType(q.Transport)
	c2s := &pb.ClientToStation{
		ClientLibVersion:          proto.Uint32(q.LibVer),
		DecoyListGeneration:       proto.Uint32(q.Gen),
		V4Support:                 proto.Bool(q.V4),
		V6Support:                 proto.Bool(q.V6),
		Transport:                 &tt,
		TransportParams:           C12BuildParams(q.Params),
		Flags:                     &pb.RegistrationFlags{},
		DisableRegistrarOverrides: q.Disable,
	}
	if q.Covert != "" {
		c2s.CovertAddress = proto.String(q.Covert)
	}
	return c2s
}

// C12ClientBytes is the marshalled C2SWrapper exactly as it leaves the (hostile) client.
func C12ClientBytes(q C12Request) ([]byte, error) {
	w := &pb.C2SWrapper{
		SharedSecret:         []byte(q.Secret),
		RegistrationPayload:  C12ClientPayload(q),
		RegistrationResponse: C12ForgedResponse(q.Forged),
	}
	if q.Source != nil {
		s := pb.RegistrationSource(*q.Source)
		w.RegistrationSource = &s
	}
	if len(q.RegAddr) > 0 {
		w.RegistrationAddress = []byte(q.RegAddr)
	}
	w.RegRespBytes, w.RegRespSignature = C12ForgedSig(q.Forged)
	return proto.Marshal(w)
}

// ---------------------------------------------------------------------------------------------
// Entry points
// ---------------------------------------------------------------------------------------------

// C12Entry hands the client's bytes to a front end of the registrar. For a bidirectional request it
// returns the marshalled RegistrationResponse the client receives (ok=false: the request was
// refused, note says why).
type C12Entry func(pr *C12Proc, clientBytes []byte, c C12Case) (respBytes []byte, ok bool, note string)

// C12DirectEntry calls RegisterBidirectional / RegisterUnidirectional the way the front ends do:
// with the C2SWrapper they decoded from the client's bytes.
func C12DirectEntry(pr *C12Proc, clientBytes []byte, c C12Case) ([]byte, bool, string) {
	w := &pb.C2SWrapper{}
	if err := proto.Unmarshal(clientBytes, w); err != nil {
		return nil, false, "undecodable"
	}
	var addr []byte
	if len(c.Req.ClientAddr) > 0 {
		addr = []byte(c.Req.ClientAddr)
	}
	if !c.Bidir {
		if err := pr.RP.RegisterUnidirectional(w, pb.RegistrationSource(c.Req.Method), addr); err != nil {
			return nil, false, c12ErrClass(err)
		}
		return nil, true, ""
	}
	resp, err := pr.RP.RegisterBidirectional(w, pb.RegistrationSource(c.Req.Method), addr)
	if err != nil {
		return nil, false, c12ErrClass(err)
	}
	if resp == nil {
		return nil, false, "nil-response"
	}
	b, err := proto.Marshal(resp)
	if err != nil {
		return nil, false, "unmarshallable-response"
	}
	return b, true, ""
}

func c12ErrClass(err error) string {
	s := err.Error()
	for _, k := range []string{"unknown transport", "failed to parse transport parameters", "error determining destination port", "generation number not recognized", "shared secret", "no C2S body", "failed to process registration"} {
		if strings.Contains(s, k) {
			return strings.ReplaceAll(k, " ", "-")
		}
	}
	if len(s) > 40 {
		s = s[:40]
	}
	return "other:" + strings.ReplaceAll(s, " ", "-")
}

// ---------------------------------------------------------------------------------------------
// Oracle
// ---------------------------------------------------------------------------------------------

// C12Finding is one violated clause.
type C12Finding struct {
	Key string
	Msg string
}

// C12Result is what running one case produced.
type C12Result struct {
	Harness    string // non-empty: the harness itself could not run the case (never a verdict)
	Findings   []C12Finding
	Classes    []string
	NonTrivial bool
}

func (r *C12Result) class(c string) { r.Classes = append(r.Classes, c) }
func (r *C12Result) bad(key, format string, a ...any) {
	r.Findings = append(r.Findings, C12Finding{Key: key, Msg: fmt.Sprintf(format, a...)})
}

func c12V4(u uint32) net.IP {
	b := make([]byte, 4)
	binary.BigEndian.PutUint32(b, u)
	return net.IP(b)
}

func c12AnyStr(a *anypb.Any) string {
	if a == nil {
		return "<nil>"
	}
	return fmt.Sprintf("{%s %x}", a.TypeUrl, a.Value)
}

func c12AnyEq(a, b *anypb.Any) bool {
	if a == nil || b == nil {
		return a == nil && b == nil
	}
	return a.TypeUrl == b.TypeUrl && bytes.Equal(a.Value, b.Value)
}

func c12TransportName(tt pb.TransportType) string {
	switch tt {
	case pb.TransportType_Min:
		return "Min_Transport"
	case pb.TransportType_Prefix:
		return "Prefix_Transport"
	}
	return ""
}

// c12Station ingests a forwarded message through parseRegMessage itself and returns the v4 / v6
// registrations (nil when the station does not create one for that family) and their errors.
func c12Station(e *C12Env, sel *phantoms.PhantomIPSelector, msg []byte) (fwd *pb.C2SWrapper, want4, want6 bool, r4, r6 *lib.DecoyRegistration, e4, e6 error, err error) {
	e.Station.PhantomSelector = sel
	fwd = &pb.C2SWrapper{}
	if err = proto.Unmarshal(msg, fwd); err != nil {
		return nil, false, false, nil, nil, nil, nil, err
	}
	// which registrations the station is expected to build (family rule of parseRegMessage on the
	// unchanged tree: IPv4 only for a client whose forwarded address is IPv4, IPv6 whenever supported)
	src := net.IP(fwd.GetRegistrationAddress())
	want4 = fwd.GetRegistrationPayload().GetV4Support() && e.Station.EnableIPv4 && src.To4() != nil
	want6 = fwd.GetRegistrationPayload().GetV6Support() && e.Station.EnableIPv6
	// the real ingest entry, on the forwarded bytes, as an ingest worker does
	regs, perr := e.Station.C12ParseRegMessage(append([]byte(nil), msg...))
	n := 0
	if want4 {
		n++
	}
	if want6 {
		n++
	}
	if perr == nil && len(regs) != n {
		perr = fmt.Errorf("station ingest built %d registrations from the forwarded message, %d expected (v4=%v v6=%v)", len(regs), n, want4, want6)
	}
	if perr != nil {
		if want4 {
			e4 = perr
		}
		if want6 {
			e6 = perr
		}
		return
	}
	i := 0
	if want4 {
		r4 = regs[i]
		i++
	}
	if want6 {
		r6 = regs[i]
	}
	return
}

// c12ParamsEq compares the parameters a station holds with the expected parsed parameters.
func c12ParamsEq(got, want any) bool {
	gm, gok := got.(proto.Message)
	wm, wok := want.(proto.Message)
	gnil := got == nil || (gok && !gm.ProtoReflect().IsValid())
	wnil := want == nil || (wok && !wm.ProtoReflect().IsValid())
	if gnil || wnil {
		return gnil && wnil
	}
	if !gok || !wok {
		return false
	}
	return proto.Equal(gm, wm)
}

// C12Run runs one case through `entry` and evaluates the oracle.
func C12Run(e *C12Env, c C12Case, entry C12Entry) (res C12Result) {
	q := c.Req
	selReg, selSta, err := e.selectors(c.Phantoms)
	if err != nil {
		res.Harness = "phantom configuration: " + err.Error()
		return
	}
	pr, err := C12NewProc(e, c.Reg, selReg)
	if err != nil {
		res.Harness = "registrar configuration: " + err.Error()
		return
	}
	defer pr.Close()
	if pr.ByConstructor {
		res.class(fmt.Sprintf("built-by-exported-constructor:auth=%v", c.Reg.Auth))
	}
	if pr.ConstructorUnavailable {
		res.class("exported-constructor-skipped-descriptor-budget")
	}
	clientBytes, err := C12ClientBytes(q)
	if err != nil {
		res.Harness = "client message: " + err.Error()
		return
	}
	forgedResp := C12ForgedResponse(q.Forged)
	forgedRB, forgedSig := C12ForgedSig(q.Forged)
	if forgedResp != nil {
		res.class("forged-response")
	}
	if len(forgedRB) > 0 || len(forgedSig) > 0 {
		res.class("forged-signature-fields")
	}

	respBytes, ok, note := entry(pr, clientBytes, c)
	if !ok {
		res.class("refused")
		res.class("refused:" + note)
		if len(pr.Sender.Sent) != 0 {
			res.class("refused-but-forwarded")
		}
		return
	}
	res.class("accepted")
	if c.Reg.Auth {
		res.class("authenticated")
	} else {
		res.class("unauthenticated")
	}

	// --- exactly one message reaches the stations ---------------------------------------------------
	if len(pr.Sender.Sent) != 1 {
		res.bad("forward:count", "the registrar answered the client but handed %d messages to the ZMQ sender (want 1)", len(pr.Sender.Sent))
		return
	}
	c12Judge(e, c, pr, selSta, respBytes, pr.Sender.Sent[0], &res)
	return
}

// c12Judge evaluates the oracle for one accepted registration: what the client received (respBytes,
// bidirectional only) against the message handed to the ZMQ sender for it (msg) and against what a
// station ingesting that message ends up with.
func c12Judge(e *C12Env, c C12Case, pr *C12Proc, selSta *phantoms.PhantomIPSelector, respBytes, msg []byte, res *C12Result) {
	q := c.Req
	tt := pb.TransportType(q.Transport)
	disabled := q.Disable != nil && *q.Disable
	forgedResp := C12ForgedResponse(q.Forged)
	forgedRB, forgedSig := C12ForgedSig(q.Forged)
	forgedAny := forgedResp != nil || len(forgedRB) > 0 || len(forgedSig) > 0
	fwd, want4, want6, r4, r6, e4, e6, err := c12Station(e, selSta, msg)
	if err != nil {
		res.bad("forward:undecodable", "forwarded bytes do not decode as a C2SWrapper: %v", err)
		return
	}
	fr := fwd.GetRegistrationResponse()

	// --- (2) signature fields ---------------------------------------------------------------------
	rb, sig := fwd.GetRegRespBytes(), fwd.GetRegRespSignature()
	if len(forgedRB) > 0 && bytes.Equal(rb, forgedRB) {
		res.bad("forged:resp-bytes", "the client's RegRespBytes %x were forwarded to the stations", forgedRB)
	}
	if len(forgedSig) > 0 && bytes.Equal(sig, forgedSig) {
		res.bad("forged:signature", "the client's RegRespSignature %x was forwarded to the stations", forgedSig)
	}
	if !c.Bidir {
		if fr != nil {
			res.bad("unidir:response-forwarded", "a unidirectional registration was forwarded with a registration_response %v", fr)
		}
		if len(rb) != 0 || len(sig) != 0 {
			res.bad("unidir:signature-forwarded", "a unidirectional registration was forwarded with RegRespBytes=%x RegRespSignature=%x", rb, sig)
		}
	} else if !c.Reg.Auth {
		if len(rb) != 0 || len(sig) != 0 {
			res.bad("signature:present-unauthenticated", "unauthenticated registrar forwarded RegRespBytes=%x RegRespSignature=%x", rb, sig)
		}
	} else if fr != nil {
		if len(sig) == 0 || !ed25519.Verify(pr.Pub, rb, sig) {
			res.bad("signature:invalid", "RegRespSignature %x is not a valid signature by the registrar's key over RegRespBytes %x", sig, rb)
		}
		signed := &pb.RegistrationResponse{}
		if err := proto.Unmarshal(rb, signed); err != nil {
			res.bad("signature:stale", "RegRespBytes %x do not decode: %v", rb, err)
		} else if !proto.Equal(signed, fr) {
			res.bad("signature:stale", "the signed RegRespBytes decode to %v but the forwarded registration_response is %v", signed, fr)
		}
	}

	// the forwarded secret / payload are the client's
	if !bytes.Equal(fwd.GetSharedSecret(), []byte(q.Secret)) {
		res.bad("forward:secret", "forwarded shared secret %x differs from the client's %x", fwd.GetSharedSecret(), []byte(q.Secret))
	}

	// reference data: what the phantom selector yields for this client
	// (the generation is the forwarded one: the API front end deliberately moves a client that is
	// behind to its own ClientConf generation before the registrar proper sees the request)
	keys, kerr := core.GenSharedKeys(uint(q.LibVer), []byte(q.Secret), tt)
	gen := uint(fwd.GetRegistrationPayload().GetDecoyListGeneration())
	if gen != uint(q.Gen) {
		res.class("front-end-moved-generation")
	}
	var sel4, sel6 net.IP
	if kerr == nil {
		if q.V4 {
			if p, err := pr.sel.Select(keys.ConjureSeed, gen, uint(q.LibVer), false); err == nil {
				sel4 = p.IP().To4()
			}
		}
		if q.V6 {
			if p, err := pr.sel.Select(keys.ConjureSeed, gen, uint(q.LibVer), true); err == nil {
				sel6 = p.IP().To16()
			}
		}
	}
	clientParams := C12BuildParams(q.Params)
	staT := c12Transports(e.Prefix)[tt]

	if !c.Bidir {
		// --- unidirectional: the stations derive everything from the client's own payload ------
		if !proto.Equal(fwd.GetRegistrationPayload(), C12ClientPayload(q)) {
			res.bad("unidir:payload-changed", "forwarded registration_payload %v differs from the client's %v", fwd.GetRegistrationPayload(), C12ClientPayload(q))
		}
		check := func(fam string, want bool, r *lib.DecoyRegistration, rerr error, sel net.IP) {
			if !want || rerr != nil || r == nil {
				return
			}
			res.class("station-" + fam)
			if sel == nil || !r.PhantomIp.Equal(sel) {
				res.bad("unidir:station-phantom", "station %s registration has phantom %v, the selector yields %v for this client (forged response: %v)", fam, r.PhantomIp, sel, forgedResp)
			}
			if q.Forged.Port != nil && uint32(r.PhantomPort) == *q.Forged.Port {
				res.bad("forged:port", "station %s registration uses the client's forged port %d", fam, r.PhantomPort)
			}
			if staT != nil {
				want, perr := staT.ParseParams(uint(q.LibVer), C12BuildParams(q.Params))
				if perr == nil && !c12ParamsEq(r.TransportParams(), want) {
					res.bad("unidir:station-params", "station %s registration holds params %v, the client sent %v", fam, r.TransportParams(), want)
				}
			}
		}
		check("v4", want4, r4, e4, sel4)
		check("v6", want6, r6, e6, sel6)
		res.NonTrivial = forgedAny
		return
	}

	// --- bidirectional -------------------------------------------------------------------------
	resp := &pb.RegistrationResponse{}
	if err := proto.Unmarshal(respBytes, resp); err != nil {
		res.Harness = "response bytes from the entry point do not decode: " + err.Error()
		return
	}
	if fr == nil {
		res.bad("differential:no-forwarded-response", "the client received %v but the forwarded message carries no registration_response", resp)
		return
	}
	// (1a) client's view == forwarded view
	if (resp.Ipv4Addr == nil) != (fr.Ipv4Addr == nil) || resp.GetIpv4Addr() != fr.GetIpv4Addr() {
		res.bad("differential:v4", "client was told IPv4 phantom %v, stations were told %v", c12V4Str(resp.Ipv4Addr), c12V4Str(fr.Ipv4Addr))
	}
	if !bytes.Equal(resp.GetIpv6Addr(), fr.GetIpv6Addr()) {
		res.bad("differential:v6", "client was told IPv6 phantom %v, stations were told %v", net.IP(resp.GetIpv6Addr()), net.IP(fr.GetIpv6Addr()))
	}
	if (resp.DstPort == nil) != (fr.DstPort == nil) || resp.GetDstPort() != fr.GetDstPort() {
		res.bad("differential:port", "client was told port %v, stations were told %v", c12U32Str(resp.DstPort), c12U32Str(fr.DstPort))
	}
	if !c12AnyEq(resp.GetTransportParams(), fr.GetTransportParams()) {
		res.bad("differential:params", "client was told transport params %s, stations were told %s", c12AnyStr(resp.GetTransportParams()), c12AnyStr(fr.GetTransportParams()))
	}

	// (2) nothing forged survives in what the client or the stations are told
	for _, v := range []struct {
		who string
		rr  *pb.RegistrationResponse
	}{{"client", resp}, {"stations", fr}} {
		if q.Forged.V4 != nil && v.rr.Ipv4Addr != nil && *v.rr.Ipv4Addr == *q.Forged.V4 {
			res.bad("forged:v4", "%s were told the client's forged IPv4 phantom %v", v.who, c12V4(*q.Forged.V4))
		}
		if len(q.Forged.V6) > 0 && bytes.Equal(v.rr.GetIpv6Addr(), q.Forged.V6) {
			res.bad("forged:v6", "%s were told the client's forged IPv6 phantom %v", v.who, net.IP(q.Forged.V6))
		}
		if q.Forged.Port != nil && v.rr.DstPort != nil && *v.rr.DstPort == *q.Forged.Port {
			res.bad("forged:port", "%s were told the client's forged port %d", v.who, *q.Forged.Port)
		}
		if tp := v.rr.GetTransportParams(); tp != nil && forgedResp != nil && forgedResp.TransportParams != nil {
			if c12AnyEq(tp, forgedResp.TransportParams) || bytes.Contains(tp.Value, c12ForgedMark) {
				res.bad("forged:params", "%s were told the client's forged transport params %s", v.who, c12AnyStr(tp))
			}
		}
	}

	// (3) parameter overrides only when the client has not disabled them
	if resp.GetTransportParams() != nil {
		res.class("param-override")
	}
	if disabled {
		res.class("overrides-disabled")
		if len(c.Reg.ParamOvr) > 0 && tt == pb.TransportType_Prefix {
			res.class("overrides-disabled-and-configured")
		}
		if resp.GetTransportParams() != nil || fr.GetTransportParams() != nil {
			res.bad("override-when-disabled", "the client disabled registrar overrides but transport params were overridden: client told %s, stations told %s", c12AnyStr(resp.GetTransportParams()), c12AnyStr(fr.GetTransportParams()))
		}
	}

	// (4) phantom substitution
	tname := c12TransportName(tt)
	subst := func(fam string, orig, got net.IP) {
		if got == nil {
			return
		}
		if orig == nil {
			res.class("phantom-for-unrequested-family")
			return
		}
		if got.Equal(orig) {
			// Which exclusions cover the original, and was an exclusion the only thing standing
			// between this registration and a certain override (enforced, 100 %, a weighted
			// subnet configured for the transport, overrides not disabled for Prefix)?
			certain := c.Reg.Enforce && tname != "" && !(tt == pb.TransportType_Prefix && disabled)
			if certain {
				pct := c.Reg.PctMin
				if tt == pb.TransportType_Prefix {
					pct = c.Reg.PctPrefix
				}
				has := false
				for _, n := range pr.ovr {
					if n.src.Transport == tname && n.src.Weight > 0 && n.IP.To4() != nil {
						has = true
					}
				}
				certain = pct == 100 && has
			}
			seen := map[string]bool{}
			for _, x := range pr.excl {
				if !x.Contains(orig) {
					continue
				}
				kind := "unlabelled"
				if x.src.Transport != nil && *x.src.Transport != "" {
					kind = "labelled-other-transport"
					if *x.src.Transport == tname {
						kind = "labelled-own-transport"
					}
				}
				seen[kind] = true
			}
			if len(seen) > 0 {
				res.class("original-in-exclusion")
			}
			for k := range seen {
				res.class("original-in-exclusion:" + k)
				// decisive only when every covering exclusion is of this one kind
				if certain && len(seen) == 1 {
					res.class("exclusion-decisive:" + k)
				}
			}
			return
		}
		res.class("substituted")
		res.class("substituted:" + tname)
		in := false
		for _, n := range pr.ovr {
			if n.src.Transport == tname && tname != "" && n.Contains(got) {
				in = true
				if n.IPNet.String() != n.src.CIDR {
					res.class("substituted-from-subnet-written-non-canonically")
				}
			}
		}
		if !c.Reg.Enforce || !in {
			var cfg []string
			for _, n := range pr.ovr {
				if n.src.Transport == tname {
					cfg = append(cfg, n.src.CIDR)
				}
			}
			res.bad("substitute:outside-configured-subnets", "%s phantom %v (selector: %v) is in none of the override subnets configured for %v: %v (enforce=%v)", fam, got, orig, tt, cfg, c.Reg.Enforce)
		}
		for _, x := range pr.excl {
			if x.Contains(orig) {
				lbl := "no transport label"
				if x.src.Transport != nil {
					lbl = fmt.Sprintf("transport label %q", *x.src.Transport)
				}
				res.bad("substitute:excluded-original", "%s phantom %v of a %v registration lies in excluded subnet %v (%s) but was replaced by %v", fam, orig, tt, x.IPNet, lbl, got)
				break
			}
		}
	}
	var got4, got6 net.IP
	if resp.Ipv4Addr != nil {
		got4 = c12V4(resp.GetIpv4Addr())
	}
	if resp.Ipv6Addr != nil {
		got6 = net.IP(resp.GetIpv6Addr())
	}
	subst("IPv4", sel4, got4)
	subst("IPv6", sel6, got6)

	// (1b) the station's view
	effective := clientParams
	if resp.GetTransportParams() != nil && !disabled {
		effective = resp.GetTransportParams()
	}
	station := func(fam string, want bool, r *lib.DecoyRegistration, rerr error, told net.IP) {
		if !want {
			return
		}
		res.class("station-" + fam)
		if rerr != nil || r == nil {
			key := "station:rejects-forwarded"
			if rerr != nil && strings.Contains(rerr.Error(), "client couldn't support this transport") {
				// root cause: the registrar let a client through whose library version cannot use
				// the transport, and its override then made the station look at the parameters
				key = "station:rejects-forwarded:libver-cannot-use-transport"
			}
			res.bad(key, "the station cannot build the %s registration from the forwarded message: %v (client was told %v)", fam, rerr, resp)
			return
		}
		if told == nil || !r.PhantomIp.Equal(told) {
			res.bad("station:phantom", "station %s registration has phantom %v, the client was told %v", fam, r.PhantomIp, told)
		}
		if resp.DstPort != nil && r.PhantomPort != uint16(resp.GetDstPort()) {
			res.bad("station:port", "station %s registration has port %d, the client was told %d", fam, r.PhantomPort, resp.GetDstPort())
		}
		if staT != nil {
			var cp *anypb.Any
			if effective != nil {
				cp = proto.Clone(effective).(*anypb.Any)
			}
			wantP, perr := staT.ParseParams(uint(q.LibVer), cp)
			if perr != nil {
				res.bad("station:params", "the parameters in force for the client %s do not parse (%v) yet the station built a registration with %v", c12AnyStr(effective), perr, r.TransportParams())
			} else if !c12ParamsEq(r.TransportParams(), wantP) {
				res.bad("station:params", "station %s registration holds params %v, the client uses %v (response params %s, overrides disabled=%v)", fam, r.TransportParams(), wantP, c12AnyStr(resp.GetTransportParams()), disabled)
			}
		}
	}
	station("v4", want4, r4, e4, got4)
	station("v6", want6, r6, e6, got6)
	// (3, station side) the station applies the response's parameters only for a client that has
	// not disabled overrides: the same forwarded message with the client's flag set must leave the
	// station with the client's own parameters.
	if fr.GetTransportParams() != nil && !disabled && staT != nil {
		flipped := proto.Clone(fwd).(*pb.C2SWrapper)
		flipped.RegistrationPayload.DisableRegistrarOverrides = proto.Bool(true)
		if fb, err := proto.Marshal(flipped); err == nil {
			_, w4, w6, f4, f6, fe4, fe6, ferr := c12Station(e, selSta, fb)
			own, perr := staT.ParseParams(uint(q.LibVer), C12BuildParams(q.Params))
			if ferr == nil && perr == nil {
				for _, x := range []struct {
					fam  string
					want bool
					r    *lib.DecoyRegistration
					err  error
				}{{"v4", w4, f4, fe4}, {"v6", w6, f6, fe6}} {
					if !x.want || x.err != nil || x.r == nil {
						continue
					}
					res.class("station-disable-flag-probe")
					if !c12ParamsEq(x.r.TransportParams(), own) {
						res.bad("station:override-when-disabled", "a station given the forwarded message with disable_registrar_overrides set holds %s params %v instead of the client's own %v (response params %s)", x.fam, x.r.TransportParams(), own, c12AnyStr(fr.GetTransportParams()))
					}
				}
			}
		}
	}
	if q.V4 && !want4 {
		res.class("station-skips-v4-for-non-v4-client-address")
	}
	switch {
	case q.V4 && q.V6:
		res.class("dual-stack")
	case q.V4:
		res.class("v4-only")
	case q.V6:
		res.class("v6-only")
	}
	res.class("transport:" + tt.String())
	// the source label the stations see is the client's whenever it set one other than Unspecified
	changed := resp.GetTransportParams() != nil || (sel4 != nil && got4 != nil && !got4.Equal(sel4))
	res.class("forwarded-source:" + fwd.GetRegistrationSource().String())
	switch fwd.GetRegistrationSource() {
	case pb.RegistrationSource_BidirectionalAPI, pb.RegistrationSource_BidirectionalDNS:
	default:
		res.class("forwarded-source-not-bidirectional")
		if changed && (want4 || want6) {
			res.class("forwarded-source-not-bidirectional-and-registrar-changed-something")
		}
	}
	res.NonTrivial = forgedAny || changed
	return
}

func c12V4Str(p *uint32) string {
	if p == nil {
		return "<none>"
	}
	return c12V4(*p).String()
}

func c12U32Str(p *uint32) string {
	if p == nil {
		return "<none>"
	}
	return fmt.Sprint(*p)
}

// ---------------------------------------------------------------------------------------------
// Usage: every override subnet with a non-zero weight is used
// ---------------------------------------------------------------------------------------------

// C12UsageRow is the tally for one configured override subnet.
type C12UsageRow struct {
	Subnet C12OvrSubnet
	Count  int
}

// C12UsageN is the number of requests sent for one transport: with override probability p = pct/100
// and s the smallest non-zero weight share among the transport's subnets, a correct (independent,
// weighted) choice misses a given weighted subnet with probability (1 - p*s)^N <= exp(-N*p*s).
// N = ceil(26 / (p*s)) gives <= exp(-26) < 5.2e-12 per subnet; with at most 10 weighted subnets per
// case the false-alarm probability is < 5.2e-11 per case (< 1e-9 as required; < 1e-6 over the 16 000
// cases of the thorough tier). The case's N is a lower bound (replay files written when N was fixed).
func C12UsageN(u C12UsageCase, tname string) int {
	pct := u.Reg.PctMin
	if tname == "Prefix_Transport" {
		pct = u.Reg.PctPrefix
	}
	total, least := 0.0, 0.0
	for _, s := range u.Reg.Subnets {
		if s.Transport == tname && s.Weight > 0 {
			total += s.Weight
			if least == 0 || s.Weight < least {
				least = s.Weight
			}
		}
	}
	n := u.N
	if total > 0 && pct > 0 {
		if need := int(math.Ceil(26 / (pct / 100 * least / total))); need > n {
			n = need
		}
	}
	return n
}

// C12RunUsage sends C12UsageN bidirectional requests per transport (Min, Prefix) through one registrar and
// counts which override subnet each substituted phantom came from.
func C12RunUsage(e *C12Env, u C12UsageCase) (res C12Result, rows []C12UsageRow) {
	selReg, _, err := e.selectors(u.Phantoms)
	if err != nil {
		res.Harness = "phantom configuration: " + err.Error()
		return
	}
	pr, err := C12NewProc(e, u.Reg, selReg)
	if err != nil {
		res.Harness = "registrar configuration: " + err.Error()
		return
	}
	defer pr.Close()
	if pr.ByConstructor {
		res.class(fmt.Sprintf("built-by-exported-constructor:auth=%v", u.Reg.Auth))
	}
	if pr.ConstructorUnavailable {
		res.class("exported-constructor-skipped-descriptor-budget")
	}
	for _, s := range u.Reg.Subnets {
		rows = append(rows, C12UsageRow{Subnet: s})
	}
	// IPv4 phantom subnets of the case: an address outside all of them was substituted
	var phNets []*net.IPNet
	for _, g := range u.Phantoms {
		for _, w := range g.Groups {
			for _, sn := range w.Subnets {
				if _, n, err := net.ParseCIDR(sn); err == nil && n.IP.To4() != nil {
					phNets = append(phNets, n)
				}
			}
		}
	}
	spelled := false
	for _, s := range u.Reg.Subnets {
		if _, n, err := net.ParseCIDR(s.CIDR); err == nil && s.Weight > 0 && n.String() != s.CIDR {
			spelled = true
		}
	}
	if spelled {
		res.class("weighted-subnet-written-non-canonically")
	}
	multi := false
	for _, tt := range []pb.TransportType{pb.TransportType_Min, pb.TransportType_Prefix} {
		tname := c12TransportName(tt)
		k := 0
		for _, s := range u.Reg.Subnets {
			if s.Transport == tname && s.Weight > 0 {
				k++
			}
		}
		if k >= 2 {
			multi = true
		}
		pct := u.Reg.PctMin
		if tt == pb.TransportType_Prefix {
			pct = u.Reg.PctPrefix
		}
		n := C12UsageN(u, tname)
		if pct < 100 {
			res.class("percentage-below-100")
			if k >= 2 {
				res.class("percentage-below-100-with-several-weighted-subnets")
			}
		}
		overridden := 0
		for i := 0; i < n; i++ {
			seedBytes := append(append([]byte(u.Base), byte(tt)), byte(i), byte(i>>8))
			if i>>16 != 0 {
				// cases with more than 65536 requests (small weight shares); earlier replays unchanged
				seedBytes = append(seedBytes, byte(i>>16), byte(i>>24))
			}
			h := sha256.Sum256(seedBytes)
			if i&1023 == 0 {
				pr.Sender.Sent = nil // the forwarded messages are not looked at here
			}
			// generation 957 of the shipped file has a v4-only group, so dual-stack requests use
			// generation 1 (every group has both families)
			q := C12Request{Secret: vh.Hex(h[:]), LibVer: 4, Gen: 957, V4: true, V6: u.V6Too && i%2 == 1, Transport: int32(tt),
				Params: C12Params{Kind: c12MatchingKind(int32(tt)), TypeURL: "full"}, Covert: "192.0.2.10:443",
				ClientAddr: vh.Hex(net.ParseIP("198.51.100.77").To16()), Method: int32(pb.RegistrationSource_BidirectionalAPI)}
			if q.V6 {
				q.Gen = 1
			}
			if tt == pb.TransportType_Prefix {
				id := int32(i % 10)
				q.Params.PrefixID = &id
			}
			b, err := C12ClientBytes(q)
			if err != nil {
				res.Harness = err.Error()
				return
			}
			w := &pb.C2SWrapper{}
			if err := proto.Unmarshal(b, w); err != nil {
				res.Harness = err.Error()
				return
			}
			resp, err := pr.RP.RegisterBidirectional(w, pb.RegistrationSource_BidirectionalAPI, []byte(q.ClientAddr))
			if err != nil || resp == nil || resp.Ipv4Addr == nil {
				res.Harness = fmt.Sprintf("usage request %d (%v) was refused: %v", i, tt, err)
				return
			}
			got := c12V4(resp.GetIpv4Addr())
			hit := -1
			for j, n := range pr.ovr {
				if n.src.Transport == tname && n.Contains(got) {
					hit = j
				}
			}
			if hit < 0 && len(phNets) > 0 {
				own := false
				for _, pn := range phNets {
					if pn.Contains(got) {
						own = true
					}
				}
				if !own {
					var cfg []string
					for _, n := range pr.ovr {
						if n.src.Transport == tname {
							cfg = append(cfg, n.src.CIDR)
						}
					}
					res.bad("substitute:outside-configured-subnets", "request %d: IPv4 phantom %v of a %v registration is neither in a phantom subnet nor in any override subnet configured for the transport (as written in the configuration: %v)", i, got, tt, cfg)
					return
				}
			}
			if hit < 0 {
				// not substituted (or substituted outside the configuration: the bidir sub-check
				// owns that clause). With 100 % and no exclusion every request must be overridden
				// for the tally to mean anything.
				continue
			}
			overridden++
			rows[hit].Count++
		}
		res.class(fmt.Sprintf("k=%d:%s", k, tname))
		// order classes: a zero-weight entry listed before / between / after the weighted ones
		firstW, lastW := -1, -1
		idx := 0
		var zeros []int
		for _, s := range u.Reg.Subnets {
			if s.Transport != tname {
				continue
			}
			if s.Weight > 0 {
				if firstW < 0 {
					firstW = idx
				}
				lastW = idx
			} else {
				zeros = append(zeros, idx)
			}
			idx++
		}
		for _, z := range zeros {
			switch {
			case z < firstW:
				res.class("zero-weight-before-all-weighted")
			case z < lastW:
				res.class("zero-weight-before-a-weighted")
			default:
				res.class("zero-weight-last")
			}
		}
		if pct == 100 && overridden < n {
			// not judged by itself (the property speaks about which subnets are used), but it is
			// evidence and goes into the message of a never-chosen finding
			res.class("requests-not-overridden-at-100-percent")
		}
		for j, row := range rows {
			if row.Subnet.Transport != tname || row.Subnet.Weight <= 0 {
				continue
			}
			if row.Count == 0 {
				var tally []string
				total := 0.0
				for _, r2 := range rows {
					if r2.Subnet.Transport == tname {
						total += r2.Subnet.Weight
					}
				}
				for _, r2 := range rows {
					if r2.Subnet.Transport == tname {
						tally = append(tally, fmt.Sprintf("%s(w=%g)=%d", r2.Subnet.CIDR, r2.Subnet.Weight, r2.Count))
					}
				}
				res.bad("usage:subnet-never-chosen", "override subnet #%d %s for %s has weight %g (%.3g %% share) but was never chosen in %d registrations at %g %% override (%d overridden, %d kept their own phantom; %.0f hits expected); tally in configuration order: %s",
					j, row.Subnet.CIDR, tname, row.Subnet.Weight, 100*row.Subnet.Weight/total, n, pct, overridden, n-overridden, float64(n)*pct/100*row.Subnet.Weight/total, strings.Join(tally, " "))
			}
		}
		for j, row := range rows {
			if row.Subnet.Transport == tname && row.Subnet.Weight <= 0 && row.Count > 0 {
				res.bad("usage:zero-weight-subnet-chosen", "override subnet #%d %s for %s has weight %g but was chosen %d times in %d registrations at %g %% override", j, row.Subnet.CIDR, tname, row.Subnet.Weight, row.Count, n, pct)
			}
		}
	}
	if multi {
		res.class("several-weighted-subnets")
	}
	res.NonTrivial = multi
	sort.Strings(res.Classes)
	return
}

// ---------------------------------------------------------------------------------------------
// Concurrency: registrations in flight at the same time keep their own message
// ---------------------------------------------------------------------------------------------

// C12ConcClient is one client of a concurrent case.
type C12ConcClient struct {
	Bidir bool       `json:"bidirectional"`
	Req   C12Request `json:"request"`
}

// C12ConcCase is a case of the concurrent sub-check: one registrar, K different clients registering
// at the same time while the socket is slow for whichever send comes first.
type C12ConcCase struct {
	Phantoms []C12PhGen      `json:"phantoms"`
	Reg      C12Registrar    `json:"registrar"`
	Clients  []C12ConcClient `json:"clients"`
	Procs    int             `json:"gomaxprocs"` // 0 = leave as is
	HoldUS   int             `json:"hold_us"`    // how long the first send stays inside the socket after every client has started
}

// C12GenConc draws a concurrent case. Clients are ordinary generated (possibly hostile) requests with
// the secret replaced by a distinct 32-byte one, so every forwarded message can be attributed.
func C12GenConc(rt *rapid.T) C12ConcCase {
	c := C12ConcCase{Phantoms: c12GenPhantoms(rt), Reg: c12GenRegistrar(rt)}
	c.Procs = rapid.SampledFrom([]int{1, 1, 1, 2, 0, 0}).Draw(rt, "gomaxprocs")
	c.HoldUS = rapid.SampledFrom([]int{300, 1000, 1000, 3000}).Draw(rt, "hold_us")
	k := rapid.IntRange(4, 16).Draw(rt, "clients")
	for i := 0; i < k; i++ {
		bidir := rapid.SampledFrom([]bool{true, true, true, false}).Draw(rt, "bidirectional")
		q := c12GenRequest(rt, c.Phantoms, bidir)
		h := sha256.Sum256(append([]byte{byte(i), 0xC1, 0x2C}, q.Secret...))
		h[0], h[1] = 0xC0+byte(i>>4), byte(i)<<4|0x0C
		q.Secret = vh.Hex(h[:])
		c.Clients = append(c.Clients, C12ConcClient{Bidir: bidir, Req: q})
	}
	return c
}

// c12GateSender copies every message at call time (as libzmq does). The first send stays inside the
// socket — its caller holds the registrar's publish lock — until every client goroutine has started
// and a little longer, so that the other registrations pile up between "message built" and "message
// sent". Later sends yield once.
type c12GateSender struct {
	mu      sync.Mutex
	sent    [][]byte
	started *sync.WaitGroup
	hold    time.Duration
}

func (s *c12GateSender) SendBytes(b []byte, _ zmq.Flag) (int, error) {
	cp := append([]byte(nil), b...)
	s.mu.Lock()
	s.sent = append(s.sent, cp)
	first := len(s.sent) == 1
	s.mu.Unlock()
	if first {
		s.started.Wait()
		// let the others run up to the publish lock: yields for a single P, a short sleep for several
		for i := 0; i < 64; i++ {
			runtime.Gosched()
		}
		time.Sleep(s.hold)
		for i := 0; i < 64; i++ {
			runtime.Gosched()
		}
	} else {
		runtime.Gosched()
	}
	return len(b), nil
}
func (s *c12GateSender) Close() error { return nil }

type c12ConcOut struct {
	resp []byte
	ok   bool
	note string
}

// C12RunConc runs the clients concurrently through one registrar, then sequentially through an
// identical one, and judges every registration.
func C12RunConc(e *C12Env, c C12ConcCase) (res C12Result) {
	selReg, selSta, err := e.selectors(c.Phantoms)
	if err != nil {
		res.Harness = "phantom configuration: " + err.Error()
		return
	}
	pr, err := C12NewProc(e, c.Reg, selReg)
	if err != nil {
		res.Harness = "registrar configuration: " + err.Error()
		return
	}
	defer pr.Close()
	if pr.ByConstructor {
		res.class(fmt.Sprintf("built-by-exported-constructor:auth=%v", c.Reg.Auth))
	}
	if pr.ConstructorUnavailable {
		res.class("exported-constructor-skipped-descriptor-budget")
	}
	refReg := c.Reg
	refReg.Build = "" // one ZMQ auth handler at a time; the reference is compared on non-random fields only
	ref, err := C12NewProc(e, refReg, selReg)
	if err != nil {
		res.Harness = "registrar configuration: " + err.Error()
		return
	}
	k := len(c.Clients)
	cases := make([]C12Case, k)
	msgs := make([][]byte, k)
	for i, cl := range c.Clients {
		cases[i] = C12Case{Bidir: cl.Bidir, Phantoms: c.Phantoms, Reg: c.Reg, Req: cl.Req}
		if msgs[i], err = C12ClientBytes(cl.Req); err != nil {
			res.Harness = "client message: " + err.Error()
			return
		}
		for j := 0; j < i; j++ {
			if bytes.Equal(c.Clients[j].Req.Secret, cl.Req.Secret) {
				res.Harness = fmt.Sprintf("clients %d and %d share a secret", j, i)
				return
			}
		}
	}

	// --- concurrent phase ----------------------------------------------------------------------
	var started, done sync.WaitGroup
	started.Add(k)
	done.Add(k)
	gate := &c12GateSender{started: &started, hold: time.Duration(c.HoldUS) * time.Microsecond}
	pr.RP.sock = gate
	if c.Procs > 0 {
		defer runtime.GOMAXPROCS(runtime.GOMAXPROCS(c.Procs))
	}
	out := make([]c12ConcOut, k)
	for i := 0; i < k; i++ {
		go func(i int) {
			defer done.Done()
			started.Done()
			b, ok, note := C12DirectEntry(pr, msgs[i], cases[i])
			out[i] = c12ConcOut{resp: b, ok: ok, note: note}
		}(i)
	}
	fin := make(chan struct{})
	go func() { done.Wait(); close(fin) }()
	select {
	case <-fin:
	case <-time.After(60 * time.Second):
		res.Harness = "concurrent registrations did not finish within 60 s"
		return
	}
	gate.mu.Lock()
	sent := gate.sent
	gate.mu.Unlock()

	res.class(fmt.Sprintf("gomaxprocs=%d", c.Procs))
	if k >= 8 {
		res.class("clients>=8")
	}
	if c.Reg.Auth {
		res.class("authenticated")
	} else {
		res.class("unauthenticated")
	}

	// --- attribute the forwarded messages by shared secret ---------------------------------------
	mine := make([][]int, k)
	var stray []string
	for m, b := range sent {
		w := &pb.C2SWrapper{}
		owner := -1
		if err := proto.Unmarshal(b, w); err == nil {
			for i := range c.Clients {
				if bytes.Equal(w.GetSharedSecret(), c.Clients[i].Req.Secret) {
					owner = i
				}
			}
		}
		if owner < 0 {
			stray = append(stray, fmt.Sprintf("#%d(%d bytes)", m, len(b)))
			continue
		}
		mine[owner] = append(mine[owner], m)
	}
	accepted := 0
	var tally []string
	for i := range c.Clients {
		if out[i].ok {
			accepted++
		}
		tally = append(tally, fmt.Sprintf("client%d:accepted=%v,messages=%d", i, out[i].ok, len(mine[i])))
	}
	if len(stray) > 0 {
		res.bad("concurrent:message-count", "%d clients registered at once (%d accepted); forwarded messages %v belong to none of them (undecodable or foreign secret); %s", k, accepted, stray, strings.Join(tally, " "))
		return
	}
	for i := range c.Clients {
		want := 0
		if out[i].ok {
			want = 1
		}
		if len(mine[i]) != want {
			res.bad("concurrent:message-count", "%d clients registered at once; client %d (accepted=%v) has %d messages among the %d handed to the ZMQ sender, want %d; %s", k, i, out[i].ok, len(mine[i]), len(sent), want, strings.Join(tally, " "))
			return
		}
	}
	if accepted >= 2 {
		res.class("several-accepted-at-once")
	}
	if accepted >= 4 {
		res.class("four-or-more-accepted-at-once")
	}

	// --- sequential reference + per-registration oracle -----------------------------------------
	for i := range c.Clients {
		before := len(ref.Sender.Sent)
		_, okSeq, noteSeq := C12DirectEntry(ref, msgs[i], cases[i])
		if okSeq != out[i].ok {
			res.bad("concurrent:acceptance-differs", "client %d: registering alone gives accepted=%v (%s), registering together with %d others gave accepted=%v (%s)", i, okSeq, noteSeq, k-1, out[i].ok, out[i].note)
			return
		}
		if !out[i].ok {
			res.class("refused")
			continue
		}
		res.class("accepted")
		if cases[i].Bidir {
			res.class("bidirectional")
		} else {
			res.class("unidirectional")
		}
		if len(ref.Sender.Sent) != before+1 {
			res.Harness = fmt.Sprintf("sequential reference run forwarded %d messages for client %d", len(ref.Sender.Sent)-before, i)
			return
		}
		got, want := &pb.C2SWrapper{}, &pb.C2SWrapper{}
		if proto.Unmarshal(sent[mine[i][0]], got) != nil || proto.Unmarshal(ref.Sender.Sent[before], want) != nil {
			res.Harness = "attributed message no longer decodes"
			return
		}
		// fields that do not depend on the registrar's random choices must be what a run of this
		// registration alone forwards
		diff := func(field string, a, b any) {
			res.bad("concurrent:differs-from-sequential", "client %d of %d: forwarded %s is %v, a run of the same registration alone forwards %v", i, k, field, a, b)
		}
		switch {
		case !proto.Equal(got.GetRegistrationPayload(), want.GetRegistrationPayload()):
			diff("registration_payload", got.GetRegistrationPayload(), want.GetRegistrationPayload())
		case got.GetRegistrationSource() != want.GetRegistrationSource() || (got.RegistrationSource == nil) != (want.RegistrationSource == nil):
			diff("registration_source", got.RegistrationSource, want.RegistrationSource)
		case !bytes.Equal(got.GetRegistrationAddress(), want.GetRegistrationAddress()):
			diff("registration_address", net.IP(got.GetRegistrationAddress()), net.IP(want.GetRegistrationAddress()))
		case (got.RegistrationResponse == nil) != (want.RegistrationResponse == nil):
			diff("registration_response presence", got.RegistrationResponse != nil, want.RegistrationResponse != nil)
		case !bytes.Equal(got.GetRegistrationResponse().GetIpv6Addr(), want.GetRegistrationResponse().GetIpv6Addr()):
			diff("IPv6 phantom", net.IP(got.GetRegistrationResponse().GetIpv6Addr()), net.IP(want.GetRegistrationResponse().GetIpv6Addr()))
		case !c.Reg.Enforce && got.GetRegistrationResponse().GetIpv4Addr() != want.GetRegistrationResponse().GetIpv4Addr():
			diff("IPv4 phantom", c12V4(got.GetRegistrationResponse().GetIpv4Addr()), c12V4(want.GetRegistrationResponse().GetIpv4Addr()))
		case !c.Reg.Enforce && got.GetRegistrationResponse().GetDstPort() != want.GetRegistrationResponse().GetDstPort():
			diff("port", got.GetRegistrationResponse().GetDstPort(), want.GetRegistrationResponse().GetDstPort())
		case (len(got.GetRegRespSignature()) == 0) != (len(want.GetRegRespSignature()) == 0):
			diff("signature presence", len(got.GetRegRespSignature()) > 0, len(want.GetRegRespSignature()) > 0)
		}
		if len(res.Findings) > 0 {
			return
		}
		var sub C12Result
		c12Judge(e, cases[i], pr, selSta, out[i].resp, sent[mine[i][0]], &sub)
		if sub.Harness != "" {
			res.Harness = sub.Harness
			return
		}
		for _, f := range sub.Findings {
			res.bad(f.Key, "client %d of %d registering at once: %s", i, k, f.Msg)
		}
		if len(res.Findings) > 0 {
			return
		}
	}
	res.NonTrivial = accepted >= 2
	return
}
