package regprocessor

// C12 — usagefine sub-check: "every such subnet with a non-zero weight being used" for weight tables
// an operator may well write but the usage sub-check (weights 1-3, smallest share >= 1/13) never
// draws: one transport carries 1-4 heavy override subnets (weights 100.0 .. 1000.0, one decimal) and
// 1-3 light ones whose share of the total is between about 1 % and 0.03 % (quick tier; down to
// 0.005 % in the thorough tier), written as decimal fractions (0.005 .. 38), in any position of the
// list, so that the light subnet's interval of the cumulative-weight axis is narrow and lies at an
// arbitrary place of [0,1). The other transport carries 1-2 ordinary subnets. The oracle is the one of
// usage (C12RunUsage): N = ceil(26/(p*s)) requests per transport, s = smallest non-zero share, every
// weighted subnet chosen at least once (P[miss of one subnet] <= exp(-26) < 5.2e-12 on a correct
// weighted choice, whatever the weights), a zero-weight subnet never. Nothing here looks at how often
// a subnet is chosen: the property only says that it is used.
//
// What this reaches and usage cannot: a choice whose random value, or whose table of cumulative
// weights, has a coarser resolution than the weights (a value on a 1/100 or 1/1000 grid, weights
// rounded to percents, shares below a threshold dropped, weights truncated to integers) never selects
// a subnet whose interval falls between two grid points although its weight is non-zero.

import (
	"bytes"
	"fmt"
	"math"
	"testing"

	"pgregory.net/rapid"
	"verif/harness/vh"
)

// c12FineDepths: the drawn order of magnitude of the lightest share. Each entry is a table of
// denominators D; a light subnet gets weight round(H/D, 3 decimals) where H is the sum of the heavy
// weights of its transport, i.e. a share of about 1/D.
var (
	c12FinePercent  = []int{105, 130, 170, 250, 333, 480, 700} // share 0.95 % .. 0.14 %
	c12FinePermille = []int{1500, 2000, 2500, 3300}            // share 0.067 % .. 0.03 %
	c12FineDeep     = []int{4000, 6000, 10000, 20000}          // thorough tier only
	c12FineHardCap  = 3000000                                  // requests per transport; beyond it the case is a harness problem
	c12FinePctsFree = []float64{100, 100, 99.9, 90, 75, 50}    // percent level: also below 100
	c12FinePctsHigh = []float64{100, 100, 99.9}                // deeper levels: bounded cost
)

// c12GenUsageFine draws one usagefine case (a C12UsageCase: the request count follows from the
// weights and the percentage, see C12UsageN).
func c12GenUsageFine(rt *rapid.T) C12UsageCase {
	u := C12UsageCase{Phantoms: C12DefaultPhantoms(), N: 0, V6Too: rapid.Bool().Draw(rt, "v6_too")}
	u.Base = vh.Hex(rapid.SliceOfN(rapid.Byte(), 8, 8).Draw(rt, "base"))
	r := C12Registrar{
		Auth:    rapid.Bool().Draw(rt, "auth"),
		KeySeed: vh.Hex(bytes.Repeat([]byte{0x12}, 32)),
		Enforce: true,
	}
	fine := rapid.SampledFrom([]string{"Min_Transport", "Prefix_Transport"}).Draw(rt, "fine_transport")
	other := "Prefix_Transport"
	if fine == other {
		other = "Min_Transport"
	}
	depths := []string{"percent", "permille"}
	if vh.Thorough() {
		depths = []string{"percent", "percent", "percent", "permille", "permille", "permille", "deep"}
	}
	depth := rapid.SampledFrom(depths).Draw(rt, "depth")
	var denoms []int
	finePct := 100.0
	switch depth {
	case "percent":
		denoms = c12FinePercent
		finePct = rapid.SampledFrom(c12FinePctsFree).Draw(rt, "pct_fine")
	case "permille":
		denoms = c12FinePermille
		finePct = rapid.SampledFrom(c12FinePctsHigh).Draw(rt, "pct_fine")
	default:
		denoms = c12FineDeep
		finePct = rapid.SampledFrom(c12FinePctsHigh).Draw(rt, "pct_fine")
	}
	r.PctMin, r.PctPrefix = 100, 100
	if fine == "Min_Transport" {
		r.PctMin = finePct
	} else {
		r.PctPrefix = finePct
	}
	perm := rapid.Permutation(c12OvDisjoint).Draw(rt, "cidrs")
	next := 0
	mk := func(tr string, w float64, label string) C12OvrSubnet {
		s := C12OvrSubnet{CIDR: c12Spell(rt, perm[next], label), Weight: w, Transport: tr, Port: 443}
		next++
		if tr == "Prefix_Transport" {
			s.Port = rapid.SampledFrom(c12CfgPorts).Draw(rt, "port")
			s.PrefixID = rapid.IntRange(-1, 9).Draw(rt, "prefix_id")
		}
		return s
	}
	// the fine transport: heavy subnets, then light ones sized relative to them, then shuffled
	var fineSubs []C12OvrSubnet
	nHeavy := rapid.SampledFrom([]int{1, 2, 2, 3, 3, 4}).Draw(rt, "n_heavy")
	H := 0.0
	for i := 0; i < nHeavy; i++ {
		w := float64(rapid.IntRange(1000, 10000).Draw(rt, "w_heavy_tenths")) / 10
		H += w
		fineSubs = append(fineSubs, mk(fine, w, "heavy"))
	}
	nLight := rapid.SampledFrom([]int{1, 1, 2, 2, 3}).Draw(rt, "n_light")
	for i := 0; i < nLight; i++ {
		d := rapid.SampledFrom(denoms).Draw(rt, "light_denominator")
		w := math.Round(H/float64(d)*1000) / 1000
		if w < 0.001 {
			w = 0.001
		}
		fineSubs = append(fineSubs, mk(fine, w, "light"))
	}
	r.Subnets = append(r.Subnets, fineSubs...)
	// the other transport: ordinary weights
	nOther := rapid.IntRange(1, 2).Draw(rt, "n_other")
	for i := 0; i < nOther; i++ {
		r.Subnets = append(r.Subnets, mk(other, float64(rapid.IntRange(1, 3).Draw(rt, "w_other")), "other"))
	}
	// zero-weight entries (never to be used), for either transport
	nx := rapid.IntRange(0, 2).Draw(rt, "n_extra")
	for i := 0; i < nx && next < len(perm); i++ {
		tr := rapid.SampledFrom([]string{"Min_Transport", "Prefix_Transport"}).Draw(rt, "extra_transport")
		s := mk(tr, 0, "extra")
		s.Port, s.PrefixID = 80, 1
		r.Subnets = append(r.Subnets, s)
	}
	// any order: entries of the two transports interleave, and the relative order inside the fine
	// transport fixes where each light interval lies on the cumulative-weight axis
	r.Subnets = rapid.Permutation(r.Subnets).Draw(rt, "order")
	if c12Chance(rt, "exported_constructor", 1, 4) {
		r.Build = "constructor"
	}
	u.Reg = r
	return u
}

// c12FineClasses describes the weight tables of a case: for every transport whose smallest non-zero
// share is below 1 %, where its light subnets (share < 1 %) stand and whether their interval of the
// cumulative-weight axis avoids every multiple of 1/100 and of 1/1000.
func c12FineClasses(u C12UsageCase) (classes []string, light bool) {
	seen := map[string]bool{}
	add := func(c string) {
		if !seen[c] {
			seen[c] = true
			classes = append(classes, c)
		}
	}
	for _, tname := range []string{"Min_Transport", "Prefix_Transport"} {
		var ws []float64
		total := 0.0
		for _, s := range u.Reg.Subnets {
			if s.Transport == tname {
				ws = append(ws, s.Weight)
				total += s.Weight
			}
		}
		if total <= 0 {
			continue
		}
		firstW, lastW := -1, -1
		for i, w := range ws {
			if w > 0 {
				if firstW < 0 {
					firstW = i
				}
				lastW = i
			}
		}
		pct := u.Reg.PctMin
		if tname == "Prefix_Transport" {
			pct = u.Reg.PctPrefix
		}
		cum := 0.0
		fineHere := false
		for i, w := range ws {
			lo := cum / total
			cum += w
			hi := cum / total
			if w <= 0 {
				continue
			}
			if w != math.Trunc(w) {
				add("fractional-weight")
			}
			share := w / total
			if share >= 0.01 {
				continue
			}
			fineHere = true
			add("light-share-below-1-percent")
			if share < 0.001 {
				add("light-share-below-1-permille")
			}
			if share < 0.0001 {
				add("light-share-below-0.1-permille")
			}
			switch {
			case i == firstW && i == lastW:
				// cannot be: a share below 1 % needs a heavier neighbour
			case i == firstW:
				add("light-first")
			case i == lastW:
				add("light-last")
			default:
				add("light-between-heavier")
			}
			for _, g := range []struct {
				n    float64
				name string
			}{{100, "percent"}, {1000, "permille"}} {
				// no k with lo <= k/n < hi
				if math.Ceil(lo*g.n) >= hi*g.n {
					add("light-interval-between-two-" + g.name + "-marks")
				}
			}
		}
		if fineHere {
			light = true
			add("fine:" + tname)
			if pct < 100 {
				add("fine-transport-percentage-below-100")
			}
		}
	}
	return classes, light
}

func c12UsageFineCheck(t vh.Fataler, rec *vh.Rec, e *C12Env, u C12UsageCase) {
	for _, tname := range []string{"Min_Transport", "Prefix_Transport"} {
		if n := C12UsageN(u, tname); n > c12FineHardCap {
			t.Fatalf("harness problem: usagefine case needs %d requests for %s (cap %d): the generator must bound the smallest share", n, tname, c12FineHardCap)
			return
		}
	}
	res, _ := C12RunUsage(e, u)
	cl, light := c12FineClasses(u)
	have := map[string]bool{}
	for _, c := range res.Classes {
		have[c] = true
	}
	for _, c := range cl {
		if !have[c] {
			res.Classes = append(res.Classes, c)
		}
	}
	res.Classes = append(res.Classes, fmt.Sprintf("requests-per-case<=10^%d", int(math.Ceil(math.Log10(float64(C12UsageN(u, "Min_Transport")+C12UsageN(u, "Prefix_Transport")+1))))))
	res.NonTrivial = res.NonTrivial && light
	c12Report(t, rec, u, res)
}

func TestVerif_C12_usagefine(t *testing.T) {
	rec := vh.NewRec("C12", "usagefine", "rapid-generated registrar configurations in which one transport has 1-4 heavy override subnets (weights 100.0-1000.0) and 1-3 light ones (decimal weights, share about 1/105 .. 1/3300 of the total in the quick tier, down to 1/20000 in the thorough tier) in any order, the other transport 1-2 ordinary subnets, optional zero-weight entries; override percentage 50..100 (100 / 99.9 when the lightest share is below 0.1 %) x N = ceil(26/(p*s)) derived requests per transport through RegisterBidirectional; every subnet with a non-zero weight must be chosen at least once (P[false alarm] < 5.2e-11 per case) and a zero-weight subnet never; non-trivial = a subnet with a share below 1 % next to heavier ones; distinct by configuration")
	defer rec.Flush()
	defer func() { rec.Extra("open_fds_at_end_sum_over_shards", C12OpenFDs()) }()
	rec.Require("fine:Min_Transport", "fine:Prefix_Transport", "several-weighted-subnets",
		"light-share-below-1-percent", "light-share-below-1-permille", "fractional-weight",
		"light-first", "light-last", "light-between-heavier",
		"light-interval-between-two-percent-marks", "light-interval-between-two-permille-marks",
		"fine-transport-percentage-below-100")
	e := C12NewEnv(t)
	if p := vh.ReplayFile(); p != "" {
		var u C12UsageCase
		if _, _, err := vh.LoadReplay(p, &u); err != nil {
			t.Fatal(err)
		}
		c12UsageFineCheck(t, rec, e, u)
		return
	}
	rapid.Check(t, func(rt *rapid.T) {
		c12UsageFineCheck(rt, rec, e, c12GenUsageFine(rt))
	})
}
