package regprocessor

// C11 — the registrar core on structurally valid messages with arbitrary field values.
//
// Entry points: RegisterBidirectional (= processBdReq + processC2SWrapper + publish) and
// RegisterUnidirectional (= processC2SWrapper + publish) of a real RegProcessor (recording sender)
// in each registrar configuration (see C11NewProc), called the way the HTTP and DNS front ends call
// them: the message is what proto.Unmarshal made of the client's bytes, the method is the front
// end's registration source, the client address is 16 bytes (HTTP) or nil (DNS).
//
// Oracle: the call returns (response or error), does not panic, finishes within the bound.

import (
	"fmt"
	"net"
	"testing"

	pb "github.com/refraction-networking/conjure/proto"
	"google.golang.org/protobuf/proto"
	"pgregory.net/rapid"
	"verif/harness/c11h"
	"verif/harness/vh"
)

const c11RegprocSub = "regproc"

type c11RegprocCase struct {
	Msg        vh.Hex `json:"msg"`
	Bidir      bool   `json:"bidirectional"`
	Method     int32  `json:"method"`
	ClientAddr vh.Hex `json:"client_addr,omitempty"`
	NilAddr    bool   `json:"nil_client_addr,omitempty"`
	Cfg        int    `json:"registrar"`
	SendFail   bool   `json:"zmq_send_fails,omitempty"`
	Kind       string `json:"kind,omitempty"`
}

func c11RegprocRun(procs []*C11Proc, c c11RegprocCase) (classes []string, nontrivial bool, o c11h.Outcome, sent [][]byte) {
	pr := procs[((c.Cfg%len(procs))+len(procs))%len(procs)]
	pr.Sender.Take()
	pr.Sender.Fail = c.SendFail
	w := &pb.C2SWrapper{}
	if err := proto.Unmarshal(c.Msg, w); err != nil {
		return []string{"unmarshal-error"}, false, o, nil
	}
	var addr []byte
	if !c.NilAddr {
		addr = append([]byte{}, c.ClientAddr...)
	}
	var cls []string
	o = c11h.Guard(c11h.Bound, func() {
		if c.Bidir {
			resp, err := pr.RP.RegisterBidirectional(w, pb.RegistrationSource(c.Method), addr)
			cls = append(cls, "bidir:"+C11ErrClass(err))
			if err == nil {
				_, _ = proto.Marshal(resp)
				if resp.GetTransportParams() != nil {
					cls = append(cls, "param-override")
				}
			}
			if w.GetRegistrationPayload() != nil {
				nontrivial = true
			}
		} else {
			err := pr.RP.RegisterUnidirectional(w, pb.RegistrationSource(c.Method), addr)
			cls = append(cls, "unidir:"+C11ErrClass(err))
			if len(w.GetSharedSecret()) >= RegIDLen/2 {
				nontrivial = true
			}
		}
	})
	if o.Hung || o.Inconclusive {
		return []string{"gave-up-waiting"}, true, o, nil
	}
	sent = pr.Sender.Take()
	if len(sent) > 0 {
		cls = append(cls, "published")
	}
	return append(cls, fmt.Sprintf("registrar:%d", c.Cfg)), nontrivial, o, sent
}

func c11RegprocCheck(t vh.Fataler, rec *vh.Rec, procs []*C11Proc, c c11RegprocCase, fuzz bool) {
	classes, nontrivial, o, _ := c11RegprocRun(procs, c)
	classes = append(classes, c11h.Source(fuzz))
	if c.Kind != "" {
		classes = append(classes, "kind:"+c.Kind)
	}
	c11h.Report(t, rec, c11RegprocSub, "regproc", c, vh.Digest(c), o, nontrivial, classes...)
}

const c11RegprocRule = "RegisterBidirectional / RegisterUnidirectional of a real RegProcessor (4 registrar configurations: NULL / CURVE auth, random-prefix override, enforced subnet overrides, exclusions) on a C2SWrapper built field by field as in the zmq sub-check (absent payload, secrets and addresses of any length, out-of-range enums, mismatched parameters, forged registrar-only fields), sometimes byte-mutated; front-end supplied method and client address drawn; non-trivial = bidirectional with a payload (phantom selection, parameter parsing, overrides ran) or unidirectional with a usable secret; distinct by case"

var c11Methods = []int32{int32(pb.RegistrationSource_API), int32(pb.RegistrationSource_BidirectionalAPI), int32(pb.RegistrationSource_DNS), int32(pb.RegistrationSource_BidirectionalDNS)}

func c11RegprocGen(rt *rapid.T) c11RegprocCase {
	msg, kind := c11h.GenWrapperBytes(rt, c11h.Dom{Gens: C11Gens})
	c := c11RegprocCase{Msg: msg, Kind: kind, Bidir: rapid.IntRange(0, 3).Draw(rt, "unidir") != 3, Cfg: rapid.IntRange(0, C11Configs-1).Draw(rt, "registrar")}
	c.Method = rapid.SampledFrom(c11Methods).Draw(rt, "method")
	switch rapid.IntRange(0, 4).Draw(rt, "addr") {
	case 0:
		c.NilAddr = true
	case 1:
		c.ClientAddr = []byte(net.ParseIP("2001:db8::9").To16())
	case 2:
		c.ClientAddr = c11h.Bytes(rt, "addrbytes", []int{0, 3, 4, 17})
	default:
		c.ClientAddr = []byte(net.ParseIP("198.51.100.9").To16())
	}
	c.SendFail = rapid.IntRange(0, 9).Draw(rt, "sendfail") == 9
	return c
}

// sel: bits 0-1 registrar, bit 2 unidirectional, bits 3-4 method, bits 5-6 client address class, bit 7 send fails
func c11RegprocFromSel(msg []byte, sel uint16) c11RegprocCase {
	c := c11RegprocCase{Msg: msg, Cfg: int(sel & 3), Bidir: sel&4 == 0, Method: c11Methods[(sel>>3)&3], SendFail: sel&0x80 != 0}
	switch (sel >> 5) & 3 {
	case 0:
		c.ClientAddr = []byte(net.ParseIP("198.51.100.9").To16())
	case 1:
		c.NilAddr = true
	case 2:
		c.ClientAddr = []byte(net.ParseIP("2001:db8::9").To16())
	default:
		c.ClientAddr = []byte{1, 2, 3}
	}
	return c
}

func c11RegprocSeeds() [][]any {
	var out [][]any
	valid, hostile := C11ClientMessages()
	for i, w := range valid {
		out = append(out, []any{C11MustMarshal(w), uint16(i % 4)}, []any{C11MustMarshal(w), uint16(2 + 1<<3)})
		if i%3 == 0 {
			out = append(out, []any{C11MustMarshal(w), uint16(4 | i%4)}, []any{C11MustMarshal(w), uint16(1 | 1<<5 | 3<<3)})
		}
	}
	for i, w := range hostile {
		out = append(out, []any{C11MustMarshal(w), uint16(i % 4)}, []any{C11MustMarshal(w), uint16(4 | i%4)}, []any{C11MustMarshal(w), uint16(2)})
	}
	out = append(out, []any{[]byte{}, uint16(1)}, []any{[]byte{}, uint16(5)}, []any{[]byte{0x1a, 0x00}, uint16(1)}, []any{[]byte{0x1a, 0x00}, uint16(2)})
	return out
}

// c11WriteZmqCorpus stores what the real registrar publishes for the client messages (the byte-exact
// input of the station's ZMQ ingest) as seed corpus of the zmq fuzz target.
func c11WriteZmqCorpus(procs []*C11Proc) error {
	if c11h.CorpusDir() == "" {
		return nil
	}
	var seeds [][]any
	valid, hostile := C11ClientMessages()
	for i, w := range append(valid, hostile...) {
		for _, sel := range []uint16{0, 1, 2, 4 | 1, 1 | 1<<5 | 3<<3} {
			c := c11RegprocFromSel(C11MustMarshal(w), sel)
			_, _, _, sent := c11RegprocRun(procs, c)
			for _, m := range sent {
				seeds = append(seeds, []any{m, uint16([]int{0, 4, 32, 0, 36}[i%5])})
			}
		}
	}
	return c11h.WriteCorpusNamed("FuzzVerif_C11_zmq", "registrar", seeds)
}

func TestVerif_C11_regproc(t *testing.T) {
	rec := c11h.Rec(c11RegprocSub, c11RegprocRule)
	defer rec.Flush()
	procs, err := C11Procs()
	if err != nil {
		t.Fatalf("harness problem: %v", err)
	}
	if p := vh.ReplayFile(); p != "" {
		var c c11RegprocCase
		if _, _, err := vh.LoadReplay(p, &c); err != nil {
			t.Fatal(err)
		}
		c11RegprocCheck(t, rec, procs, c, false)
		return
	}
	rec.Require("bidir:ok", "unidir:ok", "bidir:no-c2s-body", "unidir:shared-secret", "bidir:unknown-transport", "bidir:failed-to-parse-transport-parameters",
		"param-override", "published", "registrar:0", "registrar:1", "registrar:2", "registrar:3", "kind:structured", "kind:mutated")
	if err := c11h.WriteCorpus("FuzzVerif_C11_regproc", c11RegprocSeeds()); err != nil {
		t.Fatalf("harness problem: %v", err)
	}
	if err := c11WriteZmqCorpus(procs); err != nil {
		t.Fatalf("harness problem: %v", err)
	}
	rapid.Check(t, func(rt *rapid.T) { c11RegprocCheck(rt, rec, procs, c11RegprocGen(rt), false) })
}

func FuzzVerif_C11_regproc(f *testing.F) {
	rec := c11h.Rec(c11RegprocSub, c11RegprocRule)
	defer rec.Flush()
	procs, err := C11Procs()
	if err != nil {
		f.Fatalf("harness problem: %v", err)
	}
	for _, s := range c11RegprocSeeds() {
		f.Add(s...)
	}
	f.Fuzz(func(t *testing.T, msg []byte, sel uint16) {
		if len(msg) > 1<<16 {
			return
		}
		c11RegprocCheck(t, rec, procs, c11RegprocFromSel(msg, sel), true)
	})
}
