package regprocessor

// C12 — usage sub-check: with subnet overrides enforced for 100 % of the registrations and k weighted
// override subnets per transport (every non-zero weight >= 10 % of the total), N = 400 requests per
// transport must use every one of them at least once. On a correct weighted choice the probability
// that a given subnet with share >= 10 % is missed is <= 0.9^400 < 5e-19; with <= 8 such subnets per
// case the false-alarm probability per case is < 4e-18.

import (
	"testing"

	"pgregory.net/rapid"
	"verif/harness/vh"
)

func c12UsageCheck(t vh.Fataler, rec *vh.Rec, e *C12Env, u C12UsageCase) {
	res, _ := C12RunUsage(e, u)
	c12Report(t, rec, u, res)
}

func TestVerif_C12_usage(t *testing.T) {
	rec := vh.NewRec("C12", "usage", "rapid-generated registrar configurations (1-4 weighted override subnets per transport, weights 1-3, optional zero-weight and foreign-transport entries, any order, 100 % override, no exclusion hit) x 400 derived requests per transport through RegisterBidirectional; every subnet with a non-zero weight must be chosen at least once; non-trivial = some transport has >= 2 weighted subnets; distinct by configuration")
	defer rec.Flush()
	rec.Require("several-weighted-subnets", "zero-weight-before-all-weighted", "zero-weight-before-a-weighted", "zero-weight-last")
	e := C12NewEnv(t)
	if p := vh.ReplayFile(); p != "" {
		var u C12UsageCase
		if _, _, err := vh.LoadReplay(p, &u); err != nil {
			t.Fatal(err)
		}
		c12UsageCheck(t, rec, e, u)
		return
	}
	rapid.Check(t, func(rt *rapid.T) {
		c12UsageCheck(rt, rec, e, C12GenUsage(rt))
	})
}
