package regprocessor

// C12 — usage sub-check: subnet overrides enforced, the override percentage drawn per transport from
// 5..100 (mostly below 100), 1-5 weighted override subnets per transport (weights 1-3) plus optional
// zero-weight and foreign-transport entries in any order. Per transport N = ceil(26 / (p*s)) requests
// are sent (p = percentage/100, s = smallest non-zero weight share; see C12UsageN): every subnet with
// a non-zero weight must be chosen at least once and a zero-weight subnet never. On a correct
// weighted choice a given weighted subnet is missed with probability <= exp(-26) < 5.2e-12; with at
// most 10 weighted subnets per case the false-alarm probability per case is < 5.2e-11.

import (
	"testing"

	"pgregory.net/rapid"
	"verif/harness/vh"
)

func c12UsageCheck(t vh.Fataler, rec *vh.Rec, e *C12Env, u C12UsageCase) {
	res, _ := C12RunUsage(e, u)
	c12Report(t, rec, u, res)
}

func TestVerif_C12_usage(t *testing.T) {
	rec := vh.NewRec("C12", "usage", "rapid-generated registrar configurations (override percentage per transport drawn from 5..100, mostly below 100; 1-5 weighted override subnets per transport, weights 1-3, optional zero-weight and foreign-transport entries, any order, no exclusion hit) x N = ceil(26/(p*s)) derived requests per transport (p = percentage/100, s = smallest non-zero weight share) through RegisterBidirectional; every subnet with a non-zero weight must be chosen at least once (P[false alarm] < 5.2e-11 per case) and a zero-weight subnet never; non-trivial = some transport has >= 2 weighted subnets; distinct by configuration")
	defer rec.Flush()
	defer func() { rec.Extra("open_fds_at_end_sum_over_shards", C12OpenFDs()) }()
	rec.Require("built-by-exported-constructor:auth=true", "built-by-exported-constructor:auth=false", "several-weighted-subnets", "zero-weight-before-all-weighted", "zero-weight-before-a-weighted", "zero-weight-last",
		"percentage-below-100-with-several-weighted-subnets", "weighted-subnet-written-non-canonically")
	e := C12NewEnv(t)
	if p := vh.ReplayFile(); p != "" {
		var u C12UsageCase
		if _, _, err := vh.LoadReplay(p, &u); err != nil {
			t.Fatal(err)
		}
		c12UsageCheck(t, rec, e, u)
		return
	}
	rapid.Check(t, func(rt *rapid.T) {
		c12UsageCheck(rt, rec, e, C12GenUsage(rt))
	})
}
