package regprocessor

// C12 — concurrent sub-check: 4-16 different clients register at the same time (bidirectional and
// unidirectional mixed) through one RegProcessor whose capturing sender keeps the first send inside
// the socket until every client has started (the caller holds the publish lock meanwhile), so that
// several registrations sit between "message built" and "message sent"; GOMAXPROCS is 1, 2 or left
// alone. Every accepted registration must have exactly one message among those handed to the sender
// (attributed by its distinct shared secret; refused ones none, no stray or undecodable message), its
// non-random fields must equal what a run of the same registration alone forwards, and the ordinary
// C12 oracle (client view == forwarded view == station view, signatures, forged fields, ...) must hold
// for that message. Timing only decides how much overlap is explored, never the verdict.

import (
	"testing"

	"pgregory.net/rapid"
	"verif/harness/vh"
)

func TestVerif_C12_concurrent(t *testing.T) {
	rec := vh.NewRec("C12", "concurrent", "rapid-generated (phantom subnet file x registrar configuration x 4-16 generated clients with distinct secrets, bidirectional / unidirectional mixed, GOMAXPROCS 1 / 2 / unchanged) registering at once through RegisterBidirectional / RegisterUnidirectional with a capturing sender that holds the first send (and with it the publish lock) until every client has started; each accepted registration must own exactly one forwarded message, equal in its non-random fields to a sequential run of the same registration, and satisfy the per-registration C12 oracle incl. the station; non-trivial = at least two registrations accepted at once; distinct by whole case")
	defer rec.Flush()
	defer func() { rec.Extra("open_fds_at_end_sum_over_shards", C12OpenFDs()) }()
	rec.Require("several-accepted-at-once", "four-or-more-accepted-at-once", "gomaxprocs=1", "gomaxprocs=0", "clients>=8", "bidirectional", "unidirectional", "authenticated", "unauthenticated")
	e := C12NewEnv(t)
	if p := vh.ReplayFile(); p != "" {
		var c C12ConcCase
		if _, _, err := vh.LoadReplay(p, &c); err != nil {
			t.Fatal(err)
		}
		c12Report(t, rec, c, C12RunConc(e, c))
		return
	}
	rapid.Check(t, func(rt *rapid.T) {
		c := C12GenConc(rt)
		c12Report(rt, rec, c, C12RunConc(e, c))
	})
}
