package regprocessor

// C13 — overlapping reloads (built with -race; added after a round-8 seed). Every other C13 sub-check
// runs its reloads one after the other (the scheduler treats a reload as one step, `stress` has one
// reloading loop, the registrar binary reloads from one signal goroutine). ReloadSubnets is an
// exported method and the property speaks of "any number of reloads": here K goroutines call it at
// the same time, again and again, while another goroutine keeps replacing the subnet file (whole
// files, renamed into place) with valid sets, unparsable files, files that fail only at their very
// end (long to read and parse, so that other reloads arrive while a failing one is in progress) and
// no file at all, and W goroutines keep registering.
//
// Oracle (schedule independent): every ReloadSubnets call returns and every registration returns;
// an answered registration lies wholly in one of the valid sets (a failed reload installs nothing,
// so no request of these kinds is ever refused); after the crews have stopped, one more reload of a
// known set succeeds and the next registration is answered from that set.
// A call that has not returned is only reported after the goroutine dump has shown it parked inside
// ReloadSubnets, unchanged, over a further wait, while nothing else runs - otherwise running out of
// patience is a harness problem (exit 2), never a verdict.

import (
	"fmt"
	"net"
	"os"
	"path/filepath"
	"runtime"
	"strings"
	"sync"
	"sync/atomic"
	"testing"
	"time"

	"github.com/refraction-networking/conjure/pkg/phantoms"
	pb "github.com/refraction-networking/conjure/proto"
	"verif/harness/vh"
)

type c13OverlapCase struct {
	Reloaders int `json:"reloaders"`
	Calls     int `json:"calls_per_reloader"`
	Workers   int `json:"request_loops"`
	Pad       int `json:"padding_lines"`
}

func TestVerif_C13_overlap(t *testing.T) {
	rec := vh.NewRec("C13", "overlap", "uncontrolled goroutines under the race detector: K goroutines call ReloadSubnets at the same time (K 5-8, 800 calls each, thorough 6000) while one goroutine keeps renaming a new subnet file into place - valid sets (padded with 0-20000 comment lines), an unparsable file, a padded file whose only defect is its last line (long in progress before it fails), a missing file - and W goroutines register (dual / v4 / v6); oracle: every ReloadSubnets call and every registration returns, every answer lies wholly in one valid set and none is refused, and after the crews stopped one more reload of a known set succeeds and is served. A call that does not return is reported only when the goroutine dump shows it parked inside ReloadSubnets, unchanged over a further wait. Non-trivial = a reload call during which another reload call was started; distinct by (reloader, call)")
	defer rec.Flush()
	rec.Require("reloads-overlapped", "failing-reload-overlapped", "reload-ok", "reload-failed", "request-answered")
	e := c13NewEnv(t)
	shard, _ := vh.Shard()
	c := c13OverlapCase{Reloaders: 5 + (shard*3)%4, Calls: vh.Pick(800, 6000), Workers: 3, Pad: 4000}
	if p := vh.ReplayFile(); p != "" {
		if _, _, err := vh.LoadReplay(p, &c); err != nil {
			t.Fatal(err)
		}
	}

	// contents: every valid set padded, two kinds of broken files
	pad := strings.Repeat("# padding so that reading and parsing take a while ........................................\n", c.Pad)
	var contents [][]byte
	var kinds []string
	for i, f := range e.files {
		b, err := os.ReadFile(f)
		if err != nil {
			t.Fatalf("harness problem: %v", err)
		}
		if i%2 == 0 {
			contents = append(contents, append([]byte(pad), b...))
		} else {
			contents = append(contents, b)
		}
		kinds = append(kinds, "set")
	}
	good0, err := os.ReadFile(e.files[0])
	if err != nil {
		t.Fatalf("harness problem: %v", err)
	}
	garbage, _ := os.ReadFile(e.garbage)
	contents = append(contents, garbage)
	kinds = append(kinds, "garbage")
	lastLine := append(append(append([]byte{}, good0...), []byte(pad)...), []byte("[Networks\n this = = is not toml ]]\n")...)
	contents = append(contents, lastLine)
	kinds = append(kinds, "bad-last-line")
	for _, k := range []int{len(contents) - 1, len(contents) - 2} {
		p := filepath.Join(e.dir, "probe.toml")
		_ = os.WriteFile(p, contents[k], 0o644)
		if _, err := phantoms.SubnetsFromTomlFile(p); err == nil {
			t.Fatalf("harness problem: the %s file loads", kinds[k])
		}
	}

	path := filepath.Join(e.dir, "live.toml")
	install := func(b []byte) error {
		tmp := path + ".tmp"
		if err := os.WriteFile(tmp, b, 0o644); err != nil {
			return err
		}
		return os.Rename(tmp, path)
	}
	if err := install(contents[0]); err != nil {
		t.Fatalf("harness problem: %v", err)
	}
	os.Setenv("PHANTOM_SUBNET_LOCATION", path)
	sel, err := phantoms.SubnetsFromTomlFile(path)
	if err != nil {
		t.Fatalf("harness problem: %v", err)
	}
	p := e.newRP(sel)

	var stop atomic.Bool
	var inflight, entries atomic.Int64
	var reloadCalls, reloadOK, reloadFail, overlapped, failOverlapped, slowFail, answered atomic.Int64
	var current atomic.Int64 // index of the content last renamed into place (-1: no file)
	var violMu sync.Mutex
	var viol *c13StressViol
	setViol := func(key, msg string) {
		violMu.Lock()
		if viol == nil {
			viol = &c13StressViol{key, msg}
		}
		violMu.Unlock()
		stop.Store(true)
	}
	allSets := make([]int, len(e.files))
	for i := range allSets {
		allSets[i] = i
	}

	var wg, writerWG sync.WaitGroup
	// the file keeps changing
	writerWG.Add(1)
	go func() {
		defer writerWG.Done()
		// rotation: valid set, failing-at-the-last-line, valid set, garbage, valid set,
		// failing-at-the-last-line, no file (the slow failure gets two sevenths of the time)
		nsets := len(e.files)
		for i := 0; !stop.Load(); i++ {
			var k int
			switch i % 7 {
			case 0, 2, 4:
				k = (i/7*3 + i%7/2) % nsets
			case 1, 5:
				k = nsets + 1 // bad-last-line
			case 3:
				k = nsets // garbage
			default:
				k = len(contents) // no file
			}
			if k == len(contents) {
				_ = os.Remove(path)
				current.Store(-1)
			} else if err := install(contents[k]); err == nil {
				current.Store(int64(k))
			}
			time.Sleep(time.Duration(200+137*(i%7)) * time.Microsecond)
		}
	}()
	// reloaders
	reloadersLeft := atomic.Int64{}
	reloadersLeft.Store(int64(c.Reloaders))
	for r := 0; r < c.Reloaders; r++ {
		wg.Add(1)
		go func(r int) {
			defer wg.Done()
			defer func() {
				if reloadersLeft.Add(-1) == 0 {
					stop.Store(true)
				}
			}()
			for i := 0; i < c.Calls && !stop.Load(); i++ {
				e0 := entries.Add(1)
				n := inflight.Add(1)
				cur := current.Load()
				t0 := time.Now()
				err := p.ReloadSubnets()
				d := time.Since(t0)
				inflight.Add(-1)
				joined := entries.Load() - e0
				reloadCalls.Add(1)
				over := n > 1 || joined > 0
				classes := []string{}
				if over {
					overlapped.Add(1)
					classes = append(classes, "reloads-overlapped")
				}
				if err == nil {
					reloadOK.Add(1)
					classes = append(classes, "reload-ok")
				} else {
					reloadFail.Add(1)
					classes = append(classes, "reload-failed")
					if over {
						classes = append(classes, "failing-reload-overlapped")
					}
					if joined > 0 {
						failOverlapped.Add(1)
						classes = append(classes, "failing-reload-joined-by-a-later-call")
					}
					if cur >= 0 && kinds[cur] == "bad-last-line" && d > 200*time.Microsecond {
						slowFail.Add(1)
						classes = append(classes, "failed-slowly-at-last-line")
					}
				}
				rec.Case(over, vh.Digest([2]int{r, i}), nil, classes...)
			}
		}(r)
	}
	// registrations
	for w := 0; w < c.Workers; w++ {
		wg.Add(1)
		go func(w int) {
			defer wg.Done()
			kindsReq := []string{"dual", "v4", "v6"}
			for i := 0; !stop.Load(); i++ {
				kind := kindsReq[(w+i)%3]
				resp, err := p.RegisterBidirectional(c13Request(c13Secret("overlap", w, i), kind), pb.RegistrationSource_BidirectionalAPI, net.ParseIP("198.51.100.9").To4())
				_, _, k, m := e.c13Judge(kind, resp, err, allSets)
				if k != "" {
					setViol(k, fmt.Sprintf("registration %d of loop %d (%s) while %d goroutines reload concurrently: %s", i, w, kind, c.Reloaders, m))
					return
				}
				answered.Add(1)
				rec.Class("request-answered")
			}
		}(w)
	}

	done := make(chan struct{})
	go func() { wg.Wait(); close(done) }()
	patience := time.Duration(vh.Pick(150, 900)) * time.Second
	select {
	case <-done:
	case <-time.After(patience):
		// who is still there? a verdict needs reload calls parked inside ReloadSubnets, twice the same
		stuck := func() (int, string) {
			buf := make([]byte, 4<<20)
			s := string(buf[:runtime.Stack(buf, true)])
			n := 0
			var where []string
			for _, g := range strings.Split(s, "\n\n") {
				if strings.Contains(g, "(*RegProcessor).ReloadSubnets") && strings.Contains(g, "TestVerif_C13_overlap") &&
					(strings.Contains(g, "[chan receive") || strings.Contains(g, "[sync.") || strings.Contains(g, "[semacquire") || strings.Contains(g, "[select")) {
					n++
					if len(where) < 2 {
						where = append(where, g)
					}
				}
			}
			return n, strings.Join(where, "\n\n")
		}
		before := reloadCalls.Load()
		n1, _ := stuck()
		time.Sleep(20 * time.Second)
		n2, where := stuck()
		stop.Store(true)
		if n1 > 0 && n1 == n2 && reloadCalls.Load() == before {
			rec.Case(true, vh.Digest("stuck"), c, "reload-never-returned")
			rec.Violation(t, "stall:overlapping-reloads", c, "%d of %d concurrent ReloadSubnets calls have not returned after %v (%d calls had returned, %d of them failed, %d failing ones had been joined by another call); parked inside ReloadSubnets, unchanged over a further 20 s:\n%.1800s",
				n2, c.Reloaders, patience, before, reloadFail.Load(), failOverlapped.Load(), where)
			return
		}
		t.Fatalf("harness problem: crews not finished after %v (%d reload calls returned, parked inside ReloadSubnets: %d then %d)", patience, reloadCalls.Load(), n1, n2)
	}
	stop.Store(true)
	writerWG.Wait()
	violMu.Lock()
	v := viol
	violMu.Unlock()
	if v != nil {
		rec.Violation(t, v.key, c, "%s", v.msg)
		return
	}
	// afterwards: a reload of a known set succeeds and is served
	last := len(e.files) - 1
	if err := install(contents[last]); err != nil {
		t.Fatalf("harness problem: %v", err)
	}
	if err := p.ReloadSubnets(); err != nil {
		rec.Violation(t, "reload-refused-afterwards", c, "after %d concurrent reload calls (%d failed) a reload of a valid file fails: %v", reloadCalls.Load(), reloadFail.Load(), err)
		return
	}
	resp, rerr := p.RegisterBidirectional(c13Request(c13Secret("overlap-final", 0, 0), "dual"), pb.RegistrationSource_BidirectionalAPI, net.ParseIP("198.51.100.9").To4())
	if set, _, k, m := e.c13Judge("dual", resp, rerr, []int{last}); k != "" {
		rec.Violation(t, "stale-set-afterwards", c, "after the concurrent reloads a successful reload of set %d is not what is served (set %d): %s", last, set, m)
		return
	}
	rec.Note("reload calls %d (ok %d, failed %d), overlapped %d, failing calls joined by another %d, slow failures %d, registrations answered %d",
		reloadCalls.Load(), reloadOK.Load(), reloadFail.Load(), overlapped.Load(), failOverlapped.Load(), slowFail.Load(), answered.Load())
}
