package apiregserver

// C11 — the registrar serves many requests at once. Sub-check httpconc (built with -race): batches of
// generated requests (same generator as the http sub-check) are sent by several goroutines at the
// same time, each with a real HTTP client over loopback TCP, to the real handlers behind an
// httptest.Server (routes of ListenAndServe, real RegProcessor), while the metrics object that the
// handlers and the processor share — built by the real NewMetrics with the smallest period — runs its
// own periodic logger in a tight loop, as it does every log_metrics_interval in production.
//
// Oracle: every request receives a status line (no-status-line:httpconc:<path>); the process does not
// die. A fatal runtime error (concurrent map iteration and map write, ...) or a data race report
// cannot be recovered: vcheck reports the crashed / racy process as a violation (key crash).

import (
	"bytes"
	"fmt"
	"io"
	"net/http"
	"sync"
	"testing"

	"github.com/refraction-networking/conjure/pkg/regserver/regprocessor"
	pb "github.com/refraction-networking/conjure/proto"
	"google.golang.org/protobuf/proto"
	"pgregory.net/rapid"
	"verif/harness/c11h"
	"verif/harness/vh"
)

const c11ConcSub = "httpconc"

type c11ConcCase struct {
	Cfg       int           `json:"registrar"`
	ServerGen int64         `json:"server_clientconf_generation"`
	Workers   int           `json:"workers"`
	Reqs      []c11HTTPCase `json:"requests"` // Cfg / ServerGen / Remote / CL of the individual requests are ignored
}

func c11ConcCheck(t vh.Fataler, rec *vh.Rec, s *c11Server, procs []*regprocessor.C11Proc, c c11ConcCase) {
	pr := procs[((c.Cfg%len(procs))+len(procs))%len(procs)]
	pr.Sender.Take()
	s.api.ccMutex.Lock()
	s.api.processor = pr.RP
	s.api.latestClientConf = nil
	if c.ServerGen >= 0 {
		s.api.latestClientConf = &pb.ClientConf{Generation: proto.Uint32(uint32(c.ServerGen))}
	}
	s.api.ccMutex.Unlock()
	type res struct {
		code int
		err  error
	}
	out := make([]res, len(c.Reqs))
	workers := max(1, min(c.Workers, 16))
	var wg sync.WaitGroup
	for w := 0; w < workers; w++ {
		wg.Add(1)
		go func(w int) {
			defer wg.Done()
			for i := w; i < len(c.Reqs); i += workers {
				rq := c.Reqs[i]
				req, err := http.NewRequest(rq.Method, s.srv.URL+rq.path(), bytes.NewReader(rq.Body))
				if err != nil {
					out[i].err = fmt.Errorf("harness: %w", err)
					continue
				}
				for _, v := range rq.XFF {
					req.Header.Add("X-Forwarded-For", v)
				}
				resp, err := s.cl.Do(req)
				if err != nil {
					out[i].err = err
					continue
				}
				_, _ = io.Copy(io.Discard, io.LimitReader(resp.Body, 1<<20))
				resp.Body.Close()
				out[i].code = resp.StatusCode
			}
		}(w)
	}
	wg.Wait()
	pr.Sender.Take()
	classes := []string{fmt.Sprintf("workers:%d", workers)}
	seen := map[string]bool{}
	logic := 0
	for i, r := range out {
		if r.err == nil {
			seen[fmt.Sprintf("status:%d", r.code)] = true
		}
		if c11Depth(c11HTTPCase{Body: c.Reqs[i].Body, Method: c.Reqs[i].Method}, false) == "logic" {
			logic++
		}
	}
	for k := range seen {
		classes = append(classes, k)
	}
	c11h.Count(rec, c11ConcSub, workers > 1 && logic >= 2, vh.Digest(c), c, classes...)
	rec.ClassN("requests", int64(len(out)))
	for i, r := range out {
		if r.err != nil {
			rec.Violation(t, "no-status-line:httpconc:"+c.Reqs[i].path(), c, "request %d of %d concurrent ones got no status line: %v", i, len(out), r.err)
			return
		}
	}
}

func TestVerif_C11_httpconc(t *testing.T) {
	rec := c11h.Rec(c11ConcSub, "batches of 8-32 requests (generator of the http sub-check) sent by 2-8 goroutines at once over loopback TCP to the real handlers (httptest.Server, routes of ListenAndServe, real RegProcessor) while the shared metrics object (real NewMetrics, 1 ns period) runs its periodic logger in a tight loop; built with -race; oracle: every request gets a status line and the process neither dies nor reports a data race; non-trivial = at least two requests that reach the handlers' logic, sent by more than one goroutine; distinct by batch")
	defer rec.Flush()
	e := c11NewHTTPEnv(t)
	fast := regprocessor.C11FastMetrics()
	var procs []*regprocessor.C11Proc
	for i := 0; i < regprocessor.C11Configs; i++ {
		p, err := regprocessor.C11NewProcMetrics(i, fast)
		if err != nil {
			t.Fatalf("harness problem: %v", err)
		}
		procs = append(procs, p)
	}
	s := c11StartServer(e)
	s.api.metrics = fast
	defer s.srv.Close()
	if p := vh.ReplayFile(); p != "" {
		var c c11ConcCase
		if _, _, err := vh.LoadReplay(p, &c); err != nil {
			t.Fatal(err)
		}
		for i := 0; i < 20; i++ { // a replay repeats the batch: the outcome depends on the interleaving
			c11ConcCheck(t, rec, s, procs, c)
		}
		return
	}
	rec.Require("status:200", "status:204", "status:400", "status:500", "workers:8", "requests")
	rapid.Check(t, func(rt *rapid.T) {
		c := c11ConcCase{Cfg: rapid.IntRange(0, regprocessor.C11Configs-1).Draw(rt, "registrar"), ServerGen: rapid.SampledFrom(c11Gens).Draw(rt, "servergen"),
			Workers: rapid.SampledFrom([]int{8, 8, 4, 2}).Draw(rt, "workers")}
		n := rapid.SampledFrom([]int{8, 16, 32}).Draw(rt, "nreqs")
		for i := 0; i < n; i++ {
			rq := c11HTTPGen(rt)
			rq.CL, rq.Remote, rq.SendFail = 0, "", false
			c.Reqs = append(c.Reqs, rq)
		}
		c11ConcCheck(rt, rec, s, procs, c)
	})
}
