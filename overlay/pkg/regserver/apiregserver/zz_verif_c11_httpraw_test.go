package apiregserver

// C11 — "an HTTP registration request always receives a status line" with hostile request HEADS.
//
// Sub-check httpraw: hand-made HTTP/1.x requests written over loopback TCP to the real
// httptest.Server (routes of ListenAndServe, real RegProcessor behind it). The request head is drawn
// as well as the body: Content-Length absent / 0 / correct / smaller / larger than the body / 2^31 /
// 2^50 / MaxInt64 / out of int64 range / negative / signed / non-numeric / duplicated with equal or
// different values; Transfer-Encoding chunked with good or bad chunk framing (also together with a
// Content-Length), other codings; Expect: 100-continue; huge header values; HTTP/1.0, 1.1 and
// unsupported versions; every method; odd request targets; X-Forwarded-For variants.
//
// The head is always complete (it ends with an empty line) and the client half-closes after its last
// byte, so a request whose framing announces more body than is sent ends in a read error on the
// server, not in an endless wait. Oracle: a final (non-1xx) status line arrives — written by the
// handler for requests net/http accepts, by net/http itself (400 / 431 / 501 / 505) for heads it
// refuses. A connection closed without a status line is the violation
// (no-status-line:httpraw:<route>): that is what a handler panic looks like from outside.

import (
	"bufio"
	"bytes"
	"fmt"
	"net"
	"strconv"
	"strings"
	"testing"
	"time"

	"github.com/refraction-networking/conjure/pkg/regserver/regprocessor"
	pb "github.com/refraction-networking/conjure/proto"
	"google.golang.org/protobuf/proto"
	"pgregory.net/rapid"
	"verif/harness/c11h"
	"verif/harness/vh"
)

const c11RawSub = "httpraw"

type c11RawCase struct {
	Method  string   `json:"method"`
	Target  string   `json:"target"`
	Proto   string   `json:"proto"`
	Host    *string  `json:"host"`           // nil: no Host header
	CL      []string `json:"content_length"` // one Content-Length header per element; the word "real" stands for the body's length
	TE      string   `json:"transfer_encoding,omitempty"`
	Chunks  string   `json:"chunk_framing,omitempty"` // good | no-terminator | bad-size | huge-size | negative-size | trailer
	Expect  bool     `json:"expect_100_continue,omitempty"`
	Headers []string `json:"headers,omitempty"` // further complete header lines ("Name: value"); "X-Huge: <n>" expands to n bytes of value
	Body    vh.Hex   `json:"body"`

	ServerGen int64 `json:"server_clientconf_generation"`
	Cfg       int   `json:"registrar"`
	SendFail  bool  `json:"zmq_send_fails,omitempty"`
}

func (c c11RawCase) route() string {
	t := c.Target
	if i := strings.IndexByte(t, '?'); i >= 0 {
		t = t[:i]
	}
	switch t {
	case "/register", "/register-bidirectional":
		return t
	}
	return "other"
}

// wire renders the request.
func (c c11RawCase) wire() []byte {
	var b bytes.Buffer
	fmt.Fprintf(&b, "%s %s %s\r\n", c.Method, c.Target, c.Proto)
	if c.Host != nil {
		fmt.Fprintf(&b, "Host: %s\r\n", *c.Host)
	}
	for _, v := range c.CL {
		if v == "real" {
			v = strconv.Itoa(len(c.Body))
		}
		fmt.Fprintf(&b, "Content-Length: %s\r\n", v)
	}
	if c.TE != "" {
		fmt.Fprintf(&b, "Transfer-Encoding: %s\r\n", c.TE)
	}
	if c.Expect {
		b.WriteString("Expect: 100-continue\r\n")
	}
	for _, h := range c.Headers {
		if strings.HasPrefix(h, "X-Huge: ") {
			if n, err := strconv.Atoi(h[len("X-Huge: "):]); err == nil && n >= 0 && n <= 4<<20 {
				b.WriteString("X-Huge: ")
				b.Write(bytes.Repeat([]byte{'a'}, n))
				b.WriteString("\r\n")
				continue
			}
		}
		b.WriteString(h + "\r\n")
	}
	b.WriteString("\r\n")
	if c.Chunks == "" {
		b.Write(c.Body)
		return b.Bytes()
	}
	half := len(c.Body) / 2
	switch c.Chunks {
	case "good":
		fmt.Fprintf(&b, "%x\r\n%s\r\n%x\r\n%s\r\n0\r\n\r\n", half, c.Body[:half], len(c.Body)-half, c.Body[half:])
	case "trailer":
		fmt.Fprintf(&b, "%x;ext=1\r\n%s\r\n0\r\nX-Trailer: t\r\n\r\n", len(c.Body), c.Body)
	case "no-terminator":
		fmt.Fprintf(&b, "%x\r\n%s\r\n", len(c.Body), c.Body)
	case "bad-size":
		fmt.Fprintf(&b, "zz\r\n%s\r\n0\r\n\r\n", c.Body)
	case "huge-size":
		fmt.Fprintf(&b, "ffffffffffffffff\r\n%s\r\n0\r\n\r\n", c.Body)
	case "negative-size":
		fmt.Fprintf(&b, "-1\r\n%s\r\n0\r\n\r\n", c.Body)
	default:
		fmt.Fprintf(&b, "%x\r\n%s", len(c.Body)+7, c.Body) // chunk longer than what follows
	}
	return b.Bytes()
}

// c11FinalStatus returns the first final (non-1xx) status code in a raw response, 0 if there is none.
func c11FinalStatus(resp []byte) (code int, interim bool) {
	rest := resp
	for {
		line, after, ok := bytes.Cut(rest, []byte("\r\n"))
		if !bytes.HasPrefix(line, []byte("HTTP/1.")) || len(line) < 12 || line[8] != ' ' {
			return 0, interim
		}
		n, err := strconv.Atoi(string(line[9:12]))
		if err != nil || n < 100 || n > 599 || (len(line) > 12 && line[12] != ' ') {
			return 0, interim
		}
		if n >= 200 {
			return n, interim
		}
		interim = true
		if !ok {
			return 0, interim
		}
		// skip the interim response's header block
		_, after2, ok2 := bytes.Cut(after, []byte("\r\n\r\n"))
		if bytes.HasPrefix(after, []byte("\r\n")) {
			after2, ok2 = after[2:], true
		}
		if !ok2 {
			return 0, interim
		}
		rest = after2
	}
}

func c11RawCheck(t vh.Fataler, rec *vh.Rec, e *c11HTTPEnv, s *c11Server, c c11RawCase) {
	_, pr := e.server(c11HTTPCase{Cfg: c.Cfg, SendFail: c.SendFail})
	s.api.ccMutex.Lock()
	s.api.processor = pr.RP
	s.api.latestClientConf = nil
	if c.ServerGen >= 0 {
		s.api.latestClientConf = &pb.ClientConf{Generation: proto.Uint32(uint32(c.ServerGen))}
	}
	s.api.ccMutex.Unlock()

	req := c.wire()
	start := time.Now()
	conn, err := net.DialTimeout("tcp", s.srv.Listener.Addr().String(), c11ServerWait)
	if err != nil {
		t.Fatalf("harness problem: dial: %v", err)
	}
	defer conn.Close()
	_ = conn.SetDeadline(time.Now().Add(c11ServerWait))
	// write concurrently with reading: the server may answer (and stop reading) before a large head
	// has been written completely
	wdone := make(chan error, 1)
	go func() {
		_, werr := conn.Write(req)
		_ = conn.(*net.TCPConn).CloseWrite()
		wdone <- werr
	}()
	var resp []byte
	br := bufio.NewReader(conn)
	buf := make([]byte, 4096)
	code := 0
	var rerr error
	for {
		var n int
		n, rerr = br.Read(buf)
		resp = append(resp, buf[:n]...)
		if code, _ = c11FinalStatus(resp); code != 0 {
			break
		}
		if rerr != nil || len(resp) > 1<<16 {
			break
		}
	}
	conn.Close()
	werr := <-wdone
	_, interim := c11FinalStatus(resp)

	classes := []string{"route:" + c.route(), "proto:" + c.Proto, "method:" + c.Method}
	switch {
	case len(c.CL) == 0:
		classes = append(classes, "cl:absent")
	case len(c.CL) > 1:
		classes = append(classes, "cl:duplicated")
	default:
		classes = append(classes, "cl:"+c11CLClass(c.CL[0], len(c.Body)))
	}
	if c.TE != "" {
		classes = append(classes, "te:"+c.TE, "chunks:"+c.Chunks)
	}
	if c.Expect {
		classes = append(classes, "expect-100")
	}
	if interim {
		classes = append(classes, "got-100-continue")
	}
	for _, h := range c.Headers {
		if strings.HasPrefix(h, "X-Huge: ") {
			classes = append(classes, "huge-header")
		}
	}
	if code != 0 {
		classes = append(classes, fmt.Sprintf("status:%d", code))
	} else {
		classes = append(classes, "no-status-line")
	}
	if len(pr.Sender.Take()) > 0 {
		classes = append(classes, "published")
	}
	// non-trivial: the handler of a registration route ran (anything but net/http's own refusals)
	handlerRan := c.route() != "other" && code != 0 && code != 431 && code != 501 && code != 505 && !(code == 400 && bytes.Contains(resp, []byte("400 Bad Request\r\nContent-Type: text/plain; charset=utf-8\r\nConnection: close\r\n\r\n")))
	if handlerRan {
		classes = append(classes, "handler-ran")
	}
	c11h.Count(rec, c11RawSub, handlerRan, vh.Digest(c), c, classes...)
	if code != 0 {
		return
	}
	if time.Since(start) >= c11ServerWait {
		rec.Violation(t, "hang:httpraw:"+c.route(), c, "no status line from the loopback server within %v (read: %v)", c11ServerWait, rerr)
		return
	}
	if werr != nil && len(resp) == 0 && len(req) > 1<<20 {
		// the server refused an oversized head and reset the connection while we were still sending;
		// its 431 can be lost with the reset (net/http only delays the close by 500 ms). No verdict.
		rec.Class("inconclusive:reset-while-sending-oversized-head")
		return
	}
	rec.Violation(t, "no-status-line:httpraw:"+c.route(), c, "the connection was closed without a final status line (%d response bytes %q, read error %v, write error %v); a handler panic makes net/http close the connection without answering",
		len(resp), string(resp[:min(len(resp), 80)]), rerr, werr)
}

func c11CLClass(v string, n int) string {
	if v == "real" {
		return "real"
	}
	x, err := strconv.ParseInt(v, 10, 64)
	switch {
	case err != nil || strings.TrimLeft(v, "0123456789") != "":
		return "unparseable"
	case x == int64(n):
		return "real"
	case x < int64(n):
		return "smaller"
	case x >= 1<<31:
		return "huge"
	}
	return "larger"
}

var (
	c11RawMethods = []string{"POST", "POST", "POST", "POST", "POST", "POST", "GET", "PUT", "HEAD", "OPTIONS", "DELETE", "PATCH", "TRACE", "CONNECT", "post", "FOO", "PO/ST"}
	c11RawTargets = []string{"/register", "/register-bidirectional", "/register-bidirectional", "/register-bidirectional", "/register?x=1", "/", "/REGISTER", "//register", "/register/", "*", "http://registrar/register-bidirectional", "/register-bidirectional?" + strings.Repeat("q", 3000)}
	c11RawProtos  = []string{"HTTP/1.1", "HTTP/1.1", "HTTP/1.1", "HTTP/1.1", "HTTP/1.0", "HTTP/1.0", "HTTP/2.0", "HTTP/1.2", "HTTP/0.9", "HTTP/1", "HTTQ/1.1"}
	c11RawCLs     = []string{"real", "real", "real", "0", "1", "33", "2147483648", "1125899906842624", "9223372036854775807", "9223372036854775808", "99999999999999999999999999",
		"-1", "-9223372036854775808", "+40", "4 0", "0x40", "", "abc", "40, 40", "40,41", " 40 ", "1e3"}
	c11RawTEs    = []string{"chunked", "chunked", "chunked", "Chunked", "gzip", "gzip, chunked", "chunked, chunked", "identity", "chunked, gzip", "x"}
	c11RawChunks = []string{"good", "good", "trailer", "no-terminator", "bad-size", "huge-size", "negative-size", "short-chunk"}
)

func c11RawGen(rt *rapid.T) c11RawCase {
	body, _ := c11h.GenWrapperBytes(rt, c11h.Dom{Gens: regprocessor.C11Gens})
	c := c11RawCase{Body: body, Method: "POST", Target: "/register-bidirectional", Proto: "HTTP/1.1", Cfg: rapid.IntRange(0, regprocessor.C11Configs-1).Draw(rt, "registrar")}
	if rapid.IntRange(0, 2).Draw(rt, "unidir") == 2 {
		c.Target = "/register"
	}
	host := "registrar"
	c.Host = &host
	c.ServerGen = rapid.SampledFrom(c11Gens).Draw(rt, "servergen")
	odd := func(label string, den int) bool { return rapid.IntRange(0, den-1).Draw(rt, label) == den-1 }
	if odd("method_odd", 8) {
		c.Method = rapid.SampledFrom(c11RawMethods).Draw(rt, "method")
	}
	if odd("target_odd", 8) {
		c.Target = rapid.SampledFrom(c11RawTargets).Draw(rt, "target")
	}
	if odd("proto_odd", 6) {
		c.Proto = rapid.SampledFrom(c11RawProtos).Draw(rt, "proto")
	}
	if odd("host_odd", 10) {
		switch rapid.IntRange(0, 3).Draw(rt, "host_kind") {
		case 0:
			c.Host = nil
		case 1:
			h := ""
			c.Host = &h
		case 2:
			h := "a b"
			c.Host = &h
		default:
			h := "registrar\r\nHost: other"
			c.Host = &h
		}
	}
	// framing
	switch rapid.SampledFrom([]string{"cl", "cl", "cl", "cl-odd", "cl-odd", "cl-odd", "cl-dup", "none", "te", "te", "te+cl"}).Draw(rt, "framing") {
	case "cl":
		c.CL = []string{"real"}
	case "cl-odd":
		c.CL = []string{rapid.SampledFrom(c11RawCLs).Draw(rt, "cl")}
		if rapid.IntRange(0, 3).Draw(rt, "relative") == 3 {
			c.CL = []string{strconv.Itoa(len(body) + rapid.SampledFrom([]int{-1, 1, 5, 1000, -len(body) / 2}).Draw(rt, "delta"))}
		}
	case "cl-dup":
		c.CL = []string{rapid.SampledFrom(c11RawCLs).Draw(rt, "cl1"), rapid.SampledFrom(c11RawCLs).Draw(rt, "cl2")}
		if rapid.Bool().Draw(rt, "dup_equal") {
			c.CL[1] = c.CL[0]
		}
	case "te":
		c.TE = rapid.SampledFrom(c11RawTEs).Draw(rt, "te")
		c.Chunks = rapid.SampledFrom(c11RawChunks).Draw(rt, "chunks")
	case "te+cl":
		c.TE = "chunked"
		c.Chunks = rapid.SampledFrom(c11RawChunks).Draw(rt, "chunks")
		c.CL = []string{rapid.SampledFrom(c11RawCLs).Draw(rt, "cl")}
	}
	c.Expect = odd("expect", 6)
	if n := rapid.SampledFrom([]int{0, 0, 0, 1, 2}).Draw(rt, "nxff"); n > 0 {
		for _, v := range rapid.SliceOfN(rapid.SampledFrom(c11XFFs), n, n).Draw(rt, "xff") {
			c.Headers = append(c.Headers, "X-Forwarded-For: "+v)
		}
	}
	if odd("header_odd", 6) {
		c.Headers = append(c.Headers, rapid.SampledFrom([]string{"X-Huge: 8000", "X-Huge: 70000", "X-Huge: 1000000", "X-Huge: 1200000", "Connection: close", "Connection: keep-alive, Upgrade",
			"Upgrade: h2c", "Content-Type: \x00", "Bad Header: x", ": empty-name", "X-NoColon", "Content-Encoding: gzip", "Trailer: X-Trailer", "Expect: 200-ok", "X-A: \xff\xfe"}).Draw(rt, "header"))
	}
	c.SendFail = odd("sendfail", 10)
	return c
}

// c11RawSeeds: hostile constant heads around a valid and an empty-ish body.
func c11RawSeeds() []c11RawCase {
	valid, hostile := regprocessor.C11ClientMessages()
	good := regprocessor.C11MustMarshal(valid[0])
	nopayload := proto.Clone(hostile[0]).(*pb.C2SWrapper)
	nopayload.RegRespBytes = bytes.Repeat([]byte{7}, 40)
	host := "registrar"
	var out []c11RawCase
	for _, target := range []string{"/register", "/register-bidirectional"} {
		base := c11RawCase{Method: "POST", Target: target, Proto: "HTTP/1.1", Host: &host, ServerGen: 958, Cfg: 1}
		for _, cl := range c11RawCLs {
			for _, body := range [][]byte{good, []byte("0123456789")} {
				c := base
				c.CL, c.Body = []string{cl}, body
				out = append(out, c)
			}
		}
		for _, dup := range [][]string{{"real", "real"}, {"real", "5"}, {"9223372036854775807", "real"}, {"0", "9223372036854775807"}} {
			c := base
			c.CL, c.Body = dup, good
			out = append(out, c)
		}
		for _, ch := range c11RawChunks {
			c := base
			c.TE, c.Chunks, c.Body = "chunked", ch, good
			out = append(out, c)
			c.CL = []string{"9223372036854775807"}
			out = append(out, c)
		}
		for _, te := range c11RawTEs {
			c := base
			c.TE, c.Chunks, c.Body = te, "good", good
			out = append(out, c)
		}
		for _, p := range c11RawProtos {
			c := base
			c.Proto, c.CL, c.Body = p, []string{"real"}, good
			out = append(out, c)
			c.Host = nil
			out = append(out, c)
		}
		for _, m := range c11RawMethods {
			c := base
			c.Method, c.CL, c.Body = m, []string{"real"}, good
			out = append(out, c)
		}
		c := base
		c.CL, c.Body, c.Expect = []string{"real"}, good, true
		out = append(out, c)
		c.CL = []string{"1125899906842624"}
		out = append(out, c)
		c = base
		c.CL, c.Body = []string{"real"}, regprocessor.C11MustMarshal(nopayload)
		out = append(out, c)
		for _, h := range []string{"X-Huge: 70000", "X-Huge: 1200000", "X-Forwarded-For: ", "X-Forwarded-For: ,", "Bad Header: x"} {
			c = base
			c.CL, c.Body, c.Headers = []string{"real"}, good, []string{h}
			out = append(out, c)
		}
	}
	for _, t := range c11RawTargets {
		out = append(out, c11RawCase{Method: "POST", Target: t, Proto: "HTTP/1.1", Host: &host, CL: []string{"real"}, Body: good, ServerGen: -1})
	}
	return out
}

func TestVerif_C11_httpraw(t *testing.T) {
	rec := c11h.Rec(c11RawSub, "hand-made HTTP/1.x requests over loopback TCP to the real httptest.Server (routes of ListenAndServe, real RegProcessor): drawn request head — method, target, version, Host, Content-Length (absent / real / smaller / larger / 2^31 / 2^50 / MaxInt64 / beyond int64 / negative / signed / non-numeric / duplicated), Transfer-Encoding (chunked with good / bad chunk framing, other codings, together with Content-Length), Expect: 100-continue, oversized and malformed header lines, X-Forwarded-For — around a body as in the http sub-check; the head is complete and the client half-closes after its last byte; oracle: a final status line arrives (from the handler, or from net/http for heads it refuses); plus ~300 hostile constant heads; non-trivial = the handler of a registration route ran; distinct by case")
	defer rec.Flush()
	e := c11NewHTTPEnv(t)
	s := c11StartServer(e)
	defer s.srv.Close()
	if p := vh.ReplayFile(); p != "" {
		var c c11RawCase
		if _, _, err := vh.LoadReplay(p, &c); err != nil {
			t.Fatal(err)
		}
		c11RawCheck(t, rec, e, s, c)
		return
	}
	rec.Require("handler-ran", "cl:absent", "cl:real", "cl:smaller", "cl:larger", "cl:huge", "cl:unparseable", "cl:duplicated", "te:chunked", "chunks:good", "chunks:bad-size",
		"expect-100", "got-100-continue", "huge-header", "proto:HTTP/1.0", "status:200", "status:204", "status:400", "status:405", "status:431", "status:501", "status:505", "route:/register", "route:/register-bidirectional")
	idx, shards := vh.Shard()
	for i, c := range c11RawSeeds() {
		if i%shards == idx {
			c11RawCheck(t, rec, e, s, c)
		}
	}
	n := 0
	limit := (vh.Pick(1600, 16000) + shards - 1) / shards
	rapid.Check(t, func(rt *rapid.T) {
		c := c11RawGen(rt)
		if n >= limit {
			return // bounded: every request is a real TCP connection
		}
		n++
		c11RawCheck(rt, rec, e, s, c)
	})
}
