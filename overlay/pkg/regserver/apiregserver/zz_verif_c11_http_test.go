package apiregserver

// C11 — an HTTP registration request always receives a status line; nothing a client sends makes
// the handler panic.
//
// Entry points: the register and registerBidirectional handlers of an APIRegServer whose processor
// is a real RegProcessor (recording sender; registrar configurations of regprocessor.C11NewProc),
// with server configurations "no ClientConf", "ClientConf older / equal / newer than the client's".
//
//   http       — handler called with an httptest.ResponseRecorder (every case; backs the fuzz target).
//                Oracle: returns, no panic (panic:http:<top frame>), within the bound.
//   httpserver — the same cases sent by a real HTTP client to a real loopback httptest.Server that
//                routes like ListenAndServe does. Oracle: the client receives a response with a
//                status line. A handler panic is recovered by net/http, which then closes the
//                connection without writing anything: the client sees EOF
//                (no-status-line:httpserver:<path>).

import (
	"bytes"
	"fmt"
	"io"
	golog "log"
	"net"
	"net/http"
	"net/http/httptest"
	"strings"
	"testing"
	"time"

	"github.com/gorilla/mux"
	"github.com/refraction-networking/conjure/pkg/regserver/regprocessor"
	pb "github.com/refraction-networking/conjure/proto"
	log "github.com/sirupsen/logrus"
	"google.golang.org/protobuf/proto"
	"pgregory.net/rapid"
	"verif/harness/c11h"
	"verif/harness/vh"
)

const (
	c11HTTPSub   = "http"
	c11ServerSub = "httpserver"
)

type c11HTTPCase struct {
	Body      vh.Hex   `json:"body"`
	Bidir     bool     `json:"bidirectional"`
	Method    string   `json:"method"`
	ServerGen int64    `json:"server_clientconf_generation"` // -1: the server has no ClientConf
	Cfg       int      `json:"registrar"`
	XFF       []string `json:"x_forwarded_for,omitempty"`
	Remote    string   `json:"remote_addr"`    // recorder only
	CL        int      `json:"content_length"` // recorder only: class of r.ContentLength, independent of the body (see c11CL)
	LogIP     bool     `json:"log_client_ip,omitempty"`
	SendFail  bool     `json:"zmq_send_fails,omitempty"`
	Kind      string   `json:"kind,omitempty"`
}

type c11HTTPEnv struct {
	procs []*regprocessor.C11Proc
	lg    *log.Logger
}

func c11NewHTTPEnv(tb testing.TB) *c11HTTPEnv {
	procs, err := regprocessor.C11Procs()
	if err != nil {
		tb.Fatalf("harness problem: %v", err)
	}
	lg := log.New()
	lg.SetOutput(io.Discard)
	lg.SetLevel(log.TraceLevel)
	return &c11HTTPEnv{procs: procs, lg: lg}
}

func (e *c11HTTPEnv) server(c c11HTTPCase) (*APIRegServer, *regprocessor.C11Proc) {
	pr := e.procs[((c.Cfg%len(e.procs))+len(e.procs))%len(e.procs)]
	pr.Sender.Take()
	pr.Sender.Fail = c.SendFail
	s := &APIRegServer{processor: pr.RP, logger: e.lg, metrics: regprocessor.C11Metrics(), logClientIP: c.LogIP}
	if c.ServerGen >= 0 {
		s.latestClientConf = &pb.ClientConf{Generation: proto.Uint32(uint32(c.ServerGen))}
	}
	return s, pr
}

func (c c11HTTPCase) path() string {
	if c.Bidir {
		return "/register-bidirectional"
	}
	return "/register"
}

// c11CL returns the Content-Length the request announces for class cl and a body of n bytes; the
// value net/http hands to the handler in r.ContentLength comes from the header, not from the body:
// 0 the real length, 1 unknown (-1: chunked), 2 five more than the body, 3 zero, 4 one less than the
// body, 5 2^31, 6 2^50, 7 MaxInt64.
func c11CL(cl, n int) int64 {
	switch cl {
	case 1:
		return -1
	case 2:
		return int64(n) + 5
	case 3:
		return 0
	case 4:
		if n > 0 {
			return int64(n) - 1
		}
	case 5:
		return 1 << 31
	case 6:
		return 1 << 50
	case 7:
		return 1<<63 - 1
	}
	return int64(n)
}

// c11Depth says how far the request gets by construction: "method", "length", "decode" or "logic".
func c11Depth(c c11HTTPCase, recorder bool) string {
	if c.Method != http.MethodPost {
		return "method"
	}
	n := int64(len(c.Body))
	if recorder {
		n = c11CL(c.CL, len(c.Body))
	}
	if n < 33 {
		return "length"
	}
	if proto.Unmarshal(c.Body, &pb.C2SWrapper{}) != nil {
		return "decode"
	}
	return "logic"
}

func c11HTTPRun(e *c11HTTPEnv, c c11HTTPCase) (classes []string, nontrivial bool, o c11h.Outcome) {
	s, pr := e.server(c)
	req := httptest.NewRequest(c.Method, c.path(), bytes.NewReader(c.Body))
	req.ContentLength = c11CL(c.CL, len(c.Body))
	req.RemoteAddr = c.Remote
	for _, v := range c.XFF {
		req.Header.Add("X-Forwarded-For", v)
	}
	w := httptest.NewRecorder()
	o = c11h.Guard(c11h.Bound, func() {
		if c.Bidir {
			s.registerBidirectional(w, req)
		} else {
			s.register(w, req)
		}
	})
	if o.Hung || o.Inconclusive {
		return []string{"gave-up-waiting"}, true, o
	}
	depth := c11Depth(c, true)
	classes = append(classes, "depth:"+depth, c.path())
	if o.Panic == nil {
		classes = append(classes, fmt.Sprintf("status:%d", w.Code))
		if c.Bidir && w.Code == http.StatusOK {
			resp := &pb.RegistrationResponse{}
			if proto.Unmarshal(w.Body.Bytes(), resp) == nil && resp.GetClientConf() != nil {
				classes = append(classes, "clientconf-attached")
			}
		}
	}
	if len(pr.Sender.Take()) > 0 {
		classes = append(classes, "published")
	}
	if c.ServerGen >= 0 {
		classes = append(classes, "server-has-clientconf")
	}
	return classes, depth == "logic", o
}

func c11HTTPCheck(t vh.Fataler, rec *vh.Rec, e *c11HTTPEnv, c c11HTTPCase, fuzz bool) {
	classes, nontrivial, o := c11HTTPRun(e, c)
	classes = append(classes, c11h.Source(fuzz))
	if c.Kind != "" {
		classes = append(classes, "kind:"+c.Kind)
	}
	c11h.Report(t, rec, c11HTTPSub, "http", c, vh.Digest(c), o, nontrivial, classes...)
}

const c11HTTPRule = "register / registerBidirectional handlers (ResponseRecorder) of an APIRegServer backed by a real RegProcessor (4 registrar configurations) x server ClientConf {none, generation 0, 957, 958, 2^32-1} on drawn requests: body = C2SWrapper built field by field as in the zmq sub-check (sometimes byte-mutated / raw), method, announced Content-Length independent of the body (real, unknown, +5, 0, -1, 2^31, 2^50, MaxInt64), RemoteAddr and X-Forwarded-For variants; non-trivial = POST with a body that decodes, so the handler's logic behind the request checks ran; distinct by case"

var (
	c11Remotes = []string{"198.51.100.9:40123", "127.0.0.1:5000", "[::1]:5000", "[2001:db8::9]:443", "198.51.100.9", "", ":80", "not-an-address", "[::1", "198.51.100.9:40123:1"}
	c11XFFs    = []string{"203.0.113.5", "203.0.113.5, 198.51.100.1", " 2001:db8::5 ,198.51.100.1", "", ",", "a,b,c", "203.0.113.5,", ",,,,", "999.1.1.1", "203.0.113.5:80", strings.Repeat("1,", 200)}
	c11Gens    = []int64{-1, -1, 0, 957, 958, 958, 1<<32 - 1}
)

func c11HTTPGen(rt *rapid.T) c11HTTPCase {
	body, kind := c11h.GenWrapperBytes(rt, c11h.Dom{Gens: regprocessor.C11Gens})
	c := c11HTTPCase{Body: body, Kind: kind, Bidir: rapid.IntRange(0, 2).Draw(rt, "unidir") != 2, Method: http.MethodPost, Cfg: rapid.IntRange(0, regprocessor.C11Configs-1).Draw(rt, "registrar")}
	if rapid.IntRange(0, 14).Draw(rt, "othermethod") == 14 {
		c.Method = rapid.SampledFrom([]string{"GET", "PUT", "HEAD", "OPTIONS", "DELETE", "post"}).Draw(rt, "method")
	}
	c.ServerGen = rapid.SampledFrom(c11Gens).Draw(rt, "servergen")
	c.Remote = c11Remotes[0]
	if rapid.IntRange(0, 5).Draw(rt, "otherremote") == 5 {
		c.Remote = rapid.SampledFrom(c11Remotes).Draw(rt, "remote")
	}
	if n := rapid.SampledFrom([]int{0, 0, 0, 1, 2}).Draw(rt, "nxff"); n > 0 {
		c.XFF = rapid.SliceOfN(rapid.SampledFrom(c11XFFs), n, n).Draw(rt, "xff")
	}
	if rapid.IntRange(0, 4).Draw(rt, "othercl") == 4 {
		c.CL = rapid.SampledFrom([]int{1, 2, 3, 4, 6, 7, 6, 7, 2, 5}).Draw(rt, "cl")
	}
	c.LogIP = rapid.Bool().Draw(rt, "logip")
	c.SendFail = rapid.IntRange(0, 9).Draw(rt, "sendfail") == 9
	return c
}

// sel: bits 0-1 registrar, bit 2 unidirectional, bits 3-5 server generation class, bits 6-8 content
// length class, bits 9-12 remote address, bit 13 method GET, bit 14 zmq send fails, bit 15 log ip
func c11HTTPFromSel(body []byte, sel uint32, xff string) c11HTTPCase {
	c := c11HTTPCase{Body: body, Cfg: int(sel & 3), Bidir: sel&4 == 0, Method: http.MethodPost, ServerGen: c11Gens[(sel>>3)&7%uint32(len(c11Gens))],
		Remote: c11Remotes[(sel>>9)&15%uint32(len(c11Remotes))], SendFail: sel&(1<<14) != 0, LogIP: sel&(1<<15) != 0}
	c.CL = int((sel >> 6) & 7)
	if sel&(1<<13) != 0 {
		c.Method = http.MethodGet
	}
	if xff != "" {
		c.XFF = []string{xff}
	}
	return c
}

func c11HTTPSeeds() [][]any {
	var out [][]any
	valid, hostile := regprocessor.C11ClientMessages()
	for i, w := range valid {
		b := regprocessor.C11MustMarshal(w)
		out = append(out, []any{b, uint32(i % 4), ""}, []any{b, uint32(i%4 | 4<<3), "203.0.113.5, 198.51.100.1"}, []any{b, uint32(4 | i%4), ""})
	}
	for i, w := range hostile {
		b := regprocessor.C11MustMarshal(w)
		// padding keeps the body above the minimum request length, as a hostile client would
		if len(b) < 40 {
			w2 := proto.Clone(w).(*pb.C2SWrapper)
			w2.RegRespBytes = bytes.Repeat([]byte{7}, 40)
			b = regprocessor.C11MustMarshal(w2)
		}
		out = append(out, []any{b, uint32(i % 4), ""}, []any{b, uint32(i%4 | 4<<3), ""}, []any{b, uint32(4 | i%4 | 5<<3), ""})
	}
	out = append(out, []any{[]byte{}, uint32(0), ""}, []any{bytes.Repeat([]byte{0}, 33), uint32(4 << 3), ""}, []any{bytes.Repeat([]byte{0xff}, 40), uint32(0), ","},
		[]any{regprocessor.C11MustMarshal(valid[0]), uint32(1 << 13), ""}, []any{regprocessor.C11MustMarshal(valid[0]), uint32(1 << 6), ""}, []any{regprocessor.C11MustMarshal(valid[0]), uint32(5 << 9), "x"},
		[]any{regprocessor.C11MustMarshal(valid[0]), uint32(6 << 6), ""}, []any{regprocessor.C11MustMarshal(valid[0]), uint32(7<<6 | 4), ""}, []any{regprocessor.C11MustMarshal(valid[1]), uint32(7<<6 | 1), ""},
		[]any{regprocessor.C11MustMarshal(valid[0]), uint32(4<<6 | 4), ""}, []any{regprocessor.C11MustMarshal(valid[0]), uint32(2 << 6), ""}, []any{[]byte{1, 2, 3}, uint32(6<<6 | 4), ""})
	return out
}

func TestVerif_C11_http(t *testing.T) {
	rec := c11h.Rec(c11HTTPSub, c11HTTPRule)
	defer rec.Flush()
	e := c11NewHTTPEnv(t)
	if p := vh.ReplayFile(); p != "" {
		var c c11HTTPCase
		if _, _, err := vh.LoadReplay(p, &c); err != nil {
			t.Fatal(err)
		}
		c11HTTPCheck(t, rec, e, c, false)
		return
	}
	rec.Require("depth:logic", "depth:decode", "depth:length", "depth:method", "status:200", "status:204", "status:400", "status:405", "status:500",
		"clientconf-attached", "server-has-clientconf", "published", "/register", "/register-bidirectional")
	if err := c11h.WriteCorpus("FuzzVerif_C11_http", c11HTTPSeeds()); err != nil {
		t.Fatalf("harness problem: %v", err)
	}
	rapid.Check(t, func(rt *rapid.T) { c11HTTPCheck(rt, rec, e, c11HTTPGen(rt), false) })
}

func FuzzVerif_C11_http(f *testing.F) {
	rec := c11h.Rec(c11HTTPSub, c11HTTPRule)
	defer rec.Flush()
	e := c11NewHTTPEnv(f)
	for _, s := range c11HTTPSeeds() {
		f.Add(s...)
	}
	f.Fuzz(func(t *testing.T, body []byte, sel uint32, xff string) {
		if len(body) > 1<<16 || len(xff) > 1<<12 {
			return
		}
		c11HTTPCheck(t, rec, e, c11HTTPFromSel(body, sel, xff), true)
	})
}

// ---- real loopback server -------------------------------------------------------------------------

// c11ServerWait is how long the client waits for the loopback server (wall clock, hence generous).
const c11ServerWait = 60 * time.Second

type c11Server struct {
	srv *httptest.Server
	api *APIRegServer
	cl  *http.Client
}

func c11StartServer(e *c11HTTPEnv) *c11Server {
	s := &c11Server{api: &APIRegServer{logger: e.lg, metrics: regprocessor.C11Metrics()}}
	r := mux.NewRouter() // the routes of ListenAndServe
	r.HandleFunc("/register", s.api.register)
	r.HandleFunc("/register-bidirectional", s.api.registerBidirectional)
	s.srv = httptest.NewUnstartedServer(r)
	s.srv.Config.ErrorLog = golog.New(io.Discard, "", 0) // net/http logs recovered panics here
	s.srv.Start()
	s.cl = &http.Client{Timeout: c11ServerWait, Transport: &http.Transport{DisableKeepAlives: true, Proxy: nil,
		DialContext: (&net.Dialer{Timeout: c11ServerWait}).DialContext}}
	return s
}

type c11UnknownLen struct{ r io.Reader }

func (u c11UnknownLen) Read(p []byte) (int, error) { return u.r.Read(p) }

func c11ServerCheck(t vh.Fataler, rec *vh.Rec, e *c11HTTPEnv, s *c11Server, c c11HTTPCase) {
	// configure the one server for this case (requests are sequential)
	_, pr := e.server(c)
	s.api.ccMutex.Lock()
	s.api.processor = pr.RP
	s.api.logClientIP = c.LogIP
	s.api.latestClientConf = nil
	if c.ServerGen >= 0 {
		s.api.latestClientConf = &pb.ClientConf{Generation: proto.Uint32(uint32(c.ServerGen))}
	}
	s.api.ccMutex.Unlock()
	var body io.Reader = bytes.NewReader(c.Body)
	if c.CL == 1 {
		body = c11UnknownLen{bytes.NewReader(c.Body)} // sent chunked: the handler sees ContentLength -1
	}
	req, err := http.NewRequest(c.Method, s.srv.URL+c.path(), body)
	if err != nil {
		t.Fatalf("harness problem: %v", err)
	}
	for _, v := range c.XFF {
		req.Header.Add("X-Forwarded-For", v)
	}
	start := time.Now()
	resp, err := s.cl.Do(req)
	dc := c11HTTPCase{Body: c.Body, Method: c.Method}
	if c.CL == 1 {
		dc.CL = 1
	}
	depth := c11Depth(dc, true)
	classes := []string{"depth:" + depth, c.path()}
	if c.ServerGen >= 0 {
		classes = append(classes, "server-has-clientconf")
	}
	if err == nil {
		_, _ = io.Copy(io.Discard, io.LimitReader(resp.Body, 1<<20))
		resp.Body.Close()
		classes = append(classes, fmt.Sprintf("status:%d", resp.StatusCode))
	} else {
		classes = append(classes, "no-response")
	}
	pr.Sender.Take()
	c11h.Count(rec, c11ServerSub, depth == "logic", vh.Digest(c), c, classes...)
	if err != nil {
		if time.Since(start) >= c11ServerWait {
			rec.Violation(t, "hang:httpserver:"+c.path(), c, "no response from the loopback server within %v: %v", c11ServerWait, err)
			return
		}
		rec.Violation(t, "no-status-line:httpserver:"+c.path(), c, "the client got no status line from the loopback server (a handler panic makes net/http close the connection without answering): %v", err)
	}
}

func TestVerif_C11_httpserver(t *testing.T) {
	rec := c11h.Rec(c11ServerSub, "a sample of the http sub-check's cases (same generator, valid methods for a client; Content-Length real or chunked) plus the whole seed corpus, sent by a real HTTP client over loopback TCP to an httptest.Server with the routes of ListenAndServe; oracle: a response with a status line arrives; non-trivial as in http; distinct by case")
	defer rec.Flush()
	e := c11NewHTTPEnv(t)
	s := c11StartServer(e)
	defer s.srv.Close()
	if p := vh.ReplayFile(); p != "" {
		var c c11HTTPCase
		if _, _, err := vh.LoadReplay(p, &c); err != nil {
			t.Fatal(err)
		}
		c11ServerCheck(t, rec, e, s, c)
		return
	}
	rec.Require("depth:logic", "status:200", "status:204", "status:400", "server-has-clientconf", "/register", "/register-bidirectional")
	for _, sd := range c11HTTPSeeds() {
		c := c11HTTPFromSel(sd[0].([]byte), sd[1].(uint32), sd[2].(string))
		if c.CL > 1 {
			c.CL = 0
		}
		c11ServerCheck(t, rec, e, s, c)
	}
	n := 0
	limit := vh.Pick(250, 2500)
	_, shards := vh.Shard()
	limit = (limit + shards - 1) / shards
	rapid.Check(t, func(rt *rapid.T) {
		c := c11HTTPGen(rt)
		if n >= limit {
			return // the sample is bounded: every request is a real TCP connection
		}
		n++
		if c.CL > 1 {
			c.CL = 0
		}
		c.Remote = ""
		c11ServerCheck(rt, rec, e, s, c)
	})
}
