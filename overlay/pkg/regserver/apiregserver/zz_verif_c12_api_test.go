package apiregserver

// C12 — the same cases and oracle as the regprocessor-level sub-checks, but entered through the HTTP
// front end: the client's bytes are POSTed to the real handlers (register / registerBidirectional)
// of an APIRegServer whose processor is a real RegProcessor with a recording ZMQ sender, and "what
// the client is told" is the body of the HTTP response.

import (
	"bytes"
	"fmt"
	"io"
	"net"
	"net/http"
	"net/http/httptest"
	"sort"
	"testing"

	"github.com/refraction-networking/conjure/pkg/regserver/regprocessor"
	pb "github.com/refraction-networking/conjure/proto"
	log "github.com/sirupsen/logrus"
	"pgregory.net/rapid"
	"verif/harness/vh"
)

func c12APIEntry(e *regprocessor.C12Env) regprocessor.C12Entry {
	lg := log.New()
	lg.SetOutput(io.Discard)
	return func(pr *regprocessor.C12Proc, clientBytes []byte, c regprocessor.C12Case) ([]byte, bool, string) {
		s := &APIRegServer{processor: pr.RP, logger: lg, metrics: e.Metrics}
		if c.FrontGen != nil {
			g := *c.FrontGen
			s.latestClientConf = &pb.ClientConf{Generation: &g}
		}
		path := "/register"
		if c.Bidir {
			path = "/register-bidirectional"
		}
		req := httptest.NewRequest(http.MethodPost, path, bytes.NewReader(clientBytes))
		req.RemoteAddr = net.JoinHostPort(net.IP(c.Req.ClientAddr).String(), "40123")
		w := httptest.NewRecorder()
		if c.Bidir {
			s.registerBidirectional(w, req)
			if w.Code != http.StatusOK {
				return nil, false, fmt.Sprintf("http-%d", w.Code)
			}
			return w.Body.Bytes(), true, ""
		}
		s.register(w, req)
		if w.Code != http.StatusNoContent {
			return nil, false, fmt.Sprintf("http-%d", w.Code)
		}
		return nil, true, ""
	}
}

func c12APIReport(t vh.Fataler, rec *vh.Rec, c regprocessor.C12Case, res regprocessor.C12Result) {
	if res.Harness != "" {
		t.Fatalf("harness problem: %s", res.Harness)
		return
	}
	cl := append([]string(nil), res.Classes...)
	sort.Strings(cl)
	rec.Case(res.NonTrivial, vh.Digest(c), c, cl...)
	for _, f := range res.Findings {
		rec.Violation(t, f.Key, c, "%s", f.Msg)
	}
}

func TestVerif_C12_api(t *testing.T) {
	rec := vh.NewRec("C12", "api", "the bidir / unidir cases (rapid-generated phantom file x registrar configuration x hostile request, plus the generation of the server's ClientConf) POSTed to the real HTTP handlers of an APIRegServer backed by a real RegProcessor; the client's view is the HTTP response body; same oracle; non-trivial as in bidir / unidir; distinct by whole case")
	defer rec.Flush()
	defer func() { rec.Extra("open_fds_at_end_sum_over_shards", regprocessor.C12OpenFDs()) }()
	rec.Require("accepted", "refused", "forged-response", "param-override", "substituted", "station-v4", "station-v6", "front-end-moved-generation", "forwarded-source-not-bidirectional-and-registrar-changed-something")
	e := regprocessor.C12NewEnv(t)
	entry := c12APIEntry(e)
	if p := vh.ReplayFile(); p != "" {
		var c regprocessor.C12Case
		if _, _, err := vh.LoadReplay(p, &c); err != nil {
			t.Fatal(err)
		}
		c12APIReport(t, rec, c, regprocessor.C12Run(e, c, entry))
		return
	}
	rapid.Check(t, func(rt *rapid.T) {
		c := regprocessor.C12Gen(rt, rapid.SampledFrom([]bool{true, true, true, false}).Draw(rt, "bidirectional"))
		regprocessor.C12AdaptAPI(rt, &c)
		c12APIReport(rt, rec, c, regprocessor.C12Run(e, c, entry))
	})
}
