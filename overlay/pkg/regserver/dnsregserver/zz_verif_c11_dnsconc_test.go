package dnsregserver

// C11 — the DNS registrar handles every datagram in a goroutine of its own (RecvAndRespond), so
// processRequest runs concurrently. Sub-check dnsconc (built with -race): batches of generated
// requests are handed to DNSRegServer.processRequest by several goroutines at once (real
// RegProcessor) while the shared metrics object (real NewMetrics, 1 ns period) runs its periodic
// logger in a tight loop. Oracle: no call panics; the process neither dies (fatal runtime error)
// nor reports a data race — both are reported by vcheck as a crashed process (key crash).

import (
	"fmt"
	"sync"
	"testing"

	"github.com/refraction-networking/conjure/pkg/regserver/regprocessor"
	"pgregory.net/rapid"
	"verif/harness/c11h"
	"verif/harness/vh"
)

const c11DNSConcSub = "dnsconc"

type c11DNSConcCase struct {
	Cfg     int      `json:"registrar"`
	Latest  uint32   `json:"latest_clientconf_generation"`
	Workers int      `json:"workers"`
	Msgs    []vh.Hex `json:"requests"`
}

func c11DNSConcCheck(t vh.Fataler, rec *vh.Rec, e *c11DNSEnv, procs []*regprocessor.C11Proc, c c11DNSConcCase) {
	pr := procs[((c.Cfg%len(procs))+len(procs))%len(procs)]
	pr.Sender.Take()
	s := &DNSRegServer{processor: pr.RP, latestCCGen: c.Latest, logger: e.lg, metrics: e.fast}
	workers := max(1, min(c.Workers, 16))
	outs := make([]c11h.Outcome, workers)
	answered := make([]int, workers)
	var wg sync.WaitGroup
	for w := 0; w < workers; w++ {
		wg.Add(1)
		go func(w int) {
			defer wg.Done()
			outs[w] = c11h.Guard(4*c11h.Bound, func() {
				for i := w; i < len(c.Msgs); i += workers {
					if out, err := s.processRequest(append([]byte(nil), c.Msgs[i]...)); err == nil && out != nil {
						answered[w]++
					}
				}
			})
		}(w)
	}
	wg.Wait()
	pr.Sender.Take()
	total := 0
	for _, a := range answered {
		total += a
	}
	classes := []string{fmt.Sprintf("workers:%d", workers)}
	if total > 0 {
		classes = append(classes, "answered")
	}
	rec.ClassN("requests", int64(len(c.Msgs)))
	bad := c11h.Outcome{}
	for _, o := range outs {
		if o.Panic != nil || o.Hung {
			bad = o
			break
		}
	}
	c11h.Report(t, rec, c11DNSConcSub, "dnsconc", c, vh.Digest(c), bad, workers > 1 && total >= 2, classes...)
}

func TestVerif_C11_dnsconc(t *testing.T) {
	rec := c11h.Rec(c11DNSConcSub, "batches of 8-32 requests (generator of the dnsproc sub-check) handed to DNSRegServer.processRequest by 2-8 goroutines at once (real RegProcessor) while the shared metrics object (real NewMetrics, 1 ns period) runs its periodic logger in a tight loop; built with -race; oracle: no panic, the process neither dies nor reports a data race; non-trivial = at least two answered requests from more than one goroutine; distinct by batch")
	defer rec.Flush()
	e := c11NewDNSEnv(t)
	e.fast = regprocessor.C11FastMetrics()
	var procs []*regprocessor.C11Proc
	for i := 0; i < regprocessor.C11Configs; i++ {
		p, err := regprocessor.C11NewProcMetrics(i, e.fast)
		if err != nil {
			t.Fatalf("harness problem: %v", err)
		}
		procs = append(procs, p)
	}
	if p := vh.ReplayFile(); p != "" {
		var c c11DNSConcCase
		if _, _, err := vh.LoadReplay(p, &c); err != nil {
			t.Fatal(err)
		}
		for i := 0; i < 20; i++ {
			c11DNSConcCheck(t, rec, e, procs, c)
		}
		return
	}
	rec.Require("answered", "workers:8", "requests")
	rapid.Check(t, func(rt *rapid.T) {
		c := c11DNSConcCase{Cfg: rapid.IntRange(0, regprocessor.C11Configs-1).Draw(rt, "registrar"), Latest: rapid.SampledFrom(c11Latest).Draw(rt, "latest"),
			Workers: rapid.SampledFrom([]int{8, 8, 4, 2}).Draw(rt, "workers")}
		n := rapid.SampledFrom([]int{8, 16, 32}).Draw(rt, "nreqs")
		for i := 0; i < n; i++ {
			c.Msgs = append(c.Msgs, c11DNSProcGen(rt).Msg)
		}
		c11DNSConcCheck(rt, rec, e, procs, c)
	})
}
