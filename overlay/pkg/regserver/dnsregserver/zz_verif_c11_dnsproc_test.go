package dnsregserver

// C11 — DNS registration requests: DNSRegServer.processRequest on the decrypted request bytes the
// responder hands it, backed by a real RegProcessor (recording sender; the registrar configurations
// of regprocessor.C11NewProc) and each "latest ClientConf generation" class.
//
// Oracle: returns (response bytes or an error), does not panic, finishes within the bound.

import (
	"fmt"
	"io"
	"testing"

	"github.com/refraction-networking/conjure/pkg/metrics"
	"github.com/refraction-networking/conjure/pkg/regserver/regprocessor"
	pb "github.com/refraction-networking/conjure/proto"
	log "github.com/sirupsen/logrus"
	"google.golang.org/protobuf/proto"
	"pgregory.net/rapid"
	"verif/harness/c11h"
	"verif/harness/vh"
)

const c11DNSProcSub = "dnsproc"

type c11DNSProcCase struct {
	Msg      vh.Hex `json:"msg"`
	Cfg      int    `json:"registrar"`
	Latest   uint32 `json:"latest_clientconf_generation"`
	SendFail bool   `json:"zmq_send_fails,omitempty"`
	Kind     string `json:"kind,omitempty"`
}

type c11DNSEnv struct {
	procs []*regprocessor.C11Proc
	lg    *log.Logger
	fast  *metrics.Metrics // dnsconc only
}

func c11NewDNSEnv(tb testing.TB) *c11DNSEnv {
	procs, err := regprocessor.C11Procs()
	if err != nil {
		tb.Fatalf("harness problem: %v", err)
	}
	lg := log.New()
	lg.SetOutput(io.Discard)
	lg.SetLevel(log.TraceLevel) // the request is formatted with %+v at trace level
	return &c11DNSEnv{procs: procs, lg: lg}
}

func c11DNSProcRun(e *c11DNSEnv, c c11DNSProcCase) (classes []string, nontrivial bool, o c11h.Outcome, badResp string) {
	pr := e.procs[((c.Cfg%len(e.procs))+len(e.procs))%len(e.procs)]
	pr.Sender.Take()
	pr.Sender.Fail = c.SendFail
	s := &DNSRegServer{processor: pr.RP, latestCCGen: c.Latest, logger: e.lg, metrics: regprocessor.C11Metrics()}
	var out []byte
	var err error
	o = c11h.Guard(c11h.Bound, func() { out, err = s.processRequest(append([]byte(nil), c.Msg...)) })
	if o.Hung || o.Inconclusive {
		return []string{"gave-up-waiting"}, true, o, ""
	}
	w := &pb.C2SWrapper{}
	parses := proto.Unmarshal(c.Msg, w) == nil
	nontrivial = parses
	if parses && w.GetRegistrationSource() == pb.RegistrationSource_BidirectionalDNS {
		classes = append(classes, "bidirectional")
	} else if parses {
		classes = append(classes, "unidirectional")
	}
	if o.Panic == nil {
		switch {
		case err != nil:
			classes = append(classes, "error-returned")
		default:
			resp := &pb.DnsResponse{}
			if uerr := proto.Unmarshal(out, resp); uerr != nil {
				badResp = uerr.Error()
			} else {
				classes = append(classes, fmt.Sprintf("success:%v", resp.GetSuccess()))
				if resp.GetClientconfOutdated() {
					classes = append(classes, "clientconf-outdated")
				}
				if resp.GetBidirectionalResponse() != nil {
					classes = append(classes, "bidirectional-response")
				}
			}
		}
	}
	if len(pr.Sender.Take()) > 0 {
		classes = append(classes, "published")
	}
	return classes, nontrivial, o, badResp
}

func c11DNSProcCheck(t vh.Fataler, rec *vh.Rec, e *c11DNSEnv, c c11DNSProcCase, fuzz bool) {
	classes, nontrivial, o, bad := c11DNSProcRun(e, c)
	classes = append(classes, c11h.Source(fuzz))
	if c.Kind != "" {
		classes = append(classes, "kind:"+c.Kind)
	}
	if bad != "" {
		classes = append(classes, "response-unparseable") // evidence only: the property does not speak about the answer
	}
	c11h.Report(t, rec, c11DNSProcSub, "dnsproc", c, vh.Digest(c), o, nontrivial, classes...)
}

const c11DNSProcRule = "DNSRegServer.processRequest (real RegProcessor, 4 registrar configurations, latest ClientConf generation 0 / 957 / 958 / 2^32-1) on request bytes: C2SWrapper built field by field as in the zmq sub-check with the registration source the DNS client sets (DNS / BidirectionalDNS / anything), sometimes byte-mutated / raw; non-trivial = the request decodes, so generation comparison and registration logic ran; distinct by case"

var c11Latest = []uint32{0, 957, 958, ^uint32(0)}

func c11DNSProcGen(rt *rapid.T) c11DNSProcCase {
	g := c11h.NewG(rt, c11h.Dom{Gens: regprocessor.C11Gens})
	c := c11DNSProcCase{Cfg: rapid.IntRange(0, regprocessor.C11Configs-1).Draw(rt, "registrar"), Latest: rapid.SampledFrom(c11Latest).Draw(rt, "latest")}
	w := g.Wrapper()
	switch rapid.IntRange(0, 3).Draw(rt, "dns_source") {
	case 0:
		w.RegistrationSource = pb.RegistrationSource_BidirectionalDNS.Enum()
	case 1:
		w.RegistrationSource = pb.RegistrationSource_DNS.Enum()
	case 2:
		w.RegistrationSource = pb.RegistrationSource_BidirectionalDNS.Enum()
		w.RegistrationAddress = nil
		w.RegistrationResponse = nil
	}
	b, err := proto.Marshal(w)
	if err != nil {
		rt.Fatalf("harness problem: %v", err)
	}
	c.Msg, c.Kind = b, "structured"
	switch rapid.IntRange(0, 9).Draw(rt, "wire") {
	case 8:
		c.Msg, c.Kind = c11h.Mutate(rt, "mut", b), "mutated"
	case 9:
		c.Msg, c.Kind = rapid.SliceOfN(rapid.Byte(), 0, 64).Draw(rt, "raw"), "raw"
	}
	c.SendFail = rapid.IntRange(0, 9).Draw(rt, "sendfail") == 9
	return c
}

func c11DNSProcSeeds() [][]any {
	var out [][]any
	valid, hostile := regprocessor.C11ClientMessages()
	for i, w := range append(valid, hostile...) {
		for j, src := range []pb.RegistrationSource{pb.RegistrationSource_BidirectionalDNS, pb.RegistrationSource_DNS} {
			w2 := proto.Clone(w).(*pb.C2SWrapper)
			w2.RegistrationSource = src.Enum()
			if w2.GetRegistrationPayload().GetTransportParams() != nil {
				w2.RegistrationPayload.TransportParams.TypeUrl = "" // the DNS registrar strips the type URL to save space
			}
			out = append(out, []any{regprocessor.C11MustMarshal(w2), uint16((i+j)%4 | (i%4)<<2)})
		}
	}
	out = append(out, []any{[]byte{}, uint16(2 << 2)}, []any{[]byte{0x20, 0x06}, uint16(2<<2 | 1)}, []any{[]byte{0x1a, 0x00, 0x20, 0x06}, uint16(3 << 2)}, []any{[]byte{0xff}, uint16(0)})
	return out
}

func TestVerif_C11_dnsproc(t *testing.T) {
	rec := c11h.Rec(c11DNSProcSub, c11DNSProcRule)
	defer rec.Flush()
	e := c11NewDNSEnv(t)
	if p := vh.ReplayFile(); p != "" {
		var c c11DNSProcCase
		if _, _, err := vh.LoadReplay(p, &c); err != nil {
			t.Fatal(err)
		}
		c11DNSProcCheck(t, rec, e, c, false)
		return
	}
	rec.Require("bidirectional", "unidirectional", "success:true", "success:false", "error-returned", "clientconf-outdated", "bidirectional-response", "published", "kind:mutated")
	if err := c11h.WriteCorpus("FuzzVerif_C11_dnsproc", c11DNSProcSeeds()); err != nil {
		t.Fatalf("harness problem: %v", err)
	}
	rapid.Check(t, func(rt *rapid.T) { c11DNSProcCheck(rt, rec, e, c11DNSProcGen(rt), false) })
}

// sel: bits 0-1 registrar, bits 2-3 latest generation class, bit 4 zmq send fails
func FuzzVerif_C11_dnsproc(f *testing.F) {
	rec := c11h.Rec(c11DNSProcSub, c11DNSProcRule)
	defer rec.Flush()
	e := c11NewDNSEnv(f)
	for _, s := range c11DNSProcSeeds() {
		f.Add(s...)
	}
	f.Fuzz(func(t *testing.T, msg []byte, sel uint16) {
		if len(msg) > 1<<16 {
			return
		}
		c11DNSProcCheck(t, rec, e, c11DNSProcCase{Msg: msg, Cfg: int(sel & 3), Latest: c11Latest[(sel>>2)&3], SendFail: sel&16 != 0}, true)
	})
}
