package dnsregserver

// C12 — the same cases and oracle as the regprocessor-level sub-checks, but entered through the DNS
// front end: the client's bytes go to DNSRegServer.processRequest (what the DNS responder calls with
// the decrypted request) backed by a real RegProcessor with a recording ZMQ sender, and "what the
// client is told" is the bidirectional_response inside the DnsResponse it returns.

import (
	"io"
	"sort"
	"testing"

	"github.com/refraction-networking/conjure/pkg/regserver/regprocessor"
	pb "github.com/refraction-networking/conjure/proto"
	log "github.com/sirupsen/logrus"
	"google.golang.org/protobuf/proto"
	"pgregory.net/rapid"
	"verif/harness/vh"
)

func c12DNSEntry(e *regprocessor.C12Env) regprocessor.C12Entry {
	lg := log.New()
	lg.SetOutput(io.Discard)
	return func(pr *regprocessor.C12Proc, clientBytes []byte, c regprocessor.C12Case) ([]byte, bool, string) {
		s := &DNSRegServer{processor: pr.RP, logger: lg, metrics: e.Metrics}
		if c.FrontGen != nil {
			s.latestCCGen = *c.FrontGen
		}
		out, err := s.processRequest(clientBytes)
		if err != nil {
			return nil, false, "dns-error"
		}
		dr := &pb.DnsResponse{}
		if err := proto.Unmarshal(out, dr); err != nil {
			return nil, false, "dns-undecodable-response"
		}
		if !dr.GetSuccess() {
			return nil, false, "dns-success-false"
		}
		if !c.Bidir {
			if dr.BidirectionalResponse != nil {
				return nil, false, "dns-unexpected-bidirectional-response"
			}
			return nil, true, ""
		}
		if dr.BidirectionalResponse == nil {
			return nil, false, "dns-no-bidirectional-response"
		}
		b, err := proto.Marshal(dr.BidirectionalResponse)
		if err != nil {
			return nil, false, "dns-unmarshallable-response"
		}
		return b, true, ""
	}
}

func c12DNSReport(t vh.Fataler, rec *vh.Rec, c regprocessor.C12Case, res regprocessor.C12Result) {
	if res.Harness != "" {
		t.Fatalf("harness problem: %s", res.Harness)
		return
	}
	cl := append([]string(nil), res.Classes...)
	sort.Strings(cl)
	rec.Case(res.NonTrivial, vh.Digest(c), c, cl...)
	for _, f := range res.Findings {
		rec.Violation(t, f.Key, c, "%s", f.Msg)
	}
}

func TestVerif_C12_dns(t *testing.T) {
	rec := vh.NewRec("C12", "dns", "the bidir / unidir cases (rapid-generated phantom file x registrar configuration x hostile request; no client address; bidirectional iff the client's registration_source says BidirectionalDNS) handed to DNSRegServer.processRequest backed by a real RegProcessor; the client's view is the bidirectional_response of the returned DnsResponse; same oracle; non-trivial as in bidir / unidir; distinct by whole case")
	defer rec.Flush()
	defer func() { rec.Extra("open_fds_at_end_sum_over_shards", regprocessor.C12OpenFDs()) }()
	rec.Require("accepted", "refused", "forged-response", "param-override", "substituted", "station-v6")
	e := regprocessor.C12NewEnv(t)
	entry := c12DNSEntry(e)
	if p := vh.ReplayFile(); p != "" {
		var c regprocessor.C12Case
		if _, _, err := vh.LoadReplay(p, &c); err != nil {
			t.Fatal(err)
		}
		c12DNSReport(t, rec, c, regprocessor.C12Run(e, c, entry))
		return
	}
	rapid.Check(t, func(rt *rapid.T) {
		c := regprocessor.C12Gen(rt, rapid.SampledFrom([]bool{true, true, true, false}).Draw(rt, "bidirectional"))
		regprocessor.C12AdaptDNS(rt, &c)
		c12DNSReport(rt, rec, c, regprocessor.C12Run(e, c, entry))
	})
}
