package assets

// C20 / kill — crash points: SIGKILL at a drawn instant during a drawn sequence of stores.

import (
	"fmt"
	"io"
	"os"
	"path/filepath"
	"testing"

	"github.com/refraction-networking/conjure/pkg/station/log"
	pb "github.com/refraction-networking/conjure/proto"
	"google.golang.org/protobuf/proto"
	"pgregory.net/rapid"
	"verif/harness/vh"
)

func c20GenKill(rt *rapid.T) c20Case {
	c := c20Case{}
	multi := rapid.Bool().Draw(rt, "multiMB") // half of the cases store multi-megabyte configurations
	bigSizes := []int{1024, 2048, 3072, 4096, 6144}
	n := rapid.IntRange(1, 30).Draw(rt, "n")
	bigLeft := 0
	if multi {
		bigLeft = rapid.IntRange(1, 3).Draw(rt, "bigOps")
		if rapid.Bool().Draw(rt, "bigInit") {
			c.InitKB = rapid.SampledFrom(bigSizes).Draw(rt, "initKB")
		}
	}
	for i := 0; i < n; i++ {
		op := c20Op{Kind: rapid.SampledFrom(c20Kinds).Draw(rt, "kind")}
		if bigLeft > 0 && (op.Kind == "conf" || op.Kind == "decoys" || op.Kind == "subnets") &&
			(i < 2 || rapid.IntRange(0, 3).Draw(rt, "bigHere") == 0) {
			op.KB = rapid.SampledFrom(bigSizes).Draw(rt, "kb")
			bigLeft--
		}
		if op.Kind == "conf" && op.KB == 0 && rapid.IntRange(0, 7).Draw(rt, "exactP") == 0 {
			op.Exact = rapid.SampledFrom(c20Boundaries).Draw(rt, "boundary") + rapid.IntRange(-1, 1).Draw(rt, "delta")
		}
		if rapid.IntRange(0, 3).Draw(rt, "oldP") == 0 {
			op.AgeH = rapid.SampledFrom([]int{2, 48}).Draw(rt, "ageH") // the file about to be replaced is old
		}
		c.Ops = append(c.Ops, op)
	}
	c.XDev = rapid.Bool().Draw(rt, "xdev") // half of the kills with TMPDIR on another file system
	c.KillAt = rapid.IntRange(0, n-1).Draw(rt, "killAt")
	// 0–3 ms after the announced start; small offsets are drawn more often because a small store
	// lasts only 50–200 µs. A multi-megabyte store lasts 3–20 ms here (measured), so for those cases
	// the range is widened to 25 ms to reach the end of the write and the rename as well.
	offs := []*rapid.Generator[int]{rapid.IntRange(0, 60), rapid.IntRange(0, 400), rapid.IntRange(0, 3000)}
	if multi {
		offs = append(offs, rapid.IntRange(0, 25000))
	}
	c.KillUs = rapid.OneOf(offs...).Draw(rt, "killUs")
	return c
}

func c20CheckKill(t vh.Fataler, rec *vh.Rec, root string, c c20Case) {
	base := c20Scratch(t, root)
	defer os.RemoveAll(base)
	res, err := c20Exec(c, base, false)
	if err != nil {
		t.Fatalf("harness problem: %v", err)
	}
	if msg := res.c20HarnessTrouble(); msg != "" {
		t.Fatalf("harness problem: %s", msg)
	}
	// A store that fails although the directory is healthy is not ours to explain (reported as harness
	// trouble at the end) and the model of "what was stored" is no longer known after it (the partial
	// setters need not roll back), but the file must at least still exist and parse.
	spurious := ""
	for i := 0; i < len(c.Ops); i++ {
		if e, bad := res.doneErr[i]; bad {
			spurious = fmt.Sprintf("store %d (%v) failed in a healthy directory: %s", i, c.Ops[i], e)
			break
		}
	}
	inFlight := res.lastStart > res.lastDone
	// model: configuration after the last completed store, and of the store in flight
	cur := c20Norm(c20Conf(-1, c.InitKB, false))
	var prev *pb.ClientConf
	for i := 0; i <= res.lastStart && i < len(c.Ops); i++ {
		prev = cur
		cur = c20Norm(c20Model(cur, i, c.Ops[i]))
	}
	allowed := []*pb.ClientConf{cur}
	if inFlight {
		allowed = append(allowed, prev)
	}

	classes := []string{}
	switch {
	case inFlight:
		classes = append(classes, "kill-in-flight", "in-flight:"+c.Ops[res.lastStart].Kind)
		if c.Ops[res.lastStart].AgeH > 0 {
			defer rec.Class("in-flight-over-back-dated-file")
		}
		if c20MultiMB(cur, prev) {
			classes = append(classes, "in-flight-multiMB")
		} else {
			classes = append(classes, "in-flight-small")
		}
	case res.finished:
		classes = append(classes, "kill-after-end")
	default:
		classes = append(classes, "kill-between-stores")
	}

	file, rerr := os.ReadFile(filepath.Join(res.dir, c20File))
	strays, _, _ := c20Strays(res.dir)
	if strays > 0 {
		classes = append(classes, "stray-tmp-left-by-kill")
		rec.ClassN("stray-tmp-files", int64(strays))
	}
	verdict, form := "", ""
	if rerr != nil {
		form = "missing"
		verdict = fmt.Sprintf("ClientConf cannot be read after the kill: %v", rerr)
	} else {
		got := &pb.ClientConf{}
		perr := proto.Unmarshal(file, got)
		switch {
		case perr == nil && spurious != "":
			// parses; equality cannot be judged
		case perr == nil && proto.Equal(got, cur):
			if inFlight {
				classes = append(classes, "observed:new", classes[2]+":observed-new")
			}
		case perr == nil && inFlight && proto.Equal(got, prev):
			classes = append(classes, "observed:previous", classes[2]+":observed-previous")
		default:
			form = c20Form(file, allowed...)
			verdict = fmt.Sprintf("ClientConf after the kill (%d bytes, parse error: %v) %s", len(file), perr, c20Brief(got))
		}
	}
	if c.XDev && res.xdev {
		classes = append(classes, "xdev-tmpdir")
		if inFlight {
			classes = append(classes, "xdev-tmpdir:kill-in-flight")
		}
	} else if c.XDev {
		classes = append(classes, "xdev-unavailable")
	}

	// Restart: load the directory the way a starting client does (fresh singleton, AssetsSetDir). What
	// it then has in effect and the file it leaves behind must again be one of the allowed
	// configurations — a left-over temporary file of the killed store must not be promoted.
	if verdict == "" && spurious == "" {
		isAllowed := func(m *pb.ClientConf) bool {
			for _, a := range allowed {
				if a != nil && proto.Equal(m, a) {
					return true
				}
			}
			return false
		}
		fresh, lerr := c20Fresh(res.dir)
		var loaded *pb.ClientConf
		if fresh != nil {
			loaded = c20Norm(fresh.GetClientConfPtr())
		}
		file2, rerr2 := os.ReadFile(filepath.Join(res.dir, c20File))
		got2 := &pb.ClientConf{}
		classes = append(classes, "reload-checked")
		switch {
		case rerr2 != nil:
			form = "reload:missing"
			verdict = fmt.Sprintf("after a fresh client loaded the directory (load error %v) ClientConf cannot be read: %v", lerr, rerr2)
		case proto.Unmarshal(file2, got2) != nil || !isAllowed(got2):
			form = "reload:" + c20Form(file2, allowed...)
			verdict = fmt.Sprintf("right after the kill the file was an allowed configuration, but after a fresh client loaded the directory (AssetsSetDir on a new singleton, load error %v; %d temporary files were lying there) ClientConf (%d bytes) %s", lerr, strays, len(file2), c20Brief(got2))
		case lerr != nil || loaded == nil || !isAllowed(loaded):
			form = "reload-memory"
			verdict = fmt.Sprintf("a fresh client loading the directory (load error %v) has %s in effect", lerr, c20Brief(loaded))
		}
	}
	rec.Case(inFlight, vh.Digest(c), c, classes...)
	if verdict != "" {
		state := fmt.Sprintf("after store %d completed", res.lastDone)
		want := "the configuration of that store " + c20Brief(cur)
		if inFlight {
			state = fmt.Sprintf("during store %d (%v)", res.lastStart, c.Ops[res.lastStart])
			want = "previous " + c20Brief(prev) + " or new " + c20Brief(cur)
		}
		rec.Violation(t, "kill:"+form, c, "process killed %s (kill point: start %d + %d µs): %s is neither allowed configuration; allowed: %s",
			state, c.KillAt, c.KillUs, verdict, want)
	} else if spurious != "" {
		t.Fatalf("harness problem: %s (the file still parses; what it should equal is not known after that)", spurious)
	}
}

func TestVerif_C20_kill(t *testing.T) {
	rec := vh.NewRec("C20", "kill", "rapid draws a sequence of 1-30 stores (SetClientConf/SetDecoys/SetPubkey/SetGeneration/SetPhantomSubnets; content a function of the index; half of the cases contain 1-6 MiB configurations), a store index K and an offset 0-3000 µs (0-25000 µs in multi-MiB cases, whose stores last 3-20 ms); a re-executed child performs the stores on a fresh pre-seeded directory announcing start/done on a pipe and is SIGKILLed offset µs after announcing start K; afterwards the ClientConf file must parse and be proto.Equal to the model configuration of the last completed store or of the store in flight, and the same must hold for the file and for the configuration in effect after the directory has been loaded by a fresh singleton (restart: a left-over temporary file must not be promoted). Half of the cases run the child with TMPDIR on another file system than the assets directory (st_dev compared; class xdev-tmpdir, xdev-unavailable if there is none). Non-trivial = the kill landed between a start and its done (measured from the pipe); distinct = distinct (sequence, kill point)")
	defer rec.Flush()
	rec.Require("kill-in-flight", "in-flight-multiMB", "in-flight-small")
	root := t.TempDir()
	log.SetOutput(io.Discard) // the parent loads directories itself (restart check)
	defer log.SetOutput(os.Stdout)
	if p := vh.ReplayFile(); p != "" {
		var c c20Case
		if _, _, err := vh.LoadReplay(p, &c); err != nil {
			t.Fatal(err)
		}
		// a kill instant cannot be pinned: repeat the recorded kill point a few times
		for i := 0; i < 25; i++ {
			c20CheckKill(t, rec, root, c)
		}
		return
	}
	rapid.Check(t, func(rt *rapid.T) {
		c := c20GenKill(rt)
		c20CheckKill(rt, rec, root, c)
	})
}
