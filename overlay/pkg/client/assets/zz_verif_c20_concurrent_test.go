package assets

// C20 / concurrent — overlapping stores from several goroutines of one client.
//
// Each actor replaces the whole ClientConf (SetClientConf) with its own configuration; one of them is
// large, so that its temporary-file write lasts long enough for the others to arrive in the middle of
// it; optionally the large store is made to fail at its last step (its temporary file is deleted while
// it is being written, so the rename fails). When all have returned:
//
//   * the ClientConf file parses;
//   * it equals the configuration in effect in memory (GetClientConfPtr) — "previous or new, never a
//     mixture" leaves no room for the disk holding one store and the memory another;
//   * that configuration is one whose store reported success, or the initial one if none did — a
//     failed replacement leaves the previous one in effect, it must not discard a successful store.

import (
	"fmt"
	"os"
	"testing"

	pb "github.com/refraction-networking/conjure/proto"
	"google.golang.org/protobuf/proto"
	"pgregory.net/rapid"
	"verif/harness/vh"
)

func c20GenConc(rt *rapid.T) c20Case {
	c := c20Case{KillAt: -1}
	large := []int{8192, 16384, 24576, 32768}
	if vh.Thorough() {
		large = append(large, 49152, 65536)
	}
	n := rapid.IntRange(2, 3).Draw(rt, "actors")
	big := c20ConcActor{KB: rapid.SampledFrom(large).Draw(rt, "largeKB"), RmTemp: rapid.Bool().Draw(rt, "rmTemp")}
	// mostly the large store starts first and the small ones arrive while it is being written
	if rapid.IntRange(0, 4).Draw(rt, "largeLate") == 0 {
		big.DelayUs = rapid.IntRange(0, 2000).Draw(rt, "largeDelay")
	}
	c.Conc = append(c.Conc, big)
	for j := 1; j < n; j++ {
		a := c20ConcActor{DelayUs: rapid.OneOf(rapid.IntRange(0, 3000), rapid.IntRange(0, 40000)).Draw(rt, "delay")}
		if rapid.IntRange(0, 3).Draw(rt, "mediumP") == 0 {
			a.KB = rapid.SampledFrom([]int{64, 256}).Draw(rt, "kb")
		}
		c.Conc = append(c.Conc, a)
	}
	return c
}

func c20CheckConc(t vh.Fataler, rec *vh.Rec, root string, c c20Case) {
	base := c20Scratch(t, root)
	defer os.RemoveAll(base)
	res, err := c20Exec(c, base, true)
	if err != nil {
		t.Fatalf("harness problem: %v", err)
	}
	if msg := res.c20HarnessTrouble(); msg != "" {
		t.Fatalf("harness problem: %s", msg)
	}
	o := res.conc
	if o == nil || len(o.Errs) != len(c.Conc) {
		t.Fatalf("harness problem: the child reported no concurrent observation")
	}
	if o.Harness != "" {
		t.Fatalf("harness problem: %s", o.Harness)
	}
	cache := map[string]c20Loaded{}
	classes := []string{}
	overlapped := false
	for i := range c.Conc {
		for j := range c.Conc {
			if i < j && o.StartNs[i] < o.EndNs[j] && o.StartNs[j] < o.EndNs[i] {
				overlapped = true
			}
		}
	}
	if overlapped {
		classes = append(classes, "stores-overlapped")
	}
	var allowed []*pb.ClientConf
	var okNames []string
	failed := 0
	for j, e := range o.Errs {
		if e == "" {
			allowed = append(allowed, c20Norm(c20Conf(j, c.Conc[j].KB, false)))
			okNames = append(okNames, fmt.Sprintf("#%d", j))
		} else {
			failed++
			if !c.Conc[j].RmTemp {
				t.Fatalf("harness problem: concurrent store #%d failed without a fault: %s", j, e)
			}
		}
	}
	if failed > 0 {
		classes = append(classes, "a-store-failed(temp-file-deleted)")
	}
	if len(allowed) == 0 {
		allowed = append(allowed, c20Norm(c20Conf(-1, c.InitKB, false)))
		okNames = append(okNames, "initial")
		classes = append(classes, "no-store-succeeded")
	}
	in := func(m *pb.ClientConf) bool {
		for _, a := range allowed {
			if m != nil && proto.Equal(m, a) {
				return true
			}
		}
		return false
	}
	mem, _, merr := c20LoadBlob(cache, res.obsDir, o.Mem)
	if merr != nil || mem == nil {
		t.Fatalf("harness problem: in-memory snapshot: %v", merr)
	}
	disk, raw, form, perr, ht := c20ParseDisk(cache, res.obsDir, o.Disk)
	if ht != "" {
		t.Fatalf("harness problem: %s", ht)
	}
	key, msg := "", ""
	describe := func() string {
		s := ""
		for j, a := range c.Conc {
			r := "ok"
			if o.Errs[j] != "" {
				r = "failed: " + o.Errs[j]
			}
			s += fmt.Sprintf(" #%d{%d KiB, called +%dµs, returned +%dµs, %s}", j, a.KB, o.StartNs[j]/1000, o.EndNs[j]/1000, r)
		}
		return s
	}
	switch {
	case disk == nil:
		key = "concurrent:" + form
		msg = fmt.Sprintf("after concurrent stores the ClientConf file is %s (%s)", form, perr)
	case !proto.Equal(disk, mem):
		key = "concurrent:file-differs-from-memory"
		if !in(disk) {
			form = c20Form(raw, allowed...)
			key = "concurrent:file-" + form
		}
		msg = fmt.Sprintf("after concurrent stores the ClientConf file holds %s but the configuration in effect in memory is %s", c20Brief(disk), c20Brief(mem))
	case !in(mem):
		key = "concurrent:successful-store-lost"
		msg = fmt.Sprintf("after concurrent stores file and memory hold %s, which is not a configuration whose store reported success (those are %v)", c20Brief(mem), okNames)
	}
	rec.Case(overlapped, vh.Digest(c), c, classes...)
	if key != "" {
		rec.Violation(t, key, c, "%s; stores:%s", msg, describe())
	}
}

func TestVerif_C20_concurrent(t *testing.T) {
	rec := vh.NewRec("C20", "concurrent", "rapid draws 2-3 actors (goroutines of one re-executed child) that each SetClientConf their own configuration: one large (8-32 MiB, thorough up to 64 MiB) whose temporary-file write lasts tens of ms, the others small and starting a drawn 0-40 ms later; in half of the cases the large store's temporary file is deleted while it is written so that its rename fails; after all returned the file must parse, equal the configuration in effect in memory, and that must be one whose store reported success (the initial one if none did). Non-trivial = two stores overlapped in time (measured call/return instants); distinct = distinct actor list")
	defer rec.Flush()
	rec.Require("stores-overlapped", "a-store-failed(temp-file-deleted)")
	root := t.TempDir()
	if p := vh.ReplayFile(); p != "" {
		var c c20Case
		if _, _, err := vh.LoadReplay(p, &c); err != nil {
			t.Fatal(err)
		}
		for i := 0; i < 5; i++ { // goroutine interleaving cannot be pinned: repeat
			c20CheckConc(t, rec, root, c)
		}
		return
	}
	rapid.Check(t, func(rt *rapid.T) {
		c := c20GenConc(rt)
		c20CheckConc(rt, rec, root, c)
	})
}
