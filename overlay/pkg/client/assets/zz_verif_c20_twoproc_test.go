package assets

// C20 / twoproc — two client processes on one assets directory, on a harness-owned schedule.
//
// The property speaks about the ClientConf *file*: whenever the library stores, a kill at any moment
// leaves it equal to the previous or the new configuration. Nothing restricts the directory to one
// process (two clients started from one working directory share ./assets), and the other sub-checks
// only ever have one process store into a directory. Here a first process performs a drawn sequence
// of stores under ptrace; during its last store it is suspended at a drawn system-call boundary (at
// the exit of the n-th call that touches the assets directory: before the first, after the temporary
// file is opened, after it is written, after it is closed, after the rename, ...). While it is
// suspended a second, freshly started client process loads the directory and completes a drawn
// sequence of stores of its own (different content; generations drawn from a small set, so that both
// processes often carry the same generation). The first process is then resumed to its end, or killed
// where it stands, or resumed and killed a drawn number of calls later. Nothing here depends on time:
// the schedule is a pure function of the case.
//
// Oracle (each instant judged is one at which every process is suspended, dead or finished):
//   * at the suspension point the file is the first process's previous or new configuration (this is
//     what a kill at that call boundary would leave — crash points enumerated instead of sampled);
//   * when the second process has completed its stores (all reported success, the first is still
//     suspended) the file is exactly the configuration of its last store;
//   * at the end the file is the second process's last configuration or the first process's new one,
//     and a client that starts afterwards loads one of those two and leaves one of those two behind.

import (
	"bufio"
	"bytes"
	"encoding/json"
	"fmt"
	"io"
	"os"
	"os/exec"
	"path/filepath"
	"runtime"
	"strconv"
	"strings"
	"sync/atomic"
	"syscall"
	"testing"
	"time"
	"unsafe"

	"github.com/refraction-networking/conjure/pkg/station/log"
	pb "github.com/refraction-networking/conjure/proto"
	"google.golang.org/protobuf/proto"
	"pgregory.net/rapid"
	"verif/harness/vh"
)

type c20TwoCase struct {
	InitKB  int     `json:"init_kb,omitempty"`
	Ops     []c20Op `json:"ops"`      // first process; suspended during the last of these
	FreezeN int     `json:"freeze_n"` // ... at the exit of that store's FreezeN-th call on the assets directory (0 = before its first)
	Other   []c20Op `json:"other"`    // second process: started while the first is suspended; completes all of these
	Then    int     `json:"then"`     // -1 first process resumed, runs to its end; 0 killed where it stands; m>0 resumed and killed at the exit of its m-th further call
}

const c20OtherBase = 500 // content index of the second process's stores (never the first process's content)

// ---- a minimal system-call tracer (linux/amd64) ----------------------------------------------------

type c20SysInfo struct { // struct ptrace_syscall_info
	Op   uint8 // 1 = entry, 2 = exit
	_    [3]uint8
	Arch uint32
	IP   uint64
	SP   uint64
	U    [8]uint64 // entry: nr, args[6]; exit: rval, is_error
}

const (
	c20PtraceGetSyscallInfo = 0x420e
	c20PtraceOExitKill      = 0x100000
)

type c20PathCall struct {
	name  string
	paths []int // positions of path arguments
	opens bool  // returns a descriptor
}

var c20PathCalls = map[uint64]c20PathCall{
	2: {"open", []int{0}, true}, 85: {"creat", []int{0}, true}, 257: {"openat", []int{1}, true}, 437: {"openat2", []int{1}, true},
	82: {"rename", []int{0, 1}, false}, 264: {"renameat", []int{1, 3}, false}, 316: {"renameat2", []int{1, 3}, false},
	87: {"unlink", []int{0}, false}, 263: {"unlinkat", []int{1}, false},
	86: {"link", []int{0, 1}, false}, 265: {"linkat", []int{1, 3}, false},
	88: {"symlink", []int{1}, false}, 266: {"symlinkat", []int{2}, false},
	76: {"truncate", []int{0}, false}, 90: {"chmod", []int{0}, false}, 268: {"fchmodat", []int{1}, false},
	83: {"mkdir", []int{0}, false}, 258: {"mkdirat", []int{1}, false}, 84: {"rmdir", []int{0}, false},
}

// calls whose first argument is a descriptor; they count when it is one opened inside the assets directory
var c20FdCalls = map[uint64]string{1: "write", 18: "pwrite64", 20: "writev", 296: "pwritev", 328: "pwritev2", 74: "fsync", 75: "fdatasync",
	77: "ftruncate", 91: "fchmod", 285: "fallocate", 277: "sync_file_range", 3: "close"}

type c20Thr struct {
	nr   uint64
	args [6]uint64
	rel  bool   // the call in progress touches the assets directory
	desc string // its description
	mark string // the call in progress writes this line to the announcement pipe
}

// c20Event is the exit of a call on the assets directory, or of an announcement.
type c20Event struct {
	Mark  string // "S" / "D" (announcement), "" = file-system call
	Index int    // announcement: store index
	Err   string // "D": error text of a failed store
	Desc  string // file-system call: name(args)=result
}

type c20Tracer struct {
	pid    int
	dir    string
	thr    map[int]*c20Thr
	resume map[int]int // threads standing in a ptrace stop -> signal to deliver when resumed
	fds    map[int]string
	exited bool
	exitWS syscall.WaitStatus
}

func c20PeekBytes(tid int, addr uintptr, max int) []byte {
	var out []byte
	buf := make([]byte, 64)
	for len(out) < max {
		n := 64 - int(addr%64) // never across a page boundary in one request
		if n > max-len(out) {
			n = max - len(out)
		}
		c, err := syscall.PtracePeekData(tid, addr, buf[:n])
		if c <= 0 {
			break
		}
		out = append(out, buf[:c]...)
		addr += uintptr(c)
		if err != nil {
			break
		}
	}
	return out
}

func c20PeekString(tid int, addr uintptr) string {
	var out []byte
	for len(out) < 4096 {
		b := c20PeekBytes(tid, addr+uintptr(len(out)), 64-int((addr+uintptr(len(out)))%64))
		if len(b) == 0 {
			break
		}
		if i := bytes.IndexByte(b, 0); i >= 0 {
			return string(append(out, b[:i]...))
		}
		out = append(out, b...)
	}
	return string(out)
}

func (tr *c20Tracer) inDir(p string) bool { return p == tr.dir || strings.HasPrefix(p, tr.dir+"/") }

func (tr *c20Tracer) short(p string) string {
	if tr.inDir(p) {
		return strings.TrimPrefix(strings.TrimPrefix(p, tr.dir), "/")
	}
	return p
}

// c20StartTraced starts exe under ptrace; the calling goroutine must be locked to its thread and stay
// so for as long as the tracer is used.
func c20StartTraced(exe string, argv, env []string, wd, dir string, files []uintptr) (*c20Tracer, error) {
	pid, err := syscall.ForkExec(exe, argv, &syscall.ProcAttr{Dir: wd, Env: env, Files: files, Sys: &syscall.SysProcAttr{Ptrace: true}})
	if err != nil {
		return nil, err
	}
	tr := &c20Tracer{pid: pid, dir: dir, thr: map[int]*c20Thr{pid: {}}, resume: map[int]int{}, fds: map[int]string{}}
	var ws syscall.WaitStatus
	for {
		_, err = syscall.Wait4(pid, &ws, 0, nil)
		if err != syscall.EINTR {
			break
		}
	}
	if err != nil || !ws.Stopped() {
		_ = syscall.Kill(pid, syscall.SIGKILL)
		return nil, fmt.Errorf("traced child did not stop after exec (wait: %v, status %#x)", err, uint32(ws))
	}
	if err := syscall.PtraceSetOptions(pid, syscall.PTRACE_O_TRACESYSGOOD|syscall.PTRACE_O_TRACECLONE|syscall.PTRACE_O_TRACEFORK|syscall.PTRACE_O_TRACEVFORK|c20PtraceOExitKill); err != nil {
		_ = syscall.Kill(pid, syscall.SIGKILL)
		tr.reap()
		return nil, fmt.Errorf("ptrace options: %v", err)
	}
	tr.resume[pid] = 0
	return tr, nil
}

// next runs the process until the next event; (nil, nil) = the process has ended.
func (tr *c20Tracer) next() (*c20Event, error) {
	for !tr.exited {
		for tid, sig := range tr.resume {
			delete(tr.resume, tid)
			if err := syscall.PtraceSyscall(tid, sig); err != nil && err != syscall.ESRCH {
				return nil, fmt.Errorf("ptrace resume of %d: %v", tid, err)
			}
		}
		var ws syscall.WaitStatus
		wpid, err := syscall.Wait4(-1, &ws, syscall.WALL, nil)
		if err == syscall.EINTR {
			continue
		}
		if err != nil {
			return nil, fmt.Errorf("wait4: %v", err)
		}
		if ws.Exited() || ws.Signaled() {
			delete(tr.thr, wpid)
			if wpid == tr.pid {
				tr.exited, tr.exitWS = true, ws
			}
			continue
		}
		if !ws.Stopped() {
			continue
		}
		sig := ws.StopSignal()
		switch {
		case sig == syscall.SIGTRAP|0x80:
			tr.resume[wpid] = 0
			ev, err := tr.syscallStop(wpid)
			if err != nil {
				return nil, err
			}
			if ev != nil {
				return ev, nil
			}
		case sig == syscall.SIGTRAP && ws.TrapCause() > 0: // clone/fork event
			tr.resume[wpid] = 0
		case sig == syscall.SIGSTOP && tr.thr[wpid] == nil: // first stop of a new thread
			tr.thr[wpid] = &c20Thr{}
			tr.resume[wpid] = 0
		default: // a signal on its way to the process (SIGURG pre-emption, ...): deliver it
			tr.resume[wpid] = int(sig)
		}
	}
	return nil, nil
}

func (tr *c20Tracer) syscallStop(tid int) (*c20Event, error) {
	var info c20SysInfo
	if _, _, e := syscall.Syscall6(syscall.SYS_PTRACE, c20PtraceGetSyscallInfo, uintptr(tid), unsafe.Sizeof(info), uintptr(unsafe.Pointer(&info)), 0, 0); e != 0 {
		if e == syscall.ESRCH {
			return nil, nil
		}
		return nil, fmt.Errorf("PTRACE_GET_SYSCALL_INFO: %v", e)
	}
	th := tr.thr[tid]
	if th == nil {
		th = &c20Thr{}
		tr.thr[tid] = th
	}
	switch info.Op {
	case 1:
		th.nr = info.U[0]
		copy(th.args[:], info.U[1:7])
		th.rel, th.desc, th.mark = false, "", ""
		if pc, ok := c20PathCalls[th.nr]; ok {
			var shown []string
			for _, pos := range pc.paths {
				p := c20PeekString(tid, uintptr(th.args[pos]))
				if tr.inDir(p) {
					th.rel = true
				}
				shown = append(shown, tr.short(p))
			}
			th.desc = pc.name + "(" + strings.Join(shown, ", ") + ")"
		} else if name, ok := c20FdCalls[th.nr]; ok {
			fd := int(int32(th.args[0]))
			if p, mine := tr.fds[fd]; mine {
				th.rel = true
				th.desc = name + "(" + tr.short(p)
				if name == "write" {
					th.desc += fmt.Sprintf(", %d bytes", th.args[2])
				}
				th.desc += ")"
			} else if name == "write" && fd == 3 {
				th.mark = strings.TrimSuffix(string(c20PeekBytes(tid, uintptr(th.args[1]), int(min(th.args[2], 200)))), "\n")
			}
		}
	case 2:
		rval := int64(info.U[0])
		switch {
		case th.mark != "":
			line := th.mark
			th.mark = ""
			if len(line) > 2 && (line[0] == 'S' || line[0] == 'D') && line[1] == ' ' {
				rest, payload := line[2:], ""
				if sp := strings.IndexByte(rest, ' '); sp >= 0 {
					rest, payload = rest[:sp], rest[sp+1:]
				}
				if i, err := strconv.Atoi(rest); err == nil {
					return &c20Event{Mark: line[:1], Index: i, Err: strings.TrimPrefix(payload, "E")}, nil
				}
			}
		case th.rel:
			th.rel = false
			if pc, ok := c20PathCalls[th.nr]; ok && pc.opens && rval >= 0 {
				tr.fds[int(rval)] = c20PeekString(tid, uintptr(th.args[pc.paths[0]]))
			}
			if th.nr == 3 {
				delete(tr.fds, int(int32(th.args[0])))
			}
			res := strconv.FormatInt(rval, 10)
			if rval < 0 {
				res = syscall.Errno(-rval).Error()
			}
			return &c20Event{Desc: th.desc + "=" + res}, nil
		}
	}
	return nil, nil
}

func (tr *c20Tracer) reap() {
	for {
		var ws syscall.WaitStatus
		wpid, err := syscall.Wait4(-1, &ws, syscall.WALL|syscall.WNOHANG, nil)
		if err == syscall.EINTR {
			continue
		}
		if err != nil || wpid <= 0 {
			return
		}
	}
}

// kill ends the traced process where it stands.
func (tr *c20Tracer) kill() {
	if !tr.exited {
		_ = syscall.Kill(tr.pid, syscall.SIGKILL)
		for !tr.exited {
			if _, err := tr.next(); err != nil {
				break
			}
		}
	}
	tr.reap()
}

// ---- the untraced second process -------------------------------------------------------------------

type c20PlainResult struct {
	lastStart, lastDone int
	doneErr             map[int]string
	finished            bool
	childErr            string
	output              string
	waitErr             error
}

func c20RunPlain(exe, base, dir, casePath string) (*c20PlainResult, error) {
	res := &c20PlainResult{lastStart: -1, lastDone: -1, doneErr: map[int]string{}}
	cmd := exec.Command(exe, "-test.run=^TestVerifHelper_C20_child$", "-test.count=1", "-test.timeout=600s")
	cmd.Dir = base
	cmd.Env = append(os.Environ(), c20EnvCase+"="+casePath, c20EnvDir+"="+dir, c20EnvObs+"=")
	var out bytes.Buffer
	cmd.Stdout, cmd.Stderr = &out, &out
	r, w, err := os.Pipe()
	if err != nil {
		return nil, err
	}
	cmd.ExtraFiles = []*os.File{w}
	if err := cmd.Start(); err != nil {
		r.Close()
		w.Close()
		return nil, err
	}
	w.Close()
	watchdog := time.AfterFunc(240*time.Second, func() { _ = cmd.Process.Kill() })
	c20ParseAnnouncements(r, res)
	r.Close()
	res.waitErr = cmd.Wait()
	watchdog.Stop()
	res.output = out.String()
	return res, nil
}

func c20ParseAnnouncements(r io.Reader, res *c20PlainResult) {
	br := bufio.NewReaderSize(r, 1<<16)
	for {
		line, err := br.ReadString('\n')
		if err != nil {
			return
		}
		line = strings.TrimSuffix(line, "\n")
		switch {
		case line == "X":
			res.finished = true
		case strings.HasPrefix(line, "E "):
			res.childErr = line[2:]
		case strings.HasPrefix(line, "S "):
			res.lastStart, _ = strconv.Atoi(line[2:])
		case strings.HasPrefix(line, "D "):
			rest, payload := line[2:], ""
			if sp := strings.IndexByte(rest, ' '); sp >= 0 {
				rest, payload = rest[:sp], rest[sp+1:]
			}
			i, _ := strconv.Atoi(rest)
			res.lastDone = i
			if strings.HasPrefix(payload, "E") {
				res.doneErr[i] = payload[1:]
			}
		}
	}
}

// ---- generator, oracle -----------------------------------------------------------------------------

func c20GenTwo(rt *rapid.T) c20TwoCase {
	gens := []uint32{0, 7, 7, 8}
	sizes := []int{0, 0, 0, 4, 64, 1024}
	genOp := func(label string) c20Op {
		op := c20Op{Kind: rapid.SampledFrom(c20Kinds).Draw(rt, label+"kind")}
		if op.Kind == "conf" || op.Kind == "decoys" || op.Kind == "subnets" {
			op.KB = rapid.SampledFrom(sizes).Draw(rt, label+"kb")
		}
		if op.Kind == "conf" || op.Kind == "gen" {
			op.Gen = rapid.SampledFrom(gens).Draw(rt, label+"gen")
		}
		return op
	}
	c := c20TwoCase{InitKB: rapid.SampledFrom([]int{0, 0, 64}).Draw(rt, "initKB")}
	for i, n := 0, rapid.IntRange(1, 5).Draw(rt, "n"); i < n; i++ {
		c.Ops = append(c.Ops, genOp(""))
	}
	for i, n := 0, rapid.IntRange(1, 3).Draw(rt, "m"); i < n; i++ {
		c.Other = append(c.Other, genOp("other-"))
	}
	// the call boundaries inside a store (temporary file opened / written / closed / renamed in this
	// implementation) are drawn more often than "before" and "after"; 5 and 6 leave room for
	// implementations that make more calls (fsync, chmod, ...)
	c.FreezeN = rapid.SampledFrom([]int{0, 1, 1, 1, 2, 2, 3, 3, 4, 5, 6}).Draw(rt, "freezeN")
	c.Then = rapid.SampledFrom([]int{-1, -1, -1, 0, 1, 1, 2, 3}).Draw(rt, "then")
	return c
}

func c20ReadConf(path string) (*pb.ClientConf, []byte, error) {
	b, err := os.ReadFile(path)
	if err != nil {
		return nil, nil, err
	}
	m := &pb.ClientConf{}
	if err := proto.Unmarshal(b, m); err != nil {
		return nil, b, err
	}
	return m, b, nil
}

func c20OpsString(ops []c20Op) string {
	s := make([]string, len(ops))
	for i, o := range ops {
		s[i] = o.String()
	}
	return "[" + strings.Join(s, " ") + "]"
}

func c20CheckTwo(t vh.Fataler, rec *vh.Rec, root string, c c20TwoCase) {
	if len(c.Ops) == 0 || len(c.Other) == 0 {
		t.Fatalf("harness problem: a twoproc case needs stores of both processes")
	}
	base := c20Scratch(t, root)
	defer os.RemoveAll(base)
	dir := filepath.Join(base, "assets")
	target := filepath.Join(dir, c20File)
	if err := os.Mkdir(dir, 0o755); err != nil {
		t.Fatalf("harness problem: %v", err)
	}
	initConf := c20Conf(-1, c.InitKB, false)
	ib, err := proto.Marshal(initConf)
	if err != nil {
		t.Fatalf("harness problem: %v", err)
	}
	if err := os.WriteFile(target, ib, 0o644); err != nil {
		t.Fatalf("harness problem: %v", err)
	}
	writeCase := func(name string, cc c20Case) string {
		b, _ := json.Marshal(cc)
		p := filepath.Join(base, name)
		if err := os.WriteFile(p, b, 0o644); err != nil {
			t.Fatalf("harness problem: %v", err)
		}
		return p
	}
	case1 := writeCase("case1.json", c20Case{InitKB: c.InitKB, Ops: c.Ops, KillAt: -1})
	case2 := writeCase("case2.json", c20Case{InitKB: c.InitKB, Ops: c.Other, KillAt: -1, Base: c20OtherBase})
	exe, err := os.Executable()
	if err != nil {
		t.Fatalf("harness problem: %v", err)
	}

	// model of the first process
	K := len(c.Ops) - 1
	bNew := c20Norm(initConf)
	var bPrev *pb.ClientConf
	for i, op := range c.Ops {
		bPrev = bNew
		bNew = c20Norm(c20Model(bNew, i, op))
	}

	// ---- first process, traced
	runtime.LockOSThread()
	defer runtime.UnlockOSThread()
	outF, err := os.Create(filepath.Join(base, "out1.txt"))
	if err != nil {
		t.Fatalf("harness problem: %v", err)
	}
	defer outF.Close()
	devnull, err := os.Open(os.DevNull)
	if err != nil {
		t.Fatalf("harness problem: %v", err)
	}
	defer devnull.Close()
	pr, pw, err := os.Pipe()
	if err != nil {
		t.Fatalf("harness problem: %v", err)
	}
	defer pr.Close()
	env := append(os.Environ(), c20EnvCase+"="+case1, c20EnvDir+"="+dir, c20EnvObs+"=")
	tr, err := c20StartTraced(exe, []string{exe, "-test.run=^TestVerifHelper_C20_child$", "-test.count=1", "-test.timeout=600s"}, env, base, dir,
		[]uintptr{devnull.Fd(), outF.Fd(), outF.Fd(), pw.Fd()})
	pw.Close()
	if err != nil {
		if strings.Contains(err.Error(), "operation not permitted") {
			rec.Class("ptrace-unavailable")
			return
		}
		t.Fatalf("harness problem: cannot start the traced process: %v", err)
	}
	var dog atomic.Bool
	watchdog := time.AfterFunc(200*time.Second, func() { dog.Store(true); _ = syscall.Kill(tr.pid, syscall.SIGKILL) })
	defer watchdog.Stop()
	defer tr.kill()
	trouble := func(what string) {
		tr.kill()
		ob, _ := os.ReadFile(filepath.Join(base, "out1.txt"))
		if len(ob) > 600 {
			ob = ob[len(ob)-600:]
		}
		pipeText, _ := io.ReadAll(pr)
		if len(pipeText) > 300 {
			pipeText = pipeText[len(pipeText)-300:]
		}
		t.Fatalf("harness problem: %s (watchdog fired: %v); announcements: %q; output: %s", what, dog.Load(), pipeText, ob)
	}

	store, calls, doneSeen, doneErr := -1, 0, false, ""
	var trace []string // the calls of the suspended store, in order
	// run advances the first process until stop() says so; false = it ended first
	run := func(stop func(ev *c20Event) bool) bool {
		for {
			ev, err := tr.next()
			if err != nil {
				trouble("tracer: " + err.Error())
			}
			if ev == nil {
				return false
			}
			switch ev.Mark {
			case "S":
				store, calls = ev.Index, 0
			case "D":
				if ev.Index == K {
					doneSeen, doneErr = true, ev.Err
				}
			default:
				if store == K && !doneSeen {
					calls++
					trace = append(trace, ev.Desc)
				}
			}
			if stop(ev) {
				return true
			}
		}
	}
	if !run(func(ev *c20Event) bool {
		return store == K && (doneSeen || (ev.Mark == "S" && c.FreezeN == 0) || (ev.Mark == "" && calls == c.FreezeN))
	}) {
		trouble(fmt.Sprintf("the first process ended before it could be suspended in store %d (exit status %#x)", K, uint32(tr.exitWS)))
	}
	frozenCalls, frozenOpen, frozenAfterDone := calls, len(tr.fds), doneSeen
	where := fmt.Sprintf("suspended in store %d (%v) after its calls %v", K, c.Ops[K], trace)
	classes := []string{}
	switch {
	case frozenAfterDone:
		classes = append(classes, "frozen-after-store")
		where = fmt.Sprintf("suspended right after store %d (%v), calls %v", K, c.Ops[K], trace)
	case frozenCalls == 0:
		classes = append(classes, "frozen-before-first-call")
	default:
		classes = append(classes, "frozen-mid-store", fmt.Sprintf("frozen-after-call:%d", frozenCalls))
	}
	if frozenOpen > 0 && !frozenAfterDone {
		classes = append(classes, "frozen-holding-open-file")
	}
	nontrivial := !frozenAfterDone && frozenCalls > 0

	key, msg := "", ""
	judge := func(stage, text string, allowed ...*pb.ClientConf) *pb.ClientConf {
		if key != "" {
			return nil
		}
		got, raw, rerr := c20ReadConf(target)
		if rerr == nil {
			for _, a := range allowed {
				if proto.Equal(got, a) {
					return got
				}
			}
		}
		form := "missing"
		if raw != nil || rerr == nil {
			form = c20Form(raw, allowed...)
		}
		names := make([]string, len(allowed))
		for i, a := range allowed {
			names[i] = c20Brief(a)
		}
		key = "twoproc:" + stage + form
		msg = fmt.Sprintf("%s: ClientConf (%d bytes, read/parse error: %v) %s is none of the allowed configurations %v", text, len(raw), rerr, c20Brief(got), names)
		return nil
	}

	// (1) the suspension point is a crash point
	var onDisk *pb.ClientConf
	if frozenAfterDone && doneErr == "" {
		onDisk = judge("frozen:", "process 1 "+where, bNew)
	} else {
		onDisk = judge("frozen:", "process 1 "+where, bPrev, bNew)
	}

	// (2) the second process loads the directory and stores, all while the first is suspended
	var aLast *pb.ClientConf
	if key == "" {
		res2, err := c20RunPlain(exe, base, dir, case2)
		if err != nil {
			trouble("second process: " + err.Error())
		}
		if res2.childErr != "" || !res2.finished || res2.waitErr != nil || res2.lastDone != len(c.Other)-1 {
			trouble(fmt.Sprintf("second process did not complete (child error %q, wait %v, last done %d): %s", res2.childErr, res2.waitErr, res2.lastDone, res2.output))
		}
		for j := range c.Other {
			if e, bad := res2.doneErr[j]; bad {
				trouble(fmt.Sprintf("store %d (%v) of the second process failed in a healthy directory: %s", j, c.Other[j], e))
			}
		}
		aLast = c20Norm(onDisk)
		sameGen := false
		for j, op := range c.Other {
			aLast = c20Norm(c20Model(aLast, c20OtherBase+j, op))
			if aLast.GetGeneration() == bNew.GetGeneration() {
				sameGen = true
			}
		}
		if sameGen {
			classes = append(classes, "same-generation")
			if frozenOpen > 0 && !frozenAfterDone {
				classes = append(classes, "frozen-holding-open-file+same-generation")
			}
		} else {
			classes = append(classes, "different-generations")
		}
		if proto.Size(bNew) < proto.Size(aLast) {
			classes = append(classes, "in-flight-shorter-than-other")
		} else {
			classes = append(classes, "in-flight-not-shorter-than-other")
		}
		judge("other-stored:", fmt.Sprintf("process 1 %s; process 2 then loaded the directory and completed the stores %s, all reporting success", where, c20OpsString(c.Other)), aLast)
	}

	// (3) the first process goes on
	then := ""
	if key == "" {
		switch {
		case c.Then == 0:
			then = "killed where it stood"
			classes = append(classes, "then:killed-where-suspended")
			tr.kill()
		case c.Then < 0:
			then = "resumed and ran to its end"
			classes = append(classes, "then:resumed-to-end")
			run(func(*c20Event) bool { return false })
		default:
			more := 0
			ended := !run(func(ev *c20Event) bool {
				if ev.Mark == "" && store == K {
					more++
				}
				return doneSeen || more >= c.Then
			})
			then = fmt.Sprintf("resumed and killed after %d further call(s)", more)
			if ended {
				then = "resumed and ran to its end"
			}
			classes = append(classes, "then:resumed-and-killed-later")
			tr.kill()
		}
		if len(trace) > frozenCalls {
			then += fmt.Sprintf(" (calls after the suspension: %v)", trace[frozenCalls:])
		}
		if doneSeen && doneErr != "" {
			then += "; its store reported: " + doneErr
			classes = append(classes, "suspended-store-failed")
		}
		if !tr.exited {
			trouble("the first process could not be ended")
		}
		if dog.Load() {
			trouble("the first process did not finish within 200 s")
		}
		ann := &c20PlainResult{doneErr: map[int]string{}}
		c20ParseAnnouncements(pr, ann)
		if ann.childErr != "" {
			trouble("first process reported: " + ann.childErr)
		}
		text := fmt.Sprintf("process 1 %s; process 2 then loaded the directory and completed the stores %s, all reporting success (file then: %s); process 1 was then %s",
			where, c20OpsString(c.Other), c20Brief(aLast), then)
		final := judge("", text, aLast, bNew)
		if final != nil {
			if proto.Equal(final, bNew) {
				classes = append(classes, "final:suspended-store's")
			} else {
				classes = append(classes, "final:other-process's")
			}
			// a client that starts now
			fresh, lerr := c20Fresh(dir)
			var loaded *pb.ClientConf
			if fresh != nil {
				loaded = c20Norm(fresh.GetClientConfPtr())
			}
			if judge("reload:", text+"; a fresh client then loaded the directory", aLast, bNew) != nil &&
				(lerr != nil || loaded == nil || !(proto.Equal(loaded, aLast) || proto.Equal(loaded, bNew))) {
				key = "twoproc:reload-memory"
				msg = fmt.Sprintf("%s; a fresh client loading the directory (load error %v) has %s in effect", text, lerr, c20Brief(loaded))
			}
		}
	}
	rec.Case(nontrivial, vh.Digest(c), c, classes...)
	if key != "" {
		tr.kill()
		rec.Violation(t, key, c, "two client processes on one assets directory: %s", msg)
	}
}

// c20PtraceProbe starts /bin/true (or the test binary itself) as a traced child and reports why
// that is not possible, or "" if it is.
func c20PtraceProbe() string {
	runtime.LockOSThread()
	defer runtime.UnlockOSThread()
	exe := "/bin/true"
	if _, err := os.Stat(exe); err != nil {
		exe = "/usr/bin/true"
	}
	pid, err := syscall.ForkExec(exe, []string{"true"}, &syscall.ProcAttr{Sys: &syscall.SysProcAttr{Ptrace: true}, Files: []uintptr{0, 1, 2}})
	if err != nil {
		return "cannot start a traced child: " + err.Error()
	}
	var ws syscall.WaitStatus
	_, werr := syscall.Wait4(pid, &ws, 0, nil)
	_ = syscall.Kill(pid, syscall.SIGKILL)
	if werr == nil && !ws.Exited() && !ws.Signaled() {
		_, _ = syscall.Wait4(pid, &ws, 0, nil)
	}
	if werr != nil {
		return "cannot wait for a traced child: " + werr.Error()
	}
	return ""
}

func TestVerif_C20_twoproc(t *testing.T) {
	rec := vh.NewRec("C20", "twoproc", "rapid draws the stores of two client processes that share one assets directory (1-5 and 1-3 stores of any setter, small to 1 MiB, generations of conf/gen stores from {unique, 7, 8} so that both processes often carry the same generation), a call boundary n in 0..6 and a continuation; the first process (a re-executed child under ptrace) performs its stores and is suspended in the last one at the exit of its n-th system call on the assets directory; while it is suspended a second, fresh process loads the directory and completes its stores; the first is then resumed to its end / killed where it stands / resumed and killed m calls later. The schedule is a function of the case (no timing). At the suspension point the file must be the first process's previous or new configuration, after the second process's stores exactly its last configuration, at the end that or the first process's new configuration, also after a fresh client has loaded the directory. Non-trivial = the first process was suspended inside its store (after at least one call, before reporting done); distinct = distinct case")
	defer rec.Flush()
	if why := c20PtraceProbe(); why != "" {
		// the sub-check cannot run where tracing a child is not permitted (seccomp / yama); that is
		// the sandbox's business, not the property's: recorded as not run, the other sub-checks decide
		rec.Class("not-run:ptrace-unavailable")
		rec.Case(false, vh.Digest("ptrace-unavailable"), map[string]string{"not_run": why})
		return
	}
	rec.Require("frozen-mid-store", "frozen-holding-open-file", "same-generation", "frozen-holding-open-file+same-generation", "then:resumed-to-end", "then:killed-where-suspended", "then:resumed-and-killed-later")
	root := t.TempDir()
	log.SetOutput(io.Discard)
	defer log.SetOutput(os.Stdout)
	if p := vh.ReplayFile(); p != "" {
		var c c20TwoCase
		if _, _, err := vh.LoadReplay(p, &c); err != nil {
			t.Fatal(err)
		}
		c20CheckTwo(t, rec, root, c)
		return
	}
	rapid.Check(t, func(rt *rapid.T) {
		c := c20GenTwo(rt)
		c20CheckTwo(rt, rec, root, c)
	})
}
