package assets

// C20 / faultgrid, faults — each step of a store made to fail:
//
//   marshal   the new ClientConf cannot be serialised (required field missing)      -> proto.Marshal fails
//   vanish    the assets directory is moved away                                     -> creating the temporary file fails
//   fsize     RLIMIT_FSIZE (SIGXFSZ ignored) — stand-in for a full file system       -> partial temporary write, then EFBIG
//   occupied  the ClientConf path is a non-empty directory                           -> the final rename fails
//
// Oracle: the ClientConf file still parses (as the client's own loader parses it: proto.Unmarshal incl.
// the required-field check) and equals the configuration stored before; after a failed SetClientConf
// the in-memory configuration equals the previous one. A store that reports success must leave the
// file equal to the new configuration — except for an unserialisable replacement ("marshal"), for which
// no loadable new file exists: if such a store is accepted the file must still be the previous one,
// anything else is the violation "unserialisable-accepted". After the whole sequence the file must be
// the last stored configuration ("final:*"). Only what cannot be judged stays harness trouble (exit 2):
// the child misbehaving, a fault that could not be injected/lifted, a store failing in a healthy
// directory while file and memory are fine.
//
// "In effect in memory" is judged through every read accessor, not only GetClientConfPtr: after a
// failed SetClientConf the child builds a reference singleton (fresh initAssets through AssetsSetDir)
// from the configuration GetClientConfPtr shows and compares each exported Get* method (enumerated by
// reflection), samples of the random pickers (membership) and IsDecoyInList probes ("rollback:<name>").
//
// Restart: after every failed or faulted store, fault lifted, the directory is loaded by a fresh
// singleton; the file afterwards and the configuration then in effect must be the stored one or the
// complete new one of that failed store ("reload:*", "reload-memory:*") — left-overs are never promoted. (The partial setters are not
// required to roll back; what they leave in memory is taken as the new baseline.) Stray temporary
// files are counted, not judged.

import (
	"fmt"
	"os"
	"path/filepath"
	"sort"
	"strings"
	"testing"

	pb "github.com/refraction-networking/conjure/proto"
	"google.golang.org/protobuf/proto"
	"pgregory.net/rapid"
	"verif/harness/vh"
)

type c20Loaded struct {
	m   *pb.ClientConf
	raw []byte
	err error // parse error
}

// c20LoadBlob reads a snapshot written by the child. raw == nil means the snapshot itself is missing
// (harness trouble); err != nil with raw != nil means the bytes do not parse.
func c20LoadBlob(cache map[string]c20Loaded, obsDir, name string) (*pb.ClientConf, []byte, error) {
	if l, ok := cache[name]; ok {
		return l.m, l.raw, l.err
	}
	b, err := os.ReadFile(filepath.Join(obsDir, name))
	if err != nil {
		return nil, nil, fmt.Errorf("observation blob: %w", err)
	}
	if b == nil {
		b = []byte{}
	}
	l := c20Loaded{m: &pb.ClientConf{}, raw: b}
	if err := c20PartialU.Unmarshal(b, l.m); err != nil {
		l.m, l.err = nil, err
	}
	cache[name] = l
	return l.m, l.raw, l.err
}

// c20ParseDisk turns a disk-state string of the child (absent | dir | f:<blob>) into the parsed file.
// form is "" when the file parses the way the client's loader parses it (proto.Unmarshal including the
// required-field check), else missing | dir | unparseable. harness != "" = the observation is unusable.
func c20ParseDisk(cache map[string]c20Loaded, obsDir, state string) (m *pb.ClientConf, raw []byte, form, errText, harness string) {
	switch {
	case state == "absent":
		return nil, nil, "missing", "", ""
	case state == "dir":
		return nil, nil, "dir", "", ""
	case len(state) > 2 && state[:2] == "f:":
		m, raw, perr := c20LoadBlob(cache, obsDir, state[2:])
		if perr != nil && raw == nil {
			return nil, nil, "", "", perr.Error()
		}
		if perr == nil && m != nil {
			perr = proto.CheckInitialized(m)
		}
		if perr != nil || m == nil {
			return nil, raw, "unparseable", fmt.Sprint(perr), ""
		}
		return m, raw, "", "", ""
	}
	return nil, nil, "", "", "cannot observe the file: " + state
}

func c20CheckFault(t vh.Fataler, rec *vh.Rec, root string, c c20Case) {
	base := c20Scratch(t, root)
	defer os.RemoveAll(base)
	res, err := c20Exec(c, base, true)
	if err != nil {
		t.Fatalf("harness problem: %v", err)
	}
	if msg := res.c20HarnessTrouble(); msg != "" {
		t.Fatalf("harness problem: %s", msg)
	}
	cache := map[string]c20Loaded{}
	classSet := map[string]bool{}
	fired := 0
	maxStrays := 0
	type viol struct{ key, msg string }
	var v *viol
	spurious := "" // a store that failed although no fault was injected

	mem := c20Norm(c20Conf(-1, c.InitKB, false))
	disk := mem
	for i, op := range c.Ops {
		o, ok := res.obs[i]
		if !ok {
			t.Fatalf("harness problem: no observation for store %d", i)
		}
		if o.Harness != "" {
			t.Fatalf("harness problem: store %d (%v): %s", i, op, o.Harness)
		}
		if len(o.Others) > 0 {
			// the harness creates nothing inside the assets directory, so these come from the code under
			// test (e.g. another temporary-file naming scheme); not judged, only recorded
			classSet["other-entries-in-assets-dir"] = true
		}
		if o.Strays > maxStrays {
			maxStrays = o.Strays
		}
		gotMem, _, err := c20LoadBlob(cache, res.obsDir, o.Mem)
		if err != nil || gotMem == nil {
			t.Fatalf("harness problem: in-memory snapshot of store %d: %v", i, err)
		}
		// the file as the child saw it right after the call, before the fault was lifted
		memBefore := mem
		gotDisk, raw, diskForm, diskErr, htrouble := c20ParseDisk(cache, res.obsDir, o.Disk)
		if htrouble != "" {
			t.Fatalf("harness problem: store %d: %s", i, htrouble)
		}

		// the concurrent reader: the file exists at every instant and is never seen half-way
		if o.ReaderPolls > 0 {
			classSet["reader-polled"] = true
			if o.ReaderReads > 0 {
				classSet["reader-read-during-store"] = true
			}
			if o.ReaderMissing > 0 && v == nil {
				v = &viol{"reader:missing", fmt.Sprintf("during store %d (%v, result %q) a concurrent reader found no ClientConf file at all at %d of %d polls (the file existed before the store)",
					i, op, o.Err, o.ReaderMissing, o.ReaderPolls)}
			}
			if o.ReaderOdd > 0 && v == nil {
				v = &viol{"reader:partial", fmt.Sprintf("during store %d (%v, result %q) a concurrent reader read %s (%d complete reads)",
					i, op, o.Err, o.ReaderOddWhat, o.ReaderReads)}
			}
		}
		if op.AgeH > 0 {
			classSet["existing-file-back-dated"] = true
		}
		if op.Exact > 0 {
			if sz := proto.Size(c20ConfFor(i, op)); sz != op.Exact && op.Fault != "marshal" {
				t.Fatalf("harness problem: configuration %d is %d bytes, not the requested %d", i, sz, op.Exact)
			}
			classSet["exact-size-store"] = true
		}

		// judgeReload: the fault is lifted and the directory was loaded the way a restarting client
		// loads it. What that client then has in effect, and the file it leaves, must be the stored
		// configuration — or, after a failed store, that store's complete new configuration — never
		// anything else (a left-over temporary file of any age must not be promoted).
		judgeReload := func(failedNew *pb.ClientConf) {
			if v != nil || !o.Reload {
				return
			}
			classSet["reload-checked"] = true
			faultName := op.Fault
			if faultName == "" {
				faultName = "none"
			}
			rDisk, rRaw, rForm, rErr, ht := c20ParseDisk(cache, res.obsDir, o.ReloadDisk)
			if ht != "" {
				t.Fatalf("harness problem: store %d, after reload: %s", i, ht)
			}
			allowed := func(m *pb.ClientConf) bool {
				return m != nil && (proto.Equal(m, disk) || (failedNew != nil && proto.Equal(m, failedNew)))
			}
			if !allowed(rDisk) {
				if rForm == "" {
					rForm = c20Form(rRaw, disk, failedNew)
				}
				v = &viol{"reload:" + faultName + ":" + rForm, fmt.Sprintf("after store %d (%v, result %q) the fault was lifted and the directory loaded by a fresh client (AssetsSetDir on a new singleton, load error %q): the ClientConf file is then %s (%s) %s; stored configuration %s",
					i, op, o.Err, o.ReloadErr, rForm, rErr, c20Brief(rDisk), c20Brief(disk))}
				return
			}
			var rMem *pb.ClientConf
			if o.ReloadMem != "" {
				rMem, _, _ = c20LoadBlob(cache, res.obsDir, o.ReloadMem)
			}
			if o.ReloadErr != "" || !allowed(rMem) {
				v = &viol{"reload-memory:" + faultName, fmt.Sprintf("after store %d (%v, result %q) a fresh client loading the directory (load error %q) has %s in effect; stored configuration %s",
					i, op, o.Err, o.ReloadErr, c20Brief(rMem), c20Brief(disk))}
				return
			}
			if !proto.Equal(rDisk, disk) {
				classSet["reload-promoted-complete-new"] = true
				disk = rDisk
			}
		}

		if o.Err == "" {
			// ---- the store reported success
			// (a reader violation found above is reported after the file itself has been judged, so that
			// the more specific key wins)
			switch op.Fault {
			case "marshal":
				// The replacement cannot be serialised into a file the client can load again, so there is
				// no parseable "new" file: whatever the call reports, the file must still parse and be
				// the previous configuration.
				classSet["unserialisable-accepted"] = true
				if gotDisk == nil || !proto.Equal(gotDisk, disk) {
					form := diskForm
					if form == "" {
						form = c20Form(raw, disk)
					}
					if v == nil {
						v = &viol{"unserialisable-accepted:" + form, fmt.Sprintf("store %d (%v): a ClientConf that cannot be serialised (required field of dns_reg_conf missing) was accepted — the call reported success and the ClientConf file is now %s (%s) %s; it must fail and leave the previously stored configuration %s",
							i, op, form, diskErr, c20Brief(gotDisk), c20Brief(disk))}
					}
					break
				}
				// reported success but left the file alone: nothing the property forbids; go on from
				// whatever is in memory
				classSet["unserialisable-accepted:file-untouched"] = true
				mem = gotMem
				judgeReload(nil)
				if v != nil {
					break
				}
				continue
			case "vanish":
				// the old file was moved away and is what the child looked at: nothing can be judged
				t.Fatalf("harness problem: fault %q did not make store %d (%v) fail", op.Fault, i, op)
			case "occupied":
				classSet["fault-not-fired:occupied(directory-replaced)"] = true
			case "fsize":
				classSet["fault-not-fired:fsize(limit-above-size)"] = true
			}
			if v != nil {
				break
			}
			classSet["store-ok"] = true
			want := c20Norm(c20Model(mem, i, op))
			if gotDisk == nil || !proto.Equal(gotDisk, want) {
				form := diskForm
				if form == "" {
					form = c20Form(raw, want, disk)
				}
				if v == nil {
					v = &viol{"success:" + form, fmt.Sprintf("store %d (%v) reported success but the ClientConf file (%s %s, %s) is not the stored configuration %s",
						i, op, form, diskErr, c20Brief(gotDisk), c20Brief(want))}
				}
				break
			}
			if !proto.Equal(gotMem, want) {
				t.Fatalf("harness problem: model mismatch: after successful store %d (%v) memory holds %s, model %s", i, op, c20Brief(gotMem), c20Brief(want))
			}
			mem, disk = want, want
			judgeReload(nil)
			if v != nil {
				break
			}
			continue
		}

		// ---- the store failed
		faultName := op.Fault
		if op.Fault == "" {
			// not a fault of ours: the file and the memory are judged like after any failed store (a
			// violation there takes priority); if they are fine this is reported as harness trouble below
			faultName = "none"
			if spurious == "" {
				spurious = fmt.Sprintf("store %d (%v) failed in a healthy directory: %s", i, op, o.Err)
			}
		} else {
			fired++
			classSet["fault-fired:"+op.Fault] = true
			classSet["fault-fired:"+op.Fault+":"+op.Kind] = true
		}
		if op.Fault != "" && (c20MultiMB(mem) || op.KB >= 1024) {
			classSet["fault-fired-multiMB"] = true
		}
		if o.Strays > 0 {
			classSet["stray-tmp-after-failed-store"] = true
		}
		switch {
		case diskForm == "dir" && op.Fault == "occupied":
			// the path still holds the occupying directory: there is no file to judge
			classSet["occupied:no-file-to-judge"] = true
		case gotDisk != nil && proto.Equal(gotDisk, disk):
			classSet["disk-still-previous"] = true
		default:
			form := diskForm
			if form == "" {
				form = c20Form(raw, disk, c20Norm(c20Model(mem, i, op)))
			}
			if v == nil {
				v = &viol{"fault:" + faultName + ":" + form, fmt.Sprintf("store %d (%v) failed with %q and left the ClientConf file %s (%s) %s; the previously stored configuration is %s",
					i, op, o.Err, form, diskErr, c20Brief(gotDisk), c20Brief(disk))}
			}
		}
		if v != nil {
			break
		}
		if op.Kind == "conf" {
			classSet["rollback-checked"] = true
			if !proto.Equal(gotMem, mem) {
				v = &viol{"rollback:SetClientConf", fmt.Sprintf("SetClientConf #%d (%v) failed with %q but the in-memory configuration is now %s instead of the previous %s",
					i, op, o.Err, c20Brief(gotMem), c20Brief(mem))}
				break
			}
			// GetClientConfPtr shows the previous configuration; so must every other read accessor: the
			// child compared each with the same accessor of a fresh singleton loaded from exactly that
			// configuration
			if o.GettersSkipped != "" {
				t.Fatalf("harness problem: store %d: accessors not compared: %s", i, o.GettersSkipped)
			}
			if o.GettersChecked == 0 {
				t.Fatalf("harness problem: store %d: the child compared no accessor", i)
			}
			classSet["rollback-accessors-checked"] = true
			for _, n := range o.GettersNotes {
				classSet["accessors: "+n] = true
			}
			if len(o.GettersDiffer) > 0 {
				name := o.GettersDiffer[0]
				if sp := strings.IndexByte(name, ' '); sp > 0 {
					name = name[:sp]
				}
				v = &viol{"rollback:" + name, fmt.Sprintf("SetClientConf #%d (%v) failed with %q; GetClientConfPtr shows the previous configuration %s, but %d of %d read accessors do not answer like a fresh singleton loaded from it: %s",
					i, op, o.Err, c20Brief(mem), len(o.GettersDiffer), o.GettersChecked, strings.Join(o.GettersDiffer, "; "))}
				break
			}
		} else {
			// not required to roll back: whatever is in memory is the baseline of the next store
			switch {
			case proto.Equal(gotMem, mem):
				classSet["partial-setter:rolled-back"] = true
			case proto.Equal(gotMem, c20Norm(c20Model(mem, i, op))):
				classSet["partial-setter:kept-new-in-memory"] = true
			default:
				classSet["partial-setter:memory-other"] = true
			}
			mem = gotMem
		}
		var failedNew *pb.ClientConf
		if op.Fault != "marshal" {
			failedNew = c20Norm(c20Model(memBefore, i, op))
		}
		judgeReload(failedNew)
		if v != nil {
			break
		}
	}

	if v == nil {
		// All stores returned and all faults are lifted (the child reported every lift as clean, otherwise
		// we stopped above at o.Harness): the file must parse and be the last stored configuration.
		b, err := os.ReadFile(filepath.Join(res.dir, c20File))
		got := &pb.ClientConf{}
		switch {
		case err != nil && os.IsNotExist(err):
			v = &viol{"final:missing", fmt.Sprintf("after the whole sequence the ClientConf file is gone (%v); last stored configuration %s", err, c20Brief(disk))}
		case err != nil:
			t.Fatalf("harness problem: cannot read the ClientConf file after the sequence: %v", err)
		default:
			if perr := proto.Unmarshal(b, got); perr != nil || !proto.Equal(got, disk) {
				form := c20Form(b, disk)
				v = &viol{"final:" + form, fmt.Sprintf("after the whole sequence the ClientConf file is %s (parse error %v) %s instead of the last stored configuration %s", form, perr, c20Brief(got), c20Brief(disk))}
			}
		}
	}
	strays, strayBytes, _ := c20Strays(res.dir)
	rec.ClassN("stray-tmp-files", int64(strays))
	c20StraySeen = c20StraySeen || strays > 0
	rec.ClassN("stray-tmp-bytes", strayBytes)
	rec.ClassN("failed-stores", int64(fired))
	classes := make([]string, 0, len(classSet))
	for k := range classSet {
		classes = append(classes, k)
	}
	sort.Strings(classes)
	if c.XDev && res.xdev {
		classes = append(classes, "xdev-tmpdir")
	} else if c.XDev {
		classes = append(classes, "xdev-unavailable")
	}
	rec.Case(fired > 0 || classSet["exact-size-store"], vh.Digest(c), c, classes...)
	if v != nil {
		rec.Violation(t, v.key, c, "%s; sequence=%v init=%dKiB", v.msg, c.Ops, c.InitKB)
	} else if spurious != "" {
		t.Fatalf("harness problem: %s (file and memory were left at the previous configuration)", spurious)
	}
}

// measured, reported only (the property does not speak about temporary files)
var c20StraySeen bool

func c20StrayNote(rec *vh.Rec) {
	if c20StraySeen {
		rec.Note("not judged: a store that fails after creating its temporary file (.ClientConf.<rand>.tmp) never removes it, so temporary files accumulate one per failed attempt (counts: classes failed-stores / stray-tmp-files / stray-tmp-bytes)")
	}
}

// encoded sizes at which block-wise writers, buffers and length prefixes change behaviour
var c20Boundaries = []int{4096, 32768, 65536, 131072, 1 << 20}

var c20FaultRequired = []string{
	"fault-fired:marshal", "fault-fired:vanish", "fault-fired:fsize", "fault-fired:occupied",
	"rollback-checked", "disk-still-previous", "fault-fired-multiMB", "rollback-accessors-checked", "reload-checked", "reader-polled", "existing-file-back-dated",
}

// Every fault × operation × size combination, once on a small and once on a multi-megabyte stored
// configuration, each followed by healthy stores.
func TestVerif_C20_faultgrid(t *testing.T) {
	rec := vh.NewRec("C20", "faultgrid", "enumeration: every fault {marshal (SetClientConf only), vanish, occupied, fsize with limits 0/1/300/4096/100000/1500000} x every setter x payload {small, 2 MiB} x previously stored configuration {small, 2 MiB} (thorough: 5 more limits, sizes small/1/2/5 MiB); sequence = [faulted store, healthy SetGeneration, the same store healthy]; run in a re-executed child that snapshots file and in-memory configuration after every call, compares every read accessor with a fresh singleton after a failed SetClientConf, and reloads the directory with a fresh singleton after every failed or faulted store. Non-trivial = a fault fired (the setter returned an error); distinct = distinct sequence")
	defer rec.Flush()
	rec.Require(c20FaultRequired...)
	root := t.TempDir()
	if p := vh.ReplayFile(); p != "" {
		var c c20Case
		if _, _, err := vh.LoadReplay(p, &c); err != nil {
			t.Fatal(err)
		}
		c20CheckFault(t, rec, root, c)
		return
	}
	rec.SetExhaustive(true)
	defer c20StrayNote(rec)
	type fl struct {
		fault string
		limit int64
	}
	faults := []fl{{"marshal", 0}, {"vanish", 0}, {"occupied", 0}, {"fsize", 0}, {"fsize", 1}, {"fsize", 300}, {"fsize", 4096}, {"fsize", 100000}, {"fsize", 1500000}}
	sizes := []int{0, 2048}
	if vh.Thorough() {
		faults = append(faults, fl{"fsize", 64}, fl{"fsize", 4095}, fl{"fsize", 65536}, fl{"fsize", 1 << 20}, fl{"fsize", 3000000})
		sizes = []int{0, 1024, 2048, 5120}
	}
	idx := 0
	for _, f := range faults {
		for _, kind := range c20Kinds {
			if f.fault == "marshal" && kind != "conf" {
				continue
			}
			for _, kb := range sizes {
				if kb > 0 && (kind == "pubkey" || kind == "gen") {
					continue
				}
				for _, initKB := range sizes {
					idx++
					if !vh.Mine(idx + idx/4) { // rotate so that the 2 MiB combinations spread over the shards
						continue
					}
					healthy := c20Op{Kind: kind, KB: kb}
					ageH := []int{0, 2, 0, 48}[(idx/2)%4]
					c := c20Case{InitKB: initKB, KillAt: -1, Ops: []c20Op{
						{Kind: kind, KB: kb, Fault: f.fault, Limit: f.limit, AgeH: ageH},
						{Kind: "gen"},
						healthy,
					}}
					c20CheckFault(t, rec, root, c)
				}
			}
		}
	}
}

func c20GenFault(rt *rapid.T) c20Case {
	c := c20Case{KillAt: -1}
	bigSizes := []int{1024, 2048, 3072}
	if rapid.IntRange(0, 3).Draw(rt, "bigInitP") == 0 {
		c.InitKB = rapid.SampledFrom(bigSizes).Draw(rt, "initKB")
	}
	c.XDev = rapid.Bool().Draw(rt, "xdev")
	bigLeft := rapid.IntRange(0, 2).Draw(rt, "bigOps")
	n := rapid.IntRange(1, 14).Draw(rt, "n")
	for i := 0; i < n; i++ {
		op := c20Op{Kind: rapid.SampledFrom(c20Kinds).Draw(rt, "kind")}
		if bigLeft > 0 && (op.Kind == "conf" || op.Kind == "decoys" || op.Kind == "subnets") && rapid.IntRange(0, 2).Draw(rt, "bigHere") == 0 {
			op.KB = rapid.SampledFrom(bigSizes).Draw(rt, "kb")
			bigLeft--
		}
		if op.Kind == "conf" && op.KB == 0 && rapid.IntRange(0, 5).Draw(rt, "exactP") == 0 {
			op.Exact = rapid.SampledFrom(c20Boundaries).Draw(rt, "boundary") + rapid.IntRange(-1, 1).Draw(rt, "delta")
		}
		if rapid.IntRange(0, 3).Draw(rt, "oldP") == 0 {
			op.AgeH = rapid.SampledFrom([]int{2, 48}).Draw(rt, "ageH")
		}
		if rapid.Bool().Draw(rt, "faulty") {
			fs := []string{"vanish", "occupied", "fsize", "fsize"}
			if op.Kind == "conf" {
				fs = append(fs, "marshal")
			}
			op.Fault = rapid.SampledFrom(fs).Draw(rt, "fault")
			if op.Fault == "fsize" {
				op.Limit = rapid.SampledFrom([]int64{0, 1, 17, 150, 512, 4096, 65536, 1 << 20, 2500000}).Draw(rt, "limit")
			}
		}
		c.Ops = append(c.Ops, op)
	}
	return c
}

// Random sequences mixing healthy and faulted stores: failed partial setters followed by successful
// ones, repeated failures, failures on top of multi-megabyte configurations.
func TestVerif_C20_faults(t *testing.T) {
	rec := vh.NewRec("C20", "faults", "rapid draws sequences of 1-14 stores, each healthy or with one fault (marshal / vanish / occupied / fsize with a drawn limit), payloads small or 1-3 MiB; executed in a re-executed child that snapshots file and in-memory configuration after every call; the parent follows a model (previous file content; in-memory configuration) and compares with proto.Equal after every call; after a failed SetClientConf every read accessor (all exported Get* methods by reflection, the random pickers by membership, IsDecoyInList by probes) must answer like a fresh singleton loaded from the previous configuration; after every failed or faulted store the directory is loaded by a fresh singleton and file and loaded configuration must be the stored (or that store's complete new) configuration; half of the cases with TMPDIR on another file system. Non-trivial = at least one fault fired; distinct = distinct sequence")
	defer rec.Flush()
	rec.Require(c20FaultRequired...)
	root := t.TempDir()
	if p := vh.ReplayFile(); p != "" {
		var c c20Case
		if _, _, err := vh.LoadReplay(p, &c); err != nil {
			t.Fatal(err)
		}
		c20CheckFault(t, rec, root, c)
		return
	}
	defer c20StrayNote(rec)
	rapid.Check(t, func(rt *rapid.T) {
		c := c20GenFault(rt)
		c20CheckFault(rt, rec, root, c)
	})
}

// Healthy stores of configurations whose encoded size sits exactly on, one below and one above the
// usual buffer / block sizes: the published file must be the complete new configuration.
func TestVerif_C20_sizes(t *testing.T) {
	rec := vh.NewRec("C20", "sizes", "enumeration: SetClientConf of a configuration padded to an exact encoded size B-1, B, B+1 for B in {4096, 8192, 16384, 32768, 65536, 131072, 262144, 524288, 1 MiB (thorough: 2, 3, 4, 8 MiB and 3*64 KiB, 5*64 KiB)}, followed by SetGeneration (same size) and a second exact-size SetClientConf, on a fresh or a back-dated existing file; healthy directory, concurrent reader, restart check; after each store the file must parse and be proto.Equal to the stored configuration. Non-trivial = every case (all stores hit their exact size, asserted); distinct = distinct sequence")
	defer rec.Flush()
	rec.Require("exact-size-store", "store-ok", "reader-polled")
	root := t.TempDir()
	if p := vh.ReplayFile(); p != "" {
		var c c20Case
		if _, _, err := vh.LoadReplay(p, &c); err != nil {
			t.Fatal(err)
		}
		c20CheckFault(t, rec, root, c)
		return
	}
	rec.SetExhaustive(true)
	bounds := []int{4096, 8192, 16384, 32768, 65536, 131072, 262144, 524288, 1 << 20}
	if vh.Thorough() {
		bounds = append(bounds, 3*65536, 5*65536, 2<<20, 3<<20, 4<<20, 8<<20)
	}
	idx := 0
	for _, b := range bounds {
		for _, delta := range []int{-1, 0, 1} {
			idx++
			if !vh.Mine(idx) {
				continue
			}
			c := c20Case{KillAt: -1, Ops: []c20Op{
				{Kind: "conf", Exact: b + delta, AgeH: []int{0, 2, 48}[idx%3]},
				{Kind: "gen"},
				{Kind: "conf", Exact: b + delta},
			}}
			c20CheckFault(t, rec, root, c)
		}
	}
}
