package assets

// C20 — the client's stored ClientConf is replaced atomically.
//
// Shared machinery of the C20 sub-checks (kill, faultgrid, faults, sizes, concurrent, twoproc):
//
//   * a case is a list of store operations whose *content* is a deterministic function of the
//     operation's index (c20Arg), optionally a fault per operation, optionally a kill point;
//   * the test binary re-executes itself (TestVerifHelper_C20_child, switched on by an environment
//     variable) as a child that loads a pre-seeded ClientConf from a fresh directory through
//     AssetsSetDir and performs the operations with the real setters, announcing "S i" / "D i" on a
//     pipe (fd 3); in observation mode it also snapshots the ClientConf file and the in-memory
//     configuration after every operation;
//   * the parent holds the oracle: a model of the configuration written from the setters'
//     documentation (c20Model), compared with proto.Equal.
//
// The parent never calls the assets singleton itself, so no state leaks between cases.

import (
	"bufio"
	"bytes"
	"crypto/sha256"
	"encoding/hex"
	"encoding/json"
	"fmt"
	"io"
	"os"
	"os/exec"
	"os/signal"
	"path/filepath"
	"reflect"
	"sort"
	"strconv"
	"strings"
	"sync"
	"sync/atomic"
	"syscall"
	"testing"
	"time"

	"github.com/refraction-networking/conjure/pkg/station/log"
	pb "github.com/refraction-networking/conjure/proto"
	"google.golang.org/protobuf/proto"
	"verif/harness/vh"
)

const (
	c20EnvCase = "VERIF_C20_CHILD_CASE"
	c20EnvDir  = "VERIF_C20_CHILD_DIR"
	c20EnvObs  = "VERIF_C20_CHILD_OBS"
	c20File    = "ClientConf"
)

var c20Kinds = []string{"conf", "decoys", "pubkey", "gen", "subnets"}

// c20Op is one store. Its content is c20Arg(index, op).
type c20Op struct {
	Kind  string `json:"kind"`            // conf | decoys | pubkey | gen | subnets
	KB    int    `json:"kb,omitempty"`    // approximate payload size in KiB (conf/decoys/subnets); 0 = small
	Fault string `json:"fault,omitempty"` // "" | vanish | occupied | fsize | marshal
	Limit int64  `json:"limit,omitempty"` // fault=fsize: RLIMIT_FSIZE (soft) in bytes during the store
	Exact int    `json:"exact,omitempty"` // conf only: the encoded ClientConf is exactly this many bytes (buffer-size boundaries)
	AgeH  int    `json:"age_h,omitempty"` // the existing ClientConf file is back-dated by this many hours before the store
	Gen   uint32 `json:"gen,omitempty"`   // conf/gen only: the generation carried (0 = the default, unique to the index), so that stores of different processes can carry the same generation
}

func (o c20Op) String() string {
	s := o.Kind
	if o.KB > 0 {
		s += fmt.Sprintf("[%dKiB]", o.KB)
	}
	if o.Exact > 0 {
		s += fmt.Sprintf("[=%dB]", o.Exact)
	}
	if o.AgeH > 0 {
		s += fmt.Sprintf("@old%dh", o.AgeH)
	}
	if o.Gen > 0 {
		s += fmt.Sprintf("#g%d", o.Gen)
	}
	if o.Fault != "" {
		s += "!" + o.Fault
		if o.Fault == "fsize" {
			s += fmt.Sprintf("(%d)", o.Limit)
		}
	}
	return s
}

type c20Case struct {
	InitKB int     `json:"init_kb"` // size of the configuration on disk before the first store
	Ops    []c20Op `json:"ops"`
	KillAt int     `json:"kill_at"` // -1 = never; else SIGKILL after the child announced "start KillAt" ...
	KillUs int     `json:"kill_us"` // ... plus this many microseconds
	// XDev: run the child with TMPDIR on another file system than the assets directory (when one is
	// available), so that a store that stages its temporary file in os.TempDir() cannot rename it
	XDev bool `json:"xdev,omitempty"`
	// Base is added to the position of a store to give the index its content is a function of (sub-check
	// "twoproc": two processes must not store the same content)
	Base int `json:"base,omitempty"`
	// Conc (sub-check "concurrent"): instead of Ops, these actors store concurrently, one goroutine each
	Conc []c20ConcActor `json:"conc,omitempty"`
}

// c20ConcActor stores whole configuration #index (c20Conf(index, KB)) with SetClientConf.
type c20ConcActor struct {
	KB      int  `json:"kb,omitempty"`       // size of its configuration
	DelayUs int  `json:"delay_us,omitempty"` // it starts this long after the common start signal
	RmTemp  bool `json:"rm_temp,omitempty"`  // fault: its (large) temporary file is deleted while being written, so its rename fails
}

// c20ConcObs is what the child reports once all actors have returned.
type c20ConcObs struct {
	Errs    []string `json:"errs"`     // per actor, "" = the store reported success
	StartNs []int64  `json:"start_ns"` // per actor: call and return, relative to the start signal
	EndNs   []int64  `json:"end_ns"`
	Removed int      `json:"removed"` // temporary files deleted by the fault
	Disk    string   `json:"disk"`
	Mem     string   `json:"mem"`
	Harness string   `json:"harness,omitempty"`
}

// ---- content: a deterministic function of the index ---------------------------------------------

func c20Pad(tag string, n int) string {
	if n <= 0 {
		return ""
	}
	unit := tag + "-"
	return strings.Repeat(unit, n/len(unit)+1)[:n]
}

func c20Decoys(idx, kb int) []*pb.TLSDecoySpec {
	n := (idx + 7) % 5 // 0..4 small decoys (an empty list is a legal store)
	hostLen := 0
	if kb > 0 {
		hostLen = 200 + (idx+7)%54 // 200..253 byte host names
		n = kb * 1024 / (hostLen + 30)
	}
	out := make([]*pb.TLSDecoySpec, 0, n)
	for k := 0; k < n; k++ {
		host := fmt.Sprintf("d%d.i%d.example.test", k, idx)
		if hostLen > 0 {
			host = c20Pad(fmt.Sprintf("i%dk%d", idx, k), hostLen)
		}
		// Time-out and window are always at or above the floor GetDecoy enforces, so that sampling
		// GetDecoy never writes into the configuration.
		d := &pb.TLSDecoySpec{
			Hostname: proto.String(host),
			Timeout:  proto.Uint32(uint32(20000 + (idx+1)%1000 + k%7)),
			Tcpwin:   proto.Uint32(uint32(14400 + k%1000)),
		}
		if k%5 != 3 { // every fifth decoy is IPv6-only
			d.Ipv4Addr = proto.Uint32(0xC6336400 ^ uint32(idx+1)<<8 ^ uint32(k)) // 198.51.100.0 varied
		}
		if k%2 == 0 || k%5 == 3 {
			d.Ipv6Addr = []byte{0x20, 0x01, 0x0d, 0xb8, byte((idx + 1) >> 8), byte(idx + 1), 0, 0, 0, 0, 0, 0, byte(k >> 16), byte(k >> 8), byte(k), 1}
		}
		out = append(out, d)
	}
	return out
}

func c20Key(idx int) *pb.PubKey {
	h := sha256.Sum256([]byte(fmt.Sprintf("c20-key-%d", idx)))
	kt := pb.KeyType_AES_GCM_128
	if idx%2 == 1 {
		kt = pb.KeyType_AES_GCM_256
	}
	return &pb.PubKey{Key: h[:], Type: &kt}
}

func c20Subnets(idx, kb int) *pb.PhantomSubnetsList {
	groups := 1 + (idx+7)%3
	per := 2
	if kb > 0 {
		per = kb * 1024 / groups / 22
	}
	out := &pb.PhantomSubnetsList{}
	for g := 0; g < groups; g++ {
		ps := &pb.PhantomSubnets{Weight: proto.Uint32(uint32(idx + 2 + g))}
		if g%2 == 1 {
			ps.RandomizeDstPort = proto.Bool(true)
		}
		ps.Subnets = make([]string, 0, per)
		for k := 0; k < per; k++ {
			if k%2 == 0 {
				ps.Subnets = append(ps.Subnets, fmt.Sprintf("10.%d.%d.%d/32", (idx+1)&0xff, (k>>8)&0xff, k&0xff))
			} else {
				ps.Subnets = append(ps.Subnets, fmt.Sprintf("2001:db8:%x:%x::/64", (idx+1)&0xffff, k&0xffff))
			}
		}
		out.WeightedSubnets = append(out.WeightedSubnets, ps)
	}
	return out
}

// c20Conf builds whole configuration #idx. bad = a DnsRegConf without its required fields, which
// proto.Marshal refuses (the "marshal" step of a store fails).
func c20Conf(idx, kb int, bad bool) *pb.ClientConf {
	method := pb.DnsRegMethod_DOH
	c := &pb.ClientConf{
		Generation:    proto.Uint32(uint32(7000 + idx)),
		DefaultPubkey: c20Key(idx),
		ConjurePubkey: c20Key(idx + 100000),
		DnsRegConf: &pb.DnsRegConf{
			DnsRegMethod: &method,
			Target:       proto.String(fmt.Sprintf("https://doh.i%d.example.test/dns-query", idx)),
			Domain:       proto.String(fmt.Sprintf("r.i%d.example.test", idx)),
			Pubkey:       c20Key(idx + 200000).Key,
		},
	}
	if (idx+7)%5 != 4 || kb > 0 {
		c.DecoyList = &pb.DecoyList{TlsDecoys: c20Decoys(idx, kb)}
		c.PhantomSubnetsList = c20Subnets(idx, 0)
	} // else: no decoy list / subnets at all, so a later SetDecoys goes through the nil branch
	if bad {
		c.DnsRegConf = &pb.DnsRegConf{Target: proto.String("missing-required-fields")}
	}
	return c
}

// c20ConfExact builds whole configuration #idx whose wire encoding is exactly target bytes long: bulk
// decoys with 240-byte host names, then one filler decoy whose host name is adjusted (and, where a
// length prefix grows at that very point, the DNS target string as a second knob).
func c20ConfExact(idx, target int) *pb.ClientConf {
	c := c20Conf(idx, 0, false)
	if c.DecoyList == nil {
		c.DecoyList = &pb.DecoyList{}
	}
	mk := func(k int, host string) *pb.TLSDecoySpec {
		return &pb.TLSDecoySpec{Hostname: proto.String(host), Ipv4Addr: proto.Uint32(0xCB007100 ^ uint32(idx+1)<<8 ^ uint32(k)&0xff),
			Timeout: proto.Uint32(uint32(21000 + k%100)), Tcpwin: proto.Uint32(15000)}
	}
	per := proto.Size(mk(0, c20Pad("x", 240))) + 3
	if n := (target - proto.Size(c) - 1024) / per; n > 0 {
		for k := 0; k < n; k++ {
			c.DecoyList.TlsDecoys = append(c.DecoyList.TlsDecoys, mk(k, c20Pad(fmt.Sprintf("e%dk%d", idx, k), 240)))
		}
	}
	filler := mk(1<<20, "")
	c.DecoyList.TlsDecoys = append(c.DecoyList.TlsDecoys, filler)
	baseTarget := c.DnsRegConf.GetTarget()
	pad, pad2, lastD := 0, 0, 0
	for iter := 0; iter < 200; iter++ {
		filler.Hostname = proto.String(c20Pad(fmt.Sprintf("f%d", idx), pad))
		c.DnsRegConf.Target = proto.String(baseTarget + c20Pad("t", pad2))
		d := target - proto.Size(c)
		if d == 0 {
			return c
		}
		if pad+d < 0 {
			break
		}
		if d == -lastD && (d == 1 || d == -1) {
			pad2++ // a length prefix grows exactly here: shift everything by one byte with the other knob
			if d < 0 {
				pad--
			}
			lastD = 0
			continue
		}
		pad += d
		lastD = d
	}
	panic(fmt.Sprintf("c20: cannot build a configuration of exactly %d bytes", target))
}

// c20ConfFor is the whole configuration that store #idx (a "conf" op) carries.
func c20ConfFor(idx int, op c20Op) *pb.ClientConf {
	if op.Exact > 0 && op.Fault != "marshal" {
		return c20ConfExact(idx, op.Exact)
	}
	c := c20Conf(idx, op.KB, op.Fault == "marshal")
	if op.Gen > 0 {
		c.Generation = proto.Uint32(op.Gen)
	}
	return c
}

// c20GenFor is the generation that store #idx (a "gen" op) sets.
func c20GenFor(idx int, op c20Op) uint32 {
	if op.Gen > 0 {
		return op.Gen
	}
	return uint32(1000 + idx)
}

// c20Arg is the argument of store #idx.
func c20Arg(idx int, op c20Op) any {
	switch op.Kind {
	case "conf":
		return c20ConfFor(idx, op)
	case "decoys":
		return c20Decoys(idx, op.KB)
	case "pubkey":
		return c20Key(idx)
	case "gen":
		return c20GenFor(idx, op)
	case "subnets":
		return c20Subnets(idx, op.KB)
	}
	panic("c20: unknown op kind " + op.Kind)
}

// c20Model is the reference: what the configuration is once store #idx has been applied to cur.
// Written from the setters' documentation (replace everything / the decoys / the default public key
// / the generation / the phantom subnets), not from their code.
func c20Model(cur *pb.ClientConf, idx int, op c20Op) *pb.ClientConf {
	if op.Kind == "conf" {
		return c20ConfFor(idx, op)
	}
	n := proto.Clone(cur).(*pb.ClientConf)
	switch op.Kind {
	case "decoys":
		if n.DecoyList == nil {
			n.DecoyList = &pb.DecoyList{}
		}
		n.DecoyList.TlsDecoys = c20Decoys(idx, op.KB)
	case "pubkey":
		n.DefaultPubkey = c20Key(idx)
	case "gen":
		n.Generation = proto.Uint32(c20GenFor(idx, op))
	case "subnets":
		n.PhantomSubnetsList = c20Subnets(idx, op.KB)
	default:
		panic("c20: unknown op kind " + op.Kind)
	}
	return n
}

var c20Partial = proto.MarshalOptions{AllowPartial: true}
var c20PartialU = proto.UnmarshalOptions{AllowPartial: true}

// c20Norm passes a message through the wire format so that nil/empty distinctions that cannot be
// stored do not matter to proto.Equal.
func c20Norm(m *pb.ClientConf) *pb.ClientConf {
	b, err := c20Partial.Marshal(m)
	if err != nil {
		panic("c20: cannot marshal model: " + err.Error())
	}
	out := &pb.ClientConf{}
	if err := c20PartialU.Unmarshal(b, out); err != nil {
		panic("c20: cannot unmarshal model: " + err.Error())
	}
	return out
}

// c20Brief describes a configuration in a few words (messages).
func c20Brief(m *pb.ClientConf) string {
	if m == nil {
		return "<nil>"
	}
	first := ""
	if d := m.GetDecoyList().GetTlsDecoys(); len(d) > 0 {
		first = d[0].GetHostname()
		if len(first) > 24 {
			first = first[:24] + "…"
		}
	}
	return fmt.Sprintf("{gen=%d decoys=%d first=%q key=%x subnets=%d domain=%q size=%d}", m.GetGeneration(),
		len(m.GetDecoyList().GetTlsDecoys()), first, m.GetDefaultPubkey().GetKey()[:min(4, len(m.GetDefaultPubkey().GetKey()))],
		len(m.GetPhantomSubnetsList().GetWeightedSubnets()), m.GetDnsRegConf().GetDomain(), proto.Size(m))
}

// c20Form classifies a ClientConf file that is neither of the allowed configurations.
func c20Form(file []byte, allowed ...*pb.ClientConf) string {
	for _, a := range allowed {
		if a == nil {
			continue
		}
		if full, err := c20Partial.Marshal(a); err == nil && len(file) < len(full) && bytes.Equal(file, full[:len(file)]) {
			if len(file) == 0 {
				return "empty-file"
			}
			return "truncated"
		}
	}
	got := &pb.ClientConf{}
	if err := proto.Unmarshal(file, got); err != nil {
		return "unparseable"
	}
	return "neither-previous-nor-new"
}

// ---- child ---------------------------------------------------------------------------------------

// c20Obs is what the child reports after one operation in observation mode.
type c20Obs struct {
	Err        string   `json:"err,omitempty"`   // error returned by the setter
	Disk       string   `json:"disk,omitempty"`  // absent | dir | f:<blob> | err:<text>
	Mem        string   `json:"mem,omitempty"`   // <blob>: in-memory configuration (AllowPartial wire form)
	Strays     int      `json:"strays"`          // temporary files lying in the assets directory
	StrayBytes int64    `json:"stray_bytes"`     //
	Others     []string `json:"others,omitempty"` // unexpected other directory entries
	Harness    string   `json:"harness,omitempty"`

	// after a failed SetClientConf: every read accessor of the live singleton compared with the same
	// accessor of a fresh singleton loaded from the configuration GetClientConfPtr shows
	GettersChecked int      `json:"getters_checked,omitempty"`
	GettersDiffer  []string `json:"getters_differ,omitempty"`
	GettersNotes   []string `json:"getters_notes,omitempty"`
	GettersSkipped string   `json:"getters_skipped,omitempty"`

	// a concurrent reader polling the ClientConf path during the store (not while the directory is
	// moved away / occupied): the file must exist at every instant and every complete read must be
	// the file as it was before or as it is after the store
	ReaderPolls   int    `json:"reader_polls,omitempty"`
	ReaderReads   int    `json:"reader_reads,omitempty"`
	ReaderMissing int    `json:"reader_missing,omitempty"`
	ReaderOdd     int    `json:"reader_odd,omitempty"`
	ReaderOddWhat string `json:"reader_odd_what,omitempty"`

	// after a failed or faulted store, fault lifted: the directory loaded the way a restarting client
	// loads it (fresh singleton + AssetsSetDir)
	Reload     bool   `json:"reload,omitempty"`
	ReloadErr  string `json:"reload_err,omitempty"`
	ReloadMem  string `json:"reload_mem,omitempty"`  // <blob>: what the fresh singleton has in effect
	ReloadDisk string `json:"reload_disk,omitempty"` // the file after that load (as Disk)
}

// TestVerifHelper_C20_child is not a check: it is the body of the re-executed child process.
func TestVerifHelper_C20_child(t *testing.T) {
	if os.Getenv(c20EnvCase) == "" {
		return
	}
	c20ChildMain()
}

func c20ChildMain() {
	pipe := os.NewFile(3, "c20pipe")
	say := func(s string) { _, _ = pipe.Write([]byte(s + "\n")) }
	die := func(format string, a ...any) {
		say("E " + strings.ReplaceAll(fmt.Sprintf(format, a...), "\n", " "))
		os.Exit(3)
	}
	log.SetOutput(io.Discard)
	signal.Ignore(syscall.SIGXFSZ)

	var c c20Case
	b, err := os.ReadFile(os.Getenv(c20EnvCase))
	if err != nil {
		die("read case: %v", err)
	}
	if err := json.Unmarshal(b, &c); err != nil {
		die("parse case: %v", err)
	}
	dir := os.Getenv(c20EnvDir)
	obsDir := os.Getenv(c20EnvObs)

	a, err := AssetsSetDir(dir)
	if err != nil || a == nil {
		die("AssetsSetDir(%s): %v", dir, err)
	}
	if len(c.Conc) > 0 {
		c20ChildConcurrent(a, c, dir, obsDir, say)
		say("X")
		os.Exit(0)
	}
	args := make([]any, len(c.Ops))
	for i, op := range c.Ops {
		args[i] = c20Arg(c.Base+i, op)
	}
	var unlimited syscall.Rlimit
	if err := syscall.Getrlimit(syscall.RLIMIT_FSIZE, &unlimited); err != nil {
		die("getrlimit: %v", err)
	}
	gone := dir + ".gone"
	aside := dir + ".aside"
	target := filepath.Join(dir, c20File)
	say("R")
	for i, op := range c.Ops {
		var o c20Obs
		if op.AgeH > 0 {
			old := time.Now().Add(-time.Duration(op.AgeH) * time.Hour)
			_ = os.Chtimes(target, old, old)
		}
		var rd *c20Reader
		if obsDir != "" && op.Fault != "vanish" && op.Fault != "occupied" {
			rd = c20StartReader(target)
		}
		// ---- inject
		switch op.Fault {
		case "vanish":
			if err := os.Rename(dir, gone); err != nil {
				o.Harness = "vanish: " + err.Error()
			}
		case "occupied":
			if err := os.Rename(target, aside); err != nil {
				o.Harness = "occupied/aside: " + err.Error()
			} else if err := os.Mkdir(target, 0o755); err != nil {
				o.Harness = "occupied/mkdir: " + err.Error()
			} else if err := os.WriteFile(filepath.Join(target, "occupant"), []byte("occupant"), 0o644); err != nil {
				o.Harness = "occupied/occupant: " + err.Error()
			}
		case "fsize":
			lim := syscall.Rlimit{Cur: uint64(op.Limit), Max: unlimited.Max}
			if err := syscall.Setrlimit(syscall.RLIMIT_FSIZE, &lim); err != nil {
				o.Harness = "setrlimit: " + err.Error()
			}
		}
		// ---- the store
		say("S " + strconv.Itoa(i))
		var serr error
		switch op.Kind {
		case "conf":
			serr = a.SetClientConf(args[i].(*pb.ClientConf))
		case "decoys":
			serr = a.SetDecoys(args[i].([]*pb.TLSDecoySpec))
		case "pubkey":
			serr = a.SetPubkey(args[i].(*pb.PubKey))
		case "gen":
			serr = a.SetGeneration(args[i].(uint32))
		case "subnets":
			serr = a.SetPhantomSubnets(args[i].(*pb.PhantomSubnetsList))
		}
		if obsDir == "" && op.Fault == "" {
			// kill mode: nothing between the end of the store and its announcement
			if serr != nil {
				say("D " + strconv.Itoa(i) + " E" + strings.ReplaceAll(serr.Error(), "\n", " "))
			} else {
				say("D " + strconv.Itoa(i))
			}
			continue
		}
		if op.Fault == "fsize" {
			if err := syscall.Setrlimit(syscall.RLIMIT_FSIZE, &unlimited); err != nil {
				die("cannot restore RLIMIT_FSIZE: %v", err)
			}
		}
		if serr != nil {
			o.Err = serr.Error()
		}
		if rd != nil {
			rd.finish(&o, target)
		}
		// ---- observe (before the fault is reverted)
		if obsDir != "" {
			where := dir
			if op.Fault == "vanish" {
				where = gone
			}
			c20Observe(&o, a, where, obsDir)
			if op.Kind == "conf" && serr != nil {
				c20ObserveGetters(&o, a, filepath.Join(obsDir, "ref"+strconv.Itoa(i)), args[i].(*pb.ClientConf).GetDecoyList().GetTlsDecoys())
			}
		}
		// ---- revert
		switch op.Fault {
		case "vanish":
			if err := os.Rename(gone, dir); err != nil {
				o.Harness += " un-vanish: " + err.Error()
			}
		case "occupied":
			if fi, err := os.Lstat(target); err == nil && fi.IsDir() {
				if err := os.RemoveAll(target); err != nil {
					o.Harness += " un-occupy: " + err.Error()
				} else if err := os.Rename(aside, target); err != nil {
					o.Harness += " un-aside: " + err.Error()
				}
			} // else: the store replaced the directory; leave what it wrote
		}
		if obsDir != "" && (serr != nil || op.Fault != "") && strings.TrimSpace(o.Harness) == "" {
			// restart: what does a client that starts now find and leave behind?
			o.Reload = true
			fresh, lerr := c20Fresh(dir)
			if lerr != nil {
				o.ReloadErr = lerr.Error()
			}
			if fresh != nil {
				if mb, err := c20Partial.Marshal(fresh.GetClientConfPtr()); err == nil {
					o.ReloadMem = c20Blob(obsDir, mb)
				} else {
					o.Harness += " snapshot after reload: " + err.Error()
				}
			}
			o.ReloadDisk = c20DiskState(filepath.Join(dir, c20File), obsDir)
		}
		jb, _ := json.Marshal(o)
		say("D " + strconv.Itoa(i) + " " + string(jb))
	}
	say("X")
	os.Exit(0)
}

func c20Blob(obsDir string, b []byte) string {
	h := sha256.Sum256(b)
	name := hex.EncodeToString(h[:12])
	p := filepath.Join(obsDir, name)
	if _, err := os.Lstat(p); err != nil {
		if err := os.WriteFile(p, b, 0o644); err != nil {
			return "!" + err.Error()
		}
	}
	return name
}

// c20DiskState describes the entry at p: absent | dir | f:<blob> | err:<text>.
func c20DiskState(p, obsDir string) string {
	fi, err := os.Lstat(p)
	switch {
	case err != nil && os.IsNotExist(err):
		return "absent"
	case err != nil:
		return "err:" + err.Error()
	case fi.IsDir():
		return "dir"
	}
	b, err := os.ReadFile(p)
	if err != nil {
		return "err:" + err.Error()
	}
	return "f:" + c20Blob(obsDir, b)
}

func c20Observe(o *c20Obs, a *assets, where, obsDir string) {
	o.Disk = c20DiskState(filepath.Join(where, c20File), obsDir)
	mb, err := c20Partial.Marshal(a.GetClientConfPtr())
	if err != nil {
		o.Harness += " snapshot of in-memory configuration: " + err.Error()
	} else {
		o.Mem = c20Blob(obsDir, mb)
	}
	o.Strays, o.StrayBytes, o.Others = c20Strays(where)
}

// c20Strays counts leftover temporary files (anything but the ClientConf entry) in dir.
func c20Strays(dir string) (n int, bytes int64, others []string) {
	ents, err := os.ReadDir(dir)
	if err != nil {
		return 0, 0, []string{"readdir: " + err.Error()}
	}
	for _, e := range ents {
		switch {
		case e.Name() == c20File:
		case strings.HasPrefix(e.Name(), "."+c20File+".") && strings.HasSuffix(e.Name(), ".tmp"):
			n++
			if fi, err := e.Info(); err == nil {
				bytes += fi.Size()
			}
		default:
			others = append(others, e.Name())
		}
	}
	sort.Strings(others)
	return
}

// ---- parent --------------------------------------------------------------------------------------

type c20Result struct {
	ready      bool
	lastStart  int // -1 = none
	lastDone   int
	doneErr    map[int]string // kill mode: error text of a store that failed
	obs        map[int]c20Obs
	finished   bool
	killIssued bool
	childErr   string // "E ..." line
	waitErr    error
	output     string
	watchdog   bool
	dir        string
	obsDir     string
	xdev       bool // the child ran with TMPDIR on another file system than dir
	conc       *c20ConcObs
}

// c20Exec seeds a fresh directory under base, runs the child on c and returns what it announced.
func c20Exec(c c20Case, base string, observe bool) (*c20Result, error) {
	res := &c20Result{lastStart: -1, lastDone: -1, doneErr: map[int]string{}, obs: map[int]c20Obs{}}
	res.dir = filepath.Join(base, "assets")
	if err := os.Mkdir(res.dir, 0o755); err != nil {
		return nil, err
	}
	if observe {
		res.obsDir = filepath.Join(base, "obs")
		if err := os.Mkdir(res.obsDir, 0o755); err != nil {
			return nil, err
		}
	}
	ib, err := proto.Marshal(c20Conf(-1, c.InitKB, false))
	if err != nil {
		return nil, err
	}
	if err := os.WriteFile(filepath.Join(res.dir, c20File), ib, 0o644); err != nil {
		return nil, err
	}
	cb, _ := json.Marshal(c)
	casePath := filepath.Join(base, "case.json")
	if err := os.WriteFile(casePath, cb, 0o644); err != nil {
		return nil, err
	}
	exe, err := os.Executable()
	if err != nil {
		return nil, err
	}
	cmd := exec.Command(exe, "-test.run=^TestVerifHelper_C20_child$", "-test.count=1", "-test.timeout=600s")
	cmd.Dir = base
	cmd.Env = append(os.Environ(), c20EnvCase+"="+casePath, c20EnvDir+"="+res.dir, c20EnvObs+"="+res.obsDir)
	if c.XDev {
		if other := c20OtherFS(res.dir); other != "" {
			if tmp, err := os.MkdirTemp(other, "verif-c20-tmp"); err == nil {
				defer os.RemoveAll(tmp)
				cmd.Env = append(cmd.Env, "TMPDIR="+tmp)
				res.xdev = true
			}
		}
	}
	var out bytes.Buffer
	cmd.Stdout, cmd.Stderr = &out, &out
	r, w, err := os.Pipe()
	if err != nil {
		return nil, err
	}
	cmd.ExtraFiles = []*os.File{w}
	if err := cmd.Start(); err != nil {
		r.Close()
		w.Close()
		return nil, err
	}
	w.Close()
	var dog atomic.Bool
	watchdog := time.AfterFunc(240*time.Second, func() { dog.Store(true); _ = cmd.Process.Kill() })
	br := bufio.NewReaderSize(r, 1<<16)
	for {
		line, err := br.ReadString('\n')
		if err != nil {
			break
		}
		line = strings.TrimSuffix(line, "\n")
		switch {
		case line == "R":
			res.ready = true
		case line == "X":
			res.finished = true
		case strings.HasPrefix(line, "E "):
			res.childErr = line[2:]
		case strings.HasPrefix(line, "C "):
			res.conc = &c20ConcObs{}
			if err := json.Unmarshal([]byte(line[2:]), res.conc); err != nil {
				res.childErr = "bad concurrent-observation line: " + err.Error()
			}
		case strings.HasPrefix(line, "S "):
			i, _ := strconv.Atoi(line[2:])
			res.lastStart = i
			if i == c.KillAt && !res.killIssued {
				if c.KillUs > 0 {
					time.Sleep(time.Duration(c.KillUs) * time.Microsecond)
				}
				_ = cmd.Process.Kill()
				res.killIssued = true
			}
		case strings.HasPrefix(line, "D "):
			rest := line[2:]
			payload := ""
			if sp := strings.IndexByte(rest, ' '); sp >= 0 {
				rest, payload = rest[:sp], rest[sp+1:]
			}
			i, _ := strconv.Atoi(rest)
			res.lastDone = i
			switch {
			case strings.HasPrefix(payload, "E"):
				res.doneErr[i] = payload[1:]
			case strings.HasPrefix(payload, "{"):
				var o c20Obs
				if err := json.Unmarshal([]byte(payload), &o); err != nil {
					res.childErr = "bad observation line: " + err.Error()
				}
				res.obs[i] = o
			}
		}
	}
	r.Close()
	res.waitErr = cmd.Wait()
	watchdog.Stop()
	res.watchdog = dog.Load()
	res.output = out.String()
	return res, nil
}

// c20HarnessTrouble returns a non-empty text when the child did not behave like a child.
func (r *c20Result) c20HarnessTrouble() string {
	tail := r.output
	if len(tail) > 600 {
		tail = tail[len(tail)-600:]
	}
	switch {
	case r.watchdog:
		return "child did not finish within 240 s; output: " + tail
	case r.childErr != "":
		return "child reported: " + r.childErr
	case !r.ready:
		return fmt.Sprintf("child never got ready (wait: %v); output: %s", r.waitErr, tail)
	case !r.killIssued && (!r.finished || r.waitErr != nil):
		return fmt.Sprintf("child ended early without being killed (wait: %v, last start %d, last done %d); output: %s", r.waitErr, r.lastStart, r.lastDone, tail)
	}
	return ""
}

// c20Scratch makes the per-case scratch directory below root.
func c20Scratch(t vh.Fataler, root string) string {
	base, err := os.MkdirTemp(root, "case")
	if err != nil {
		t.Fatalf("harness problem: %v", err)
	}
	return base
}

func c20MultiMB(ms ...*pb.ClientConf) bool {
	for _, m := range ms {
		if m != nil && proto.Size(m) >= 1<<20 {
			return true
		}
	}
	return false
}

// ---- other file system, fresh singleton, accessor comparison ---------------------------------------

// c20OtherFS returns a writable directory on another file system than dir ("" if there is none).
func c20OtherFS(dir string) string {
	var here syscall.Stat_t
	if syscall.Stat(dir, &here) != nil {
		return ""
	}
	cwd, _ := os.Getwd()
	for _, cand := range []string{os.Getenv("VERIF_C20_XDEV_DIR"), "/dev/shm", "/run/shm", "/run", "/var/tmp", "/tmp", cwd} {
		if cand == "" {
			continue
		}
		var st syscall.Stat_t
		if syscall.Stat(cand, &st) != nil || st.Mode&syscall.S_IFMT != syscall.S_IFDIR || st.Dev == here.Dev {
			continue
		}
		probe, err := os.MkdirTemp(cand, "verif-c20-probe")
		if err != nil {
			continue
		}
		os.Remove(probe)
		return cand
	}
	return ""
}

// c20Fresh loads dir into a brand-new singleton exactly as a starting client does (initAssets through
// AssetsSetDir) and puts the process's own singleton back afterwards.
func c20Fresh(dir string) (*assets, error) {
	saved := assetsInstance
	assetsInstance = nil
	assetsOnce = sync.Once{}
	a, err := AssetsSetDir(dir)
	assetsInstance = saved
	if saved == nil {
		assetsOnce = sync.Once{}
	}
	return a, err
}

var (
	// picked at random by the library: judged by membership, not by value
	c20RandomGetters = map[string]bool{"GetDecoy": true, "GetV6Decoy": true, "GetDecoyAddress": true}
	// differs between the live and the reference singleton by construction
	c20SkipGetters = map[string]bool{"GetAssetsDir": true}
	c20ListedGetters = map[string]bool{"GetAllDecoys": true, "GetV4Decoys": true, "GetV6Decoys": true, "GetPubkey": true,
		"GetConjurePubkey": true, "GetGeneration": true, "GetPhantomSubnets": true, "GetDNSRegConf": true, "GetClientConfPtr": true}
	c20Canonical = proto.MarshalOptions{AllowPartial: true, Deterministic: true}
)

// c20Canon renders any accessor result as a comparable string.
func c20Canon(v reflect.Value) string {
	if !v.IsValid() {
		return "invalid"
	}
	switch v.Kind() {
	case reflect.Ptr, reflect.Interface, reflect.Map:
		if v.IsNil() {
			return "nil"
		}
	}
	if v.CanInterface() {
		if m, ok := v.Interface().(proto.Message); ok {
			b, err := c20Canonical.Marshal(m)
			if err != nil {
				return "unmarshalable:" + err.Error()
			}
			h := sha256.Sum256(b)
			return fmt.Sprintf("pb(%d):%x", len(b), h[:10])
		}
	}
	switch v.Kind() {
	case reflect.Ptr, reflect.Interface:
		return c20Canon(v.Elem())
	case reflect.Slice, reflect.Array:
		if v.Type().Elem().Kind() == reflect.Uint8 {
			b := make([]byte, v.Len())
			for i := range b {
				b[i] = byte(v.Index(i).Uint())
			}
			return "bytes:" + hex.EncodeToString(b)
		}
		h := sha256.New()
		for i := 0; i < v.Len(); i++ {
			h.Write([]byte(c20Canon(v.Index(i))))
			h.Write([]byte{0})
		}
		return fmt.Sprintf("list(%d):%x", v.Len(), h.Sum(nil)[:10])
	}
	return fmt.Sprintf("%v", v.Interface())
}

func c20CanonMsg(m proto.Message) string { return c20Canon(reflect.ValueOf(m)) }

func c20DecoyAddr(d *pb.TLSDecoySpec) string {
	ip := d.GetIpv4Addr()
	return fmt.Sprintf("%s|%d.%d.%d.%d:443", d.GetHostname(), byte(ip>>24), byte(ip>>16), byte(ip>>8), byte(ip))
}

// c20CompareGetters calls every read accessor of live and of ref and returns the names of those whose
// results differ. Accessors are enumerated by reflection (every exported Get* method); the ones that
// pick at random are sampled and judged by membership in what ref offers; IsDecoyInList is probed.
func c20CompareGetters(live, ref *assets, probes []*pb.TLSDecoySpec) (differ []string, checked int, notes []string) {
	lv, rv := reflect.ValueOf(live), reflect.ValueOf(ref)
	for m := 0; m < lv.NumMethod(); m++ {
		name := lv.Type().Method(m).Name
		if !strings.HasPrefix(name, "Get") || c20SkipGetters[name] || c20RandomGetters[name] {
			continue
		}
		mt := lv.Method(m).Type()
		if mt.NumIn() != 0 || mt.NumOut() != 1 {
			notes = append(notes, "not judged (signature): "+name)
			continue
		}
		calls := 1
		if !c20ListedGetters[name] {
			calls = 6 // an accessor this harness does not know: judged only if it is deterministic
			notes = append(notes, "accessor unknown to the harness, judged generically: "+name)
		}
		stable := true
		var l0, r0 string
		for k := 0; k < calls; k++ {
			l := c20Canon(lv.Method(m).Call(nil)[0])
			r := c20Canon(rv.Method(m).Call(nil)[0])
			if k == 0 {
				l0, r0 = l, r
			} else if l != l0 || r != r0 {
				stable = false
			}
		}
		if !stable {
			notes = append(notes, "not judged (not deterministic): "+name)
			continue
		}
		checked++
		if l0 != r0 {
			differ = append(differ, fmt.Sprintf("%s (live %s, reference %s)", name, l0, r0))
		}
	}
	// the random pickers
	empty := c20CanonMsg(&pb.TLSDecoySpec{})
	all, v6, addrs := map[string]bool{}, map[string]bool{}, map[string]bool{}
	for _, d := range ref.GetAllDecoys() {
		all[c20CanonMsg(d)] = true
		addrs[c20DecoyAddr(d)] = true
	}
	for _, d := range ref.GetV6Decoys() {
		v6[c20CanonMsg(d)] = true
	}
	if len(all) == 0 {
		all[empty] = true
		addrs["|"] = true
	}
	if len(v6) == 0 {
		v6[empty] = true
	}
	bad := map[string]string{}
	for k := 0; k < 12; k++ {
		if d := live.GetDecoy(); !all[c20CanonMsg(d)] {
			bad["GetDecoy"] = fmt.Sprintf("returned %q, which the reference does not hold", d.GetHostname())
		}
		if d := live.GetV6Decoy(); !v6[c20CanonMsg(d)] {
			bad["GetV6Decoy"] = fmt.Sprintf("returned %q, which is not among the reference's IPv6 decoys", d.GetHostname())
		}
		sni, addr := live.GetDecoyAddress()
		if !addrs[sni+"|"+addr] {
			bad["GetDecoyAddress"] = fmt.Sprintf("returned (%q, %q), which the reference does not hold", sni, addr)
		}
	}
	checked += 3
	// membership probes: decoys the reference holds, and decoys of the rejected replacement
	ps := append([]*pb.TLSDecoySpec{}, probes[:min(4, len(probes))]...)
	ra := ref.GetAllDecoys()
	ps = append(ps, ra[:min(4, len(ra))]...)
	for _, d := range ps {
		if l, r := live.IsDecoyInList(d), ref.IsDecoyInList(d); l != r {
			bad["IsDecoyInList"] = fmt.Sprintf("(%q) = %v, reference %v", d.GetHostname(), l, r)
		}
	}
	checked++
	names := make([]string, 0, len(bad))
	for n := range bad {
		names = append(names, n)
	}
	sort.Strings(names)
	for _, n := range names {
		differ = append(differ, n+" "+bad[n])
	}
	return
}

// c20ObserveGetters builds the reference singleton from the configuration GetClientConfPtr shows and
// records which accessors of the live singleton disagree with it.
func c20ObserveGetters(o *c20Obs, live *assets, refDir string, probes []*pb.TLSDecoySpec) {
	mb, err := proto.Marshal(live.GetClientConfPtr())
	if err != nil {
		o.GettersSkipped = "the in-memory configuration cannot be serialised: " + err.Error()
		return
	}
	if err := os.MkdirAll(refDir, 0o755); err != nil {
		o.Harness += " reference dir: " + err.Error()
		return
	}
	defer os.RemoveAll(refDir)
	if err := os.WriteFile(filepath.Join(refDir, c20File), mb, 0o644); err != nil {
		o.Harness += " reference file: " + err.Error()
		return
	}
	ref, err := c20Fresh(refDir)
	if err != nil || ref == nil {
		o.Harness += fmt.Sprintf(" reference singleton: %v", err)
		return
	}
	o.GettersDiffer, o.GettersChecked, o.GettersNotes = c20CompareGetters(live, ref, probes)
}

// ---- concurrent reader ---------------------------------------------------------------------------

// c20Reader polls the ClientConf path while a store runs, the way another thread or process of the
// client (or a restarting client) may look at it at any instant.
type c20Reader struct {
	stop    chan struct{}
	done    chan struct{}
	before  string // hash of the file before the store ("" = not hashed: larger than the read limit)
	polls   int
	reads   int
	missing int
	seen    map[string]int // hash -> length, of complete reads
}

const c20ReadLimit = 1 << 20 // files up to this size are read completely on every poll

func c20Hash(b []byte) string {
	h := sha256.Sum256(b)
	return hex.EncodeToString(h[:12])
}

func c20StartReader(target string) *c20Reader {
	r := &c20Reader{stop: make(chan struct{}), done: make(chan struct{}), seen: map[string]int{}}
	if b, err := os.ReadFile(target); err == nil && len(b) <= c20ReadLimit {
		r.before = c20Hash(b)
	} else if err != nil {
		return nil // nothing there to watch (already judged elsewhere)
	}
	go func() {
		defer close(r.done)
		for {
			select {
			case <-r.stop:
				return
			default:
			}
			r.polls++
			fi, err := os.Lstat(target)
			if err != nil {
				if os.IsNotExist(err) {
					r.missing++
				}
				continue
			}
			if fi.Mode().IsRegular() && fi.Size() <= c20ReadLimit && len(r.seen) < 16 {
				if b, err := os.ReadFile(target); err == nil {
					r.reads++
					r.seen[c20Hash(b)] = len(b)
				} else if os.IsNotExist(err) {
					r.missing++
				}
			}
		}
	}()
	return r
}

func (r *c20Reader) finish(o *c20Obs, target string) {
	close(r.stop)
	<-r.done
	o.ReaderPolls, o.ReaderReads, o.ReaderMissing = r.polls, r.reads, r.missing
	after := ""
	if b, err := os.ReadFile(target); err == nil {
		after = c20Hash(b)
	}
	for h, n := range r.seen {
		if h == after || (r.before != "" && h == r.before) {
			continue
		}
		o.ReaderOdd++
		o.ReaderOddWhat = fmt.Sprintf("a %d-byte file that is neither the file before nor the file after the store", n)
	}
}

// ---- concurrent stores -----------------------------------------------------------------------------

func c20ChildConcurrent(a *assets, c c20Case, dir, obsDir string, say func(string)) {
	n := len(c.Conc)
	confs := make([]*pb.ClientConf, n)
	for j, ac := range c.Conc {
		confs[j] = c20Conf(j, ac.KB, false)
	}
	o := c20ConcObs{Errs: make([]string, n), StartNs: make([]int64, n), EndNs: make([]int64, n)}
	say("R")
	var wg sync.WaitGroup
	stopRm := make(chan struct{})
	rmDone := make(chan struct{})
	wantRm := false
	for _, ac := range c.Conc {
		wantRm = wantRm || ac.RmTemp
	}
	go func() {
		defer close(rmDone)
		if !wantRm {
			return
		}
		for {
			select {
			case <-stopRm:
				return
			default:
			}
			ents, _ := os.ReadDir(dir)
			for _, e := range ents {
				if e.Name() == c20File {
					continue
				}
				if fi, err := e.Info(); err == nil && fi.Size() >= 512<<10 {
					if os.Remove(filepath.Join(dir, e.Name())) == nil {
						o.Removed++
					}
				}
			}
			time.Sleep(50 * time.Microsecond)
		}
	}()
	t0 := time.Now()
	for j := range c.Conc {
		wg.Add(1)
		go func(j int) {
			defer wg.Done()
			if d := time.Duration(c.Conc[j].DelayUs) * time.Microsecond; d > 0 {
				time.Sleep(d - time.Since(t0))
			}
			o.StartNs[j] = int64(time.Since(t0))
			if err := a.SetClientConf(confs[j]); err != nil {
				o.Errs[j] = err.Error()
			}
			o.EndNs[j] = int64(time.Since(t0))
		}(j)
	}
	wg.Wait()
	close(stopRm)
	<-rmDone
	o.Disk = c20DiskState(filepath.Join(dir, c20File), obsDir)
	if mb, err := c20Partial.Marshal(a.GetClientConfPtr()); err == nil {
		o.Mem = c20Blob(obsDir, mb)
	} else {
		o.Harness = "snapshot of in-memory configuration: " + err.Error()
	}
	jb, _ := json.Marshal(o)
	say("C " + string(jb))
}
