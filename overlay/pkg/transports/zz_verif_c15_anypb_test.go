package transports

// C15 — URL-less transport-parameter packing: Any{TypeUrl:"", Value: marshal(m)} -> UnmarshalAnypbTo
// gives proto.Equal(m) for every params message type (also after the Any itself went over the wire
// inside a ClientToStation, and into a destination that already holds other values); the URL of a
// different message type is rejected.
//
// Sub-checks: anypb (rapid), dec_anypb (arbitrary value bytes / URLs; backs FuzzVerif_C15_anypb).

import (
	"fmt"
	"strings"
	"testing"

	pb "github.com/refraction-networking/conjure/proto"
	"google.golang.org/protobuf/proto"
	"google.golang.org/protobuf/types/known/anypb"
	"pgregory.net/rapid"
	"verif/harness/c15h"
	"verif/harness/vh"
)

type c15Addr struct {
	Set     bool   `json:"set"`
	IPSet   bool   `json:"ip_set,omitempty"`
	IP      vh.Hex `json:"ip,omitempty"`
	PortSet bool   `json:"port_set,omitempty"`
	Port    uint32 `json:"port,omitempty"`
}

type c15AnyCase struct {
	Type string `json:"type"` // generic | prefix | dtls
	// optional fields (proto2: presence matters)
	RandSet      bool    `json:"rand_set,omitempty"`
	Rand         bool    `json:"rand,omitempty"`
	PrefixIDSet  bool    `json:"prefix_id_set,omitempty"`
	PrefixID     int32   `json:"prefix_id,omitempty"`
	PrefixSet    bool    `json:"prefix_set,omitempty"`
	Prefix       vh.Hex  `json:"prefix,omitempty"`
	FlushSet     bool    `json:"flush_set,omitempty"`
	Flush        int32   `json:"flush,omitempty"`
	Src4         c15Addr `json:"src4"`
	Src6         c15Addr `json:"src6"`
	UnorderedSet bool    `json:"unordered_set,omitempty"`
	Unordered    bool    `json:"unordered,omitempty"`
	Unknown      vh.Hex  `json:"unknown,omitempty"` // a well-formed unknown field appended to the value (field 1000, bytes)

	URL   string `json:"url"`    // "" (URL-less) | "own" (the type's own URL) | "legacy" (tapdance.) | "other" (URL of another params type) | literal
	Wire  bool   `json:"wire"`   // send the Any through marshal/unmarshal of a ClientToStation first
	Dirty bool   `json:"dirty"`  // destination message already holds other values
	DstTy string `json:"dst_ty"` // type used for the wrong-URL probe ("other")
}

func (a c15Addr) build() *pb.Addr {
	if !a.Set {
		return nil
	}
	x := &pb.Addr{}
	if a.IPSet {
		x.IP = append([]byte{}, a.IP...)
	}
	if a.PortSet {
		x.Port = proto.Uint32(a.Port)
	}
	return x
}

func c15NewParams(ty string) proto.Message {
	switch ty {
	case "generic":
		return &pb.GenericTransportParams{}
	case "prefix":
		return &pb.PrefixTransportParams{}
	case "dtls":
		return &pb.DTLSTransportParams{}
	}
	return nil
}

func (c c15AnyCase) build() proto.Message {
	switch c.Type {
	case "generic":
		m := &pb.GenericTransportParams{}
		if c.RandSet {
			m.RandomizeDstPort = proto.Bool(c.Rand)
		}
		return m
	case "prefix":
		m := &pb.PrefixTransportParams{}
		if c.RandSet {
			m.RandomizeDstPort = proto.Bool(c.Rand)
		}
		if c.PrefixIDSet {
			m.PrefixId = proto.Int32(c.PrefixID)
		}
		if c.PrefixSet {
			m.Prefix = append([]byte{}, c.Prefix...)
		}
		if c.FlushSet {
			m.CustomFlushPolicy = proto.Int32(c.Flush)
		}
		return m
	case "dtls":
		m := &pb.DTLSTransportParams{SrcAddr4: c.Src4.build(), SrcAddr6: c.Src6.build()}
		if c.RandSet {
			m.RandomizeDstPort = proto.Bool(c.Rand)
		}
		if c.UnorderedSet {
			m.Unordered = proto.Bool(c.Unordered)
		}
		return m
	}
	return nil
}

func c15DirtyDst(ty string) proto.Message {
	switch ty {
	case "generic":
		return &pb.GenericTransportParams{RandomizeDstPort: proto.Bool(true)}
	case "prefix":
		return &pb.PrefixTransportParams{RandomizeDstPort: proto.Bool(true), PrefixId: proto.Int32(-7), Prefix: []byte("stale"), CustomFlushPolicy: proto.Int32(3)}
	case "dtls":
		return &pb.DTLSTransportParams{RandomizeDstPort: proto.Bool(true), Unordered: proto.Bool(true),
			SrcAddr4: &pb.Addr{IP: []byte{9, 9, 9, 9}, Port: proto.Uint32(9)}, SrcAddr6: &pb.Addr{Port: proto.Uint32(6)}}
	}
	return nil
}

func c15OwnURL(ty string) string {
	a, err := anypb.New(c15NewParams(ty))
	if err != nil {
		panic(err)
	}
	return a.TypeUrl
}

func c15AnyCheck(t vh.Fataler, rec *vh.Rec, c c15AnyCase) {
	t.Helper()
	m := c.build()
	if m == nil {
		t.Fatalf("harness problem: bad type %q", c.Type)
	}
	val, err := proto.Marshal(m)
	if err != nil {
		t.Fatalf("harness problem: marshal: %v", err)
	}
	if len(c.Unknown) > 0 {
		// field 1000, wire type 2 (bytes): 0xc2 0x3e, length, data — kept as an unknown field
		val = append(val, 0xc2, 0x3e, byte(len(c.Unknown)))
		val = append(val, c.Unknown...)
		if err := proto.Unmarshal(val, m); err != nil { // the reference value now carries the unknown field too
			t.Fatalf("harness problem: unknown field: %v", err)
		}
	}
	own := c15OwnURL(c.Type)
	url, expectReject, mustAccept := "", false, false
	dstType := c.Type
	switch c.URL {
	case "":
		mustAccept = true
	case "own":
		url, mustAccept = own, true
	case "legacy":
		url = strings.ReplaceAll(own, "proto.", "tapdance.")
	case "other":
		// the value was packed as c.Type and says so; the receiver expects c.DstTy
		url, expectReject, dstType = own, true, c.DstTy
		if c.DstTy == c.Type || c15NewParams(c.DstTy) == nil {
			t.Fatalf("harness problem: 'other' needs a different destination type")
		}
	default:
		// a literal URL is "wrong" only if it names another message in anypb's own terms (the part
		// behind the last slash), so that a decoder comparing names instead of whole URLs is not
		// reported; the legacy tapdance. spelling of the right name is not "wrong" either
		url = c.URL
		name := func(u string) string { return u[strings.LastIndex(u, "/")+1:] }
		expectReject = strings.ReplaceAll(name(url), "tapdance.", "proto.") != name(own)
	}
	src := &anypb.Any{TypeUrl: url, Value: val}
	if c.Wire {
		c2s := &pb.ClientToStation{TransportParams: src}
		b, err := proto.Marshal(c2s)
		if err != nil {
			t.Fatalf("harness problem: marshal c2s: %v", err)
		}
		back := &pb.ClientToStation{}
		if err := proto.Unmarshal(b, back); err != nil {
			t.Fatalf("harness problem: unmarshal c2s: %v", err)
		}
		src = back.GetTransportParams()
		if src == nil {
			src = &anypb.Any{} // an Any with neither URL nor value is dropped on the wire only if nil; keep going
		}
	}
	dst := c15NewParams(dstType)
	if c.Dirty {
		dst = c15DirtyDst(dstType)
	}
	set := proto.Size(m) > 0
	classes := []string{"type:" + c.Type, "url:" + c15URLClass(c.URL)}
	if c.Wire {
		classes = append(classes, "wire")
	}
	if c.Dirty {
		classes = append(classes, "dirty-dst")
	}
	if set {
		classes = append(classes, "fields-set")
	}
	var uerr error
	if pan, what := c15h.Catch(func() { uerr = UnmarshalAnypbTo(src, dst) }); pan {
		rec.Case(set, vh.Digest(c), c, append(classes, "PANIC")...)
		rec.Violation(t, "anypb:panic", c, "UnmarshalAnypbTo panicked: %s", what)
		return
	}
	switch {
	case expectReject:
		if uerr == nil {
			rec.Case(set, vh.Digest(c), c, append(classes, "WRONG-URL-ACCEPTED")...)
			rec.Violation(t, "anypb:wrong-url-accepted", c, "UnmarshalAnypbTo accepted an Any whose non-empty TypeUrl %q is not the URL of the destination type %s", url, dstType)
			return
		}
		classes = append(classes, "wrong-url:rejected")
	case uerr != nil:
		if mustAccept {
			rec.Case(set, vh.Digest(c), c, append(classes, "DECODE-ERROR")...)
			rec.Violation(t, "anypb:decode-error", c, "UnmarshalAnypbTo rejected the packing of a %s (TypeUrl %q): %v", c.Type, url, uerr)
			return
		}
		classes = append(classes, "rejected")
	default:
		if !proto.Equal(m, dst) {
			rec.Case(set, vh.Digest(c), c, append(classes, "MISMATCH")...)
			key := "anypb:mismatch"
			if c.Dirty {
				key = "anypb:stale-destination"
			}
			rec.Violation(t, key, c, "UnmarshalAnypbTo(Any{TypeUrl:%q, Value: marshal(m)}) != m for %s: want %v, got %v", url, c.Type, m, dst)
			return
		}
		classes = append(classes, "roundtrip", "roundtrip:"+c.Type+":"+c15URLClass(c.URL))
	}
	rec.Case(set, vh.Digest(c), c, classes...)
}

func c15URLClass(u string) string {
	switch u {
	case "":
		return "none"
	case "own", "legacy", "other":
		return u
	}
	return "literal"
}

func c15AddrGen(rt *rapid.T, tag string) c15Addr {
	a := c15Addr{Set: rapid.Bool().Draw(rt, tag+"set")}
	if !a.Set {
		return a
	}
	a.IPSet = rapid.Bool().Draw(rt, tag+"ipset")
	if a.IPSet {
		n := rapid.SampledFrom([]int{0, 4, 16, 3}).Draw(rt, tag+"iplen")
		a.IP = rapid.SliceOfN(rapid.Byte(), n, n).Draw(rt, tag+"ip")
	}
	a.PortSet = rapid.Bool().Draw(rt, tag+"portset")
	if a.PortSet {
		a.Port = rapid.SampledFrom([]uint32{0, 1, 443, 65535, 65536, 1<<32 - 1}).Draw(rt, tag+"port")
	}
	return a
}

var c15Int32s = []int32{0, 1, -1, 2, 127, 128, -2147483648, 2147483647}

func c15AnyGen(rt *rapid.T) c15AnyCase {
	types := []string{"generic", "prefix", "dtls"}
	c := c15AnyCase{Type: rapid.SampledFrom(types).Draw(rt, "type")}
	c.RandSet = rapid.Bool().Draw(rt, "randset")
	c.Rand = c.RandSet && rapid.Bool().Draw(rt, "rand")
	switch c.Type {
	case "prefix":
		if c.PrefixIDSet = rapid.Bool().Draw(rt, "idset"); c.PrefixIDSet {
			c.PrefixID = rapid.SampledFrom(c15Int32s).Draw(rt, "id")
		}
		if c.PrefixSet = rapid.Bool().Draw(rt, "prefixset"); c.PrefixSet {
			c.Prefix = rapid.SliceOfN(rapid.Byte(), 0, 40).Draw(rt, "prefix")
		}
		if c.FlushSet = rapid.Bool().Draw(rt, "flushset"); c.FlushSet {
			c.Flush = rapid.SampledFrom(c15Int32s).Draw(rt, "flush")
		}
	case "dtls":
		c.Src4 = c15AddrGen(rt, "src4")
		c.Src6 = c15AddrGen(rt, "src6")
		c.UnorderedSet = rapid.Bool().Draw(rt, "unorderedset")
		c.Unordered = c.UnorderedSet && rapid.Bool().Draw(rt, "unordered")
	}
	if rapid.IntRange(0, 5).Draw(rt, "unknown") == 0 {
		c.Unknown = rapid.SliceOfN(rapid.Byte(), 1, 20).Draw(rt, "unknownbytes")
	}
	c.URL = rapid.SampledFrom([]string{"", "", "", "own", "legacy", "other", "literal"}).Draw(rt, "url")
	switch c.URL {
	case "other":
		var others []string
		for _, ty := range types {
			if ty != c.Type {
				others = append(others, ty)
			}
		}
		c.DstTy = rapid.SampledFrom(others).Draw(rt, "dst")
	case "literal":
		own := c15OwnURL(c.Type)
		c.URL = rapid.SampledFrom([]string{
			"x", "type.googleapis.com/", "type.googleapis.com/proto.ClientToStation", own + "x", strings.ToUpper(own),
			"type.googleapis.com/tapdance.ClientToStation", strings.Replace(own, "proto.", "proto.proto.", 1), " ", own + " ",
		}).Draw(rt, "literal")
	}
	c.Wire = rapid.Bool().Draw(rt, "wire")
	c.Dirty = rapid.Bool().Draw(rt, "dirty")
	return c
}

func TestVerif_C15_anypb(t *testing.T) {
	var req []string
	for _, ty := range []string{"generic", "prefix", "dtls"} {
		req = append(req, "roundtrip:"+ty+":none", "roundtrip:"+ty+":own")
	}
	rec := vh.NewRec("C15", "anypb", "rapid: every transport-params message type (Generic, Prefix, DTLS) with every optional field independently absent / present at boundary values (empty-but-present bytes, int32 extremes, Addr sub-messages with 0/3/4/16-byte IPs), optionally an unknown field; packed as Any with TypeUrl empty (the URL-less form), its own URL, the legacy tapdance. URL, the URL of another params type, or a near-miss literal; optionally sent through a marshalled ClientToStation first; destination fresh or pre-filled with other values. Oracle: URL-less and own-URL packings must unmarshal to a message proto.Equal to the original; a non-empty URL that is not the destination type's must be rejected; the legacy URL may be accepted but then must be equal. Non-trivial = at least one field set; distinct by case")
	defer rec.Flush()
	rec.Require(append(req, "wrong-url:rejected", "wire", "dirty-dst", "fields-set", "url:legacy")...)
	if p := vh.ReplayFile(); p != "" {
		var c c15AnyCase
		if _, _, err := vh.LoadReplay(p, &c); err != nil {
			t.Fatal(err)
		}
		c15AnyCheck(t, rec, c)
		return
	}
	rapid.Check(t, func(rt *rapid.T) { c15AnyCheck(rt, rec, c15AnyGen(rt)) })
}

// ---- arbitrary bytes ---------------------------------------------------------------------------

type c15AnyDecCase struct {
	Type  string `json:"type"`
	URL   string `json:"url"`
	Value vh.Hex `json:"value"`
}

// c15AnyDecCheck: UnmarshalAnypbTo never panics on an arbitrary value / URL; a URL-less value it
// accepts survives marshal -> URL-less Any -> UnmarshalAnypbTo (decode -> encode -> decode).
func c15AnyDecCheck(t vh.Fataler, rec *vh.Rec, c c15AnyDecCase, count bool) {
	t.Helper()
	dst := c15NewParams(c.Type)
	if dst == nil {
		t.Fatalf("harness problem: bad type %q", c.Type)
	}
	var err error
	if pan, what := c15h.Catch(func() { err = UnmarshalAnypbTo(&anypb.Any{TypeUrl: c.URL, Value: append([]byte{}, c.Value...)}, dst) }); pan {
		rec.Violation(t, "anypb:panic", c, "UnmarshalAnypbTo panicked on %d arbitrary value bytes, URL %q: %s", len(c.Value), c.URL, what)
		return
	}
	if count {
		cl := "dec-rejected"
		if err == nil {
			cl = "dec-accepted"
		}
		rec.Case(len(c.Value) > 0, vh.Digest(c), c, cl, "type:"+c.Type)
	}
	if err != nil {
		return
	}
	val, merr := proto.Marshal(dst)
	if merr != nil {
		rec.Violation(t, "anypb:remarshal", c, "a %s decoded from %d arbitrary bytes cannot be marshalled again: %v", c.Type, len(c.Value), merr)
		return
	}
	again := c15NewParams(c.Type)
	if e := UnmarshalAnypbTo(&anypb.Any{Value: val}, again); e != nil || !proto.Equal(dst, again) {
		rec.Violation(t, "anypb:mismatch", c, "a %s decoded from %d arbitrary bytes does not survive URL-less re-packing (err=%v)", c.Type, len(c.Value), e)
	}
}

func c15AnyDecSeeds() []c15AnyDecCase {
	var out []c15AnyDecCase
	for _, c := range []c15AnyCase{
		{Type: "generic", RandSet: true, Rand: true},
		{Type: "prefix", PrefixIDSet: true, PrefixID: -1, PrefixSet: true, Prefix: []byte("GET / HTTP/1.1\r\n"), FlushSet: true, Flush: 2},
		{Type: "dtls", Src4: c15Addr{Set: true, IPSet: true, IP: []byte{1, 2, 3, 4}, PortSet: true, Port: 443}, Src6: c15Addr{Set: true}, UnorderedSet: true},
	} {
		v, _ := proto.Marshal(c.build())
		out = append(out, c15AnyDecCase{Type: c.Type, Value: v}, c15AnyDecCase{Type: c.Type, URL: c15OwnURL(c.Type), Value: v})
		for _, ty := range []string{"generic", "prefix", "dtls"} {
			out = append(out, c15AnyDecCase{Type: ty, Value: v})
		}
	}
	out = append(out, c15AnyDecCase{Type: "dtls", Value: []byte{0x0a, 0xff, 0xff, 0xff, 0xff, 0x0f}}, c15AnyDecCase{Type: "prefix", Value: []byte{0x12, 0x05, 'a'}},
		c15AnyDecCase{Type: "generic", Value: []byte{0x68, 0xff, 0xff, 0xff, 0xff, 0xff, 0xff, 0xff, 0xff, 0xff, 0x01}})
	return out
}

func TestVerif_C15_dec_anypb(t *testing.T) {
	rec := vh.NewRec("C15", "dec_anypb", "rapid: UnmarshalAnypbTo on arbitrary value bytes (raw 0-60 bytes, or marshalled params of any type with 0-3 bytes changed/cut/appended) x destination type x URL (empty, own, short arbitrary string). Oracle: no panic; an accepted URL-less value survives marshal -> URL-less Any -> UnmarshalAnypbTo. Non-trivial = non-empty value; distinct by case")
	defer rec.Flush()
	rec.Require("dec-accepted", "dec-rejected", "type:generic", "type:prefix", "type:dtls")
	if p := vh.ReplayFile(); p != "" {
		var c c15AnyDecCase
		if _, _, err := vh.LoadReplay(p, &c); err != nil {
			t.Fatal(err)
		}
		c15AnyDecCheck(t, rec, c, true)
		return
	}
	rapid.Check(t, func(rt *rapid.T) {
		c := c15AnyDecCase{Type: rapid.SampledFrom([]string{"generic", "prefix", "dtls"}).Draw(rt, "type")}
		switch rapid.IntRange(0, 3).Draw(rt, "urlkind") {
		case 0:
			c.URL = c15OwnURL(c.Type)
		case 1:
			c.URL = rapid.StringN(0, 12, 12).Draw(rt, "url")
		}
		if rapid.Bool().Draw(rt, "raw") {
			c.Value = rapid.SliceOfN(rapid.Byte(), 0, 60).Draw(rt, "value")
		} else {
			v, err := proto.Marshal(c15AnyGen(rt).build())
			if err != nil {
				rt.Fatalf("harness problem: %v", err)
			}
			for i, k := 0, rapid.IntRange(0, 3).Draw(rt, "muts"); i < k; i++ {
				switch rapid.IntRange(0, 2).Draw(rt, "op") {
				case 0:
					if len(v) > 0 {
						v[rapid.IntRange(0, len(v)-1).Draw(rt, "at")] = rapid.Byte().Draw(rt, "b")
					}
				case 1:
					if len(v) > 0 {
						v = v[:len(v)-1]
					}
				case 2:
					v = append(v, rapid.Byte().Draw(rt, "extra"))
				}
			}
			c.Value = v
		}
		c15AnyDecCheck(rt, rec, c, true)
	})
}

func FuzzVerif_C15_anypb(f *testing.F) {
	rec := vh.NewRec("C15", "dec_anypb", "native fuzzing of UnmarshalAnypbTo (same oracle as dec_anypb)")
	for _, s := range c15AnyDecSeeds() {
		f.Add(uint8(strings.Index("gpd", s.Type[:1])), s.URL, []byte(s.Value))
	}
	f.Fuzz(func(t *testing.T, ty uint8, url string, value []byte) {
		c15AnyDecCheck(t, rec, c15AnyDecCase{Type: []string{"generic", "prefix", "dtls"}[int(ty)%3], URL: url, Value: value}, false)
	})
}

var _ = fmt.Sprintf
