package obfs4

// C01 (obfs4 part) — station and client draw the same obfs4 node keys from the shared secret, and
// the draw is the published one.
//
//	station   : core.GenSharedKeys(libver, secret).TransportReader -> Transport.GetIdentifier(reg)
//	            (which runs generateObfs4Keys on the registration's reader and stores the keys)
//	client    : ClientTransport.PrepareKeys(pub, secret, reader) -> t.keys (unexported, hence in-package)
//	reference : c01ref.Keys + c01ref.Obfs4Draw (standard library only)
//	golden    : /verif/golden/C01/obfs4keys.json
//
// No client entry point takes a chosen secret, so the client's reader is the reference stream for
// chosen secrets and the real core.GenerateClientSharedKeys reader for the secrets it draws itself.

import (
	"bytes"
	"crypto/sha256"
	"encoding/json"
	"fmt"
	"io"
	"net"
	"os"
	"path/filepath"
	"testing"

	"github.com/refraction-networking/conjure/pkg/core"
	pb "github.com/refraction-networking/conjure/proto"
	"pgregory.net/rapid"
	"verif/harness/c01ref"
	"verif/harness/vh"
)

type c01KeysCase struct {
	Secret       vh.Hex `json:"secret"`
	LibVer       uint32 `json:"libver"`
	Keygen       bool   `json:"keygen,omitempty"`
	ClientStream vh.Hex `json:"client_stream,omitempty"`
}

type c01KeysOut struct {
	Private vh.Hex `json:"private"`
	Public  vh.Hex `json:"public"`
	NodeID  vh.Hex `json:"node_id"`
}

type c01Reg struct {
	secret []byte
	reader io.Reader
	keys   interface{}
}

func (r *c01Reg) SharedSecret() []byte                 { return r.secret }
func (r *c01Reg) GetRegistrationAddress() string       { return "198.51.100.7" }
func (r *c01Reg) GetDstPort() uint16                   { return 443 }
func (r *c01Reg) PhantomIP() *net.IP                   { ip := net.IPv4(192, 0, 2, 1); return &ip }
func (r *c01Reg) TransportType() pb.TransportType      { return pb.TransportType_Obfs4 }
func (r *c01Reg) TransportParams() any                 { return nil }
func (r *c01Reg) SetTransportKeys(k interface{}) error { r.keys = k; return nil }
func (r *c01Reg) TransportKeys() interface{}           { return r.keys }
func (r *c01Reg) TransportReader() io.Reader           { return r.reader }

func c01KeysEval(c *c01KeysCase) (station, client, ref c01KeysOut, ident []byte, err error) {
	// reference
	_, stream, err := c01ref.Keys(c.LibVer, c.Secret)
	if err != nil {
		return
	}
	sb := make([]byte, 64)
	if _, err = io.ReadFull(stream, sb); err != nil {
		return
	}
	rk, err := c01ref.Obfs4Draw(bytes.NewReader(sb))
	if err != nil {
		return
	}
	ref = c01KeysOut{rk.Private, rk.Public, rk.NodeID}
	// station
	keys, err := core.GenSharedKeys(uint(c.LibVer), c.Secret, pb.TransportType_Obfs4)
	if err != nil {
		return
	}
	reg := &c01Reg{secret: c.Secret, reader: keys.TransportReader}
	ident = []byte(Transport{}.GetIdentifier(reg))
	sk, ok := reg.keys.(Obfs4Keys)
	if !ok {
		err = fmt.Errorf("station stored keys of type %T", reg.keys)
		return
	}
	station = c01KeysOut{sk.PrivateKey.Bytes()[:], sk.PublicKey.Bytes()[:], sk.NodeID.Bytes()[:]}
	// client
	cs := sb
	if c.Keygen {
		cs = c.ClientStream
	}
	ct := &ClientTransport{}
	if err = ct.PrepareKeys([32]byte{}, c.Secret, bytes.NewReader(cs)); err != nil {
		return
	}
	client = c01KeysOut{ct.keys.PrivateKey.Bytes()[:], ct.keys.PublicKey.Bytes()[:], ct.keys.NodeID.Bytes()[:]}
	return
}

func c01KeysEq(a, b c01KeysOut) bool {
	return bytes.Equal(a.Private, b.Private) && bytes.Equal(a.Public, b.Public) && bytes.Equal(a.NodeID, b.NodeID)
}

func c01KeysCheck(t vh.Fataler, rec *vh.Rec, c *c01KeysCase, want *c01KeysOut) {
	st, cl, ref, ident, err := c01KeysEval(c)
	if err != nil {
		t.Fatalf("harness problem: %v (case %+v)", err, c)
	}
	lv := fmt.Sprintf("libver%d", c.LibVer)
	if c.LibVer > 4 {
		lv = "libver>4"
	}
	classes := []string{lv}
	if c.Keygen {
		classes = append(classes, "client-keygen")
	}
	if want != nil {
		classes = append(classes, "golden-record")
	}
	rec.Case(true, vh.Digest(c), c, classes...)
	sc, sr, cr := c01KeysEq(st, cl), c01KeysEq(st, ref), c01KeysEq(cl, ref)
	switch {
	case sc && !sr:
		rec.Violation(t, "obfs4keys:both!=ref", c, "station and client agree on obfs4 keys (pub %x id %x) but the published draw gives pub %x id %x", []byte(st.Public), []byte(st.NodeID), []byte(ref.Public), []byte(ref.NodeID))
	case !sc && sr:
		rec.Violation(t, "obfs4keys:client!=station", c, "client obfs4 keys pub %x id %x, station (and reference) pub %x id %x", []byte(cl.Public), []byte(cl.NodeID), []byte(st.Public), []byte(st.NodeID))
	case !sc && cr:
		rec.Violation(t, "obfs4keys:station!=client", c, "station obfs4 keys pub %x id %x, client (and reference) pub %x id %x", []byte(st.Public), []byte(st.NodeID), []byte(cl.Public), []byte(cl.NodeID))
	case !sc:
		rec.Violation(t, "obfs4keys:all-differ", c, "station %+v client %+v reference %+v", st, cl, ref)
	}
	if exp := append(append([]byte(nil), st.Public...), st.NodeID...); !bytes.Equal(ident, exp) {
		rec.Violation(t, "obfs4keys:identifier-shape", c, "station identifier %x is not public key || node id %x", ident, exp)
	}
	if want != nil && !c01KeysEq(st, *want) {
		rec.Violation(t, "golden:obfs4keys", c, "station obfs4 keys changed: recorded pub %x id %x, now pub %x id %x", []byte(want.Public), []byte(want.NodeID), []byte(st.Public), []byte(st.NodeID))
	}
}

func c01KeysGen(rt *rapid.T) c01KeysCase {
	var c c01KeysCase
	c.LibVer = rapid.SampledFrom([]uint32{4, 3, 2, 1, 0, 4, 3, 5, 100, 4294967295}).Draw(rt, "libver")
	if c.LibVer == 4 && rapid.IntRange(0, 3).Draw(rt, "keygen") == 0 {
		k, err := core.GenerateClientSharedKeys([32]byte{9})
		if err != nil {
			rt.Fatalf("harness problem: GenerateClientSharedKeys: %v", err)
		}
		s := make([]byte, 64)
		if _, err := io.ReadFull(k.Reader, s); err != nil {
			rt.Fatalf("harness problem: %v", err)
		}
		c.Keygen, c.Secret, c.ClientStream = true, append([]byte(nil), k.SharedSecret...), s
	} else if rapid.IntRange(0, 9).Draw(rt, "oddlen") == 0 {
		c.Secret = rapid.SliceOfN(rapid.Byte(), 0, 64).Draw(rt, "secret")
	} else {
		c.Secret = rapid.SliceOfN(rapid.Byte(), 32, 32).Draw(rt, "secret")
	}
	if c.Secret == nil {
		c.Secret = vh.Hex{}
	}
	return c
}

type c01KeysGolden struct {
	Case c01KeysCase `json:"case"`
	Want c01KeysOut  `json:"want"`
}

type c01KeysGoldenFile struct {
	Comment string          `json:"_comment"`
	Records []c01KeysGolden `json:"records"`
}

func c01GoldenDir() string {
	d := os.Getenv("VERIF_DIR")
	if d == "" {
		d = "/verif"
	}
	return filepath.Join(d, "golden", "C01")
}

// c01KeysWant looks the case up in the golden file (replay of a golden mismatch).
func c01KeysWant(c *c01KeysCase) *c01KeysOut {
	b, err := os.ReadFile(filepath.Join(c01GoldenDir(), "obfs4keys.json"))
	if err != nil {
		return nil
	}
	var f c01KeysGoldenFile
	if json.Unmarshal(b, &f) != nil {
		return nil
	}
	for i := range f.Records {
		if f.Records[i].Case.LibVer == c.LibVer && bytes.Equal(f.Records[i].Case.Secret, c.Secret) {
			return &f.Records[i].Want
		}
	}
	return nil
}

func TestVerif_C01_obfs4keys(t *testing.T) {
	rec := vh.NewRec("C01", "obfs4keys", "obfs4 node keys (private, public, node id) from station (GenSharedKeys reader -> GetIdentifier/generateObfs4Keys), client (PrepareKeys -> keys) and independent reference over rapid-generated secrets x libver, preceded by the replay of /verif/golden/C01/obfs4keys.json. Every case is non-trivial. Distinct = distinct (secret, libver).")
	defer rec.Flush()
	if p := vh.ReplayFile(); p != "" {
		var c c01KeysCase
		if _, _, err := vh.LoadReplay(p, &c); err != nil {
			t.Fatal(err)
		}
		c01KeysCheck(t, rec, &c, c01KeysWant(&c))
		return
	}
	rec.Require("golden-record", "libver0", "libver3", "libver4", "client-keygen")
	b, err := os.ReadFile(filepath.Join(c01GoldenDir(), "obfs4keys.json"))
	if err != nil {
		t.Fatalf("harness problem: golden vectors missing: %v", err)
	}
	var f c01KeysGoldenFile
	if err := json.Unmarshal(b, &f); err != nil {
		t.Fatalf("harness problem: golden vectors unreadable: %v", err)
	}
	for i := range f.Records {
		if vh.Mine(i) {
			c01KeysCheck(t, rec, &f.Records[i].Case, &f.Records[i].Want)
		}
	}
	rapid.Check(t, func(rt *rapid.T) {
		c := c01KeysGen(rt)
		c01KeysCheck(rt, rec, &c, nil)
	})
}

// Generator mode (see /verif/golden/C01/regen.sh).
func TestVerifGen_C01_obfs4keys(t *testing.T) {
	dst := os.Getenv("VERIF_C01_GOLDEN_WRITE")
	if dst == "" {
		t.Skip("generator mode only (set VERIF_C01_GOLDEN_WRITE=<dir>)")
	}
	gen := rapid.Custom(c01KeysGen)
	f := c01KeysGoldenFile{Comment: "C01 golden vectors: obfs4 node keys per (secret, libver), written by TestVerifGen_C01_obfs4keys from the tree at the time the check was built."}
	for i := 0; len(f.Records) < 400 && i < 4000; i++ {
		c := gen.Example(i)
		if c.Keygen { // crypto/rand inside: turn into a deterministic fixed-secret case
			h := sha256.Sum256([]byte(fmt.Sprintf("C01 golden obfs4 secret %d", i)))
			c.Keygen, c.ClientStream, c.Secret = false, nil, h[:]
		}
		if i%2 == 0 {
			c.LibVer = uint32(i/2) % 5
		}
		st, cl, ref, _, err := c01KeysEval(&c)
		if err != nil {
			t.Fatalf("harness problem: %v", err)
		}
		if !c01KeysEq(st, cl) || !c01KeysEq(st, ref) {
			t.Fatalf("refusing to write golden vectors: case %+v violates the property", c)
		}
		f.Records = append(f.Records, c01KeysGolden{Case: c, Want: st})
	}
	b, err := json.MarshalIndent(f, "", " ")
	if err != nil {
		t.Fatal(err)
	}
	if err := os.MkdirAll(dst, 0o755); err != nil {
		t.Fatal(err)
	}
	if err := os.WriteFile(filepath.Join(dst, "obfs4keys.json"), append(b, '\n'), 0o644); err != nil {
		t.Fatal(err)
	}
	t.Logf("wrote %d records", len(f.Records))
}
