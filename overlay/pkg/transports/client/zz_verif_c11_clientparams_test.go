package transports

// C11 — transport parameters are attacker-influenced on the way back as well: the registrar's
// RegistrationResponse carries an Any that the client transports parse (ParseParams) and apply
// (SetSessionParams, checked and unchecked), and that then steers GetParams / GetDstPort and — for
// the prefix transport — the bytes the client writes first.
//
// Client transports are built the way the client library builds them (the registry builder followed
// by SetParams(nil); optionally Prepare, which is what a dial does before registering). The oracle
// is the one of every C11 entry point: returns, no panic, within the bound.

import (
	"context"
	"fmt"
	"io"
	"net"
	"testing"
	"time"

	cj "github.com/refraction-networking/conjure/pkg/core/interfaces"
	pb "github.com/refraction-networking/conjure/proto"
	"google.golang.org/protobuf/proto"
	"google.golang.org/protobuf/types/known/anypb"
	"pgregory.net/rapid"
	"verif/harness/c11h"
	"verif/harness/vh"
)

const c11ClientSub = "clientparams"

var c11ClientIDs = []pb.TransportType{pb.TransportType_Min, pb.TransportType_Obfs4, pb.TransportType_Prefix, pb.TransportType_DTLS}
var c11ClientKinds = []string{"generic", "generic", "prefix", "dtls"}

type c11ClientCase struct {
	T         int    `json:"transport"` // index into c11ClientIDs
	Absent    bool   `json:"absent,omitempty"`
	URL       string `json:"type_url"`
	Value     vh.Hex `json:"value"`
	Unchecked bool   `json:"unchecked,omitempty"`
	Prepared  bool   `json:"prepared,omitempty"`
	Twice     bool   `json:"twice,omitempty"` // the response is applied to the same transport object again
}

type c11Sink struct{ n int }

func (c *c11Sink) Read([]byte) (int, error)         { return 0, io.EOF }
func (c *c11Sink) Write(p []byte) (int, error)      { c.n += len(p); return len(p), nil }
func (c *c11Sink) Close() error                     { return nil }
func (c *c11Sink) LocalAddr() net.Addr              { return &net.TCPAddr{IP: net.IPv4(10, 0, 0, 1), Port: 1} }
func (c *c11Sink) RemoteAddr() net.Addr             { return &net.TCPAddr{IP: net.IPv4(10, 0, 0, 2), Port: 2} }
func (c *c11Sink) SetDeadline(time.Time) error      { return nil }
func (c *c11Sink) SetReadDeadline(time.Time) error  { return nil }
func (c *c11Sink) SetWriteDeadline(time.Time) error { return nil }

func c11ClientRun(c c11ClientCase) (classes []string, nontrivial bool, o c11h.Outcome) {
	idx := ((c.T % len(c11ClientIDs)) + len(c11ClientIDs)) % len(c11ClientIDs)
	id := c11ClientIDs[idx]
	classes = append(classes, "t:"+id.String())
	var cls []string
	o = c11h.Guard(c11h.Bound, func() {
		tr, err := NewWithParamsByID(id, nil)
		if err != nil || tr == nil {
			cls = append(cls, "harness:no-transport")
			return
		}
		if c.Prepared && id != pb.TransportType_DTLS { // the DTLS Prepare does STUN over the network
			if err := tr.Prepare(context.Background(), nil); err != nil {
				cls = append(cls, "prepare-error")
			}
		}
		var a *anypb.Any
		if !c.Absent {
			a = &anypb.Any{TypeUrl: c.URL, Value: append([]byte(nil), c.Value...)}
		}
		rounds := 1
		if c.Twice {
			rounds = 2
		}
		for r := 0; r < rounds; r++ {
			var b *anypb.Any
			if a != nil {
				b = proto.Clone(a).(*anypb.Any)
			}
			p, err := tr.ParseParams(b)
			switch {
			case err != nil:
				cls = append(cls, "parse-error")
			case p == nil:
				cls = append(cls, "parsed-nil")
			default:
				cls = append(cls, fmt.Sprintf("parsed:%T", p))
			}
			if err := tr.SetSessionParams(b, c.Unchecked); err != nil {
				cls = append(cls, "set-error")
			} else {
				cls = append(cls, "set-ok")
				if a != nil {
					nontrivial = true
				}
			}
			_, _ = tr.GetParams()
			_, _ = tr.GetDstPort([]byte("0123456789abcdef"))
			_ = tr.Name()
			_ = tr.String()
		}
		if wt, ok := tr.(cj.WrappingTransport); ok && id != pb.TransportType_Obfs4 {
			var pub [32]byte
			pub[0] = 9
			if err := tr.PrepareKeys(pub, []byte("0123456789abcdef0123456789abcdef"), nil); err == nil {
				if _, err := wt.WrapConn(&c11Sink{}); err != nil {
					cls = append(cls, "wrapconn-error")
				} else {
					cls = append(cls, "wrapconn-ok")
				}
			}
		}
	})
	if o.Hung || o.Inconclusive {
		return append(classes, "gave-up-waiting"), true, o
	}
	return append(classes, cls...), nontrivial, o
}

func c11ClientCheck(t vh.Fataler, rec *vh.Rec, c c11ClientCase, fuzz bool) {
	classes, nontrivial, o := c11ClientRun(c)
	classes = append(classes, c11h.Source(fuzz))
	c11h.Report(t, rec, c11ClientSub, "client-params", c, vh.Digest(c), o, nontrivial, classes...)
}

const c11ClientRule = "client transports (min, obfs4, prefix, dtls; built by the registry builder + SetParams(nil), optionally Prepared): ParseParams + SetSessionParams (checked / unchecked, once or twice) on a drawn Any as in the params sub-check, then GetParams / GetDstPort / Name and, for min and prefix, the first flight written into a sink; non-trivial = a present Any was applied without error, so later calls run on attacker-chosen fields; distinct by case"

func c11ClientGen(rt *rapid.T) c11ClientCase {
	c := c11ClientCase{T: rapid.IntRange(0, len(c11ClientIDs)-1).Draw(rt, "transport")}
	g := c11h.NewG(rt, c11h.Dom{})
	a := g.Any("any", c11ClientKinds[c.T])
	if a == nil {
		c.Absent = true
	} else {
		c.URL, c.Value = a.TypeUrl, a.Value
	}
	c.Unchecked = rapid.Bool().Draw(rt, "unchecked")
	c.Prepared = rapid.Bool().Draw(rt, "prepared")
	c.Twice = rapid.IntRange(0, 3).Draw(rt, "twice") == 3
	return c
}

func c11ClientSeeds() [][]any {
	var out [][]any
	add := func(t int, m proto.Message, url string, cfg uint16) {
		a, err := anypb.New(m)
		if err != nil {
			panic(err)
		}
		if url != "keep" {
			a.TypeUrl = url
		}
		out = append(out, []any{uint16(t) | cfg<<8, a.TypeUrl, a.Value})
	}
	for t := 0; t < 4; t++ {
		for _, cfg := range []uint16{0, 2, 4, 6, 8 + 4} {
			add(t, &pb.GenericTransportParams{RandomizeDstPort: proto.Bool(true)}, "keep", cfg)
			add(t, &pb.PrefixTransportParams{PrefixId: proto.Int32(3), RandomizeDstPort: proto.Bool(true), Prefix: []byte("HTTP/1.1 200\r\n"), CustomFlushPolicy: proto.Int32(1)}, "keep", cfg)
			add(t, &pb.PrefixTransportParams{PrefixId: proto.Int32(-1)}, "", cfg)
			add(t, &pb.PrefixTransportParams{PrefixId: proto.Int32(77), Prefix: []byte{}}, "keep", cfg)
			add(t, &pb.PrefixTransportParams{}, "type.googleapis.com/tapdance.PrefixTransportParams", cfg)
			add(t, &pb.DTLSTransportParams{SrcAddr4: &pb.Addr{IP: []byte{1, 2, 3}, Port: proto.Uint32(1 << 20)}, RandomizeDstPort: proto.Bool(true)}, "keep", cfg)
		}
		out = append(out, []any{uint16(t) | 1<<8, "", []byte{}}, []any{uint16(t), "\xff", []byte{0x08}})
	}
	return out
}

func TestVerif_C11_clientparams(t *testing.T) {
	rec := c11h.Rec(c11ClientSub, c11ClientRule)
	defer rec.Flush()
	if p := vh.ReplayFile(); p != "" {
		var c c11ClientCase
		if _, _, err := vh.LoadReplay(p, &c); err != nil {
			t.Fatal(err)
		}
		c11ClientCheck(t, rec, c, false)
		return
	}
	rec.Require("set-ok", "set-error", "parse-error", "parsed-nil", "wrapconn-ok", "parsed:*proto.PrefixTransportParams", "parsed:*proto.GenericTransportParams")
	if err := c11h.WriteCorpus("FuzzVerif_C11_clientparams", c11ClientSeeds()); err != nil {
		t.Fatalf("harness problem: %v", err)
	}
	rapid.Check(t, func(rt *rapid.T) { c11ClientCheck(rt, rec, c11ClientGen(rt), false) })
}

// sel: bits 0-7 transport, bit 8 absent, bit 9 unchecked, bit 10 prepared, bit 11 twice
func FuzzVerif_C11_clientparams(f *testing.F) {
	rec := c11h.Rec(c11ClientSub, c11ClientRule)
	defer rec.Flush()
	for _, s := range c11ClientSeeds() {
		f.Add(s...)
	}
	f.Fuzz(func(t *testing.T, sel uint16, url string, value []byte) {
		if len(value) > 1<<16 || len(url) > 1<<12 {
			return
		}
		c11ClientCheck(t, rec, c11ClientCase{T: int(sel & 0xff), Absent: sel&0x100 != 0, Unchecked: sel&0x200 != 0, Prepared: sel&0x400 != 0, Twice: sel&0x800 != 0,
			URL: url, Value: value}, true)
	})
}
