package dtls

// C11 — the station's DTLS transport connects out to the client as soon as a DTLS registration is
// ingested (handleConnectingTpReg -> Transport.Connect), with the source addresses, ports and flags
// the client put into its DTLSTransportParams, the phantom address a registrar response may have
// overridden and a secret of any length. This sub-check drives the real Connect with
//   * a DNAT stub that records the entry and lets the dial go ahead only for client addresses that
//     cannot be dialled at all (IP of a length other than 0, 4 or 16 bytes: the dial then fails at
//     address resolution, before any socket exists) and refuses every other entry — no packet ever
//     leaves the process;
//   * a listener stub that fails at once, hands over a connection at once, or waits for the context;
//   * a context of 30 ms.
// Oracle: Connect returns (connection or error), does not panic, and returns within the bound.

import (
	"context"
	"errors"
	"fmt"
	"io"
	"net"
	"runtime"
	"sync"
	"testing"
	"time"

	"github.com/refraction-networking/conjure/pkg/dtls"
	pb "github.com/refraction-networking/conjure/proto"
	"google.golang.org/protobuf/proto"
	"google.golang.org/protobuf/types/known/anypb"
	"pgregory.net/rapid"
	"verif/harness/c11h"
	"verif/harness/vh"
)

const c11DtlsSub = "dtlsconnect"

type c11Reg struct {
	secret  []byte
	phantom net.IP
	port    uint16
	tt      pb.TransportType
	params  any
	regAddr string
}

func (r *c11Reg) SharedSecret() []byte               { return r.secret }
func (r *c11Reg) GetRegistrationAddress() string     { return r.regAddr }
func (r *c11Reg) GetDstPort() uint16                 { return r.port }
func (r *c11Reg) PhantomIP() *net.IP                 { return &r.phantom }
func (r *c11Reg) TransportType() pb.TransportType    { return r.tt }
func (r *c11Reg) TransportParams() any               { return r.params }
func (r *c11Reg) SetTransportKeys(interface{}) error { return nil }
func (r *c11Reg) TransportKeys() interface{}         { return nil }
func (r *c11Reg) TransportReader() io.Reader         { return nil }

var c11ResolverOnce sync.Once

// c11NoNetwork makes every name lookup fail at once instead of sending DNS queries (an undialable
// address such as "?010203:40000" is handed to the resolver by net.Dial).
func c11NoNetwork() {
	c11ResolverOnce.Do(func() {
		net.DefaultResolver = &net.Resolver{PreferGo: true, Dial: func(context.Context, string, string) (net.Conn, error) {
			return nil, errors.New("verif: no network")
		}}
	})
}

type c11DNAT struct{ entries, allowed int }

func (d *c11DNAT) AddEntry(clientAddr *net.IP, clientPort uint16, phantomIP *net.IP, phantomPort uint16) error {
	d.entries++
	_ = clientAddr.String()
	_ = phantomIP.String()
	switch len(*clientAddr) {
	case 0, 4, 16:
		return errors.New("verif: no network")
	}
	d.allowed++
	return nil
}

type c11Listener struct{ mode int }

type c11NopConn struct{ net.Conn }

func (c11NopConn) Close() error { return nil }

func (l *c11Listener) AcceptWithContext(ctx context.Context, cfg *dtls.Config) (net.Conn, error) {
	switch l.mode {
	case 1:
		<-ctx.Done()
		return nil, ctx.Err()
	case 2:
		return c11NopConn{}, nil
	}
	return nil, errors.New("verif: nobody connects")
}

type c11DtlsCase struct {
	TT      int32  `json:"transport"`
	Absent  bool   `json:"params_absent,omitempty"` // no transport_params in the registration
	URL     string `json:"type_url"`
	Params  vh.Hex `json:"params"` // value of the Any; the parameter object is what the station's own ParseParams makes of it
	Kind    string `json:"params_kind,omitempty"`
	Phantom vh.Hex `json:"phantom"`
	Port    uint16 `json:"port"`
	Secret  vh.Hex `json:"secret"`
	RegAddr string `json:"reg_addr"`
	Listen  int    `json:"listener"` // 0 error, 1 waits for the context, 2 connection
}

func c11DtlsRun(c c11DtlsCase) (classes []string, nontrivial bool, o c11h.Outcome) {
	c11NoNetwork()
	// the registration holds whatever the transport's own ParseParams returned at ingest; a
	// registration whose parameters do not parse is never created
	var a *anypb.Any
	if !c.Absent {
		a = &anypb.Any{TypeUrl: c.URL, Value: append([]byte(nil), c.Params...)}
	}
	params, err := Transport{}.ParseParams(4, a)
	if err != nil {
		return []string{"rejected-at-ingest"}, false, o
	}
	reg := &c11Reg{secret: c.Secret, phantom: net.IP(c.Phantom), port: c.Port, tt: pb.TransportType(c.TT), params: params, regAddr: c.RegAddr}
	dnat := &c11DNAT{}
	logged := 0
	logf := func(ip *net.IP) { logged++; _ = (*ip).String() }
	tr := &Transport{DNAT: dnat, dtlsListener: &c11Listener{mode: c.Listen}, logDialSuccess: logf, logListenSuccess: logf}
	base := runtime.NumGoroutine()
	var cls []string
	o = c11h.Guard(c11h.Bound, func() {
		ctx, cancel := context.WithTimeout(context.Background(), 30*time.Millisecond)
		defer cancel()
		conn, err := tr.Connect(ctx, reg)
		switch {
		case err != nil && errors.Is(err, context.DeadlineExceeded):
			cls = append(cls, "timeout")
		case err != nil:
			cls = append(cls, "error")
		case conn != nil:
			cls = append(cls, "connected")
			conn.Close()
		default:
			cls = append(cls, "nil-nil")
		}
		// Connect's two helper goroutines end when its context is cancelled (on return)
		for i := 0; i < 2000 && runtime.NumGoroutine() > base+1; i++ {
			time.Sleep(50 * time.Microsecond)
		}
	})
	if o.Hung || o.Inconclusive {
		return []string{"gave-up-waiting"}, true, o
	}
	if dnat.entries > 0 {
		cls = append(cls, "dnat-entry")
		nontrivial = true
	}
	if dnat.allowed > 0 {
		cls = append(cls, "dial-attempted-on-undialable-address")
	}
	return append(cls, fmt.Sprintf("listener:%d", c.Listen)), nontrivial, o
}

func c11DtlsCheck(t vh.Fataler, rec *vh.Rec, c c11DtlsCase, fuzz bool) {
	classes, nontrivial, o := c11DtlsRun(c)
	classes = append(classes, c11h.Source(fuzz), "kind:"+c.Kind)
	c11h.Report(t, rec, c11DtlsSub, "dtls-connect", c, vh.Digest(c), o, nontrivial, classes...)
}

const c11DtlsRule = "the real dtls.Transport.Connect on a registration whose parameter object is what the transport's own ParseParams returns for a drawn Any (DTLSTransportParams with source addresses absent / IP of any length / port in or out of range, flags; other message types; corrupt values; absent), phantom addresses of 0-17 bytes, any port, secrets of any length, wrong transport type; DNAT and listener stubs, 30 ms context; non-trivial = Connect got as far as the DNAT entry for the client's address; distinct by case"

func c11DtlsGen(rt *rapid.T) c11DtlsCase {
	g := c11h.NewG(rt, c11h.Dom{})
	c := c11DtlsCase{TT: int32(pb.TransportType_DTLS), Kind: "dtls"}
	if rapid.IntRange(0, 9).Draw(rt, "wrongtt") == 9 {
		c.TT = rapid.SampledFrom([]int32{0, 1, 2, 4, 99, -1}).Draw(rt, "tt")
	}
	if a := g.Any("params", "dtls"); a == nil {
		c.Absent = true
		c.Kind = "absent"
	} else {
		c.URL, c.Params = a.TypeUrl, a.Value
	}
	switch rapid.IntRange(0, 3).Draw(rt, "phantom_kind") {
	case 0:
		c.Phantom = []byte{192, 122, 190, rapid.Byte().Draw(rt, "p4")}
	case 1:
		c.Phantom = []byte{0x20, 0x01, 0x48, 0xa8, 0x68, 0x7f, 0, 1, 0, 0, 0, 0, 0, 0, 0, rapid.Byte().Draw(rt, "p6")}
	case 2:
		c.Phantom = []byte{0, 0, 0, 0, 0, 0, 0, 0, 0, 0, 0xff, 0xff, 192, 122, 190, 7}
	default:
		c.Phantom = c11h.Bytes(rt, "phantom", []int{0, 1, 3, 5, 15, 17})
	}
	c.Port = uint16(rapid.SampledFrom([]int{443, 0, 1, 1024, 65535}).Draw(rt, "port"))
	c.Secret = c11h.Bytes(rt, "secret", []int{32, 32, 32, 0, 1, 16, 64})
	c.RegAddr = rapid.SampledFrom([]string{"198.51.100.7", "2001:db8::7", "", "?010203", "<nil>"}).Draw(rt, "regaddr")
	c.Listen = rapid.SampledFrom([]int{0, 0, 0, 2, 2, 1}).Draw(rt, "listener")
	return c
}

func c11DtlsSeeds() [][]any {
	var out [][]any
	add := func(m *pb.DTLSTransportParams, phantom []byte, sel uint16) {
		b, err := proto.Marshal(m)
		if err != nil {
			panic(err)
		}
		out = append(out, []any{b, phantom, []byte("0123456789abcdef0123456789abcdef"), sel})
	}
	v4 := []byte{192, 122, 190, 7}
	v6 := net.ParseIP("2001:48a8:687f:1::7")
	good := &pb.DTLSTransportParams{SrcAddr4: &pb.Addr{IP: []byte{198, 51, 100, 7}, Port: proto.Uint32(40000)},
		SrcAddr6: &pb.Addr{IP: net.ParseIP("2001:db8::7"), Port: proto.Uint32(40001)}, RandomizeDstPort: proto.Bool(true), Unordered: proto.Bool(true)}
	for _, sel := range []uint16{0, 2, 1} {
		add(good, v4, sel)
		add(good, v6, sel)
		add(&pb.DTLSTransportParams{}, v4, sel)
		add(&pb.DTLSTransportParams{SrcAddr4: &pb.Addr{}, SrcAddr6: &pb.Addr{}}, v6, sel)
		add(&pb.DTLSTransportParams{SrcAddr4: &pb.Addr{IP: []byte{1, 2, 3}, Port: proto.Uint32(1 << 20)}}, v4, sel)
		add(&pb.DTLSTransportParams{SrcAddr6: &pb.Addr{IP: make([]byte, 17), Port: proto.Uint32(^uint32(0))}}, v6, sel)
		add(good, []byte{1, 2, 3}, sel)
		add(good, []byte{}, sel)
	}
	add(good, v4, 1<<4) // wrong transport type
	add(good, v4, 1<<8) // no parameters
	return out
}

func TestVerif_C11_dtlsconnect(t *testing.T) {
	rec := c11h.Rec(c11DtlsSub, c11DtlsRule)
	defer rec.Flush()
	if p := vh.ReplayFile(); p != "" {
		var c c11DtlsCase
		if _, _, err := vh.LoadReplay(p, &c); err != nil {
			t.Fatal(err)
		}
		c11DtlsCheck(t, rec, c, false)
		return
	}
	rec.Require("dnat-entry", "connected", "error", "timeout", "dial-attempted-on-undialable-address", "kind:dtls", "kind:absent", "rejected-at-ingest")
	if err := c11h.WriteCorpus("FuzzVerif_C11_dtlsconnect", c11DtlsSeeds()); err != nil {
		t.Fatalf("harness problem: %v", err)
	}
	rapid.Check(t, func(rt *rapid.T) { c11DtlsCheck(rt, rec, c11DtlsGen(rt), false) })
}

// sel: bits 0-1 listener mode (3 -> 0; mode 1 waits 30 ms), bits 4-7 transport type (0 = DTLS),
// bit 8 no parameters, bits 12-13 port class
func FuzzVerif_C11_dtlsconnect(f *testing.F) {
	rec := c11h.Rec(c11DtlsSub, c11DtlsRule)
	defer rec.Flush()
	for _, s := range c11DtlsSeeds() {
		f.Add(s...)
	}
	f.Fuzz(func(t *testing.T, params []byte, phantom []byte, secret []byte, sel uint16) {
		if len(params) > 4096 || len(phantom) > 64 || len(secret) > 256 {
			return
		}
		c := c11DtlsCase{TT: int32(pb.TransportType_DTLS), Params: params, Absent: sel&0x100 != 0, Phantom: phantom, Secret: secret,
			Port: []uint16{443, 0, 1, 65535}[(sel>>12)&3], Listen: int(sel & 3), RegAddr: "198.51.100.7"}
		if c.Listen == 3 {
			c.Listen = 0
		}
		if tt := (sel >> 4) & 15; tt != 0 {
			c.TT = int32(tt) - 1
		}
		c11DtlsCheck(t, rec, c, true)
	})
}
