package dtls

// C01 (DTLS transport part) — the DTLS client and the station transport agree on the pre-shared
// key, the registration identifier and the destination port.
//
//	client    : ClientTransport.PrepareKeys -> t.psk (unexported, hence in-package);
//	            ClientTransport.GetDstPort(seed) with the session params a Prepare would leave
//	            (the real Prepare, through an in-memory STUN responder, is exercised by the
//	            pkg/station/lib unit of this property)
//	station   : Transport.ParseParams(libver, what the client registers) -> Transport.GetDstPort;
//	            Transport.GetIdentifier(reg); Connect's PSK is reg.SharedSecret()
//	reference : c01ref (HKDF port draw in [1024,65535), HMAC label, PSK = shared secret)
//
// What both ends derive from the PSK (certificates, hello random) is pinned in pkg/dtls.

import (
	"bytes"
	"fmt"
	"io"
	"net"
	"testing"

	pb "github.com/refraction-networking/conjure/proto"
	"google.golang.org/protobuf/proto"
	"google.golang.org/protobuf/types/known/anypb"
	"pgregory.net/rapid"
	"verif/harness/c01ref"
	"verif/harness/vh"
)

type c01DCase struct {
	Secret    vh.Hex `json:"secret"`
	LibVer    uint32 `json:"libver"`
	Mode      string `json:"mode"` // dtls | generic | unset | omitted
	Randomize bool   `json:"randomize"`
	Unordered bool   `json:"unordered"`
	StripURL  bool   `json:"strip_url"`
}

type c01DReg struct{ secret []byte }

func (r *c01DReg) SharedSecret() []byte               { return r.secret }
func (r *c01DReg) GetRegistrationAddress() string     { return "198.51.100.7" }
func (r *c01DReg) GetDstPort() uint16                 { return 443 }
func (r *c01DReg) PhantomIP() *net.IP                 { ip := net.IPv4(192, 0, 2, 1); return &ip }
func (r *c01DReg) TransportType() pb.TransportType    { return pb.TransportType_DTLS }
func (r *c01DReg) TransportParams() any               { return nil }
func (r *c01DReg) SetTransportKeys(interface{}) error { return nil }
func (r *c01DReg) TransportKeys() interface{}         { return nil }
func (r *c01DReg) TransportReader() io.Reader         { return nil }

func c01DCheck(t vh.Fataler, rec *vh.Rec, c *c01DCase) {
	seed, _, err := c01ref.Keys(c.LibVer, c.Secret)
	if err != nil {
		t.Fatalf("harness problem: %v", err)
	}
	ct := &ClientTransport{}
	switch c.Mode {
	case "dtls":
		_ = ct.SetParams(&pb.DTLSTransportParams{RandomizeDstPort: proto.Bool(c.Randomize), Unordered: proto.Bool(c.Unordered)})
	case "generic":
		_ = ct.SetParams(&pb.GenericTransportParams{RandomizeDstPort: proto.Bool(c.Randomize)})
	}
	// what Prepare leaves behind (minus the STUN exchange)
	if ct.Parameters == nil {
		ct.Parameters = &pb.DTLSTransportParams{}
	}
	ct.sessionParams = proto.Clone(ct.Parameters).(*pb.DTLSTransportParams)
	ct.sessionParams.SrcAddr4 = &pb.Addr{IP: []byte{203, 0, 113, 5}, Port: proto.Uint32(50123)}
	if err := ct.PrepareKeys([32]byte{1}, c.Secret, nil); err != nil {
		t.Fatalf("harness problem: PrepareKeys: %v", err)
	}
	m, err := ct.GetParams()
	if err != nil {
		t.Fatalf("harness problem: GetParams: %v", err)
	}
	var a *anypb.Any
	if c.Mode != "omitted" {
		if a, err = anypb.New(m); err != nil {
			t.Fatalf("harness problem: %v", err)
		}
		if c.StripURL {
			a.TypeUrl = ""
		}
	}
	asked := (c.Mode == "dtls" || c.Mode == "generic") && c.Randomize
	classes := []string{"mode:" + c.Mode, fmt.Sprintf("asked:%v", asked)}
	rec.Case(true, vh.Digest(c), c, classes...)

	clientPort, err := ct.GetDstPort(seed)
	if err != nil {
		rec.Violation(t, "dtls:client-port-error", c, "client GetDstPort: %v", err)
		return
	}
	st := Transport{}
	params, err := st.ParseParams(uint(c.LibVer), a)
	if err != nil {
		rec.Violation(t, "dtls:station-rejects-client-params", c, "station ParseParams on the client's own params: %v", err)
		return
	}
	stationPort, err := st.GetDstPort(uint(c.LibVer), seed, params)
	if err != nil {
		rec.Violation(t, "dtls:station-port-error", c, "station GetDstPort: %v", err)
		return
	}
	// the subnet / libver gate lives in the registration manager (checked in pkg/station/lib): here
	// the subnet allows and the library is new enough
	refPort, err := c01ref.Port(4, c01ref.DTLS, 0, asked, true, seed)
	if err != nil {
		t.Fatalf("harness problem: %v", err)
	}
	switch {
	case clientPort == stationPort && stationPort != refPort:
		rec.Violation(t, "port:dtls:both!=ref", c, "client and station use port %d, published rule gives %d", clientPort, refPort)
	case clientPort != stationPort && stationPort == refPort:
		rec.Violation(t, "port:dtls:client!=station", c, "client dials %d, station (and reference) expect %d", clientPort, stationPort)
	case clientPort != stationPort:
		rec.Violation(t, "port:dtls:station!=client", c, "station expects %d, client %d, reference %d", stationPort, clientPort, refPort)
	}
	if !bytes.Equal(ct.psk, c.Secret) {
		rec.Violation(t, "dtls:client-psk", c, "client PSK %x is not the shared secret %x the station uses (reg.SharedSecret())", ct.psk, []byte(c.Secret))
	}
	reg := &c01DReg{secret: c.Secret}
	if id := []byte(st.GetIdentifier(reg)); !bytes.Equal(id, c01ref.Tag(c01ref.DTLS, c.Secret)) {
		rec.Violation(t, "ident:dtls:station!=ref", c, "station identifier %x, published derivation gives %x", id, c01ref.Tag(c01ref.DTLS, c.Secret))
	}
}

func TestVerif_C01_dtlsclient(t *testing.T) {
	rec := vh.NewRec("C01", "dtlsclient", "DTLS client transport vs station transport vs reference: PSK, identifier and destination port over rapid-generated secrets x libver x {DTLS params, generic params, unset, omitted} x randomise x type-url stripped or not. Every case is non-trivial. Distinct = distinct case.")
	defer rec.Flush()
	if p := vh.ReplayFile(); p != "" {
		var c c01DCase
		if _, _, err := vh.LoadReplay(p, &c); err != nil {
			t.Fatal(err)
		}
		c01DCheck(t, rec, &c)
		return
	}
	rec.Require("mode:dtls", "mode:generic", "mode:unset", "mode:omitted", "asked:true", "asked:false")
	rapid.Check(t, func(rt *rapid.T) {
		c := c01DCase{
			LibVer:    rapid.SampledFrom([]uint32{4, 3, 4, 5, 100}).Draw(rt, "libver"),
			Mode:      rapid.SampledFrom([]string{"dtls", "generic", "unset", "omitted"}).Draw(rt, "mode"),
			Randomize: rapid.Bool().Draw(rt, "randomize"),
			Unordered: rapid.Bool().Draw(rt, "unordered"),
			StripURL:  rapid.Bool().Draw(rt, "strip"),
		}
		if rapid.IntRange(0, 9).Draw(rt, "oddlen") == 0 {
			c.Secret = rapid.SliceOfN(rapid.Byte(), 0, 64).Draw(rt, "secret")
		} else {
			c.Secret = rapid.SliceOfN(rapid.Byte(), 32, 32).Draw(rt, "secret")
		}
		if c.Secret == nil {
			c.Secret = vh.Hex{}
		}
		c01DCheck(rt, rec, &c)
	})
}
