package transports

// C15 — tag obfuscators: for every obfuscator variant and every station key pair,
// TryReveal(Obfuscate(tag, pub), priv) == tag, or Obfuscate returned an error; the randomised
// obfuscators (GCM, CTR, XOR) produce a fresh encoding of the same tag every time; revealing with an
// unrelated key does not give the tag back (GCM; CTR for tags >= 16 bytes).
//
// Sub-checks: obfuscate (rapid), dec_reveal (TryReveal on arbitrary bytes; the same check function
// backs FuzzVerif_C15_reveal).
//
// The obfuscators draw from crypto/rand themselves, so one case is not bit-for-bit repeatable; each
// case therefore makes several encodings (c15ObfReps; 32 on replay) so that a defect that depends on
// the encoder's coin flips (e.g. the two masked high bits of the representative) shows reliably.

import (
	"bytes"
	"fmt"
	"testing"

	"golang.org/x/crypto/curve25519"
	"pgregory.net/rapid"
	"verif/harness/c15h"
	"verif/harness/vh"
)

type c15TagSpec struct {
	Len  int    `json:"len"`
	Seed uint64 `json:"seed"`
}

type c15ObfCase struct {
	Priv    vh.Hex       `json:"priv"`     // station private key (32 bytes, used as given: X25519 clamps)
	Other   vh.Hex       `json:"other"`    // an unrelated private key for the wrong-key reveal
	TagLen  int          `json:"tag_len"`  // primary tag = Tag if non-empty or TagLen == 0, else c15h.Expand(TagSeed, TagLen)
	TagSeed uint64       `json:"tag_seed"` //
	Tag     vh.Hex       `json:"tag,omitempty"`
	Extra   []c15TagSpec `json:"extra_tags,omitempty"` // further tags obfuscated in the same case, interleaved with the primary one
	Reveals []int        `json:"reveals,omitempty"`    // keys used, in this order, for repeated reveals on ONE slice: 0 = matching key, 1 = the other key (default 1,0,0,1,0)
}

func (c c15ObfCase) tag() []byte {
	if len(c.Tag) > 0 || c.TagLen == 0 {
		return append([]byte{}, c.Tag...)
	}
	return c15h.Expand(c.TagSeed, c.TagLen)
}

type c15Obf struct {
	name       string
	o          Obfuscator
	randomised bool
	keyed      bool
}

var c15Obfs = []c15Obf{
	{"gcm", GCMObfuscator{}, true, true},
	{"ctr", CTRObfuscator{}, true, true},
	{"xor", XORObfuscator{}, true, false},
	{"nil", NilObfuscator{}, false, false},
}

const c15ObfReps = 3

// c15Clamp is the scalar X25519 actually uses for a 32-byte private key.
func c15Clamp(k []byte) [32]byte {
	var e [32]byte
	copy(e[:], k)
	e[0] &= 248
	e[31] &= 127
	e[31] |= 64
	return e
}

// c15Enc is one encoding handed out by an Obfuscate call: the slice exactly as returned (kept alive
// and untouched by the harness) and a private copy taken immediately after the call.
type c15Enc struct {
	ob   int
	tag  int
	call int // global index of the Obfuscate call within the case
	raw  []byte
	snap []byte
}

var c15Sink [][]byte // a few unrelated allocations between calls (never read)

func c15ObfCheck(t vh.Fataler, rec *vh.Rec, c c15ObfCase, reps int) {
	t.Helper()
	if len(c.Priv) != 32 || len(c.Other) != 32 {
		t.Fatalf("harness problem: keys must be 32 bytes")
	}
	if c15Clamp(c.Priv) == c15Clamp(c.Other) {
		t.Fatalf("harness problem: the 'other' key is the same X25519 scalar as the station key")
	}
	pub, err := curve25519.X25519(c.Priv, curve25519.Basepoint)
	if err != nil {
		t.Fatalf("harness problem: cannot derive public key: %v", err)
	}
	var priv, other [32]byte
	copy(priv[:], c.Priv)
	copy(other[:], c.Other)
	tags := [][]byte{c.tag()}
	for _, x := range c.Extra {
		tags = append(tags, c15h.Expand(x.Seed, x.Len))
	}
	lenClassOf := func(L int) string {
		switch {
		case L == 0:
			return "len0"
		case L < 16:
			return "len1-15"
		case L <= 64:
			return "len16-64"
		}
		return "len>64"
	}
	var classes []string
	if len(tags) > 1 {
		classes = append(classes, "several-tags")
	}
	fail := func(extra string) { rec.Case(true, vh.Digest(c), c, append(classes, extra)...) }

	// how many encodings per (obfuscator, tag)
	need := make([][]int, len(c15Obfs))
	rejected := make([][]bool, len(c15Obfs))
	maxN := 0
	for oi, ob := range c15Obfs {
		need[oi] = make([]int, len(tags))
		rejected[oi] = make([]bool, len(tags))
		for ti, tag := range tags {
			n, L := reps, len(tag)
			if ti > 0 && n > 2 {
				n = 2
			}
			if ob.name == "xor" && L >= 1 {
				// freshness is "the n encodings are not all identical": (256^-L)^(n-1) <= 2^-128
				if k := 1 + (128+8*L-1)/(8*L); k > n {
					n = k
				}
			}
			if !ob.randomised {
				n = 1
			}
			need[oi][ti] = n
			if n > maxN {
				maxN = n
			}
		}
	}

	// phase 1: all Obfuscate calls of the case, interleaved over repetitions, tags and obfuscators.
	// Every returned slice stays alive, untouched, until phase 2.
	var encs []c15Enc
	calls := 0
	for rep := 0; rep < maxN; rep++ {
		for ti, tag := range tags {
			for oi, ob := range c15Obfs {
				if rep >= need[oi][ti] || rejected[oi][ti] {
					continue
				}
				L := len(tag)
				in := append([]byte{}, tag...)
				var raw []byte
				var oerr error
				if pan, what := c15h.Catch(func() { raw, oerr = ob.o.Obfuscate(in, pub) }); pan {
					fail(ob.name + ":PANIC")
					rec.Violation(t, "obf:"+ob.name+":encode-panic", c, "%s Obfuscate panicked on a %d-byte tag: %s", ob.name, L, what)
					return
				}
				calls++
				if oerr != nil {
					// "or encode returned an error" — acceptable; non-vacuity is enforced through the
					// required <obf>:roundtrip classes
					rejected[oi][ti] = true
					continue
				}
				e := c15Enc{ob: oi, tag: ti, call: calls, raw: raw, snap: append([]byte{}, raw...)}
				c15Sink = append(c15Sink, make([]byte, 32+len(raw)), make([]byte, 64))
				if len(c15Sink) > 64 {
					c15Sink = c15Sink[:0]
				}
				// immediate round trip (on a copy: the decoder must not be able to touch the kept slice)
				var pt []byte
				var rerr error
				if pan, what := c15h.Catch(func() { pt, rerr = ob.o.TryReveal(append([]byte{}, e.snap...), priv) }); pan {
					fail(ob.name + ":PANIC")
					rec.Violation(t, "obf:"+ob.name+":decode-panic", c, "%s TryReveal panicked on the obfuscation of a %d-byte tag: %s", ob.name, L, what)
					return
				}
				if rerr != nil || !bytes.Equal(pt, tag) {
					fail(ob.name + ":MISMATCH")
					key := "obf:" + ob.name + ":roundtrip"
					if L == 0 && len(e.snap) == 0 {
						key = "obf:" + ob.name + ":empty-tag" // the empty tag was given an empty encoding, which the decoder refuses
					}
					got := "error: "
					if rerr != nil {
						got += rerr.Error()
					} else {
						got = c15h.FirstDiff(tag, pt)
					}
					if rec.Violation(t, key, c, "%s: Obfuscate accepted a %d-byte tag (no error, %d-byte encoding, Obfuscate call #%d of this case) but TryReveal with the matching private key gave %s", ob.name, L, len(e.snap), calls, got) {
						return
					}
					rejected[oi][ti] = true // known finding: carry on
					continue
				}
				encs = append(encs, e)
			}
		}
	}

	// phase 2a: no encoding handed out earlier may have been changed by the later calls
	for _, e := range encs {
		if bytes.Equal(e.raw, e.snap) {
			continue
		}
		ob := c15Obfs[e.ob]
		now := "something else"
		for _, f := range encs {
			if f.call == e.call || len(f.snap) == 0 {
				continue
			}
			if bytes.Equal(e.raw, f.snap) {
				now = fmt.Sprintf("the encoding that call #%d returned (%s, tag #%d)", f.call, c15Obfs[f.ob].name, f.tag)
				break
			}
			if n := len(f.snap); n < len(e.raw) && bytes.Equal(e.raw[:n], f.snap) {
				now = fmt.Sprintf("the %d-byte encoding that call #%d returned (%s, tag #%d) followed by its own tail", n, f.call, c15Obfs[f.ob].name, f.tag)
			}
		}
		fail(ob.name + ":MUTATED")
		if rec.Violation(t, "obf:"+ob.name+":encoding-mutated-by-later-call", c, "%s: the %d-byte encoding returned by Obfuscate call #%d (tag #%d, %d bytes) was intact right after the call but changed while %d later Obfuscate calls were made (%s); it now holds %s", ob.name, len(e.snap), e.call, e.tag, len(tags[e.tag]), calls-e.call, c15h.FirstDiff(e.snap, e.raw), now) {
			return
		}
	}
	// phase 2b: every encoding still reveals to its own tag after all later calls
	for _, e := range encs {
		ob := c15Obfs[e.ob]
		var pt []byte
		var rerr error
		if pan, what := c15h.Catch(func() { pt, rerr = ob.o.TryReveal(append([]byte{}, e.raw...), priv) }); pan {
			fail(ob.name + ":PANIC")
			rec.Violation(t, "obf:"+ob.name+":decode-panic", c, "%s TryReveal panicked: %s", ob.name, what)
			return
		}
		if rerr != nil || !bytes.Equal(pt, tags[e.tag]) {
			fail(ob.name + ":LATE-MISMATCH")
			if rec.Violation(t, "obf:"+ob.name+":stale-encoding-does-not-reveal", c, "%s: the encoding returned by Obfuscate call #%d revealed its %d-byte tag right after the call, but not any more after %d later calls (err=%v)", ob.name, e.call, len(tags[e.tag]), calls-e.call, rerr) {
				return
			}
		}
	}
	classes = append(classes, "late-recheck")

	// phase 3: a station that holds several keys calls TryReveal repeatedly on the SAME slice (wrong
	// key(s) first, then the right one; or the right one twice). A decoder must not modify its
	// ciphertext argument, and every reveal of the sequence must answer exactly like a reveal of a
	// fresh copy with that key.
	seq := c.Reveals
	if len(seq) == 0 {
		seq = []int{1, 0, 0, 1, 0}
	}
	type answer struct {
		pt  []byte
		err bool
	}
	reveal := func(ob c15Obf, buf []byte, key [32]byte) (a answer, pan bool, what string) {
		pan, what = c15h.Catch(func() {
			pt, err := ob.o.TryReveal(buf, key)
			a = answer{append([]byte{}, pt...), err != nil}
		})
		return
	}
	seenGroup := map[[2]int]bool{}
	for _, e := range encs {
		g := [2]int{e.ob, e.tag}
		if seenGroup[g] {
			continue // the first encoding of every (obfuscator, tag) pair
		}
		seenGroup[g] = true
		ob := c15Obfs[e.ob]
		keys := [2][32]byte{priv, other}
		var ref [2]answer
		for ki := range keys {
			a, pan, what := reveal(ob, append([]byte{}, e.snap...), keys[ki])
			if pan {
				fail(ob.name + ":PANIC")
				rec.Violation(t, "obf:"+ob.name+":decode-panic", c, "%s TryReveal panicked: %s", ob.name, what)
				return
			}
			ref[ki] = a
		}
		work := append([]byte{}, e.snap...) // the one slice every reveal of the sequence gets
		for step, ki := range seq {
			ki &= 1
			a, pan, what := reveal(ob, work, keys[ki])
			if pan {
				fail(ob.name + ":PANIC")
				rec.Violation(t, "obf:"+ob.name+":decode-panic", c, "%s TryReveal panicked in a reveal sequence: %s", ob.name, what)
				return
			}
			kind := []string{"matching", "other"}
			if !bytes.Equal(work, e.snap) {
				fail(ob.name + ":REVEAL-MUTATES")
				if rec.Violation(t, "obf:"+ob.name+":reveal-mutates-input", c, "%s: TryReveal (step %d of the sequence %v on one slice, %s key, returned error=%v) modified its ciphertext argument, the %d-byte encoding of a %d-byte tag: %s", ob.name, step+1, seq, kind[ki], a.err, len(e.snap), len(tags[e.tag]), c15h.FirstDiff(e.snap, work)) {
					return
				}
				break
			}
			if a.err != ref[ki].err || (!a.err && !bytes.Equal(a.pt, ref[ki].pt)) {
				fail(ob.name + ":REVEAL-SEQUENCE")
				if rec.Violation(t, "obf:"+ob.name+":repeated-reveal-differs", c, "%s: step %d of the reveal sequence %v on one slice (%s key) gave error=%v, %d bytes; the same reveal on a fresh copy gives error=%v, %d bytes", ob.name, step+1, seq, kind[ki], a.err, len(a.pt), ref[ki].err, len(ref[ki].pt)) {
					return
				}
				break
			}
		}
	}
	classes = append(classes, "reveal-sequences")

	evaluated := false
	for oi, ob := range c15Obfs {
		for ti, tag := range tags {
			L := len(tag)
			if rejected[oi][ti] {
				if ti == 0 {
					classes = append(classes, ob.name+":rejected", ob.name+":rejected:"+lenClassOf(L))
				}
				continue
			}
			var group [][]byte
			for _, e := range encs {
				if e.ob == oi && e.tag == ti {
					group = append(group, e.raw)
				}
			}
			if len(group) == 0 {
				continue
			}
			evaluated = true
			if ti == 0 {
				classes = append(classes, ob.name+":roundtrip", ob.name+":roundtrip:"+lenClassOf(L))
			}
			// freshness
			if ob.randomised {
				pairwise := ob.name != "xor" || L >= 16
				stale := false
				switch {
				case ob.name == "xor" && L == 0:
					// nothing to randomise
				case pairwise:
					for i := 0; i < len(group) && !stale; i++ {
						for j := i + 1; j < len(group); j++ {
							if bytes.Equal(group[i], group[j]) {
								stale = true
								break
							}
						}
					}
					classes = append(classes, ob.name+":fresh-pairwise")
				default:
					stale = len(group) > 1
					for i := 1; i < len(group); i++ {
						if !bytes.Equal(group[0], group[i]) {
							stale = false
						}
					}
					classes = append(classes, ob.name+":fresh-short")
				}
				if stale {
					fail(ob.name + ":STALE")
					if rec.Violation(t, "obf:"+ob.name+":not-fresh", c, "%s: %d encodings of the same %d-byte tag under the same station key contain identical ciphertexts (%d bytes each)", ob.name, len(group), L, len(group[0])) {
						return
					}
				}
			}
			// an unrelated key must not reveal the tag (chance on correct code: GCM 2^-128, CTR 2^-8L)
			if ti == 0 && ob.keyed && (ob.name == "gcm" || L >= 16) {
				var pt []byte
				var rerr error
				if pan, what := c15h.Catch(func() { pt, rerr = ob.o.TryReveal(append([]byte{}, group[0]...), other) }); pan {
					fail(ob.name + ":PANIC")
					rec.Violation(t, "obf:"+ob.name+":decode-panic", c, "%s TryReveal panicked with an unrelated key: %s", ob.name, what)
					return
				}
				classes = append(classes, ob.name+":wrong-key-checked")
				if rerr == nil && bytes.Equal(pt, tag) {
					fail(ob.name + ":WRONGKEY")
					if rec.Violation(t, "obf:"+ob.name+":wrong-key-reveals", c, "%s: an unrelated private key reveals the %d-byte tag", ob.name, L) {
						return
					}
				}
			}
		}
	}
	rec.Case(evaluated, vh.Digest(c), c, classes...)
}

var c15KeyGen = rapid.Custom(func(rt *rapid.T) vh.Hex {
	switch rapid.IntRange(0, 9).Draw(rt, "keykind") {
	case 0:
		return bytes.Repeat([]byte{0x00}, 32)
	case 1:
		return bytes.Repeat([]byte{0xff}, 32)
	case 2: // only bits that clamping clears / sets
		k := make([]byte, 32)
		k[0], k[31] = 7, 0x80
		return k
	}
	return c15h.Expand(rapid.Uint64Range(2, 1<<63).Draw(rt, "keyseed"), 32)
})

func c15ObfGen(rt *rapid.T) c15ObfCase {
	c := c15ObfCase{Priv: c15KeyGen.Draw(rt, "priv"), Other: c15KeyGen.Draw(rt, "other")}
	if c15Clamp(c.Priv) == c15Clamp(c.Other) {
		c.Other = append(vh.Hex{}, c.Other...)
		c.Other[13] ^= 0x55
	}
	max := vh.Pick(9000, 70000)
	c.TagLen = c15h.Lens(max, 0, 1, 12, 16, 32, 48, 64, 128, 256, 1024, 4096, 8192).Draw(rt, "taglen")
	if c.TagLen > 0 && c.TagLen <= 48 && rapid.Bool().Draw(rt, "explicit") {
		c.Tag = rapid.SliceOfN(rapid.Byte(), c.TagLen, c.TagLen).Draw(rt, "tag")
	} else {
		c.TagSeed = c15h.Seeds().Draw(rt, "tagseed")
	}
	c.Reveals = rapid.SliceOfN(rapid.IntRange(0, 1), 2, 5).Draw(rt, "reveals")
	// further tags in the same case: same length as the primary one (a recycled buffer then fits
	// exactly) or another length
	for i, n := 0, rapid.IntRange(0, 2).Draw(rt, "extratags"); i < n; i++ {
		x := c15TagSpec{Len: c.TagLen, Seed: rapid.Uint64Range(2, 1<<62).Draw(rt, "extraseed")}
		if rapid.Bool().Draw(rt, "otherlen") {
			x.Len = c15h.Lens(300, 0, 16, 32, 64).Draw(rt, "extralen")
		}
		c.Extra = append(c.Extra, x)
	}
	return c
}

func c15ObfRequired() []string {
	var out []string
	for _, o := range c15Obfs {
		out = append(out, o.name+":roundtrip:len1-15", o.name+":roundtrip:len16-64", o.name+":roundtrip:len>64")
	}
	return append(out, "gcm:roundtrip:len0", "ctr:roundtrip:len0", "nil:roundtrip:len0",
		"gcm:fresh-pairwise", "ctr:fresh-pairwise", "xor:fresh-pairwise", "xor:fresh-short", "gcm:wrong-key-checked", "ctr:wrong-key-checked", "several-tags", "late-recheck", "reveal-sequences")
}

func TestVerif_C15_obfuscate(t *testing.T) {
	rec := vh.NewRec("C15", "obfuscate", fmt.Sprintf("rapid: station private key (random 32 bytes; all-zero, all-ones and clamp-only patterns now and then; public key = X25519(priv, base)) x tag length (biased to 0, 1, 12, 16, 32, 48, 64, 128, 256, 1024, 4096, 8192 +-2, uniform tail) x tag bytes (explicit, 0x00.., 0xff.., random stream); plus 0-2 further tags of the same or another length; every case runs all four obfuscators, %d encodings each of the primary tag and 2 of every further tag (XOR with tags < 16 bytes: 1+ceil(128/8L)), all calls interleaved over repetitions, tags and obfuscators, and every returned slice is kept alive untouched. Oracle per obfuscator: Obfuscate errs, or every encoding reveals to its tag under the matching key right after the call AND again after all later Obfuscate calls of the case, and the returned slice is byte-identical to the copy taken right after its call (no aliasing of later encodings); a drawn sequence of 2-5 reveals with the matching / the other key on ONE slice (as a station holding several keys does) leaves that slice unmodified after every step and answers each step like a reveal of a fresh copy; GCM/CTR/XOR(>=16 bytes) encodings pairwise distinct, XOR(<16 bytes) not all identical; GCM (and CTR for tags >= 16 bytes) do not reveal the tag under an unrelated key. Non-trivial = at least one obfuscator accepted and was round-tripped; distinct by (key, tag)", c15ObfReps))
	defer rec.Flush()
	rec.Require(c15ObfRequired()...)
	if p := vh.ReplayFile(); p != "" {
		var c c15ObfCase
		if _, _, err := vh.LoadReplay(p, &c); err != nil {
			t.Fatal(err)
		}
		c15ObfCheck(t, rec, c, 32)
		return
	}
	rapid.Check(t, func(rt *rapid.T) { c15ObfCheck(rt, rec, c15ObfGen(rt), c15ObfReps) })
}

// ---- TryReveal on arbitrary bytes --------------------------------------------------------------

type c15RevealCase struct {
	Data vh.Hex `json:"data"`
	Key  vh.Hex `json:"key"` // padded / cut to 32 bytes
}

// c15RevealCheck: no TryReveal panics on arbitrary bytes; Nil returns its input, XOR returns the XOR
// of the two halves (reference); whatever GCM/CTR/XOR/Nil reveal can be obfuscated again and then
// reveals to the same bytes (decode -> encode -> decode).
func c15RevealCheck(t vh.Fataler, rec *vh.Rec, c c15RevealCase, count bool) {
	t.Helper()
	var key [32]byte
	copy(key[:], c.Key)
	pub, perr := curve25519.X25519(key[:], curve25519.Basepoint)
	classes := []string{}
	for _, ob := range c15Obfs {
		var pt []byte
		var err error
		in := append([]byte{}, c.Data...)
		if pan, what := c15h.Catch(func() { pt, err = ob.o.TryReveal(in, key) }); pan {
			rec.Violation(t, "obf:"+ob.name+":decode-panic", c, "%s TryReveal panicked on %d arbitrary bytes: %s", ob.name, len(c.Data), what)
			continue
		}
		if !bytes.Equal(in, c.Data) {
			rec.Violation(t, "obf:"+ob.name+":reveal-mutates-input", c, "%s TryReveal modified its %d-byte ciphertext argument (returned error=%v): %s", ob.name, len(c.Data), err != nil, c15h.FirstDiff(c.Data, in))
			continue
		}
		if err != nil {
			classes = append(classes, ob.name+":dec-rejected")
			continue
		}
		classes = append(classes, ob.name+":dec-accepted")
		switch ob.name {
		case "nil":
			if !bytes.Equal(pt, c.Data) {
				rec.Violation(t, "obf:nil:decode-wrong", c, "NilObfuscator.TryReveal changed its input")
			}
		case "xor":
			n := len(c.Data) / 2
			ref := make([]byte, n)
			for i := range ref {
				ref[i] = c.Data[i] ^ c.Data[n+i]
			}
			if len(c.Data)%2 != 0 || !bytes.Equal(pt, ref) {
				rec.Violation(t, "obf:xor:decode-wrong", c, "XORObfuscator.TryReveal accepted %d bytes and returned %d bytes that are not the XOR of the two halves", len(c.Data), len(pt))
			}
		}
		if perr != nil {
			continue
		}
		pt = append([]byte{}, pt...)
		var ct, back []byte
		var oerr, rerr error
		if pan, what := c15h.Catch(func() {
			ct, oerr = ob.o.Obfuscate(append([]byte{}, pt...), pub)
			if oerr == nil {
				back, rerr = ob.o.TryReveal(ct, key)
			}
		}); pan {
			rec.Violation(t, "obf:"+ob.name+":encode-panic", c, "%s: re-obfuscating a revealed %d-byte tag panicked: %s", ob.name, len(pt), what)
			continue
		}
		if oerr == nil && (rerr != nil || !bytes.Equal(back, pt)) {
			key := "obf:" + ob.name + ":roundtrip"
			if len(pt) == 0 && len(ct) == 0 {
				key = "obf:" + ob.name + ":empty-tag"
			}
			rec.Violation(t, key, c, "%s: a tag of %d bytes revealed from arbitrary input is accepted by Obfuscate but does not reveal back (err=%v)", ob.name, len(pt), rerr)
		}
	}
	if count {
		rec.Case(len(c.Data) >= 32, vh.Digest(c), c, classes...)
	}
}

func c15RevealSeeds() []c15RevealCase {
	key := c15h.Expand(77, 32)
	pub, _ := curve25519.X25519(key, curve25519.Basepoint)
	var out []c15RevealCase
	for _, ob := range c15Obfs {
		for _, n := range []int{0, 1, 16, 33} {
			if ct, err := ob.o.Obfuscate(c15h.Expand(uint64(n)+5, n), pub); err == nil {
				out = append(out, c15RevealCase{Data: ct, Key: key})
			}
		}
	}
	for _, n := range []int{0, 1, 2, 31, 32, 33, 47, 48, 49} {
		out = append(out, c15RevealCase{Data: c15h.Expand(1, n), Key: key}, c15RevealCase{Data: c15h.Expand(0, n), Key: make([]byte, 32)})
	}
	return out
}

func TestVerif_C15_dec_reveal(t *testing.T) {
	rec := vh.NewRec("C15", "dec_reveal", "rapid: arbitrary bytes for every TryReveal: raw strings of 0-100 bytes (lengths biased to 0, 31-33, 47-49), genuine obfuscations with 0-3 bytes changed / cut / appended, x random or degenerate private keys. Oracle: no panic; Nil returns the input; XOR returns the XOR of the halves; a revealed tag that Obfuscate accepts again reveals to itself. Non-trivial = input of >= 32 bytes; distinct by (input, key)")
	defer rec.Flush()
	rec.Require("gcm:dec-accepted", "gcm:dec-rejected", "ctr:dec-accepted", "ctr:dec-rejected", "xor:dec-accepted", "xor:dec-rejected", "nil:dec-accepted")
	if p := vh.ReplayFile(); p != "" {
		var c c15RevealCase
		if _, _, err := vh.LoadReplay(p, &c); err != nil {
			t.Fatal(err)
		}
		c15RevealCheck(t, rec, c, true)
		return
	}
	rapid.Check(t, func(rt *rapid.T) {
		c := c15RevealCase{Key: c15KeyGen.Draw(rt, "key")}
		if rapid.Bool().Draw(rt, "raw") {
			n := c15h.Lens(100, 0, 32, 48).Draw(rt, "n")
			c.Data = rapid.SliceOfN(rapid.Byte(), n, n).Draw(rt, "data")
		} else {
			pub, err := curve25519.X25519(c.Key, curve25519.Basepoint)
			if err != nil {
				rt.Fatalf("harness problem: %v", err)
			}
			ob := c15Obfs[rapid.IntRange(0, len(c15Obfs)-1).Draw(rt, "obf")]
			n := c15h.Lens(80, 0, 1, 16).Draw(rt, "taglen")
			ct, err := ob.o.Obfuscate(c15h.Expand(rapid.Uint64().Draw(rt, "tagseed"), n), pub)
			if err != nil {
				ct = nil
			}
			ct = append([]byte{}, ct...)
			for i, k := 0, rapid.IntRange(0, 3).Draw(rt, "muts"); i < k; i++ {
				switch rapid.IntRange(0, 2).Draw(rt, "op") {
				case 0:
					if len(ct) > 0 {
						ct[rapid.IntRange(0, len(ct)-1).Draw(rt, "at")] ^= byte(1 << rapid.IntRange(0, 7).Draw(rt, "bit"))
					}
				case 1:
					if len(ct) > 0 {
						ct = ct[:len(ct)-1]
					}
				case 2:
					ct = append(ct, rapid.Byte().Draw(rt, "extra"))
				}
			}
			c.Data = ct
		}
		c15RevealCheck(rt, rec, c, true)
	})
}

func FuzzVerif_C15_reveal(f *testing.F) {
	rec := vh.NewRec("C15", "dec_reveal", "native fuzzing of every TryReveal (same oracle as dec_reveal)")
	for _, s := range c15RevealSeeds() {
		f.Add([]byte(s.Data), []byte(s.Key))
	}
	f.Fuzz(func(t *testing.T, data, key []byte) {
		if len(data) > 4096 {
			return
		}
		c15RevealCheck(t, rec, c15RevealCase{Data: data, Key: key}, false)
	})
}
